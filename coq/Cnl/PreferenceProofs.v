Require Import Coq.ZArith.ZArith Coq.Lists.List Coq.Bool.Bool Coq.Strings.String Lia.
Require Import Cnl2aspV.Gen.Operators Cnl2aspV.Gen.Terminals Cnl2aspV.Cnl.Preference.
Import ListNotations.
Open Scope Z_scope.

Lemma levels_ordered :
  (exists l m h, prio_level PLow = Some l /\ prio_level PMedium = Some m /\ prio_level PHigh = Some h /\ l < m < h) /\
  (forall n, prio_level (PNum n) = Some n).
Proof.
  split.
  - vm_compute. eexists _, _, _. repeat split; try reflexivity.
  - intros n. reflexivity.
Qed.

Lemma direction_signs : dir_neg DMinimized = Some false /\ dir_neg DAsLittle = Some false /\ dir_neg DMaximized = Some true.
Proof. vm_compute. repeat split. Qed.
Lemma as_much_refuted : dir_neg DAsMuch = Some false.
Proof. vm_compute. reflexivity. Qed.
