"""Regenerates MANIFEST.json from the table below (kept in one place so it stays valid)."""
import json
import os

VERIF = os.path.dirname(os.path.dirname(os.path.dirname(os.path.abspath(__file__))))
BASE_OFF = "cd /repo && /venv/bin/python -m pytest -ra -q -p no:cacheprovider --timeout=900 --continue-on-collection-errors"

CHECKS = {
    'C03': dict(
        text="Coq theorems over tables regenerated from /repo on every run (phrase->operator, operators_negation, operator->symbol, "
             "between rewriting): every comparison phrase means the integer comparison it names, and 'required' is the exact complement "
             "of 'prohibited' for all integers (lia/case analysis, unbounded), including 'between' with plain and aggregate operands. "
             "The hand-written control-flow model of convert_operation is tied by exact-text correspondence on every phrase x polarity x "
             "5 operand shapes, and the property itself is observed under clingo on an integer grid; further shapes are observed only (no text "
             "model): a threshold given by 'where M is one of', counted quantities on both sides and as bounds of 'between' (every "
             "combination of 0..3 items per concept), and angle-valued operands (compared in whole turns: each value is accepted by "
             "exactly one of the requirement and the prohibition).",
        note="Trusted: Coq kernel; tabulation-by-execution translator; hand model of convert_operation (correspondence-checked); clingo for the oracle; "
             "Lark's parse of the template sentences.",
        technique="Coq proof over generated tables + model/implementation text correspondence + clingo grid oracle",
        design="6.C03"),
}

CHECKS['C16'] = dict(
    text="Coq theorems, unbounded in A, B, L: the loop of _compute_values equals the closed form (one point per A+i*L <= B, numbered "
         "from 0 in order), lookup of a reference value succeeds exactly on printed points and returns the point's number, before/after "
         "compare numbers which order like the points (ORDERING_OPERATOR and symbols generated from /repo), out-of-range values are "
         "rejected. Clock text round trip (1440 cases) and CPython's ordinal<->date algorithm (one 400-year cycle by computation + "
         "periodicity lemmas, whole datetime range) are proved. Tie: function-level correspondence with TemporalEntityComponent and "
         "compile-level exact-text correspondence; oracle: independent (non-datetime) calendar arithmetic.",
    note="Trusted: Coq kernel (vm_compute for the finite sweeps); CPython datetime modelled, validated by the function-level stream; "
         "years < 1000 and length 0 are outside the model; hand model of convert_temporal_entity/temporal_constraint text.",
    technique="Coq proof (induction over the loop, lia, finite sweeps lifted by range_check_sound) + function- and compile-level correspondence",
    design="6.C16")

CHECKS['C05'] = dict(
    text="Coq theorems by structural induction over the CNL condition (any nesting depth) and for every trace and state: the body of the "
         "compiled rule, as telingo reads its printed form, is true exactly where the condition read as LTL with past is true "
         "(C05_formula_correct_partial, C05_constraint_correct_partial; guards: reading defined, and the compiled formula free of the "
         "three recorded printing defects, whose failure is exhibited by _refuted lemmas and KNOWN_FINDINGS). Connective/constant/symbol "
         "tables and the Operators enum are regenerated from /repo. Tie: the model re-renders each sentence and predicts the body text "
         "byte for byte; oracle: telingo on ALL traces up to length 3 (quick) / 4 (thorough) of the implementation's rule vs the reading; "
         "the same observations validate the Coq semantics of telingo's operators.",
    note="Trusted: Coq kernel; telingo 2.1 as external semantics (its own ';>' / '<;' deviate from F & >G for non-atomic operands: there the "
         "model's semantics is compared with the reading instead); Lark's parse of rendered sentences; hand model of telingo_operation (correspondence-checked).",
    technique="Coq proof (induction on the formula; finite case sweep per level) + exact-text correspondence + exhaustive small-trace telingo oracle",
    design="6.C05")

CHECKS['C14'] = dict(
    text="Asp/Print.v is a Coq model of every __str__ of ASP_elements (both printing modes); on every run each program of the stream "
         "(corpus + wide generator) is compiled once, its element tree serialised, and the model must reproduce the implementation's text "
         "byte for byte in default AND function-term mode. Theorem C14_unwrapped_atoms_unchanged (all atoms, any number/values of "
         "attributes): an atom without inherited attributes prints identically in both modes. For wrapped groups the property is decided "
         "per program by the oracle: both outputs are parsed with clingo.ast, function terms are flattened and compared argument by "
         "argument with the default program; one shape per predicate is checked. Asp/PrintTree.v: C14_function_terms_are_a_tree "
         "(for any atom, decorated or not, the function-mode text is the text of a tree of groups named after concepts) and "
         "C14_no_argument_dropped_or_duplicated_partial (the leaves of that tree are a permutation of the atom's arguments: any number of "
         "attributes, equal values, origin chains of any depth). Not proved: that the leaves come in the ORDER of the default program when "
         "inherited attributes are adjacent (partial; decided per program by the oracle).",
    note="Trusted: Coq kernel; serialiser of the element tree; clingo.ast as reader of both outputs; inflect results taken from the tree.",
    technique="Coq printer model with byte-exact two-mode correspondence + theorem for unwrapped atoms + clingo.ast flatten oracle",
    design="6.C14")

CHECKS['C13'] = dict(
    text="Coq model of get_symbols (__convert_signature, __convert_attribute, Symbol.get_arity) and of the argument list convert_entity "
         "gives an atom; theorems for every entity signature: reported flat arity = number of arguments of an atom built from the "
         "signature, keys are reported and are a prefix, position i of the report describes argument i. Tie: for every signature of every "
         "specification of the stream the model's Symbol (structure and both arities) equals the implementation's. That every emitted atom "
         "has a single arity equal to the reported one (flat and nested) and that every non-auxiliary predicate is reported is decided per "
         "program by the oracle (clingo.ast over both printing modes); partial until the compile model proves atoms are built from signatures.",
    note="Trusted: Coq kernel; clingo.ast; serialisation of SignatureManager.signatures; inflect results read from the objects.",
    technique="Coq model of the symbol table with arity/position theorems + per-signature correspondence + clingo.ast arity oracle in both modes",
    design="6.C13")

CHECKS['C06'] = dict(
    text="Theorem C06_values_lex_ok (all value tokens, all constant tables): convert_value yields a lexically valid gringo leaf of the "
         "expected class (integer / variable / anonymous / declared constant / quoted string). The printer model Asp/Print.v reproduces "
         "the implementation's program text for every element tree of the stream (byte-exact correspondence), convert_value is compared "
         "at function level on all tokens over a small alphabet. Acceptance of the whole text is decided per program by the solver "
         "itself: clingo.ast.parse_string on every output, clingo grounding for wide-generator inputs (which meet the grounding hypothesis "
         "by construction), telingo for temporal outputs. Safety is proved for the core fragment: C06_core_fragment_safe -- for EVERY F0 specification whose "
         "definitions and 'where' clauses use labels of their own clauses, every rule the compile model Cnl/Core.v emits is safe in gringo's sense "
         "(each variable in a positive body atom, in 'V = constant', or in the condition of its choice element); that compile model is tied "
         "byte-exactly to the implementation on generated F0 specifications in this check too, and their programs are grounded by clingo. "
         "Outside F0 safety and syntax are decided per program: partial.",
    note="Trusted: Coq kernel; clingo/telingo as the definition of acceptance; corpus texts are only syntax-scored (their grounding hypothesis is not established).",
    technique="Coq theorems on leaf terms and on safety of the core-fragment compile model + byte-exact printer/compile-model correspondence + solver-in-the-loop oracle (parse, ground, telingo)",
    design="6.C06")

CHECKS['C18'] = dict(
    text="Gen/MainSkeleton.v is regenerated from cnl2asp.py:main on every run (Python ast -> a small exception calculus: calls classified "
         "API / theorem-total / assumed / file-system / total, tests, try/except with handler classes in order, return, raise, the open of "
         "the output file). Coq theorems over that term, for EVERY assignment of outcomes (normal or any Exception subclass) to every "
         "call that may raise and every value of every test: main terminates normally (C18_main_total, by a syntactic guard proved sound "
         "by mutual structural induction), the output file is never opened when compile() raises or in -c/--symbols/--cnl2json mode "
         "(C18_no_partial_output, C18_no_output_in_query_modes), the parser diagnostic is built by a total function and cites line and "
         "column first. Tie: translator (fail-closed) + function-level correspondence of ParserError text; oracle: the real command line "
         "run as a subprocess on valid, damaged (incl. form feeds and the other characters str.splitlines() takes for line boundaries) and "
         "arbitrary inputs with flags and output file, diagnostic position compared with Lark's.",
    note="Trusted: Coq kernel; the ast translator and its call classification (listed in Gen/MainSkeleton.v: main_sites); argparse, interpreter exit, "
         "file system not modelled; -o and --debug fixed to false.",
    technique="Coq proof over a control skeleton regenerated from the source (guard soundness by mutual induction) + subprocess oracle",
    design="6.C18")

CHECKS['C17'] = dict(
    text="Gen/ExcFlow.v (raise/catch skeleton of every function of the parser side, regenerated from /repo on every run by a fail-closed "
         "Python-ast translator) + a Coq may-analysis of exception flow (propagation to a fixpoint along the name-based call graph, "
         "handlers by class, stamped = CompilationError built with the line). Theorem C17_lookup_failures_are_stamped (finite domain: "
         "all transformer callbacks x all escapes): an exception leaves a callback without the line of its sentence only along the rows of "
         "the hand-maintained list Api/ExcFlowAccepted.v (each row tagged imprecision / internal / not a lookup fault / known finding); "
         "C17_accepted_rows_are_live forbids stale rows; C17_core_lookups_stamped names the stamped lookups. Dynamic part: every fault "
         "class of the property injected as one sentence into wide-generator specifications at a random boundary with 0-3 padding lines: "
         "compilation must fail citing exactly that line and the offending name.",
    note="Trusted: Coq kernel (vm_compute over the finite skeleton); the ast translator and its name-based call resolution (over-approximation); "
         "Lark's VisitError wrapping and meta.line. The analysis result is a statement about the skeleton, not a semantics proof of Python.",
    technique="Coq-checked static exception-flow analysis over a skeleton regenerated from the source + fault-injection oracle",
    design="6.C17")

CHECKS['C12'] = dict(
    text="Gen/Effects.v (regenerated from /repo on every run): the process-wide variables that are written anywhere and, per function, "
         "direct reads / writes / calls (name-based call graph incl. Lark's reflective callback calls and implicit __str__/__eq__). Coq: "
         "a generic frame theorem for operations respecting a read/write/reset footprint (history independence and idempotence, proved "
         "once for all state and result types), the footprints of compile / get_symbols / check_syntax / cnl_to_json computed from the "
         "summary, and C12_footprints_pure: every variable an API method reads before resetting it is an option no API method writes "
         "(so C12_history_independent applies to every history). Dynamic part: random histories of 0-6 API calls on accepted and "
         "rejected inputs in one process vs the same call in a fresh process, under several PYTHONHASHSEEDs, plus directed histories "
         "(every regression text after all the others in two orders and after single predecessors; pairs of texts of which one "
         "declares what the other only mentions, through every API call). The hash-seed clause is decided by these runs only: partial.",
    note="Trusted: Coq kernel; the effect translator (variables reached by class/module name only; instance state is per call); Lark's own error text is "
         "canonicalised to class+position (its expected-token list is in set order); uuid4 normalised.",
    technique="Coq frame theorem over effect footprints regenerated from the source + history-vs-fresh-process differential runs",
    design="6.C12")

CHECKS['C11'] = dict(
    text="Cnl/Blocks.v models how the transformer groups sentences into Problems (start / specification / PROBLEM_IDENTIFIER) and how "
         "Problems are printed, parametric in the sentence type and in the rules a sentence produces. Coq theorems for every "
         "specification (any number of blocks, headers in any order and repetition, any sentence forms): every rule appears exactly once "
         "in sentence order (C11_order), the named parts are exactly the headers' parts in order (C11_routing), deleting all headers leaves "
         "the same rules under no directive (C11_headers_erasable); the header -> part-name table is regenerated from /repo. Tie: byte-exact "
         "correspondence of the model's text with the implementation's on generated block-structured specifications, the per-sentence rules "
         "taken from prefix compilations; oracle: directives vs headers and rules vs header-free compilation on the implementation.",
    note="Trusted: Coq kernel; Lark's parse of header lines and its (ambiguous but rule-neutral) grouping of header-free sentences; prefix attribution of rules (C10).",
    technique="Coq proof over a parametric block-routing model + generated header table + byte-exact correspondence",
    design="6.C11")

CHECKS['C09'] = dict(
    text="Coq theorems over tables tabulated by executing the transformer callbacks of /repo on every alternative of the grammar's terminals: "
         "every documented synonym pair maps to the same operator (C09_synonym_terminals), the alternatives every/any, a/an, hold/holds, "
         "goes/ranges sit in filtered terminals or in children no callback reads (C09_filtered_alternatives), concept names are case-folded "
         "and a third-person -s on a verb is stripped (C09_names, for all names). Oracle: single and multiple paraphrase substitutions "
         "(synonyms, articles, number, verb -s, negation auxiliaries, commas, letter case, whitespace, comments) applied to corpus and "
         "wide-generator specifications; the compiled programs must be byte-identical. Lark's token filtering, %ignore, case-insensitive "
         "literals and ambiguity resolution are exercised, not proved: partial.",
    note="Trusted: Coq kernel; tabulation-by-execution translator and grammar reader; Lark. A paraphrase the compiler rejects is counted, not scored.",
    technique="Coq proof over tables regenerated from the source + paraphrase differential oracle",
    design="6.C09")

CHECKS['C10'] = dict(
    text="Coq: structural laws of compilation as a left fold over sentences, for any carried state, sentence and rule types and any step "
         "function (C10_prefix, C10_order, C10_remove), and C10_no_leak over facts regenerated from /repo: every instance attribute of "
         "CNLTransformer / ASPConverter is created in __init__ and is either carried on purpose (problem/specification under construction, "
         "output encoding, temporal concepts already printed) or re-created by _clear / clear_support_variables, which run after every "
         "sentence / rule. That the real compiler is such a fold (conversion runs after the whole text is parsed and may consult the final "
         "signature table) is decided by the oracle on the implementation: every prefix cut gives a rule prefix, every removable sentence "
         "(unchanged get_symbols and #const lines) removes exactly its own rules: partial until the compile model proves the fold form.",
    note="Trusted: Coq kernel; effect translator; sentence splitting of corpus texts (unsafe texts skipped).",
    technique="Coq fold laws + generated reset-coverage theorem + prefix/removal differential oracle",
    design="6.C10")

CHECKS['C07'] = dict(
    text="Cnl/Fresh.v models the two fresh-name generators (ASPConverter.create_new_field_value, CNLTransformer._new_field_value) byte "
         "for byte; theorems for every collision list and base name: a generated name is not in the list it was given, hence differs from "
         "every author variable recorded before the call and from every earlier invention (C07_converter_fresh, C07_parser_fresh, "
         "C07_invention_distinct_from_author, C07_successive_inventions_distinct). Tie: function-level correspondence on adversarial "
         "collision lists. Program-level alpha-invariance is decided by the oracle: every specification is recompiled under a benign and "
         "under adversarial injective renamings of the author's variables (to names the compiler invents for that very specification, "
         "CNT/SM/MX/MN, suffixed variants) and compared rule by rule up to renaming. Partial: that the collision list is complete at the "
         "moment of each call is not proved (it was false for the parser; repaired by fix 830b8a1, which reads a sentence's author variables "
         "off the parse tree before transforming it).",
    note="Trusted: Coq kernel; identification of author variables in the text (all-upper-case tokens outside strings; article 'A' and AM/PM excluded by position).",
    technique="Coq freshness theorems over a byte-exact generator model + adversarial renaming oracle",
    design="6.C07")

CHECKS['C08'] = dict(
    text="Cnl/Link.v models _link_two_atoms / _link_atom_to_attribute, ASPAtom attribute lookup and AttributeOrigin equality byte for byte "
         "(function-level correspondence on random atoms: keys, shared attribute names, nested origins, pre-set values, collision lists). "
         "Theorems for all origin chains and all atoms: is_same_origin relates only chains with the same root concept "
         "(C08_same_origin_root); every write of the linker lands on a position whose attribute has the linked key's name and a same_origin "
         "origin (C08_link_write_typed). Oracle: for every rule of every program, every variable the author did not write must occur only "
         "at positions which get_symbols reports as the same attribute of the same root concept (clingo.ast). Partial: the global invariant "
         "over the whole conversion is not proved; aggregate discriminants (matched by name only) are a recorded finding.",
    note="Trusted: Coq kernel; clingo.ast; get_symbols as the position oracle (as the property states); author variables identified textually.",
    technique="Coq theorems over a byte-exact linker model + position-type oracle from get_symbols",
    design="6.C08")

CHECKS['C15'] = dict(
    text="Explain/Explain.v models _clingo_symbol_to_sentence and its helpers (subject/object attribute consumption with its list.remove "
         "semantics, _entity_printer, _convert_verb, quote stripping, first-letter capitalisation) for atoms with at most one possible "
         "subject; on every run the model's sentence is compared byte for byte with the implementation's for every atom of every answer "
         "set of the stream (signature records serialised from ClingoResultParser). Theorems: Python's str.strip() removes exactly the surrounding "
         "white space (C15_strip_spec); for facts of a declared concept with any number of keys/attributes and any values free of white space and "
         "commas the sentence is 'There is <concept> with <attribute> equal to <value>, ...' naming the concept and every value in argument order "
         "(C15_fact_sentence_closed_form_partial), and two atoms explained by the same sentence have the same (unquoted) argument values "
         "(C15_distinct_atoms_distinct_sentences_partial); sentence shape (C15_sentence_shape). The property itself is decided per answer set by the oracle on the implementation: "
         "exactly one sentence per atom of a defined concept and none for others, distinct atoms give distinct sentences, every argument "
         "value and the concept name occur in the sentence, and - strictly, for the atoms of DECLARED concepts of every specification - "
         "compiling declarations + explanation gives a single answer set equal to the explained atoms (two known findings: unquoted "
         "values, a declared concept explained as a relation). Telingo traces (corpus problems and chains of up to 12/22 states) are "
         "explained state by state: the headings are the states of the trace in order and each state holds exactly the sentences of its "
         "atoms. Partial: mentions-all / injectivity are proved for facts of declared concepts only (sentences with subject, verb or objects: oracle).",
    note="Trusted: Coq kernel; clingo for answer sets; serialisation of the parser's signature records; explanations of atoms with several possible subjects are outside the model (counted).",
    technique="byte-exact Coq model of the sentence builder with closed-form and injectivity theorems for fact sentences + per-answer-set oracle incl. read-back compilation",
    design="6.C15")

CHECKS['C01'] = dict(
    text="Asp/Ground.v: ground programs of the emitted class (facts, normal rules, choice rules with conditional elements and bounds, "
         "constraints) with stable models defined by the reduct; C01_hierarchical_stable (both directions, any program, by induction on the "
         "level): for hierarchical programs I is stable iff it meets constraints and bounds, is closed and supported. Cnl/Core.v: the core "
         "fragment F0 as structured syntax, its compile model (byte-exact: every generated F0 specification is compiled by the "
         "implementation and the model must print the same program), grounding over the universe of domain values, and the reading written "
         "without reference to the compile model. Oracle: all answer sets clingo computes for the IMPLEMENTATION's program are evaluated in "
         "Coq against the reading and against the ground semantics; when the candidate space is small the comparison is exhaustive over ALL "
         "interpretations (reading = ground semantics = clingo). Proved end to end (ground constraints of the compiled rule hold in I iff the "
         "reading of the sentence holds, any specification, universe and interpretation): constraints over one quantified clause in both "
         "polarities (C01_single_clause_constraint_partial), the same restricted by 'where X is one of v1..vn' "
         "(C01_single_clause_one_of_partial, with the printer/parser round trip of integers proved in Base/DigitsRoundtrip.v) and named-instance constraints 'there is [not] a <relation> with ...' "
         "(C01_named_instance_constraint_partial), and derived definitions over one quantified clause 'A c X is <p> when c X [does not] <verb> d Y' (C01_single_clause_definition_partial: the ground instances are closed in I and support every p-atom of a declared subject iff the reading holds; with C01_hierarchical_stable that is the definition's share of stability), and choice sentences with and without for-each for EVERY cardinality phrase (C01_choice_for_each_bounds_partial, C01_choice_bounds_partial: the bounds of the ground choice rules hold in I iff every declared subject is related to a number of distinct declared objects within the stated bounds), and the single-clause constraint restricted by 'where X <phrase> Y' for EVERY comparison phrase (C01_single_clause_where_partial); for WHOLE specifications with any number of concepts and sentences of these kinds, over the specification's own universe, the constraint-and-bounds part of stability of the ground program equals the conjunction of the readings of the constraint and choice sentences (C01_program_constraints_and_bounds_partial), closedness equals 'every declared value holds' (C01_program_closed_without_definitions) and supportedness equals 'nothing but declared values and admissible chosen atoms' (C01_program_supported_partial); together, with the proof that such ground programs are hierarchical: C01_answer_sets_are_the_models_partial -- for every specification of concepts, choice sentences (every cardinality phrase, with or without for-each), single-clause constraints (with or without 'where', or restricted by 'is one of') and named-instance constraints, any number of each, an interpretation that holds exactly the declared concept values is STABLE for the ground compiled program iff it is a model of the reading (the quick tier reports how many generated specifications fall in that scope), and C01_answer_sets_are_the_models_every_interpretation_partial removes that hypothesis (it follows from either side when concept names are pairwise different and contain no parenthesis): for EVERY interpretation, stable (ground s) I <-> reading s I; the same WITH single-clause derived definitions in the program (three levels; C01_answer_sets_are_the_models_with_definitions_partial and ..._every_interpretation_partial, under the decidable separation `separated_d` and pairwise different definition predicates); C01_one_of_multiplies: a 'where L is one of' clause multiplies the rules. The theorem "
         "'stable (ground (compile s)) I <-> reading s I' for ALL F0 specifications is not proved (see DESIGN 11.1): partial.",
    note="Trusted: Coq kernel; clingo as external semantics (it also validates Asp/Ground.v); Lark's parse of rendered sentences; the reading "
         "(Cnl/Core.v: r_sentence) is the specification.",
    technique="Coq proof of the stable-model characterisation + byte-exact compile model + exhaustive reading/ground/clingo comparison",
    design="6.C01")

CHECKS['C02'] = dict(
    text="Asp/Agg.v + Asp/AggProofs.v: values of #count/#sum/#max/#min over SETS of tuples with #inf/#sup; C02_value_over_distinct_tuples (any two "
         "enumerations of the same set of tuples give the same value, all four functions, lists of any length), C02_negated_symbol_complement "
         "(also at #inf/#sup), and C02_comparison_*_partial (Cnl/AggregateProofs.v): for every phrase of the grammar / between with numeric or "
         "aggregate bounds / aggregate-vs-aggregate, both polarities and EVERY value of the aggregates, the comparison literals emitted through the "
         "regenerated tables and convert_operation's three aggregate paths hold exactly when the named comparison holds (prohibited) / fails "
         "(required). C02_aggregate_term_value_partial (Cnl/AggregateTermProofs.v): for all seven sentence forms with an outer label and all four "
         "functions, under any binding and on any admissible interpretation, the emitted aggregate term evaluates to the reading's "
         "count/sum/max/min over the distinct qualifying tuples; C02_unbound_sentence_correct_partial / C02_bound_sentence_correct_partial: END TO END for "
         "sentences without an outer variable and with one outer variable (given by a whenever clause or by the passive subject), compared with "
         "a number or a pair of numbers (any rooms/shelves, every phrase/function/polarity): the emitted constraint is violated by exactly the "
         "interpretations the reading excludes. Not proved: filters moved inside the braces, author-named counted values, aggregate-vs-aggregate "
         "sentences end to end (partial). Cnl/Aggregate.v: the seven aggregate sentence forms over a two-concept one-relation vocabulary, their READING, the "
         "compile model (the emitted rule, using the generated operator / phrase / negation / between tables and Cnl/Comparison.v) and the semantics "
         "of the emitted rule. Tie: the compile model must print the implementation's constraint modulo renaming of variables by first occurrence; "
         "oracle: for every generated specification ALL 2^(n*m) interpretations are evaluated in Coq: reading = membership in clingo's answer sets of "
         "the IMPLEMENTATION's program = semantics of the model's rule.",
    note="Trusted: Coq kernel; clingo as external semantics; renaming variables by first occurrence preserves meaning; the reading (Cnl/Aggregate.v: "
         "reading) is the specification; max/min of the empty set are #inf/#sup.",
    technique="Coq proof of set-invariance of aggregate values and complement laws + compile model tied modulo alpha-renaming + exhaustive reading/rule/clingo comparison",
    design="6.C02")

CHECKS['C04'] = dict(
    text="Cnl/Preference.v: the preference forms (with aggregate - global or per room -, with variable, with clause, with comparison) x {is minimized, "
         "is maximized, as little / as much as possible} x {low, medium, high, priority N}; the READING (an interpretation is optimal iff it satisfies "
         "the hard part and no other one is lexicographically better by priority on the stated quantities); the compile model (weak constraints: body, "
         "sign, weight, level, tuple - from the generated PRIORITY_LEVEL / direction tables) and gringo/clasp's semantics of the emitted weak "
         "constraints (sets of (weight, tuple) per level, lexicographic by level). Theorems: C04_levels_ordered, C04_direction_signs, "
         "C04_as_much_as_possible_refuted (known finding) over the regenerated tables; C04_cost_is_quantity and C04_optimal: for EVERY preference "
         "form, any rooms/shelves/candidate space and any number of preferences with pairwise distinct priorities, the cost each emitted weak "
         "constraint contributes is the stated quantity with the stated direction, and optimality by the emitted weak constraints (gringo/clasp "
         "semantics) IS optimality by the reading; 'as much as possible' is excluded by hypothesis (known finding). Tie: the model prints the implementation's weak constraints modulo "
         "renaming of variables; oracle: clingo --opt-mode=optN (optimality proven) on the IMPLEMENTATION's program versus the reading and versus the "
         "model's weak-constraint semantics, exhaustively over all 2^(n*m) interpretations.",
    note="Trusted: Coq kernel; clingo/clasp as external semantics; renaming preserves meaning; the reading (Cnl/Preference.v: optimal_in, quantity) is the "
         "specification. Several preferences are generated with pairwise distinct priorities (the property does not say how equal priorities combine).",
    technique="Coq theorems over regenerated priority/direction tables + compile model tied modulo alpha-renaming + exhaustive optimal-set comparison with clingo optN",
    design="6.C04")

NOT_YET = {}


def main():
    props = [json.loads(l) for l in open(os.path.join(VERIF, 'properties.jsonl'))]
    checks = []
    na = []
    for p in props:
        pid = p['id']
        if pid in CHECKS:
            c = CHECKS[pid]
            checks.append(dict(property_id=pid, quick_cmd='./check %s --tier quick' % pid,
                               thorough_cmd='./check %s --tier thorough' % pid,
                               evidence_file='/verif/evidence/%s.json' % pid,
                               replay_cmd_template='./check replay {path}', engine='coq-model',
                               level_claimed=dict(category='proof', text=c['text'], design_ref=c['design']),
                               level_note=c['note'], technique=c['technique']))
        else:
            na.append(dict(property_id=pid, reason=NOT_YET.get(pid, 'not claimed yet: model, theorem file, tie and oracle for this property are still under construction (DESIGN.md section 10 build order); it is applicable and will be claimed when all four run clean')))
    m = dict(version=1, setup_cmd='./check setup',
             hooks=dict(guard='CNL2ASP_VERIF', enable='no source hooks are needed: the harness imports /repo/src and walks the objects it returns',
                        baseline_off_cmd=BASE_OFF, source_commits=[], add_only=True),
             engines=[dict(name='coq-model', path='/verif/coq', serves_properties=sorted(CHECKS),
                           kind_free_text='Coq 8.16.1 development (hand-written models + Gen/*.v regenerated from /repo) with a Python correspondence/oracle harness')],
             checks=checks, not_applicable=na,
             notes='See DESIGN.md. KNOWN_FINDINGS.json lists genuine defects (known / fixed).')
    with open(os.path.join(VERIF, 'MANIFEST.json'), 'w') as f:
        json.dump(m, f, indent=1)


if __name__ == '__main__':
    main()
