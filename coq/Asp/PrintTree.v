(* Function-term mode as a TREE: what ASPAtom.__str__ builds before it is text.  The printed text of the tree is the text of Asp/Print.v
   (print_atom_fn), and the leaves of the tree are the atom's arguments: none dropped, none duplicated. *)
Require Import Coq.Strings.String Coq.Strings.Ascii Coq.Lists.List Coq.Bool.Bool Coq.Arith.Arith Coq.Sorting.Permutation Lia.
Require Import Cnl2aspV.Base.Util Cnl2aspV.Base.Str Cnl2aspV.Asp.Syntax Cnl2aspV.Asp.Print.
Import ListNotations.
Open Scope string_scope.

Inductive ftree := FLeaf (v : string) | FNode (name : string) (kids : list ftree).

Section T.
  Variable nested : atom -> ftree.
  Fixpoint fn_loop_t (self_name : string) (all todo : list (nat * attr)) (visited : list nat) : list ftree :=
    match todo with
    | [] => []
    | (i, a1) :: r =>
        if nat_in i visited then fn_loop_t self_name all r visited
        else
          let visited1 := i :: visited in
          match a_origin a1 with
          | o1 :: _ =>
              if negb (oname_eq_str o1 self_name)
              then let '(g, visited2) := gather o1 all visited1 in
                   nested (plain_atom (on_name o1) (strip_origin a1 :: g)) :: fn_loop_t self_name all r visited2
              else FLeaf (a_value a1) :: fn_loop_t self_name all r visited1
          | [] => FLeaf (a_value a1) :: fn_loop_t self_name all r visited1
          end
    end.
End T.

Fixpoint tree_fuel (fuel : nat) (a : atom) : ftree :=
  match at_name a with
  | EmptyString => FLeaf ""
  | _ =>
    match fuel with
    | O => FNode (at_name a) (map (fun x => FLeaf (a_value x)) (at_attrs a))
    | S f => let ia := index_from 0 (at_attrs a) in FNode (at_name a) (fn_loop_t (tree_fuel f) (at_name a) ia ia [])
    end
  end.
Definition atom_tree (a : atom) : ftree := tree_fuel (S (max_origin_depth a)) a.

Fixpoint print_t (t : ftree) : string :=
  match t with FLeaf v => v | FNode n kids => n ++ "(" ++ join "," (map print_t kids) ++ ")" end.
Fixpoint leaves (t : ftree) : list string :=
  match t with FLeaf v => [v] | FNode _ kids => flat_map leaves kids end.

Lemma sapp_assoc (a b c : string) : (a ++ b) ++ c = a ++ (b ++ c).
Proof. induction a as [|x r IH]; cbn; [reflexivity|]. now rewrite IH. Qed.

(* ------------------------------------------------------------------ the tree prints as Asp/Print.v prints *)
Definition plain (a : atom) : Prop :=
  at_neg a = false /\ at_before a = false /\ at_after a = false /\ at_initial a = false /\ at_final a = false.
Lemma plain_plain_atom n l : plain (plain_atom n l).
Proof. repeat split. Qed.
Lemma prefix_plain a : plain a -> atom_prefix a = at_name a ++ "(".
Proof. intros (H1 & H2 & H3 & H4 & H5). unfold atom_prefix. now rewrite H1, H2, H3, H4, H5. Qed.

Lemma fn_loop_map (nested : atom -> ftree) (pn : atom -> string) self all :
  (forall n l, print_t (nested (plain_atom n l)) = pn (plain_atom n l)) ->
  forall todo visited, map print_t (fn_loop_t nested self all todo visited) = fn_loop pn self all todo visited.
Proof.
  intros H. induction todo as [|[i a1] r IH]; intros visited; [reflexivity|]. cbn [fn_loop_t fn_loop].
  destruct (nat_in i visited); [apply IH|].
  destruct (a_origin a1) as [|o1 os]; [cbn [map]; now rewrite IH|].
  destruct (negb (oname_eq_str o1 self)).
  - destruct (gather o1 all (i :: visited)) as [g v2]. cbn [map]. now rewrite H, IH.
  - cbn [map]. now rewrite IH.
Qed.

Lemma tree_prints fuel : forall a, plain a -> print_t (tree_fuel fuel a) = print_atom_fn_fuel fuel a.
Proof.
  induction fuel as [|f IH]; intros a Hp.
  - cbn [tree_fuel print_atom_fn_fuel]. destruct (at_name a) eqn:En; [reflexivity|]. cbn [print_t]. unfold print_atom_flat. rewrite En, (prefix_plain a Hp), En.
    rewrite map_map. cbn [print_t]. now rewrite sapp_assoc.
  - cbn [tree_fuel print_atom_fn_fuel]. destruct (at_name a) eqn:En; [reflexivity|]. cbn zeta. cbn [print_t].
    rewrite (fn_loop_map (tree_fuel f) (print_atom_fn_fuel f)); [|intros n l; apply IH, plain_plain_atom].
    rewrite (prefix_plain a Hp), En. now rewrite sapp_assoc.
Qed.

(* for ANY atom (negated, primed, initial/final): the printed text is the decorated name, then the printed kids of the tree *)
Theorem print_atom_fn_is_tree a :
  at_name a <> "" ->
  print_atom_fn a = atom_prefix a ++ join "," (map print_t (match atom_tree a with FNode _ kids => kids | FLeaf _ => [] end)) ++ ")".
Proof.
  intros Hn. unfold print_atom_fn, atom_tree. cbn [tree_fuel print_atom_fn_fuel]. destruct (at_name a) eqn:En; [now contradiction Hn|]. cbn zeta.
  now rewrite (fn_loop_map (tree_fuel (max_origin_depth a)) (print_atom_fn_fuel (max_origin_depth a))); [|intros n l; apply tree_prints, plain_plain_atom].
Qed.

(* ------------------------------------------------------------------ no argument is dropped or duplicated *)
Definition same_head (o1 : oname) (a2 : attr) : bool := match a_origin a2 with o2 :: _ => oname_eq o1 o2 | [] => false end.
Definition sel (o1 : oname) (visited : list nat) (p : nat * attr) : bool := negb (nat_in (fst p) visited) && same_head o1 (snd p).
Definition unvis (visited : list nat) (p : nat * attr) : bool := negb (nat_in (fst p) visited).

Lemma nat_in_cons k i v : nat_in k (i :: v) = Nat.eqb k i || nat_in k v.
Proof. reflexivity. Qed.
Lemma nat_in_In k v : nat_in k v = true <-> In k v.
Proof. unfold nat_in. rewrite existsb_exists. split; [intros (x & Hx & E); apply Nat.eqb_eq in E; now subst|intros H; exists k; split; [exact H|apply Nat.eqb_refl]]. Qed.

Lemma filter_ext_in' {A} (f g : A -> bool) l : (forall x, In x l -> f x = g x) -> filter f l = filter g l.
Proof. induction l as [|a r IH]; cbn; intros H; [reflexivity|]. rewrite (H a (or_introl eq_refl)), IH; [reflexivity|]. intros x Hx. apply H. now right. Qed.

Lemma gather_spec o1 : forall rest visited, NoDup (map fst rest) ->
  fst (gather o1 rest visited) = map (fun p => strip_origin (snd p)) (filter (sel o1 visited) rest) /\
  (forall k, nat_in k (snd (gather o1 rest visited)) = nat_in k visited || existsb (fun p => Nat.eqb k (fst p)) (filter (sel o1 visited) rest)).
Proof.
  induction rest as [|[j a2] r IH]; intros visited ND; cbn [gather].
  - split; [reflexivity|]. intros k. cbn. now rewrite orb_false_r.
  - cbn [map fst] in ND. inversion ND as [|? ? Hj ND']; subst.
    cbn [filter]. destruct (sel o1 visited (j, a2)) eqn:Es.
    + unfold sel in Es. cbn [fst snd] in Es. apply andb_true_iff in Es as [Ev Eh]. apply negb_true_iff in Ev. rewrite Ev.
      unfold same_head in Eh. destruct (a_origin a2) as [|o2 os] eqn:Eo; [discriminate|]. rewrite Eh.
      destruct (IH (j :: visited) ND') as [IH1 IH2]. destruct (gather o1 r (j :: visited)) as [g v] eqn:Eg. cbn [fst snd] in *.
      assert (F : filter (sel o1 (j :: visited)) r = filter (sel o1 visited) r).
      { apply filter_ext_in'. intros [k a] Hin. unfold sel. cbn [fst snd]. rewrite nat_in_cons.
        destruct (Nat.eqb_spec k j) as [->|Hne]; [|reflexivity]. exfalso. apply Hj. apply in_map_iff. now exists (j, a). }
      rewrite F in IH1, IH2. split.
      * cbn [map snd]. now rewrite IH1.
      * intros k. rewrite IH2, nat_in_cons. cbn [existsb fst]. destruct (Nat.eqb k j), (nat_in k visited); reflexivity.
    + assert (E : gather o1 ((j, a2) :: r) visited = gather o1 r visited).
      { cbn [gather]. unfold sel in Es. cbn [fst snd] in Es. destruct (nat_in j visited); [reflexivity|]. cbn [negb andb] in Es.
        unfold same_head in Es. destruct (a_origin a2) as [|o2 os]; [reflexivity|]. now rewrite Es. }
      cbn [gather] in E. rewrite E. now apply IH.
Qed.

Lemma filter_partition {A} (f g : A -> bool) (h : A -> string) l :
  (forall x, f x = true -> g x = true) ->
  Permutation (map h (filter f l) ++ map h (filter (fun x => g x && negb (f x)) l)) (map h (filter g l)).
Proof.
  intros H. induction l as [|a r IH]; [constructor|]. cbn [filter]. destruct (f a) eqn:Ef.
  - rewrite (H a Ef). cbn [andb negb map app]. now constructor.
  - destruct (g a); cbn [andb negb map app]; [|exact IH]. apply Permutation_sym. apply Permutation_cons_app. now apply Permutation_sym.
Qed.

Lemma filter_all_false {A} (f : A -> bool) l : (forall x, In x l -> f x = false) -> filter f l = [].
Proof. induction l as [|a r IH]; cbn; intros H; [reflexivity|]. rewrite (H a (or_introl eq_refl)). apply IH. intros x Hx. apply H. now right. Qed.

Lemma NoDup_app_r' {A} (l1 l2 : list A) : NoDup (l1 ++ l2) -> NoDup l2.
Proof. induction l1 as [|a r IH]; cbn; intros H; [exact H|]. inversion H; subst. now apply IH. Qed.

(* no concept in an origin chain has an empty name *)
Definition ok_attr (a : attr) : Prop := forall o, In o (a_origin a) -> on_name o <> "".
Lemma ok_strip a : ok_attr a -> ok_attr (strip_origin a).
Proof. intros H o Ho. apply H. unfold strip_origin, origin_tail in Ho. cbn in Ho. destruct (a_origin a); [destruct Ho|now right]. Qed.

Section Leaves.
  Variable nested : atom -> ftree.
  Hypothesis Hnested : forall n l, n <> "" -> Forall ok_attr l -> Permutation (leaves (nested (plain_atom n l))) (map a_value l).
  Variable self : string.

  Lemma loop_leaves all : NoDup (map fst all) ->
    (forall p, In p all -> ok_attr (snd p)) ->
    forall todo pre visited, all = (pre ++ todo)%list -> (forall p, In p pre -> nat_in (fst p) visited = true) ->
    Permutation (flat_map leaves (fn_loop_t nested self all todo visited)) (map (fun p => a_value (snd p)) (filter (unvis visited) todo)).
  Proof.
    intros ND Hne. induction todo as [|[i a1] r IH]; intros pre visited Hall Hpre; [constructor|].
    assert (NDt : NoDup (map fst ((i, a1) :: r))).
    { rewrite Hall, map_app in ND. now apply NoDup_app_r' in ND. }
    cbn [map fst] in NDt. inversion NDt as [|? ? Hi NDr]; subst x l.
    assert (Hall' : all = ((pre ++ [(i, a1)]) ++ r)%list) by now rewrite <- app_assoc.
    cbn [fn_loop_t filter]. unfold unvis at 1. cbn [fst].
    destruct (nat_in i visited) eqn:Ev; cbn [negb].
    - apply (IH (pre ++ [(i, a1)])%list visited Hall').
      intros p Hp. apply in_app_or in Hp as [Hp|[<-|[]]]; [now apply Hpre|exact Ev].
    - assert (Fi : forall v, filter (unvis (i :: v)) r = filter (unvis v) r).
      { intros v. apply filter_ext_in'. intros [k a] Hin. unfold unvis. cbn [fst]. rewrite nat_in_cons.
        destruct (Nat.eqb_spec k i) as [->|]; [|reflexivity]. exfalso. apply Hi. apply in_map_iff. now exists (i, a). }
      assert (Hpre1 : forall p, In p (pre ++ [(i, a1)])%list -> forall v, (forall k, nat_in k (i :: visited) = true -> nat_in k v = true) -> nat_in (fst p) v = true).
      { intros p Hp v Hv. apply Hv. rewrite nat_in_cons. apply in_app_or in Hp as [Hp|[<-|[]]]; [rewrite (Hpre p Hp); apply orb_true_r|cbn; now rewrite Nat.eqb_refl]. }
      assert (Hleaf : Permutation (flat_map leaves (FLeaf (a_value a1) :: fn_loop_t nested self all r (i :: visited)))
                                  (map (fun p => a_value (snd p)) ((i, a1) :: filter (unvis visited) r))).
      { cbn [flat_map leaves map snd app]. constructor. rewrite <- (Fi visited).
        apply (IH (pre ++ [(i, a1)])%list (i :: visited) Hall'). intros p Hp. apply (Hpre1 p Hp). auto. }
      destruct (a_origin a1) as [|o1 os] eqn:Eo; [exact Hleaf|].
      destruct (negb (oname_eq_str o1 self)); [|exact Hleaf]. clear Hleaf.
      destruct (gather_spec o1 all (i :: visited) ND) as [G1 G2].
      destruct (gather o1 all (i :: visited)) as [g v2] eqn:Eg. cbn [fst snd] in G1, G2.
      (* the selected positions are all in r *)
      assert (Fsel : filter (sel o1 (i :: visited)) all = filter (sel o1 (i :: visited)) r).
      { rewrite Hall, filter_app. cbn [filter]. unfold sel at 2. cbn [fst]. rewrite nat_in_cons, Nat.eqb_refl. cbn [orb negb andb].
        rewrite (filter_all_false (sel o1 (i :: visited)) pre); [reflexivity|].
        intros q Hq. unfold sel. rewrite nat_in_cons, (Hpre q Hq), orb_true_r. reflexivity. }
      rewrite Fsel in G1, G2.
      cbn [flat_map map snd].
      assert (Hn1 : on_name o1 <> "").
      { apply (Hne (i, a1)); [rewrite Hall; apply in_or_app; right; now left|]. cbn [snd]. rewrite Eo. now left. }
      (* leaves of the group *)
      assert (Hokg : Forall ok_attr (strip_origin a1 :: g)).
      { constructor.
        - apply ok_strip. apply (Hne (i, a1)). rewrite Hall. apply in_or_app. right. now left.
        - rewrite G1. apply Forall_forall. intros x Hx. apply in_map_iff in Hx as (q & <- & Hq). apply filter_In in Hq as [Hq _].
          apply ok_strip. apply (Hne q). rewrite Hall. apply in_or_app. right. now right. }
      pose proof (Hnested (on_name o1) (strip_origin a1 :: g) Hn1 Hokg) as P1. cbn [map] in P1.
      assert (Ev1 : a_value (strip_origin a1) = a_value a1) by reflexivity. rewrite Ev1 in P1.
      (* the rest *)
      assert (P2 : Permutation (flat_map leaves (fn_loop_t nested self all r v2))
                               (map (fun p => a_value (snd p)) (filter (fun p => unvis (i :: visited) p && negb (sel o1 (i :: visited) p)) r))).
      { rewrite (filter_ext_in' (fun p => unvis (i :: visited) p && negb (sel o1 (i :: visited) p)) (unvis v2) r).
        - apply (IH (pre ++ [(i, a1)])%list v2 Hall'). intros p Hp. apply (Hpre1 p Hp). intros k Hk. rewrite G2, Hk. reflexivity.
        - intros [k a] Hin. unfold unvis. cbn [fst]. rewrite G2.
          destruct (nat_in k (i :: visited)) eqn:Ek; cbn [orb negb andb]; [reflexivity|].
          (* k unvisited: selected iff some selected element of r has index k iff (k,a) itself is selected (indices are distinct) *)
          unfold sel at 1. cbn [fst snd]. rewrite Ek. cbn [negb andb].
          destruct (same_head o1 a) eqn:Es; cbn [negb].
          + assert (E : existsb (fun p => Nat.eqb k (fst p)) (filter (sel o1 (i :: visited)) r) = true).
            { apply existsb_exists. exists (k, a). split; [|apply Nat.eqb_refl]. apply filter_In. split; [exact Hin|]. unfold sel. cbn [fst snd]. now rewrite Ek, Es. }
            now rewrite E.
          + assert (E : existsb (fun p => Nat.eqb k (fst p)) (filter (sel o1 (i :: visited)) r) = false).
            { apply not_true_iff_false. intros Ex. apply existsb_exists in Ex as ([k' a'] & Hf & Ek'). cbn [fst] in Ek'. apply Nat.eqb_eq in Ek'. subst k'.
              apply filter_In in Hf as [Hin' Hs]. unfold sel in Hs. cbn [fst snd] in Hs. apply andb_true_iff in Hs as [_ Hs].
              assert (a' = a).
              { clear - NDr Hin Hin'. induction r as [|[j b] r' IHr]; [destruct Hin|]. cbn [map fst] in NDr. inversion NDr as [|? ? Hj ND']; subst.
                destruct Hin as [E1|Hin], Hin' as [E2|Hin'].
                - congruence.
                - injection E1 as -> ->. exfalso. apply Hj. apply in_map_iff. now exists (k, a').
                - injection E2 as -> ->. exfalso. apply Hj. apply in_map_iff. now exists (k, a).
                - now apply IHr. }
              subst a'. congruence. }
            now rewrite E. }
      (* assemble *)
      subst g. rewrite map_map in P1.
      assert (P3 : Permutation (map (fun p => a_value (snd p)) (filter (sel o1 (i :: visited)) r) ++
                                map (fun p => a_value (snd p)) (filter (fun p => unvis (i :: visited) p && negb (sel o1 (i :: visited) p)) r))
                               (map (fun p => a_value (snd p)) (filter (unvis (i :: visited)) r))).
      { apply filter_partition. intros p Hp. unfold sel in Hp. apply andb_true_iff in Hp as [Hp _]. exact Hp. }
      rewrite (Fi visited) in P3.
      eapply Permutation_trans; [apply Permutation_app; [exact P1|exact P2]|].
      cbn [app]. constructor.
      assert (Emap : map (fun x => a_value (strip_origin (snd x))) (filter (sel o1 (i :: visited)) r) = map (fun p => a_value (snd p)) (filter (sel o1 (i :: visited)) r)).
      { apply map_ext. reflexivity. }
      rewrite Emap. exact P3.
  Qed.
End Leaves.

Lemma leaves_of_leaf_list (l : list attr) : flat_map leaves (map (fun x => FLeaf (a_value x)) l) = map a_value l.
Proof. induction l as [|a r IH]; cbn; [reflexivity|]. now rewrite IH. Qed.
Lemma index_from_fst_NoDup l : forall k, NoDup (map fst (index_from k l)) /\ (forall p, In p (index_from k l) -> k <= fst p).
Proof.
  induction l as [|a r IH]; intros k; cbn [index_from map]; [split; [constructor|intros p []]|].
  destruct (IH (S k)) as [ND Hge]. split.
  - cbn [fst]. constructor; [|exact ND]. intros Hin. apply in_map_iff in Hin as (p & E & Hp). specialize (Hge p Hp). lia.
  - intros p [<-|Hp]; [cbn; lia|]. specialize (Hge p Hp). lia.
Qed.
Lemma index_from_snd l : forall k, map snd (index_from k l) = l.
Proof. induction l as [|a r IH]; intros k; cbn; [reflexivity|]. now rewrite IH. Qed.
Lemma filter_true' {A} (f : A -> bool) l : (forall x, f x = true) -> filter f l = l.
Proof. intros H. induction l as [|a r IH]; cbn; [reflexivity|]. now rewrite H, IH. Qed.

(* the leaves of the function-term tree of an atom are exactly its arguments: none dropped, none duplicated *)
Theorem tree_leaves fuel : forall a, at_name a <> "" -> Forall ok_attr (at_attrs a) ->
  Permutation (leaves (tree_fuel fuel a)) (map a_value (at_attrs a)).
Proof.
  induction fuel as [|f IH]; intros a Hn Hok; cbn [tree_fuel]; destruct (at_name a) eqn:En; try (now contradiction Hn).
  - cbn [leaves]. now rewrite leaves_of_leaf_list.
  - cbn zeta. cbn [leaves].
    destruct (index_from_fst_NoDup (at_attrs a) 0) as [ND _].
    pose proof (loop_leaves (tree_fuel f)) as L.
    assert (Hnest : forall n l, n <> "" -> Forall ok_attr l -> Permutation (leaves (tree_fuel f (plain_atom n l))) (map a_value l)).
    { intros n l Hn' Hl. apply (IH (plain_atom n l)); assumption. }
    specialize (L Hnest (String a0 s) (index_from 0 (at_attrs a)) ND).
    assert (Hall : forall p, In p (index_from 0 (at_attrs a)) -> ok_attr (snd p)).
    { intros p Hp. rewrite Forall_forall in Hok. apply Hok. rewrite <- (index_from_snd (at_attrs a) 0). apply in_map_iff. now exists p. }
    specialize (L Hall (index_from 0 (at_attrs a)) [] [] eq_refl (fun p H => match H with end)).
    rewrite (filter_true' (unvis [])) in L by reflexivity.
    assert (E : map a_value (at_attrs a) = map (fun p => a_value (snd p)) (index_from 0 (at_attrs a))).
    { rewrite <- (index_from_snd (at_attrs a) 0) at 1. now rewrite map_map. }
    rewrite E. exact L.
Qed.

Corollary atom_tree_leaves a : at_name a <> "" -> Forall ok_attr (at_attrs a) ->
  Permutation (leaves (atom_tree a)) (map a_value (at_attrs a)).
Proof. apply tree_leaves. Qed.
