"""C13 -- the reported symbol table matches the predicates actually emitted."""
import io
import contextlib
import multiprocessing as mp

import common
import impl
import stream
import aspast
from common import Report, coq_str, coq_list

PID = 'C13'
PRE = 'Require Import Cnl2aspV.Asp.Syntax Cnl2aspV.Cnl.Symbols Cnl2aspV.Cnl.SymbolsCases.'


def ser_origin(o):
    links = []
    while o is not None:
        nc = o.name
        links.append('{| on_name := %s; on_forms := %s |}' % (coq_str(nc.name), coq_list([coq_str(f) for f in nc.singular_and_plural_name])))
        o = o.origin
    return coq_list(links)


def ser_sym(s):
    if isinstance(s, str):
        return '(SName %s)' % coq_str(s)
    assert len(s.attributes) == 1 and len(s.keys) == 1
    return '(SNode %s %s)' % (coq_str(s.predicate), ser_sym(s.attributes[0]))


def _job(text):
    """compile in both modes + signatures + symbols, in one worker"""
    from cnl2asp.cnl2asp import Cnl2asp
    from cnl2asp.specification.signaturemanager import SignatureManager
    out = io.StringIO()
    try:
        with contextlib.redirect_stdout(out):
            flat = impl.compile_text(text)
            fn = impl.compile_text(text, with_functions=True)
            if flat[0] != 'ok':
                return ('rejected',)
            c = Cnl2asp(text)
            c.compile()
            sigs = list(SignatureManager.signatures)
            ents = []
            for e in sigs:
                def ea(a):
                    return '{| ea_name := %s; ea_origin := %s |}' % (coq_str(a.get_name()), ser_origin(a.origin))
                ents.append('{| en_name := %s; en_keys := %s; en_attrs := %s |}' % (coq_str(e.get_name()), coq_list([ea(a) for a in e.keys]), coq_list([ea(a) for a in e.attributes])))
            syms = Cnl2asp(text).get_symbols()
        assert len(syms) == len(sigs)
        rows = []
        for ent, s in zip(ents, syms):
            rows.append((ent, coq_list([ser_sym(k) for k in s.keys]), coq_list([ser_sym(k) for k in s.attributes]), s.get_arity(), s.get_arity(True), s.predicate))
        return ('ok', flat[1], fn[1], rows)
    except Exception as e:  # noqa
        return ('error', '%s: %s' % (type(e).__name__, e))


def arities(program):
    res = {}
    for stm in aspast.parse(program):
        for a in aspast.atoms_of(stm):
            name = a.name.strip("'")
            res.setdefault(name, set()).add(len(a.arguments))
    return res


def run(tier, seed):
    rep = Report(PID, tier, seed)
    proof = common.build_property(PID, extra=['Cnl/SymbolsCases.vo'])
    findings = {f['id']: f for f in common.load_findings(PID) if f.get('status') == 'known'}
    specs = stream.specs(tier, seed)
    impl.compile_text('A warmupconcept is identified by an id.')
    with mp.get_context('fork').Pool(14) as pool:
        res = pool.map(_job, [t for _, t, _ in specs], chunksize=6)
    cases, meta = [], []
    nprog = 0
    for (name, text, _), r in zip(specs, res):
        if r[0] == 'rejected':
            continue
        if r[0] == 'error':
            rep.notes.append('%s: harness error %s' % (name, r[1]))
            continue
        _, flat, fn, rows = r
        rep.case(text)
        nprog += 1
        reported = {}
        for ent, keys, attrs, fa, fna, pred in rows:
            cases.append('{| sc_entity := %s; sc_keys := %s; sc_attrs := %s; sc_flat := %d; sc_fn := %d |}' % (ent, keys, attrs, fa, fna))
            meta.append(dict(text=text, predicate=pred, flat_arity=fa, fn_arity=fna))
            reported.setdefault(pred, (fa, fna))
        # ---- oracle on the implementation's outputs
        for mode, prog, idx in (('default', flat, 0), ('function-term', fn, 1)):
            try:
                ar = arities(prog)
            except aspast.ParseError as e:
                rep.notes.append('%s: %s output not parsable by clingo (C06 decides this): %s' % (name, mode, str(e)[:120]))
                continue
            for pred, ns in ar.items():
                if pred.startswith('x_') or pred.startswith('_'):
                    continue
                viol = None
                if len(ns) > 1:
                    viol = 'predicate %s occurs with arities %s in %s mode' % (pred, sorted(ns), mode)
                elif pred not in reported:
                    viol = 'predicate %s is emitted but not reported by get_symbols' % pred
                elif reported[pred][idx] not in ns:
                    viol = 'predicate %s has arity %s in the %s program but get_symbols reports %d' % (pred, sorted(ns), mode, reported[pred][idx])
                if viol:
                    matched = False
                    for fid, f in findings.items():
                        if f.get('trigger') == 'fn-arity-duplicate-names' and mode == 'function-term' and len(ns) == 1 and pred in reported:
                            rep.known_finding(fid, f['summary'])
                            matched = True
                    if not matched:
                        rep.violation(viol, dict(text=text, mode=mode, program=prog, reported=reported.get(pred)))
                        break
    if meta:
        rep.sample(meta[0]); rep.sample(meta[len(meta) // 2])
    tie_broken = []
    if proof['ok'] or proof['extra_ok']:
        f = common.run_cases(PID, 'sym', PRE, cases, 'scase_ok', shard=500)
        if f:
            tie_broken.append('get_symbols model differs from the implementation on %d signatures, first: %r' % (len(f), meta[f[0]]))
    if not proof['ok']:
        tie_broken.append('theorem file does not build: %s' % proof['failed_at'])
    if proof['bad']:
        tie_broken.append('forbidden tokens: %r' % proof['bad'])
    if tie_broken and not rep.violations:
        rep.violation('proof obligation or correspondence no longer checks and no failing input was found: ' + ' | '.join(tie_broken),
                      dict(kind='broken-tie', theorem='Props/C13.v / get_symbols correspondence', details=tie_broken,
                           searched='%d programs in both modes vs get_symbols' % nprog), no_input=True)
    elif tie_broken:
        rep.notes.extend(tie_broken)
    rep.cov.update(programs=nprog, signatures_compared=len(cases))
    rep.assumptions += ['clingo.ast reads the atoms of both outputs', 'SignatureManager.signatures after compile() is the table get_symbols converts']
    return rep.finish(proof, rule='corpus + wide generator, both printing modes; every atom occurrence of every rule; distinct by specification text')
