(* Core fragment WITH derived definitions over one quantified clause: the answer sets of the ground compiled program are the models
   of the reading (for interpretations that hold exactly the declared concept values). *)
Require Import Coq.Strings.String Coq.Strings.Ascii Coq.Lists.List Coq.Bool.Bool Coq.ZArith.ZArith Coq.Arith.Arith Lia.
Require Import Cnl2aspV.Base.Util Cnl2aspV.Base.Str Cnl2aspV.Asp.Ground Cnl2aspV.Cnl.Comparison Cnl2aspV.Cnl.Core Cnl2aspV.Cnl.CoreProofs Cnl2aspV.Cnl.CoreDef
               Cnl2aspV.Cnl.CoreChoice Cnl2aspV.Cnl.CoreChoiceEach Cnl2aspV.Cnl.CoreWhere Cnl2aspV.Cnl.CoreProgram Cnl2aspV.Cnl.CoreSupport Cnl2aspV.Cnl.CoreStable
               Cnl2aspV.Cnl.CoreExact.
Import ListNotations.
Open Scope string_scope.

Definition def1 (s : spec) (x : sentence) : Prop :=
  match x with
  | SDef subj label p [cl] => subj = cl_subj cl /\ label = cl_slabel cl /\ cl_slabel cl <> cl_olabel cl /\ declared s subj /\ declared s (cl_obj cl)
  | _ => False end.
Definition ok_sentence (s : spec) (x : sentence) : Prop := (covered s x /\ no_definition x) \/ def1 s x.
Definition def_pred (x : sentence) : list string := match x with SDef _ _ p _ => [p] | _ => [] end.
Definition def_heads (U : list string) (x : sentence) : list gatom := match x with SDef _ _ p _ => map (fun x0 => atom_text p [x0]) U | _ => [] end.
Definition def_body_atoms (U : list string) (x : sentence) : list gatom :=
  match x with SDef _ _ _ [cl] => flat_map (fun a => map (fun b => atom_text (verb_pred (cl_verb cl)) [a; b]) U) U | _ => [] end.
Definition all_def_heads (s : spec) (U : list string) : list gatom := flat_map (def_heads U) (sentences s).
Definition all_choice_heads (s : spec) (U : list string) : list gatom := flat_map (choice_heads s U) (sentences s).
(* decidable separation: chosen instances are no concept atoms; derived atoms are neither concept atoms nor chosen instances; the
   relation atoms in the body of a definition are no derived atoms *)
Definition separated_d (s : spec) (U : list string) : bool :=
  separated s U &&
  forallb (fun a => negb (mem_string a (concept_atoms s U)) && negb (mem_string a (all_choice_heads s U))) (all_def_heads s U) &&
  forallb (fun x => forallb (fun a => negb (mem_string a (all_def_heads s U))) (def_body_atoms U x)) (sentences s).
Definition preds_ok (s : spec) : Prop :=
  NoDup (flat_map def_pred (sentences s)) /\ forall p, In p (flat_map def_pred (sentences s)) -> no_paren p = true.
Definition level3 (s : spec) (U : list string) (a : gatom) : nat :=
  if mem_string a (concept_atoms s U) then 0 else if mem_string a (all_def_heads s U) then 2 else 1.

Lemma nodup_app_parts {B} (l1 l2 : list B) : NoDup (l1 ++ l2) -> NoDup l2 /\ forall y, In y l1 -> ~ In y l2.
Proof.
  induction l1 as [|u t IH]; cbn [app]; intros H; [split; [exact H|intros y []]|].
  inversion H as [|? ? Hn Ht]; subst. destruct (IH Ht) as (H2 & Hd). split; [exact H2|].
  intros y [->|Hy]; [intros Hin; apply Hn; apply in_or_app; now right|now apply Hd].
Qed.
Lemma nodup_flat_map_inj {A B} (f : A -> list B) (l : list A) a b z :
  NoDup (flat_map f l) -> In a l -> In b l -> In z (f a) -> In z (f b) -> a = b.
Proof.
  induction l as [|c r IH]; intros Hnd Ha Hb Hza Hzb; [destruct Ha|]. cbn [flat_map] in Hnd.
  destruct (nodup_app_parts _ _ Hnd) as (Hr & Hdisj).
  destruct Ha as [->|Ha], Hb as [->|Hb]; [reflexivity| | |now apply IH].
  - exfalso. apply (Hdisj z Hza). apply in_flat_map. eauto.
  - exfalso. apply (Hdisj z Hzb). apply in_flat_map. eauto.
Qed.

Lemma nodef_closed s U I x : no_definition x -> closedb I (flat_map (ground_rule U) (compile_sentence s x)) = true.
Proof.
  intros H. apply no_rules_closed. destruct x as [c|? ? ? ?|required whenpart main wh|l vals y|required neg v a b]; try destruct H.
  - apply choice_no_rules.
  - apply cons_no_rules.
  - destruct y; try destruct H. apply oneof_no_rules.
  - apply there_no_rules.
Qed.

Section Defs.
  Variables (s : spec) (I : interp).
  Let U := universe s.
  Hypothesis Hdom : forall n, declared s n -> forall x, In x U -> holds I (atom_text n [x]) = mem_string x (dom_of s n).
  Hypothesis Hok : forall x, In x (sentences s) -> ok_sentence s x.
  Hypothesis Hsep : separated_d s U = true.
  Hypothesis Hpreds : preds_ok s.

  Let Hincl := universe_incl s.

  Lemma sep1 : separated s U = true.
  Proof. unfold separated_d in Hsep. apply andb_true_iff in Hsep as (H & _). apply andb_true_iff in H as (H & _). exact H. Qed.
  Lemma sep2 a : In a (all_def_heads s U) -> ~ In a (concept_atoms s U) /\ ~ In a (all_choice_heads s U).
  Proof.
    intros Ha. unfold separated_d in Hsep. apply andb_true_iff in Hsep as (H & _). apply andb_true_iff in H as (_ & H).
    rewrite forallb_forall in H. specialize (H a Ha). apply andb_true_iff in H as (H1 & H2). apply negb_true_iff in H1, H2.
    split; intros Hin; apply mem_string_In in Hin; congruence.
  Qed.
  Lemma sep3 x a : In x (sentences s) -> In a (def_body_atoms U x) -> ~ In a (all_def_heads s U).
  Proof.
    intros Hx Ha Hin. unfold separated_d in Hsep. apply andb_true_iff in Hsep as (_ & H). rewrite forallb_forall in H. specialize (H x Hx).
    rewrite forallb_forall in H. specialize (H a Ha). apply negb_true_iff in H. apply mem_string_In in Hin. congruence.
  Qed.

  (* an admissible instance of a covered non-definition is one of its choice heads *)
  Lemma adm_choice_head x a : covered s x -> no_definition x -> adm_sentence s x a = true -> In a (choice_heads s U x).
  Proof.
    intros Hc Hnd Ha. destruct x as [c|? ? ? ?|? ? ? ?|? ? y'|? ? ? ? ?]; try destruct Hnd; unfold adm_sentence in Ha; cbn [base_sentence] in Ha; try discriminate;
      try (destruct y'; try destruct Hnd; cbn [base_sentence] in Ha; discriminate).
    apply existsb_exists in Ha as (fe & Hfein & Ha). apply existsb_exists in Ha as (x0 & Hx0 & Ha). apply existsb_exists in Ha as (y0 & Hy0 & E).
    apply String.eqb_eq in E. subst a. cbn [choice_heads]. destruct (ch_foreach c) as [e|] eqn:Efe.
    - apply in_map_iff in Hfein as (z & <- & Hz). apply in_flat_map. exists z. split; [apply (Hincl e), Hz|].
      apply in_flat_map. exists x0. split; [apply (Hincl (ch_subj c)), Hx0|]. apply in_map_iff. exists y0. split; [reflexivity|apply (Hincl (ch_obj c)), Hy0].
    - destruct Hfein as [<-|[]]. apply in_flat_map. exists x0. split; [apply (Hincl (ch_subj c)), Hx0|]. apply in_map_iff. exists y0.
      split; [reflexivity|apply (Hincl (ch_obj c)), Hy0].
  Qed.

  (* D1: what a definition's rule instances support is a derived atom of a declared subject *)
  Lemma def_supports cl p a :
    cl_slabel cl <> cl_olabel cl -> declared s (cl_subj cl) ->
    supported_atom I (flat_map (ground_rule U) (compile_sentence s (SDef (cl_subj cl) (cl_slabel cl) p [cl]))) a = true ->
    exists x0, In x0 (dom_of s (cl_subj cl)) /\ a = atom_text p [x0].
  Proof.
    intros Hne Hds Hs. rewrite (def_ground s U cl p Hne) in Hs. apply supported_atom_spec in Hs as (r & Hr & Hsup).
    apply in_flat_map in Hr as (x & Hx & Hr). apply in_map_iff in Hr as (y & <- & Hy). cbn [supports] in Hsup. destruct Hsup as (<- & Hb).
    rewrite def_body_true in Hb. unfold fires in Hb. apply andb_true_iff in Hb as (Hb & _). apply andb_true_iff in Hb as (Hb & _).
    rewrite (Hdom _ Hds x Hx) in Hb. apply mem_string_In in Hb. eauto.
  Qed.

  Definition defs_read : Prop := forall x, In x (sentences s) -> def1 s x -> r_sentence s I x = true.

  Lemma sc_iff_reading : sc (ground s) I <-> reading s I = true.
  Proof.
    assert (Hcov : forall x, In x (sentences s) -> covered s x).
    { intros x Hx. destruct (Hok x Hx) as [(Hc & _)|Hd]; [exact Hc|]. destruct x; try (destruct Hd; fail). exact Logic.I. }
    pose proof (program_bounds s U I Hdom Hincl (universe_NoDup s) Hcov) as HB. unfold constraints_ok in HB.
    pose proof (program_closed s U I) as HC.
    assert (HS : forall a, supported_atom I (flat_map (ground_rule U) (compile s)) a =
                           existsb (fun c => existsb (fun v => String.eqb a (atom_text (c_name c) [v])) (dom_terms (c_dom c))) (concepts s)
                           || existsb (fun x => supported_atom I (flat_map (ground_rule U) (compile_sentence s x)) a) (sentences s)).
    { intros a. unfold compile. rewrite flat_map_app, supported_atom_app. f_equal.
      - rewrite flat_map_flat_map, supported_atom_flat_map. apply existsb_ext'. intros c. apply concept_supported.
      - rewrite flat_map_flat_map, supported_atom_flat_map. reflexivity. }
    (* per-definition facts *)
    assert (HD : forall x, In x (sentences s) -> def1 s x ->
              (closedb I (flat_map (ground_rule U) (compile_sentence s x)) = true /\
               (forall a, In a I -> adm_sentence s x a = true -> supported_atom I (flat_map (ground_rule U) (compile_sentence s x)) a = true))
              <-> r_sentence s I x = true).
    { intros x Hx Hd. destruct x as [?|subj label p body|? ? ? ?|? ? ?|? ? ? ? ?]; try (destruct Hd; fail).
      destruct body as [|cl [|? ?]]; try (destruct Hd; fail). destruct Hd as (-> & -> & Hne & Hds & Hdo).
      pose proof (one_clause_definition_correct s U I cl p Hne (Hdom _ Hds) (Hdom _ Hdo) (Hincl _) (Hincl _)) as T. cbv zeta in T.
      rewrite <- T, andb_true_iff, forallb_forall. split.
      - intros (Hc & Hs). split; [exact Hc|]. intros x0 Hx0. destruct (holds I (atom_text p [x0])) eqn:Eh; [|reflexivity]. cbn [negb orb].
        apply Hs; [now apply holds_In|]. unfold adm_sentence. cbn [base_sentence]. apply existsb_exists. exists x0. split; [exact Hx0|apply String.eqb_refl].
      - intros (Hc & Hs). split; [exact Hc|]. intros a Ha Hadm. unfold adm_sentence in Hadm. cbn [base_sentence] in Hadm.
        apply existsb_exists in Hadm as (x0 & Hx0 & E). apply String.eqb_eq in E. subst a. specialize (Hs x0 Hx0).
        apply holds_In in Ha. rewrite Ha in Hs. exact Hs. }
    unfold sc, reading, ground. fold U. rewrite HB. rewrite <- closedb_spec. rewrite HC.
    rewrite !andb_true_iff, !forallb_forall. split.
    - (* stable side -> reading *)
      intros (Hb & (Hd & Hc) & Hs).
      assert (Hsup : forall a, In a I -> supported_atom I (flat_map (ground_rule U) (compile s)) a = true).
      { intros a Ha. apply supported_atom_spec. exact (Hs a Ha). }
      assert (Hadm : forall a, In a I -> admissible s a = true).
      { intros a Ha. specialize (Hsup a Ha). rewrite HS in Hsup. rewrite admissible_split. apply orb_true_iff in Hsup as [Hc1|Hx]; apply orb_true_iff; [now left|right].
        apply existsb_exists in Hx as (x & Hx & Hsx). apply existsb_exists. exists x. split; [exact Hx|].
        destruct (Hok x Hx) as [(Hcx & Hnd)|Hd1].
        - now rewrite <- (sentence_supported s U I Hdom Hincl x a Hcx Hnd).
        - destruct x as [?|subj label p body|? ? ? ?|? ? ?|? ? ? ? ?]; try (destruct Hd1; fail). destruct body as [|cl [|? ?]]; try (destruct Hd1; fail).
          destruct Hd1 as (-> & -> & Hne & Hds & Hdo). destruct (def_supports cl p a Hne Hds Hsx) as (x0 & Hx0 & ->).
          unfold adm_sentence. cbn [base_sentence]. apply existsb_exists. exists x0. split; [exact Hx0|apply String.eqb_refl]. }
      split; [split; [exact Hd|exact Hadm]|].
      intros x Hx. destruct (Hok x Hx) as [(Hcx & Hnd)|Hd1].
      + specialize (Hb x Hx). now rewrite (r_bounds_no_def s I x Hnd) in Hb.
      + apply (HD x Hx Hd1). split; [exact (Hc x Hx)|]. intros a Ha Hax.
        (* the support of a derived atom comes from its own definition *)
        assert (Hah : In a (all_def_heads s U)).
        { destruct x as [?|subj label p body|? ? ? ?|? ? ?|? ? ? ? ?]; try (destruct Hd1; fail). unfold adm_sentence in Hax. cbn [base_sentence] in Hax.
          apply existsb_exists in Hax as (x0 & Hx0 & E). apply String.eqb_eq in E. subst a. apply in_flat_map. exists (SDef subj label p body). split; [exact Hx|].
          cbn [def_heads]. apply in_map_iff. exists x0. split; [reflexivity|apply (Hincl subj), Hx0]. }
        destruct (sep2 a Hah) as (Hnc & Hnh).
        specialize (Hsup a Ha). rewrite HS in Hsup. apply orb_true_iff in Hsup as [Hc1|Hx1].
        * exfalso. apply Hnc. apply existsb_exists in Hc1 as (c & Hcin & Hc1). apply existsb_exists in Hc1 as (v & Hv & E). apply String.eqb_eq in E. subst a.
          unfold concept_atoms. apply in_flat_map. exists (c_name c). split; [apply in_map_iff; eauto|]. apply in_map_iff. exists v. split; [reflexivity|].
          unfold U, universe. apply nodup_str_In. apply in_flat_map. eauto.
        * apply existsb_exists in Hx1 as (x' & Hx' & Hsx'). destruct (Hok x' Hx') as [(Hcx' & Hnd')|Hd1'].
          -- exfalso. apply Hnh. rewrite (sentence_supported s U I Hdom Hincl x' a Hcx' Hnd') in Hsx'. apply in_flat_map. exists x'. split; [exact Hx'|].
             now apply adm_choice_head.
          -- assert (Ex : x' = x); [|subst x'; exact Hsx'].
             destruct x' as [?|subj' label' p' body'|? ? ? ?|? ? ?|? ? ? ? ?]; try (destruct Hd1'; fail). destruct body' as [|cl' [|? ?]]; try (destruct Hd1'; fail).
             destruct Hd1' as (-> & -> & Hne' & Hds' & Hdo'). destruct (def_supports cl' p' a Hne' Hds' Hsx') as (x1 & Hx1 & Ea).
             destruct x as [?|subj label p body|? ? ? ?|? ? ?|? ? ? ? ?]; try (destruct Hd1; fail). unfold adm_sentence in Hax. cbn [base_sentence] in Hax.
             apply existsb_exists in Hax as (x0 & Hx0 & E). apply String.eqb_eq in E. rewrite Ea in E.
             assert (Hp' : In p' (flat_map def_pred (sentences s))) by (apply in_flat_map; eexists; split; [exact Hx'|now left]).
             assert (Hp : In p (flat_map def_pred (sentences s))) by (apply in_flat_map; eexists; split; [exact Hx|now left]).
             destruct (atom_text1_inj2 p' p x1 x0 (proj2 Hpreds _ Hp') (proj2 Hpreds _ Hp) E) as (Epp & _). subst p'.
             apply (nodup_flat_map_inj def_pred (sentences s) _ _ p (proj1 Hpreds) Hx' Hx); now left.
    - (* reading -> stable side *)
      intros ((Hd & Hadm) & Hr). 
      assert (Hdefs : forall x, In x (sentences s) -> def1 s x ->
                 closedb I (flat_map (ground_rule U) (compile_sentence s x)) = true /\
                 (forall a, In a I -> adm_sentence s x a = true -> supported_atom I (flat_map (ground_rule U) (compile_sentence s x)) a = true)).
      { intros x Hx Hd1. apply (HD x Hx Hd1). exact (Hr x Hx). }
      split; [|split; [split; [exact Hd|]|]].
      + intros x Hx. destruct (Hok x Hx) as [(Hcx & Hnd)|Hd1].
        * rewrite (r_bounds_no_def s I x Hnd). exact (Hr x Hx).
        * destruct x; try (destruct Hd1; fail). reflexivity.
      + intros x Hx. destruct (Hok x Hx) as [(Hcx & Hnd)|Hd1]; [now apply nodef_closed|exact (proj1 (Hdefs x Hx Hd1))].
      + intros a Ha. apply supported_atom_spec. rewrite HS. specialize (Hadm a Ha). rewrite admissible_split in Hadm.
        apply orb_true_iff in Hadm as [Hc1|Hx1]; apply orb_true_iff; [now left|right].
        apply existsb_exists in Hx1 as (x & Hx & Hax). apply existsb_exists. exists x. split; [exact Hx|].
        destruct (Hok x Hx) as [(Hcx & Hnd)|Hd1]; [now rewrite (sentence_supported s U I Hdom Hincl x a Hcx Hnd)|exact (proj2 (Hdefs x Hx Hd1) a Ha Hax)].
  Qed.
End Defs.

(* ------------------------------------------------------------------ the ground program is hierarchical (three levels) *)
Section HierDefs.
  Variables (s : spec).
  Let U := universe s.
  Hypothesis Hok : forall x, In x (sentences s) -> ok_sentence s x.
  Hypothesis Hsep : separated_d s U = true.

  Lemma level3_concept n x : declared s n -> In x U -> level3 s U (atom_text n [x]) = 0.
  Proof.
    intros Hn Hx. unfold level3. assert (E : mem_string (atom_text n [x]) (concept_atoms s U) = true).
    { apply mem_string_In. unfold concept_atoms. apply in_flat_map. exists n. split; [exact Hn|]. apply in_map_iff. eauto. }
    now rewrite E.
  Qed.
  Lemma level3_not_concept a : ~ In a (concept_atoms s U) -> 1 <= level3 s U a.
  Proof.
    intros H. unfold level3. destruct (mem_string a (concept_atoms s U)) eqn:E; [apply mem_string_In in E; contradiction|].
    destruct (mem_string a (all_def_heads s U)); lia.
  Qed.
  Lemma level3_not_def a : ~ In a (all_def_heads s U) -> level3 s U a <= 1.
  Proof.
    intros H. unfold level3. destruct (mem_string a (concept_atoms s U)); [lia|].
    destruct (mem_string a (all_def_heads s U)) eqn:E; [apply mem_string_In in E; contradiction|lia].
  Qed.
  Lemma level3_def a : In a (all_def_heads s U) -> level3 s U a = 2.
  Proof.
    intros H. destruct (sep2 s Hsep a H) as (Hnc & _). unfold level3.
    destruct (mem_string a (concept_atoms s U)) eqn:E; [apply mem_string_In in E; contradiction|].
    apply mem_string_In in H. now rewrite H.
  Qed.
  Lemma choice_head_level x a : In x (sentences s) -> In a (choice_heads s U x) -> 1 <= level3 s U a.
  Proof.
    intros Hx Ha. apply level3_not_concept. intros Hin. pose proof (sep1 s Hsep) as S1. unfold separated in S1. rewrite forallb_forall in S1.
    specialize (S1 x Hx). rewrite forallb_forall in S1. specialize (S1 a Ha). apply negb_true_iff in S1. apply mem_string_In in Hin. exact (eq_true_false_abs _ Hin S1).
  Qed.

  Lemma ground_hierarchical3 : hierarchical (level3 s U) (ground s).
  Proof.
    intros r Hr. unfold ground, compile in Hr. fold U in Hr. rewrite flat_map_app in Hr. apply in_app_or in Hr as [Hr|Hr].
    - rewrite flat_map_flat_map in Hr. apply in_flat_map in Hr as (c & _ & Hr).
      destruct (concept_rules_only U c r Hr) as (h & b & ->). unfold compile_concept in Hr. destruct (c_dom c) as [lo hi|vals].
      + cbn [flat_map ground_rule] in Hr. rewrite app_nil_r in Hr. apply in_map_iff in Hr as (z & E & _). injection E as _ <-.
        cbn [hier_rule b_pos b_neg]. split; intros a [].
      + rewrite flat_map_map in Hr. apply in_flat_map in Hr as (v & _ & Hr). cbn [ground_rule] in Hr. destruct Hr as [E|[]]. injection E as _ <-.
        cbn [hier_rule b_pos b_neg]. split; intros a [].
    - rewrite flat_map_flat_map in Hr. apply in_flat_map in Hr as (x & Hx & Hr). destruct (Hok x Hx) as [(Hc & Hn)|Hd1].
      + destruct x as [c|? ? ? ?|required whenpart main wh|l vals y|required neg v sv ov]; try (destruct Hn; fail).
        * cbn [covered] in Hc. destruct Hc as (Hds & Hdo & _ & Hne & Hfe). destruct (ch_foreach c) as [e|] eqn:Efe.
          -- destruct Hfe as (Hde & Hes & Heo). rewrite (each_ground s U c e Efe Hne Hes Heo) in Hr.
             apply in_flat_map in Hr as (z & Hz & Hr). apply in_map_iff in Hr as (x0 & <- & Hx0). cbn [hier_rule].
             intros a cnd Hin. apply in_map_iff in Hin as (y & E & Hy). injection E as <- <-.
             assert (Hl : 1 <= level3 s U (atom_text (verb_pred (ch_verb c)) [z; x0; y])).
             { apply (choice_head_level (SChoice c)); [exact Hx|]. cbn [choice_heads]. rewrite Efe. apply in_flat_map. exists z. split; [exact Hz|].
               apply in_flat_map. exists x0. split; [exact Hx0|]. apply in_map_iff. eauto. }
             cbn [b_pos b_neg]. repeat split.
             ++ intros b [<-|[<-|[]]]; [rewrite (level3_concept e z Hde Hz)|rewrite (level3_concept _ x0 Hds Hx0)]; lia.
             ++ intros b [].
             ++ intros b [<-|[]]. rewrite (level3_concept _ y Hdo Hy). lia.
          -- rewrite (choice_ground s U c Efe Hne) in Hr. apply in_map_iff in Hr as (x0 & <- & Hx0). cbn [hier_rule].
             intros a cnd Hin. apply in_map_iff in Hin as (y & E & Hy). injection E as <- <-.
             assert (Hl : 1 <= level3 s U (atom_text (verb_pred (ch_verb c)) [x0; y])).
             { apply (choice_head_level (SChoice c)); [exact Hx|]. cbn [choice_heads]. rewrite Efe. apply in_flat_map. exists x0. split; [exact Hx0|].
               apply in_map_iff. eauto. }
             cbn [b_pos b_neg]. repeat split.
             ++ intros b [<-|[]]. rewrite (level3_concept _ x0 Hds Hx0). lia.
             ++ intros b [].
             ++ intros b [<-|[]]. rewrite (level3_concept _ y Hdo Hy). lia.
        * pose proof (cons_only_constraints s U required whenpart main wh r Hr) as Hk. destruct r; try destruct Hk. exact Logic.I.
        * destruct y as [?|? ? ? ?|rq wp mn wh|? ? ?|? ? ? ? ?]; try (destruct Hn; fail).
          destruct (oneof_rules_are_constraints s U l vals rq wp mn wh r Hr) as (b & ->). exact Logic.I.
        * pose proof (there_only_constraints s U required neg v sv ov r Hr) as Hk. destruct r; try destruct Hk. exact Logic.I.
      + (* a definition *)
        destruct x as [?|subj label p body|? ? ? ?|? ? ?|? ? ? ? ?]; try (destruct Hd1; fail). destruct body as [|cl [|? ?]]; try (destruct Hd1; fail).
        destruct Hd1 as (-> & -> & Hne & Hds & Hdo). rewrite (def_ground s U cl p Hne) in Hr.
        apply in_flat_map in Hr as (x0 & Hx0 & Hr). apply in_map_iff in Hr as (y & <- & Hy). cbn [hier_rule].
        assert (Hh : level3 s U (atom_text p [x0]) = 2).
        { apply level3_def. apply in_flat_map. exists (SDef (cl_subj cl) (cl_slabel cl) p [cl]). split; [exact Hx|]. cbn [def_heads]. apply in_map_iff. eauto. }
        assert (Hv : level3 s U (atom_text (verb_pred (cl_verb cl)) [x0; y]) <= 1).
        { apply level3_not_def. apply (sep3 s Hsep (SDef (cl_subj cl) (cl_slabel cl) p [cl])); [exact Hx|]. cbn [def_body_atoms].
          apply in_flat_map. exists x0. split; [exact Hx0|]. apply in_map_iff. eauto. }
        rewrite Hh. unfold def_body. destruct (cl_neg cl); cbn [b_pos b_neg]; split; intros b Hb; cbn [In] in Hb;
          repeat match goal with H : _ \/ _ |- _ => destruct H as [<-|H] end; try (destruct Hb; fail);
          try (rewrite (level3_concept _ x0 Hds Hx0); lia); try (rewrite (level3_concept _ y Hdo Hy); lia); try lia.
  Qed.

  (* the answer sets are the models of the reading, derived definitions included *)
  Theorem stable_iff_reading_defs (I : interp) :
    preds_ok s ->
    (forall n, declared s n -> forall x, In x U -> holds I (atom_text n [x]) = mem_string x (dom_of s n)) ->
    (stable (ground s) I <-> reading s I = true).
  Proof.
    intros Hp Hdom. rewrite (hierarchical_stable (level3 s U) (ground s) I ground_hierarchical3), scb_spec.
    exact (sc_iff_reading s I Hdom Hok Hsep Hp).
  Qed.
End HierDefs.

(* ------------------------------------------------------------------ for every interpretation *)
Section ExactDefs.
  Variables (s : spec) (I : interp).
  Let U := universe s.
  Hypothesis Hnames : names_ok s.
  Hypothesis Hok : forall x, In x (sentences s) -> ok_sentence s x.
  Hypothesis Hsep : separated_d s U = true.

  Lemma concept_atom_in n x : declared s n -> In x U -> In (atom_text n [x]) (concept_atoms s U).
  Proof. intros Hn Hx. unfold concept_atoms. apply in_flat_map. exists n. split; [exact Hn|]. apply in_map_iff. eauto. Qed.

  Lemma admissible_concept_atom_d n x : declared s n -> In x U -> admissible s (atom_text n [x]) = true -> In x (dom_of s n).
  Proof.
    intros Hn Hx Ha. rewrite admissible_split in Ha. apply orb_true_iff in Ha as [Ha|Ha].
    - apply existsb_exists in Ha as (c & Hc & Ha). apply existsb_exists in Ha as (v & Hv & E). apply String.eqb_eq in E.
      assert (Hcn : In (c_name c) (concept_names s)) by (apply in_map_iff; eauto).
      destruct (atom_text1_inj2 n (c_name c) x v (proj2 Hnames n Hn) (proj2 Hnames _ Hcn) E) as (-> & ->).
      now rewrite (dom_of_concept s c (proj1 Hnames) Hc).
    - exfalso. apply existsb_exists in Ha as (y & Hy & Ha). destruct (Hok y Hy) as [(Hc & Hnd)|Hd1].
      + pose proof (adm_choice_head s y _ Hc Hnd Ha) as Hh. pose proof (sep1 s Hsep) as S1. unfold separated in S1. rewrite forallb_forall in S1.
        specialize (S1 y Hy). rewrite forallb_forall in S1. specialize (S1 _ Hh). apply negb_true_iff in S1.
        pose proof (concept_atom_in n x Hn Hx) as Hin. apply mem_string_In in Hin. exact (eq_true_false_abs _ Hin S1).
      + destruct y as [?|subj label p body|? ? ? ?|? ? ?|? ? ? ? ?]; try (destruct Hd1; fail). unfold adm_sentence in Ha. cbn [base_sentence] in Ha.
        apply existsb_exists in Ha as (x0 & Hx0 & E). apply String.eqb_eq in E.
        assert (Hh : In (atom_text n [x]) (all_def_heads s U)).
        { rewrite E. apply in_flat_map. exists (SDef subj label p body). split; [exact Hy|]. cbn [def_heads]. apply in_map_iff. exists x0.
          split; [reflexivity|apply (universe_incl s subj), Hx0]. }
        destruct (sep2 s Hsep _ Hh) as (Hnc & _). apply Hnc. now apply concept_atom_in.
  Qed.

  Lemma supported_concept_atom_d n x : declared s n -> In x U -> supported (ground s) I -> In (atom_text n [x]) I -> In x (dom_of s n).
  Proof.
    intros Hn Hx Hs Hin. destruct (Hs _ Hin) as (r & Hr & Hsup). unfold ground, compile in Hr. fold U in Hr. rewrite flat_map_app in Hr.
    apply in_app_or in Hr as [Hr|Hr].
    - rewrite flat_map_flat_map in Hr. apply in_flat_map in Hr as (c & Hc & Hr).
      assert (Hcn : In (c_name c) (concept_names s)) by (apply in_map_iff; eauto).
      assert (Hhead : exists v, In v (dom_terms (c_dom c)) /\ exists b, r = GRule (atom_text (c_name c) [v]) b).
      { unfold compile_concept, dom_terms in *. destruct (c_dom c) as [lo hi|vals].
        - cbn [flat_map ground_rule] in Hr. rewrite app_nil_r in Hr. apply in_map_iff in Hr as (z & <- & Hz).
          exists (Digits.show_Z z). split; [apply in_map_iff; eauto|]. eexists. reflexivity.
        - rewrite flat_map_map in Hr. apply in_flat_map in Hr as (v & Hv & Hr). cbn [ground_rule] in Hr. destruct Hr as [<-|[]].
          exists (term_of_token v). split; [apply in_map_iff; eauto|]. eexists. reflexivity. }
      destruct Hhead as (v & Hv & b & ->). cbn [supports] in Hsup. destruct Hsup as (E & _). symmetry in E.
      destruct (atom_text1_inj2 n (c_name c) x v (proj2 Hnames n Hn) (proj2 Hnames _ Hcn) E) as (-> & ->).
      now rewrite (dom_of_concept s c (proj1 Hnames) Hc).
    - exfalso. rewrite flat_map_flat_map in Hr. apply in_flat_map in Hr as (y & Hy & Hr).
      assert (Hnotc : forall a, In a (choice_heads s U y) -> a <> atom_text n [x]).
      { intros a Ha E. subst a. pose proof (sep1 s Hsep) as S1. unfold separated in S1. rewrite forallb_forall in S1.
        specialize (S1 y Hy). rewrite forallb_forall in S1. specialize (S1 _ Ha). apply negb_true_iff in S1.
        pose proof (concept_atom_in n x Hn Hx) as Hi. apply mem_string_In in Hi. exact (eq_true_false_abs _ Hi S1). }
      destruct (Hok y Hy) as [(Hc & Hnd)|Hd1].
      + destruct y as [c|? ? ? ?|required whenpart main wh|l vals y'|required neg v sv ov]; try (destruct Hnd; fail).
        * cbn [covered] in Hc. destruct Hc as (Hds & Hdo & _ & Hne & Hfe). destruct (ch_foreach c) as [e|] eqn:Efe.
          -- destruct Hfe as (Hde & Hes & Heo). rewrite (each_ground s U c e Efe Hne Hes Heo) in Hr.
             apply in_flat_map in Hr as (z & Hz & Hr). apply in_map_iff in Hr as (x0 & <- & Hx0). cbn [supports] in Hsup.
             destruct Hsup as (_ & cnd & Hel & _). apply in_map_iff in Hel as (y0 & E & Hy0). injection E as E _.
             revert E. apply Hnotc. cbn [choice_heads]. rewrite Efe.
             apply in_flat_map. exists z. split; [exact Hz|]. apply in_flat_map. exists x0. split; [exact Hx0|]. apply in_map_iff. eauto.
          -- rewrite (choice_ground s U c Efe Hne) in Hr. apply in_map_iff in Hr as (x0 & <- & Hx0). cbn [supports] in Hsup.
             destruct Hsup as (_ & cnd & Hel & _). apply in_map_iff in Hel as (y0 & E & Hy0). injection E as E _.
             revert E. apply Hnotc. cbn [choice_heads]. rewrite Efe.
             apply in_flat_map. exists x0. split; [exact Hx0|]. apply in_map_iff. eauto.
        * pose proof (cons_only_constraints s U required whenpart main wh r Hr) as Hk. destruct r; try destruct Hk. destruct Hsup.
        * destruct y' as [?|? ? ? ?|rq wp mn wh|? ? ?|? ? ? ? ?]; try (destruct Hnd; fail).
          destruct (oneof_rules_are_constraints s U l vals rq wp mn wh r Hr) as (b & ->). destruct Hsup.
        * pose proof (there_only_constraints s U required neg v sv ov r Hr) as Hk. destruct r; try destruct Hk. destruct Hsup.
      + destruct y as [?|subj label p body|? ? ? ?|? ? ?|? ? ? ? ?]; try (destruct Hd1; fail). destruct body as [|cl [|? ?]]; try (destruct Hd1; fail).
        destruct Hd1 as (-> & -> & Hne & Hds & Hdo). rewrite (def_ground s U cl p Hne) in Hr.
        apply in_flat_map in Hr as (x0 & Hx0 & Hr). apply in_map_iff in Hr as (y0 & <- & Hy0). cbn [supports] in Hsup. destruct Hsup as (E & _).
        assert (Hh : In (atom_text n [x]) (all_def_heads s U)).
        { rewrite <- E. apply in_flat_map. exists (SDef (cl_subj cl) (cl_slabel cl) p [cl]). split; [exact Hy|]. cbn [def_heads]. apply in_map_iff. eauto. }
        destruct (sep2 s Hsep _ Hh) as (Hnc & _). apply Hnc. now apply concept_atom_in.
  Qed.

  Lemma exact_from_reading_d : reading s I = true -> exact_domains s I.
  Proof.
    unfold reading. intros H. apply andb_true_iff in H as (H & _). apply andb_true_iff in H as (Hd & Ha).
    intros n Hn x Hx. apply eq_true_iff_eq. rewrite mem_string_In. split.
    - intros Hh. apply (admissible_concept_atom_d n x Hn Hx). rewrite forallb_forall in Ha. apply Ha. now apply holds_In.
    - intros Hin. now apply (domains_hold s I Hnames).
  Qed.

  Lemma exact_from_stable_d : stable (ground s) I -> exact_domains s I.
  Proof.
    intros Hst. apply stable_sc in Hst as (_ & Hc & Hs).
    assert (Hd : r_domains s I = true).
    { apply closedb_spec in Hc. unfold ground in Hc. rewrite program_closed in Hc. now apply andb_true_iff in Hc as (Hd & _). }
    intros n Hn x Hx. apply eq_true_iff_eq. rewrite mem_string_In. split.
    - intros Hh. apply (supported_concept_atom_d n x Hn Hx Hs). now apply holds_In.
    - intros Hin. now apply (domains_hold s I Hnames).
  Qed.

  Theorem stable_iff_reading_defs_all : preds_ok s -> (stable (ground s) I <-> reading s I = true).
  Proof.
    intros Hp. split.
    - intros Hst. apply (stable_iff_reading_defs s Hok Hsep I Hp (exact_from_stable_d Hst)). exact Hst.
    - intros Hr. apply (stable_iff_reading_defs s Hok Hsep I Hp (exact_from_reading_d Hr)). exact Hr.
  Qed.
End ExactDefs.
