(* C01 — the compiled program has exactly the models the specification describes.  (work in progress: see the level note)
   Asp/Ground.v: ground programs of the emitted class and their stable models; hierarchical_stable is the characterisation
   used for the core fragment.  Cnl/Core.v: the core fragment F0, its compile model (byte-exact on F0), grounding, and the reading. *)
Require Import Coq.Strings.String Coq.Lists.List Coq.Bool.Bool.
Require Import Cnl2aspV.Asp.Ground Cnl2aspV.Cnl.Core.
Import ListNotations.

(* for hierarchical ground programs (no predicate depends on itself): I is a stable model iff it satisfies the constraints and
   cardinality bounds, is closed under the rules and every atom of it is supported *)
Theorem C01_hierarchical_stable :
  forall (lvl : gatom -> nat) (P : list grule) (I : interp), hierarchical lvl P -> (stable P I <-> scb P I = true).
Proof. exact hierarchical_stable. Qed.
Print Assumptions C01_hierarchical_stable.
