"""C01 -- the compiled program has exactly the models the specification describes."""
import random

import common
import gen_core
import impl
import solve
from common import Report, coq_str, coq_list, coq_bool

PID = 'C01'
PRE = 'Require Import Cnl2aspV.Asp.Ground Cnl2aspV.Cnl.Core Cnl2aspV.Cnl.CoreCases.'


def predicates(spec):
    ps = set(c['name'] for c in spec['concepts'])
    for kind, s in spec['sentences']:
        if kind == 'choice':
            w, cop, prep = s['verb']
            ps.add((w[:-1] if w.endswith('s') else w) + ('_' + prep if prep else ''))
        elif kind == 'def':
            ps.add(s['newpred'])
    return ps


def n_candidates(spec):
    dom = {c['name']: (c['dom'][2] - c['dom'][1] + 1 if c['dom'][0] == 'range' else len(c['dom'][1])) for c in spec['concepts']}
    n = 0
    for kind, s in spec['sentences']:
        if kind == 'choice':
            n += dom[s['subj']] * dom[s['obj']] * (dom[s['foreach']] if s['foreach'] else 1)
        elif kind == 'def':
            n += dom[s['subj']]
    return n


def ground_size(spec):
    """estimated number of ground rule instances: |U|^(number of labels) per sentence"""
    u = len(set(v for c in spec['concepts'] for v in (range(c['dom'][1], c['dom'][2] + 1) if c['dom'][0] == 'range' else c['dom'][1])))
    n = 0
    for kind, s in spec['sentences']:
        if kind == 'choice':
            n += u ** (3 if s['foreach'] else 2)
        elif kind == 'there':
            n += 1
        else:
            cls = s['body'] if kind == 'def' else s['whenpart'] + s['main']
            labels = set()
            for c in cls:
                labels.add(c['slabel']); labels.add(c['olabel'])
            n += u ** len(labels) * (1 + len(cls)) * (len(s['oneof'][1]) if s.get('oneof') else 1) * (len(s['oneof2'][1]) if s.get('oneof2') else 1)
    return max(1, n)


def run(tier, seed):
    rep = Report(PID, tier, seed)
    rnd = random.Random(seed)
    import translate
    tie_ok, tout = translate.run(['tables'])
    proof = common.build_property(PID, extra=['Cnl/CoreCases.vo', 'Cnl/CoreScopeCases.vo'])
    n = 400 if tier == 'thorough' else 36
    specs = gen_core.directed()
    while len(specs) < n:
        s = gen_core.gen(rnd, max_dom=rnd.choice([1, 2, 2, 3]) if tier == 'thorough' else rnd.choice([1, 2, 2, 2]))
        specs.append(s)
    texts = [gen_core.render(s) for s in specs]
    res = impl.compile_many(texts)
    kcases, kmeta, mcases, mmeta = [], [], [], []
    st = dict(compared_exhaustively=0, answer_sets=0, candidates_total=0)
    dist = {}
    for s, t, r in zip(specs, texts, res):
        rep.case(t)
        for kind, _ in s['sentences']:
            dist[kind] = dist.get(kind, 0) + 1
        if r[0] != 'ok':
            rep.violation('a core-fragment specification is rejected', dict(text=t, result=r[:3]))
            continue
        term = gen_core.coq_spec(s)
        kcases.append('{| k_spec := %s; k_out := %s |}' % (term, coq_str(r[1])))
        kmeta.append(dict(text=t, program=r[1]))
        try:
            models = solve.answer_sets(r[1], limit=0, project=predicates(s))
        except solve.SolveError as e:
            rep.violation('clingo rejects the compiled program', dict(text=t, program=r[1], error=str(e)[:300]))
            continue
        nc = n_candidates(s)
        gsize = ground_size(s)
        budget = 3000000 if tier == 'thorough' else 150000
        exhaustive = nc <= 11 and (2 ** nc) * gsize <= budget and len(models) <= 3000
        cap = max(1, budget // max(1, gsize))
        if len(models) > cap:
            models = models[:cap]
        st['answer_sets'] += len(models)
        st['compared_exhaustively'] += 1 if exhaustive else 0
        st['candidates_total'] += nc
        mcases.append('{| m_spec := %s; m_models := %s; m_exhaustive := %s |}' % (
            term, coq_list([coq_list([coq_str(a) for a in sorted(m)]) for m in models]), coq_bool(exhaustive)))
        mmeta.append(dict(text=t, program=r[1], answer_sets=len(models), candidate_atoms=nc, exhaustive=exhaustive, first_answer_sets=[sorted(m) for m in models[:3]]))
    rep.evaluations += st['answer_sets']
    rep.sample(kmeta[0]); rep.sample(mmeta[len(mmeta) // 2])
    tie_broken = []
    if not tie_ok:
        tie_broken.append('translator failed closed: ' + tout[-400:])
    if proof['ok'] or proof['extra_ok']:
        kf = common.run_cases(PID, 'corr', PRE, kcases, 'kcase_ok', shard=40)
        out_scope = common.run_cases(PID, 'scope', PRE + ' Require Import Cnl2aspV.Cnl.CoreScopeCases.', kcases, 'kcase_in_scope', shard=40)
        st['specs_in_scope_of_answer_sets_theorem'] = len(kcases) - len(out_scope)
        out_scope_d = common.run_cases(PID, 'scoped', PRE + ' Require Import Cnl2aspV.Cnl.CoreScopeCases.', kcases, 'kcase_in_scope_defs', shard=40)
        st['specs_in_scope_of_answer_sets_theorem_with_definitions'] = len(kcases) - len(out_scope_d)
        sf = common.run_cases(PID, 'snd', PRE, mcases, 'models_sound', shard=5)
        gf = common.run_cases(PID, 'gsnd', PRE, mcases, 'models_sound_ground', shard=5)
        cf = common.run_cases(PID, 'cmp', PRE, mcases, 'models_complete', shard=1)
        for i in sf[:3]:
            rep.violation('an answer set of the compiled program is not a model of the reading of the sentences', mmeta[i])
        for i in [x for x in cf if x not in sf][:3]:
            rep.violation('the answer sets of the compiled program are not exactly the models of the reading (exhaustive comparison over all candidate interpretations)', mmeta[i])
        if kf:
            tie_broken.append('compile model text differs from the implementation on %d specifications, first: %r' % (len(kf), kmeta[kf[0]]))
        if gf and not sf:
            tie_broken.append('ground semantics (Asp/Ground.v) rejects %d answer sets clingo computed, first: %r' % (len(gf), mmeta[gf[0]]))
    if not proof['ok']:
        tie_broken.append('theorem file does not build: %s | %s' % (proof['failed_at'], proof['log'][-300:]))
    if proof['bad']:
        tie_broken.append('forbidden tokens: %r' % proof['bad'])
    if tie_broken and not rep.violations:
        rep.violation('proof obligation or correspondence no longer checks and no failing input was found: ' + ' | '.join(tie_broken),
                      dict(kind='broken-tie', theorem='Props/C01.v / compile-model correspondence', details=tie_broken,
                           first_differing_input=kmeta[kf[0]] if proof['ok'] and kf else None,
                           searched='%d specifications, %d answer sets, %d compared exhaustively' % (len(specs), st['answer_sets'], st['compared_exhaustively'])), no_input=True)
    elif tie_broken:
        rep.notes.extend(tie_broken)
    rep.cov.update(specifications=len(specs), sentence_kinds=dist, **st)
    rep.assumptions += ['clingo 5.8.2 enumerates all answer sets (projected on the specification\'s predicates)',
                        'Lark parses the rendered sentence as the structured specification (checked: the compile model predicts the program text byte for byte)']
    return rep.finish(proof, rule='random core-fragment specifications (2-3 concepts with range/enumeration domains of size 1-3, 1-2 choice sentences with every '
                                  'cardinality phrase, optional for-each, derived definitions, prohibited/required constraints with and-also / when-then / where); all answer sets; '
                                  'exhaustive comparison over all candidate interpretations when 2^candidates x estimated ground size fits the budget of the tier; distinct by text')
