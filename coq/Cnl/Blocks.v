(* C11: how the transformer groups sentences into Problems (parser.py: start, specification, PROBLEM_IDENTIFIER, after the
   repair recorded in KNOWN_FINDINGS.json) and how they are printed (asp_program.py, asp_encoding.py).
   Parametric in the sentence type and in the rules each sentence produces (rule texts, each ending in a newline). *)
Require Import Coq.Strings.String Coq.Strings.Ascii Coq.Lists.List Coq.Bool.Bool.
Require Import Cnl2aspV.Base.Util Cnl2aspV.Base.Str Cnl2aspV.Gen.Terminals Cnl2aspV.Asp.Print.
Import ListNotations.
Open Scope string_scope.

Definition header_name (h : string) : option string :=
  match sassoc h term_PROBLEM_IDENTIFIER with Some (TStr n) => Some n | _ => None end.

Lemma flat_map_map' {A B C} (f : B -> list C) (g : A -> B) l : flat_map f (map g l) = flat_map (fun x => f (g x)) l.
Proof. induction l as [|x r IH]; cbn; [reflexivity|now rewrite IH]. Qed.

Section Blocks.
  Variable S : Type.
  Variable rules_of : S -> list string.

  Record block := { b_header : option string; b_sentences : list S }.
  Record spec := { leading : list S; blocks : list block }.

  Definition rules_all (l : list S) : list string := flat_map rules_of l.

  (* a Problem: part name (None = the unnamed part) and its rule texts *)
  Definition problem := (option string * list string)%type.

  Definition block_problem (b : block) : problem :=
    (match b_header b with Some h => header_name h | None => None end, rules_all (b_sentences b)).

  (* the leading definitions share the first block's Problem unless that block has a header and they produced rules *)
  Definition problems (s : spec) : list problem :=
    match blocks s with
    | [] => [(None, rules_all (leading s))]
    | b :: r =>
        match b_header b, rules_all (leading s) with
        | Some _, (_ :: _) as lr => (None, lr) :: map block_problem (b :: r)
        | _, lr => (fst (block_problem b), lr ++ snd (block_problem b))%list :: map block_problem r
        end
    end ++ [(None, [])].          (* the empty Problem added by `start` *)

  Definition print_problem (p : problem) : string :=
    (match fst p with Some n => (match n with EmptyString => "" | _ => nl ++ "#program " ++ n ++ "." ++ nl end) | None => "" end) ++
    sconcat (snd p).

  (* ASPEncoding.__str__ without constants *)
  Definition print_spec (s : spec) : string := strip (sconcat (map print_problem (problems s))) ++ nl.

  Definition strip_headers (s : spec) : spec :=
    {| leading := leading s; blocks := map (fun b => {| b_header := None; b_sentences := b_sentences b |}) (blocks s) |}.

  Definition all_sentences (s : spec) : list S := (leading s ++ flat_map b_sentences (blocks s))%list.

  (* ------------------------------------------------------------------ theorems *)
  Lemma flat_map_rules l1 l2 : rules_all (l1 ++ l2) = (rules_all l1 ++ rules_all l2)%list.
  Proof. unfold rules_all. now rewrite flat_map_app. Qed.

  Lemma rules_all_flat (bs : list block) :
    flat_map (fun b => snd (block_problem b)) bs = rules_all (flat_map b_sentences bs).
  Proof.
    induction bs as [|b r IH]; [reflexivity|]. cbn [flat_map]. rewrite flat_map_rules, IH. reflexivity.
  Qed.

  (* rules appear in the order of the sentences that produced them, each exactly once *)
  Lemma block_rules_flat (bs : list block) :
    flat_map snd (map block_problem bs) = rules_all (flat_map b_sentences bs).
  Proof. rewrite flat_map_map'. apply rules_all_flat. Qed.

  Theorem order_preserved (s : spec) :
    flat_map snd (problems s) = rules_all (all_sentences s).
  Proof.
    unfold problems, all_sentences. rewrite flat_map_app. cbn [flat_map snd]. rewrite !app_nil_r.
    rewrite flat_map_rules.
    destruct (blocks s) as [|b r]; [cbn; now rewrite !app_nil_r|].
    destruct (b_header b); destruct (rules_all (leading s)) as [|x lr] eqn:E;
      cbn [flat_map snd fst map]; rewrite ?block_rules_flat; cbn [flat_map]; rewrite ?flat_map_rules;
      unfold block_problem; cbn [snd fst]; rewrite <- ?app_assoc; cbn [app]; reflexivity.
  Qed.

  (* part names, in order, are exactly the names of the headers *)
  Definition named_parts (s : spec) : list string := flat_map (fun p => match fst p with Some n => [n] | None => [] end) (problems s).
  Definition header_names (s : spec) : list string :=
    flat_map (fun b => match b_header b with Some h => match header_name h with Some n => [n] | None => [] end | None => [] end) (blocks s).

  Theorem parts_are_headers (s : spec) : named_parts s = header_names s.
  Proof.
    unfold named_parts, header_names, problems. rewrite flat_map_app. cbn [flat_map fst app]. rewrite app_nil_r.
    destruct (blocks s) as [|b r]; [reflexivity|].
    assert (G : forall l, flat_map (fun p : problem => match fst p with Some n => [n] | None => [] end) (map block_problem l) =
                          flat_map (fun b0 => match b_header b0 with Some h => match header_name h with Some n => [n] | None => [] end | None => [] end) l).
    { induction l as [|x l IH]; [reflexivity|]. cbn [map flat_map]. rewrite IH. unfold block_problem at 1. cbn [fst].
      destruct (b_header x) as [h|]; [destruct (header_name h)|]; reflexivity. }
    assert (H1 : flat_map (fun p : problem => match fst p with Some n => [n] | None => [] end)
                   ((fst (block_problem b), (rules_all (leading s) ++ snd (block_problem b))%list) :: map block_problem r)
                 = flat_map (fun b0 => match b_header b0 with Some h => match header_name h with Some n => [n] | None => [] end | None => [] end) (b :: r)).
    { cbn [flat_map fst]. rewrite G. unfold block_problem. cbn [fst]. destruct (b_header b) as [h|]; [destruct (header_name h)|]; reflexivity. }
    destruct (b_header b) as [h|] eqn:Eh; destruct (rules_all (leading s)) as [|x lr] eqn:El; first [exact H1 | cbn [flat_map fst app]; exact (G (b :: r))].
  Qed.

  (* deleting all headers leaves exactly the rules, in the same order, under no directive *)
  Theorem headers_erasable (s : spec) :
    flat_map snd (problems (strip_headers s)) = flat_map snd (problems s) /\ named_parts (strip_headers s) = [].
  Proof.
    split.
    - rewrite !order_preserved. unfold all_sentences, strip_headers. cbn [leading blocks]. f_equal. f_equal.
      rewrite flat_map_map'. reflexivity.
    - rewrite parts_are_headers. unfold header_names, strip_headers. cbn [blocks]. rewrite flat_map_map'. cbn [b_header].
      induction (blocks s); [reflexivity|assumption].
  Qed.
End Blocks.
