"""Serialise the ASP element tree built by the implementation (ASPEncoding and below) into a Coq term of Asp/Syntax.v."""
from common import coq_str, coq_bool, coq_list, coq_opt
import impl  # noqa
from cnl2asp.ASP_elements.asp_atom import ASPAtom
from cnl2asp.ASP_elements.asp_attribute import ASPAttribute, ASPValue
from cnl2asp.ASP_elements.asp_conjunction import ASPConjunction
from cnl2asp.ASP_elements.asp_aggregate import ASPAggregate
from cnl2asp.ASP_elements.asp_operation import ASPOperation, ASPAngleOperation, ASPTemporalOperation
from cnl2asp.ASP_elements.asp_temporal_formula import ASPTemporalFormula
from cnl2asp.ASP_elements.asp_rule import ASPRule, ASPWeakConstraint, ASPRuleHead


class Unserialisable(Exception):
    pass


class Ser:
    def __init__(self, norm=lambda s: s):
        self.norm = norm
        self.stats = dict(atoms=0, attrs=0, ops=0, aggs=0, tels=0, rules=0, weak=0, max_origin=0)

    def s(self, x):
        return coq_str(self.norm(str(x)))

    def origin(self, o):
        links = []
        while o is not None:
            nc = o.name
            links.append('{| on_name := %s; on_forms := %s |}' % (self.s(nc.name), coq_list([self.s(f) for f in nc.singular_and_plural_name])))
            o = o.origin
        self.stats['max_origin'] = max(self.stats['max_origin'], len(links))
        return coq_list(links)

    def attr(self, a):
        self.stats['attrs'] += 1
        return '{| a_name := %s; a_value := %s; a_origin := %s |}' % (self.s(a.name), self.s(a.get_value()), self.origin(a.origin))

    def atom(self, a):
        self.stats['atoms'] += 1
        return ('{| at_name := %s; at_attrs := %s; at_neg := %s; at_before := %s; at_after := %s; at_initial := %s; at_final := %s |}'
                % (self.s(a.name), coq_list([self.attr(x) for x in a.attributes]), coq_bool(bool(a.negated)), coq_bool(bool(a.is_before)),
                   coq_bool(bool(a.is_after)), coq_bool(bool(a.is_initial)), coq_bool(bool(a.is_final))))

    def elem(self, e):
        if isinstance(e, ASPAtom):
            return '(EAtom %s)' % self.atom(e)
        if isinstance(e, ASPTemporalFormula):
            self.stats['tels'] += 1
            return '(ETel %s %s)' % (coq_bool(bool(e.negated)), coq_list([self.elem(x) for x in e.operations]))
        if isinstance(e, ASPOperation):
            self.stats['ops'] += 1
            kind = 'KTemporal' if isinstance(e, ASPTemporalOperation) else 'KAngle' if isinstance(e, ASPAngleOperation) else 'KPlain'
            return '(EOp %s Op_%s %s %s)' % (kind, e.operator.name, coq_bool(bool(getattr(e, 'negated', False))), coq_list([self.elem(x) for x in e.operands]))
        if isinstance(e, ASPAggregate):
            self.stats['aggs'] += 1
            return '(EAgg Agg_%s %s %s)' % (e.operation.name, coq_list([self.elem(x) for x in e.discriminant]), coq_list(self.conj(e.body)))
        if isinstance(e, ASPAttribute):
            return '(EAttr %s)' % self.attr(e)
        if isinstance(e, ASPConjunction):
            raise Unserialisable('nested conjunction')
        if isinstance(e, str):
            return '(EVal %s)' % self.s(e)
        raise Unserialisable('element of type %s' % type(e).__name__)

    def conj(self, c):
        if c is None:
            return []
        out = []
        for x in c.conjunction:
            if isinstance(x, ASPConjunction):
                out += self.conj(x)
            elif isinstance(x, list):
                raise Unserialisable('list inside conjunction')
            else:
                out.append(self.elem(x))
        return out

    def head(self, h):
        if not isinstance(h, ASPRuleHead):
            raise Unserialisable('head of type %s' % type(h).__name__)
        return '{| h_atom := %s; h_cond := %s |}' % (self.atom(h.choice_element), coq_list(self.conj(h.condition)))

    def rule(self, r):
        body = coq_list(self.conj(r.body))
        if isinstance(r, ASPWeakConstraint):
            self.stats['weak'] += 1
            return '(RWeak %s %s %s %s)' % (body, self.s(r.weight), self.s(r.level), coq_list([self.attr(a) for a in r.discriminant]))
        if isinstance(r, ASPRule):
            self.stats['rules'] += 1
            card = None
            if r.cardinality:
                lo, hi = r.cardinality

                def b(x):
                    return 'None' if x is None else '(Some %s)' % self.s(x)
                card = '(%s, %s)' % (b(lo), b(hi))
            elif r.cardinality is not None:
                raise Unserialisable('falsy non-None cardinality %r' % (r.cardinality,))
            return '(RRule %s %s %s)' % (body, coq_list([self.head(h) for h in r.head]), coq_opt(card))
        raise Unserialisable('rule of type %s' % type(r).__name__)

    def encoding(self, enc):
        progs = []
        for p in enc._programs:
            progs.append('{| p_name := %s; p_rules := %s |}' % ('None' if p.name is None else '(Some %s)' % self.s(p.name),
                                                               coq_list([self.rule(r) for r in p._rules])))
        consts = coq_list(['(%s, %s)' % (self.s(c[0]), self.s(c[1] if c[1] is not None else '')) for c in enc._constants])
        return '{| e_consts := %s; e_programs := %s |}' % (consts, coq_list(progs))
