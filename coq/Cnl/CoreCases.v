Require Import Coq.Strings.String Coq.Lists.List Coq.Bool.Bool Coq.Arith.Arith.
Require Import Cnl2aspV.Base.Util Cnl2aspV.Asp.Ground Cnl2aspV.Cnl.Core.
Import ListNotations.
Open Scope string_scope.

(* byte-exact correspondence of the compile model *)
Record kcase := { k_spec : spec; k_out : string }.
Definition kcase_ok (c : kcase) : bool := String.eqb (print_program (compile (k_spec c))) (k_out c).

(* oracle: the answer sets clingo computes for the IMPLEMENTATION's program (projected on the specification's predicates) *)
Record mcase := { m_spec : spec; m_models : list (list string); m_exhaustive : bool }.

Fixpoint subset_b (a b : list string) : bool := match a with [] => true | x :: r => mem_string x b && subset_b r b end.
Definition set_eqb (a b : list string) : bool := subset_b a b && subset_b b a.

(* every answer set satisfies the reading, and the ground model agrees *)
Definition models_sound (c : mcase) : bool :=
  forallb (fun I => reading (m_spec c) I) (m_models c).
Definition models_sound_ground (c : mcase) : bool :=
  let G := ground (m_spec c) in forallb (fun I => scb G I) (m_models c).

(* candidate atoms: admissible instances of chosen relations and derived properties (the domain atoms are fixed) *)
Definition domain_atoms (s : spec) : list string :=
  flat_map (fun c => map (fun v => atom_text (c_name c) [v]) (dom_terms (c_dom c))) (concepts s).
Definition candidate_atoms (s : spec) : list string :=
  flat_map (fun x => match base_sentence x with
                     | SChoice c =>
                         let fes := match ch_foreach c with Some e => map (fun z => [z]) (dom_of s e) | None => [[]] end in
                         flat_map (fun fe => flat_map (fun x0 => map (fun y => atom_text (verb_pred (ch_verb c)) (fe ++ [x0; y])%list) (dom_of s (ch_obj c)))
                                                      (dom_of s (ch_subj c))) fes
                     | SDef subj _ newpred _ => map (fun x0 => atom_text newpred [x0]) (dom_of s subj)
                     | SCons _ _ _ _ => []
                     | SOneOf _ _ _ => []
                     | SThere _ _ _ _ _ => [] end) (sentences s).
Fixpoint powerset (l : list string) : list (list string) :=
  match l with [] => [[]] | x :: r => let p := powerset r in (p ++ map (cons x) p)%list end.

(* completeness (exhaustive over all candidate interpretations): reading, ground semantics and clingo agree on every subset *)
Definition models_complete (c : mcase) : bool :=
  if negb (m_exhaustive c) then true else
  let s := m_spec c in
  let G := ground s in
  let D := domain_atoms s in
  forallb (fun J => let I := (D ++ J)%list in
                    let in_clingo := existsb (set_eqb I) (m_models c) in
                    Bool.eqb (reading s I) in_clingo && Bool.eqb (scb G I) in_clingo)
          (powerset (candidate_atoms s)).
Definition n_candidates (c : mcase) : nat := length (candidate_atoms (m_spec c)).
