"""C09 -- documented paraphrases compile to the same program."""
import random
import re

import common
import impl
import stream
import translate
from common import Report

PID = 'C09'

# (name, regexp, replacement) : context-restricted so that the substitute is grammatical where the original was
SUBS = [
    ('equal to -> the same as', r'(?<=[A-Z0-9] is )equal to(?= )', 'the same as'),
    ('the same as -> equal to', r'(?<=[A-Z0-9] is )the same as(?= )', 'equal to'),
    ('more than -> greater than', r'(?<=[A-Z0-9] is )more than(?= )', 'greater than'),
    ('greater than -> more than', r'(?<=[A-Z0-9] is )greater than(?= (?!or ))', 'more than'),
    ('at least -> greater than or equal to', r'(?<=[A-Z0-9] is )at least(?= )', 'greater than or equal to'),
    ('greater than or equal to -> at least', r'(?<=[A-Z0-9] is )greater than or equal to(?= )', 'at least'),
    ('at most -> less than or equal to', r'(?<=[A-Z0-9] is )at most(?= )', 'less than or equal to'),
    ('less than or equal to -> not after', r'(?<=[A-Z0-9] is )less than or equal to(?= )', 'not after'),
    ('not after -> at most', r'(?<=[A-Z0-9] is )not after(?= )', 'at most'),
    ('highest -> biggest', r'\bthe highest\b', 'the biggest'), ('biggest -> highest', r'\bthe biggest\b', 'the highest'),
    ('lowest -> smallest', r'\bthe lowest\b', 'the smallest'), ('smallest -> lowest', r'\bthe smallest\b', 'the lowest'),
    ('every -> any', r'\bEvery\b', 'Any'), ('any -> every', r'\bAny\b', 'Every'), ('Every -> every', r'^Every\b', 'every'),
    ('goes from -> ranges from', r'\bgoes from\b', 'ranges from'), ('ranges from -> goes from', r'(?<![A-Z] )\branges from\b', 'goes from'),
    ('holds -> hold', r'\bholds\b', 'hold'), ('hold -> holds', r'\bhold\b', 'holds'),
    ('implies -> imply', r'\bimplies\b', 'imply'), ('imply -> implies', r'\bimply\b', 'implies'),
    ('triggers -> trigger', r'\btriggers\b', 'trigger'), ('trigger -> triggers', r'\btrigger\b', 'triggers'),
    ('a -> an', r'(?<=[Tt]here is )a (?=[a-z])', 'an '), ('an -> a', r'(?<=[Tt]here is )an (?=[a-z])', 'a '),
    ('drop article after there is', r'(?<=[Tt]here is )an? (?=[a-z]+ )', ''),
    ('A -> An (definition)', r'^A (?=[a-z]+ is identified)', 'An '),
    ('does not -> do not', r'\bdoes not\b', 'do not'), ('do not -> doesn\'t', r'\bdo not\b', "doesn't"), ('does not -> don\'t', r'\bdoes not\b', "don't"),
    ('is not -> is does not', None, None),   # placeholder, not applied
    ('Whenever -> whenever', r'^Whenever\b', 'whenever'), ('It is -> it is', r'^It is\b', 'it is'), ('There is -> there is', r'^There is\b', 'there is'),
    ('optional comma before whenever', r', whenever\b', ' whenever'),
    ('comma then newline', r', ', ',\n    '),
    ('trailing comment', r'\.$', '. // paraphrase comment'),
    ('block comment before sentence', r'^', '/* c */ '),
    ('double blank between sentence-initial words', r'^(It is|There is|Whenever there is|Every|Any)\b ', lambda m: m.group(0) + ' '),
    # comparison synonyms after a parameter name ("with age at least 70")
    ('parameter: greater than or equal to -> at least', r'(with [a-z]+ )greater than or equal to(?= )', r'\1at least'),
    ('parameter: at least -> greater than or equal to', r'(with [a-z]+ )at least(?= )', r'\1greater than or equal to'),
    ('parameter: less than or equal to -> at most', r'(with [a-z]+ )less than or equal to(?= )', r'\1at most'),
    ('parameter: at most -> not after', r'(with [a-z]+ )at most(?= \d)', r'\1not after'),
    ('parameter: more than -> greater than', r'(with [a-z]+ )more than(?= )', r'\1greater than'),
    ('parameter: greater than -> more than', r'(with [a-z]+ )greater than(?= (?!or ))', r'\1more than'),
    ('parameter: equal to -> the same as', r'(with [a-z]+ )equal to(?= [a-z0-9]+[ ,.])', r'\1the same as'),
    # articles after the verb to have
    ('drop article after has', r'(?<=\bhas )an? (?=[a-z]+ (to|in|of|for|with) )', ''), ('drop article after have', r'(?<=\bhave )an? (?=[a-z]+ (to|in|of|for|with) )', ''),
    ('a -> an after has', r'(?<=\bhas )a (?=[a-z]+ (to|in|of|for|with) )', 'an '), ('an -> a after have', r'(?<=\bhave )an (?=[a-z]+ (to|in|of|for|with) )', 'a '),
]
# kinds whose substitute is grammatical wherever the pattern matches: a REJECTED paraphrase of these kinds is a violation, too
SAFE = ('equal to ->', 'the same as ->', 'more than ->', 'greater than ->', 'at least ->', 'greater than or equal to ->', 'at most ->', 'less than or equal to ->',
        'not after ->', 'highest ->', 'biggest ->', 'lowest ->', 'smallest ->', 'every ->', 'any ->', 'goes from ->', 'ranges from ->', 'parameter:',
        'drop article after ha', 'a -> an after has', 'an -> a after have', 'plural of', 'block comment', 'trailing comment', 'double blank')


def concept_case_and_number(rnd, sentences):
    """paraphrases that need the declared concept names: capitalise / pluralise a concept noun inside non-declaration sentences"""
    import inflect
    eng = inflect.engine()
    concepts = []
    for s in sentences:
        m = re.match(r'^An? ([a-z]+) is identified', s)
        if m:
            concepts.append(m.group(1))
    out = []
    for c in concepts:
        out.append(('capitalise concept %s' % c, r'(?<=[a-z,] )%s(?= [A-Z]\b)' % c, c.capitalize()))
        pl = eng.plural(c)
        if pl and pl != c:
            out.append(('plural of %s after number of' % c, r'(?<=the number of )%s\b' % c, pl))
            out.append(('plural of %s after a cardinality' % c, r'((?:exactly|at most|at least|and) \d+ )%s\b' % c, r'\1' + pl))
    # third person of a declared verb: 'person P lives in city C' / 'person P live in city C' name the same relation
    for s in sentences:
        m = re.search(r'\b(?:can|must) (?!be\b)([a-z]+)\b', s)
        if m and not m.group(1).endswith('s') and m.group(1) not in ('have', 'be'):
            w = m.group(1)
            if ('verb person: %ss -> %s' % (w, w), ) not in [(x[0],) for x in out]:
                out.append(('verb person: %ss -> %s' % (w, w), r'(?<=[A-Za-z0-9] )%ss\b(?= )' % w, w))
                out.append(('verb person: %s -> %ss' % (w, w), r'(?<=[A-Z0-9] )%s\b(?= )' % w, w + 's'))
    return out


def apply_one(lines, idx, pat, rep):
    new = re.sub(pat, rep, lines[idx], count=1, flags=re.M)
    if new == lines[idx]:
        return None
    out = list(lines)
    out[idx] = new
    return out


def run(tier, seed):
    rep = Report(PID, tier, seed)
    rnd = random.Random(seed)
    tie_ok, tout = translate.run(['tables'])
    proof = common.build_property(PID)
    specs = stream.specs(tier, seed, n_quick=40, n_thorough=300)
    jobs = []      # (base index, paraphrase name, text)
    bases = []
    for name, text, sents in specs:
        lines = [l for l in text.split('\n')]
        decl_like = re.compile(r'is identified by|is a temporal concept|is a constant|is a set|is a list| contains ')
        subs = [s for s in SUBS if s[1]] + concept_case_and_number(rnd, lines)
        cands = []
        for i, l in enumerate(lines):
            if not l.strip() or l.strip().startswith('//'):
                continue
            for nm, pat, repl in subs:
                if decl_like.search(l) and not nm.startswith('A -> An'):
                    continue
                if re.search(pat, l, flags=re.M):
                    cands.append((i, nm, pat, repl))
        if not cands:
            continue
        bi = len(bases)
        bases.append((name, text))
        k = 16 if tier == 'thorough' else 6
        chosen = cands if name.startswith('regressions/c09_') else rnd.sample(cands, min(k, len(cands)))
        for (i, nm, pat, repl) in chosen:
            nl = apply_one(lines, i, pat, repl)
            if nl:
                jobs.append((bi, nm, '\n'.join(nl)))
        # a multiple substitution
        ml = list(lines)
        names = []
        for (i, nm, pat, repl) in rnd.sample(cands, min(4, len(cands))):
            r2 = apply_one(ml, i, pat, repl)
            if r2:
                ml = r2
                names.append(nm)
        if names:
            jobs.append((bi, ' + '.join(names), '\n'.join(ml)))
    base_res = impl.compile_many([t for _, t in bases])
    par_res = impl.compile_many([j[2] for j in jobs])
    applied = {}
    inapplicable = 0
    for (bi, nm, text), r in zip(jobs, par_res):
        b = base_res[bi]
        if b[0] != 'ok':
            continue
        rep.case((bi, nm, text))
        key = nm.split(' + ')[0] if ' + ' in nm else nm
        if r[0] != 'ok':
            applied.setdefault(key + ' [rejected]', 0)
            applied[key + ' [rejected]'] += 1
            if ' + ' not in nm and nm.startswith(SAFE):
                rep.violation('the paraphrase "%s" is rejected although the original compiles' % nm,
                              dict(text=bases[bi][1], paraphrase=text, substitution=nm, program=b[1], paraphrase_result=[str(x) for x in r[:3]]))
            else:
                inapplicable += 1      # the substitute may be ungrammatical at that place: counted, not scored
            continue
        applied[key] = applied.get(key, 0) + 1
        if r[1] != b[1]:
            rep.violation('the paraphrase "%s" changes the compiled program' % nm,
                          dict(text=bases[bi][1], paraphrase=text, substitution=nm, program=b[1], paraphrase_program=r[1]))
    if jobs:
        rep.sample(dict(substitution=jobs[0][1], paraphrase=jobs[0][2][-400:]))
        rep.sample(dict(substitution=jobs[-1][1], paraphrase=jobs[-1][2][-400:]))
    tie_broken = []
    if not tie_ok:
        tie_broken.append('translator failed closed: ' + tout[-600:])
    if not proof['ok']:
        tie_broken.append('theorem file does not build (two documented synonyms no longer map to the same operator, or a filtered terminal changed): %s | %s'
                          % (proof['failed_at'], proof['log'][-300:]))
    if proof['bad']:
        tie_broken.append('forbidden tokens: %r' % proof['bad'])
    if tie_broken and not rep.violations:
        rep.violation('proof obligation no longer checks and no failing input was found: ' + ' | '.join(tie_broken),
                      dict(kind='broken-tie', theorem='Props/C09.v: C09_synonym_terminals / C09_filtered_alternatives', details=tie_broken,
                           searched='%d paraphrases of %d specifications' % (len(jobs), len(bases))), no_input=True)
    elif tie_broken:
        rep.notes.extend(tie_broken)
    rep.cov.update(base_specifications=len(bases), paraphrases=len(jobs), paraphrases_rejected_unscored=inapplicable, substitutions=applied)
    rep.assumptions += ['substitutions are applied only in contexts where the grammar admits the variant; a paraphrase the compiler rejects is counted, not scored']
    return rep.finish(proof, rule='corpus + wide generator x single substitutions (synonym keywords, articles, every/any, goes/ranges from, hold(s), imply/implies, '
                                  'trigger(s), negation auxiliaries, letter case of keywords and concept names, plural nouns, optional commas, line breaks, comments) and one '
                                  'random multiple substitution per specification; distinct by (specification, substitution, text)')
