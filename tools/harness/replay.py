"""./check replay <file>: re-run the input of a replay file on the implementation and show the result."""
import json
import impl


def main(path):
    r = json.load(open(path))
    print('property:', r.get('property'), '|', r.get('what'))
    text = r.get('text')
    if text:
        print('--- input'); print(text); print('--- implementation now gives'); print(impl.compile_text(text))
    else:
        print(json.dumps(r, indent=1)[:4000])
    return 0
