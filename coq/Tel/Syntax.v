(* telingo formulas as the converter builds them (ASPTemporalOperation trees over atoms and constants),
   their printing (asp_operation.py: ASPTemporalOperation.__str__ / temporal_formula_string, ASPOperation.__str__;
   asp_atom.py: ASPAtom.__str__; asp_temporal_formula.py) and their meaning through the GENERATED symbol table. *)
Require Import Coq.Strings.String Coq.Strings.Ascii Coq.Lists.List Coq.Bool.Bool Coq.Arith.Arith.
Require Import Cnl2aspV.Base.Util Cnl2aspV.Base.Str Cnl2aspV.Gen.Operators Cnl2aspV.Gen.Tables Cnl2aspV.Tel.Sem.
Import ListNotations.
Open Scope string_scope.

Inductive aprime := PPlain | PBefore | PAfter | PInitial | PFinal.   (* is_before 'p ; is_after p' ; is_initial _p ; is_final __p *)

Inductive tform :=
| FAtom (neg : bool) (pr : aprime) (a : string)   (* a = printed atom without decoration, e.g. p(1); neg: ASPAtom.negated *)
| FConst (c : string)                       (* &initial &final &true &false (a ValueComponent, printed as is) *)
| FUn (op : operator) (f : tform)
| FBin (op : operator) (f g : tform).

Definition tsym (op : operator) : option string := assoc operator_eqb op asp_temporal_operators.

(* ASPAtom.__str__ (default printing mode, not negated) *)
Definition print_atom (pr : aprime) (a : string) : string :=
  match pr with
  | PPlain => a | PBefore => "'" ++ a | PAfter =>
      (* name' ( args ) : the prime goes after the predicate name *)
      a (* placeholder, refined by print_atom_after below *)
  | PInitial => "_" ++ a | PFinal => "__" ++ a end.

(* insert the trailing prime after the predicate name: name'(args) *)
Fixpoint insert_prime (s : string) : string :=
  match s with
  | EmptyString => "'"
  | String c r => if Ascii.eqb c "("%char then String "'"%char s else String c (insert_prime r)
  end.

Definition print_atom' (pr : aprime) (a : string) : string :=
  match pr with PAfter => insert_prime a | _ => print_atom pr a end.

Definition is_op (f : tform) : bool := match f with FUn _ _ | FBin _ _ _ => true | _ => false end.
Definition is_unary_op (f : tform) : bool := match f with FUn _ _ => true | _ => false end.

Definition osym (op : operator) : string := match tsym op with Some s => s | None => "None" end.

(* __str__ of an operand nested below the top level *)
Fixpoint print_inner (f : tform) : string :=
  match f with
  | FAtom n pr a => (if n then "not " else "") ++ print_atom' pr a
  | FConst c => c
  | FUn op g =>
      osym op ++ " " ++ (if negb (is_op g) || is_unary_op g then print_inner g else "(" ++ print_inner g ++ ")")
  | FBin op g h =>
      (if is_op g then "(" ++ print_inner g ++ ")" else print_inner g) ++ " " ++ osym op ++ " " ++
      (if is_op h then "(" ++ print_inner h ++ ")" else print_inner h)
  end.

(* the '_' -> '<< ' / '__' -> '>> ' rewriting of temporal_formula_string, applied to the printed operand *)
Definition rewrite_init (s : string) : string :=
  if prefix_b "__" s then ">> " ++ drop 2 s
  else if prefix_b "_" s then "<< " ++ drop 1 s else s.

Definition top_operand (f : tform) : string :=
  let s := rewrite_init (print_inner f) in if is_op f then "(" ++ s ++ ")" else s.

(* temporal_formula_string of the top-level operation *)
Definition print_top (f : tform) : string :=
  match f with
  | FBin op g h => top_operand g ++ " " ++ osym op ++ " " ++ top_operand h
  | FUn op g => osym op ++ " " ++ top_operand g
  | _ => print_inner f      (* not reachable: a formula is always an operation *)
  end.

(* ASPTemporalFormula.__str__ *)
Definition print_tel (negated : bool) (f : tform) : string :=
  (if negated then "not " else "") ++ "&tel {" ++ print_top f ++ "}".

(* ---------- meaning of the printed text: what telingo reads ---------- *)
(* The text of an atom below the top level is read by telingo as an atom of that printed name: a leading
   underscore there is NOT 'initially' (only the top-level rewriting produces << / >>). *)
Inductive ctx := Top | Inner.

Definition sem_un (lam : nat) (sym : string) (F : sig) : option sig :=
  if String.eqb sym "~" then Some (s_not F)
  else if String.eqb sym "<" then Some (s_prev F)
  else if String.eqb sym "<:" then Some (s_wprev F)
  else if String.eqb sym "<?" then Some (s_ev_before F)
  else if String.eqb sym "<*" then Some (s_alw_before F)
  else if String.eqb sym ">" then Some (s_next lam F)
  else if String.eqb sym ">:" then Some (s_wnext lam F)
  else if String.eqb sym ">?" then Some (s_ev_after lam F)
  else if String.eqb sym ">*" then Some (s_alw_after lam F)
  else None.

Definition sem_bin (lam : nat) (sym : string) (F G : sig) : option sig :=
  if String.eqb sym "&" then Some (s_and F G)
  else if String.eqb sym "|" then Some (s_or F G)
  else if String.eqb sym "<-" then Some (s_impl G F)        (* F <- G  is  G -> F *)
  else if String.eqb sym "->" then Some (s_impl F G)
  else if String.eqb sym "<>" then Some (s_equiv F G)
  else if String.eqb sym "<?" then Some (s_since F G)
  else if String.eqb sym "<*" then Some (s_trigger F G)
  else if String.eqb sym "<;" then Some (s_precede F G)
  else if String.eqb sym "<:;" then Some (s_wprecede F G)
  else if String.eqb sym ">?" then Some (s_until lam F G)
  else if String.eqb sym ">*" then Some (s_release lam F G)
  else if String.eqb sym ";>" then Some (s_follow lam F G)
  else if String.eqb sym ";>:" then Some (s_wfollow lam F G)
  else None.

Definition sem_const (lam : nat) (c : string) : option sig :=
  if String.eqb c "&true" then Some s_true else if String.eqb c "&false" then Some s_false
  else if String.eqb c "&initial" then Some s_initial else if String.eqb c "&final" then Some (s_final lam) else None.

(* None = telingo rejects the text (primes inside &tel) *)
Definition sem_atom (tr : trace) (c : ctx) (pr : aprime) (a : string) : option sig :=
  match pr, c with
  | PPlain, _ => Some (atom_at tr a)
  | PInitial, Top => Some (s_at_first (atom_at tr a))
  | PFinal, Top => Some (s_at_last (length tr) (atom_at tr a))
  | PInitial, Inner => Some (atom_at tr ("_" ++ a))      (* a different, never-derived predicate *)
  | PFinal, Inner => Some (atom_at tr ("__" ++ a))
  | PBefore, _ | PAfter, _ => None
  end.

Definition sem_natom (tr : trace) (c : ctx) (n : bool) (pr : aprime) (a : string) : option sig :=
  match sem_atom tr c pr a with
  | Some A => Some (if n then s_not A else A)       (* 'not a' inside &tel is read by telingo as default negation of a *)
  | None => None end.

Fixpoint tsat_in (tr : trace) (c : ctx) (f : tform) : option sig :=
  let lam := length tr in
  match f with
  | FAtom n pr a => sem_natom tr c n pr a
  | FConst k => sem_const lam k
  | FUn op g => match tsym op, tsat_in tr Inner g with
                | Some s, Some G => sem_un lam s G | _, _ => None end
  | FBin op g h => match tsym op, tsat_in tr Inner g, tsat_in tr Inner h with
                   | Some s, Some G, Some H => sem_bin lam s G H | _, _, _ => None end
  end.

(* A top-level operand is printed by str() and the result is rewritten when it STARTS with '_' / '__':
   an atom operand, or the leftmost atom of a binary operand whose left child is an atom (printed without parenthesis). *)
Definition tsat_operand (tr : trace) (f : tform) : option sig :=
  let lam := length tr in
  match f with
  | FAtom _ _ _ | FConst _ => tsat_in tr Top f
  | FBin op (FAtom n pr a) h =>
      match tsym op, (if n then tsat_in tr Inner (FAtom n pr a) else tsat_in tr Top (FAtom n pr a)), tsat_in tr Inner h with
      | Some s, Some G, Some H => sem_bin lam s G H | _, _, _ => None end
  | _ => tsat_in tr Inner f
  end.

Definition tsat (tr : trace) (f : tform) : option sig :=
  let lam := length tr in
  match f with
  | FUn op g => match tsym op, tsat_operand tr g with
                | Some s, Some G => sem_un lam s G | _, _ => None end
  | FBin op g h => match tsym op, tsat_operand tr g, tsat_operand tr h with
                   | Some s, Some G, Some H => sem_bin lam s G H | _, _, _ => None end
  | _ => tsat_in tr Top f
  end.
