Require Import Coq.Strings.String Coq.Lists.List Coq.Bool.Bool.
Require Import Cnl2aspV.Asp.Syntax Cnl2aspV.Explain.Explain.
Import ListNotations.
Record xcase := { xc_sig : signature; xc_args : list string; xc_out : string }.
Definition xcase_ok (c : xcase) : bool :=
  match sentence_of (xc_sig c) (xc_args c) with Sentence s => String.eqb s (xc_out c) | NotModelled => true end.
Definition xcase_modelled (c : xcase) : bool := match sentence_of (xc_sig c) (xc_args c) with Sentence _ => true | NotModelled => false end.

(* scope of C15_fact_sentence_closed_form_partial / C15_distinct_atoms_distinct_sentences_partial on the observed atoms, and the
   closed form itself against the implementation's sentence *)
Require Import Cnl2aspV.Asp.Print.
Open Scope string_scope.
Definition xcase_fact_scope (c : xcase) : bool :=
  let sg := xc_sig c in
  match sg_subjects sg, sg_verb sg, sg_objects sg with
  | [], None, [] =>
      let attrs := xe_all (parse_symbol (sg_entity sg) (xc_args c)) in
      name_ok (on_name (xe_name (sg_entity sg))) && negb (match attrs with [] => true | _ => false end) &&
      forallb (fun a => value_ok (x_value a)) attrs
  | _, _, _ => false end.
Definition xcase_closed_form_ok (c : xcase) : bool :=
  if xcase_fact_scope c then
    let e := sg_entity (xc_sig c) in
    String.eqb (xc_out c) ("There is " ++ replace_underscore (on_name (xe_name e)) ++ " " ++
                           fact_body (on_name (xe_name e)) (xe_all (parse_symbol e (xc_args c))) ++ ".")
  else true.
