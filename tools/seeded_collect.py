#!/venv/bin/python
"""Collect confirmed seeded changes into /verif/seeded/<id>-mN/ and write seeded/RESULTS.md.

  tools/seeded_collect.py <tests_results.txt>[,<tests_results of round 2>[,<round 3>]] <run-log.jsonl> [<run-log.jsonl> ...]

changes whose directory lies under .../wt2/ (.../wt3/) belong to round 2 (3) and are stored as <id>-r2-mN (<id>-r3-mN).

run logs are the stdout of tools/seeded_run.py (one JSON object per line); a later log overrides an earlier one for the same
change.  tests_results.txt has lines '<id> mN <pytest summary line>'."""
import json
import os
import re
import shutil
import sys

VERIF = os.path.dirname(os.path.dirname(os.path.abspath(__file__)))


def main():
    tests_files, logs = sys.argv[1].split(','), sys.argv[2:]
    tests = {}
    for k, tests_file in enumerate(tests_files):
        for l in open(tests_file):
            p = l.split(None, 2)
            if len(p) == 3:
                tests[(p[0], ('r%d-' % (k + 1) if k else '') + p[1])] = p[2].strip()
    res = {}
    for lg in logs:
        for l in open(lg):
            if not l.startswith('{'):
                continue
            r = json.loads(l)
            res[(r['property'], ('r2-' if '/wt2/' in r['dir'] else 'r3-' if '/wt3/' in r['dir'] else '') + os.path.basename(r['dir']))] = r
    out = os.path.join(VERIF, 'seeded')
    os.makedirs(out, exist_ok=True)
    rows = []
    for (pid, m), r in sorted(res.items()):
        src = r['dir']
        if not os.path.isdir(src):
            continue
        meta = json.load(open(os.path.join(src, 'meta.json')))
        t = tests.get((pid, m), '')
        confirmed = bool(r.get('applies')) and r.get('demo_pristine_exit') == 0 and r.get('demo_mutated_exit') == 1 and '87 passed' in t
        dst = os.path.join(out, '%s-%s' % (pid, m))
        if confirmed:
            os.makedirs(dst, exist_ok=True)
            for f in ('patch.diff', 'demo.py'):
                shutil.copy(os.path.join(src, f), os.path.join(dst, f))
            meta['confirmation'] = dict(patch_applies=True, demo_exit_pristine=0, demo_exit_with_patch=1, test_suite_with_patch=t)
            first = next((x for x in r.get('check_lines', []) if x.startswith('VIOLATION')), None)
            meta['check'] = dict(command='./check %s --tier quick' % pid, exit=r.get('check_exit'), caught=bool(r.get('caught')),
                                 with_failing_input=bool(r.get('with_input')), wall_s=r.get('check_wall'),
                                 first_violation=(r.get('first_replay_what') or '')[:400],
                                 first_line=re.sub(r'replay=\S*/replays/', 'replay=replays/', first) if first else None)
            json.dump(meta, open(os.path.join(dst, 'meta.json'), 'w'), indent=1)
        rows.append((pid, m, meta.get('title', ''), ', '.join(meta.get('files', []))[:80], confirmed, r))
    lines = ['# Seeded changes and the checks that catch them', '',
             'Produced by sub-agents (three rounds; r2, r3 = later rounds with fresh agents on the then current tree) that saw only the property text and a scratch clone; confirmed here (patch applies, demo exits 0 on the pristine',
             'tree and 1 with the patch, 87 tests pass with the patch); run with `tools/seeded_run.py` against `./check <id> --tier quick`.', '',
             '| change | what was changed | confirmed | caught by the quick check | with a failing input | first violation reported |',
             '|---|---|---|---|---|---|']
    n_c = n_caught = n_input = 0
    for pid, m, title, files, confirmed, r in rows:
        if confirmed:
            n_c += 1
            n_caught += 1 if r.get('caught') else 0
            n_input += 1 if r.get('with_input') else 0
        lines.append('| %s-%s | %s (%s) | %s | %s | %s | %s |' % (
            pid, m, title.replace('|', '/'), files, 'yes' if confirmed else 'NO (dropped)', 'yes' if r.get('caught') else 'no',
            'yes' if r.get('with_input') else 'no', (r.get('first_replay_what') or '').replace('|', '/').replace('\n', ' ')[:160]))
    lines += ['', '%d confirmed changes; %d caught by the property\'s quick check, %d of them with a concrete failing input.' % (n_c, n_caught, n_input), '']
    open(os.path.join(out, 'RESULTS.md'), 'w').write('\n'.join(lines))
    print('\n'.join(lines[-2:]))


if __name__ == '__main__':
    main()
