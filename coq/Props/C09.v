(* C09 — documented paraphrases compile to the same program (table and name-function part).
   The terminal tables are tabulated by executing the transformer callbacks of /repo on every alternative of the grammar's
   terminals (Gen/Terminals.v); a change that separates two synonyms breaks a conjunct below.  Token filtering, %ignore,
   case-insensitive literals and ambiguity resolution are Lark's: they are exercised by the paraphrase oracle, not proved. *)
Require Import Coq.Strings.String Coq.Strings.Ascii Coq.Lists.List Coq.Bool.Bool.
Require Import Cnl2aspV.Base.Util Cnl2aspV.Base.Str Cnl2aspV.Gen.Operators Cnl2aspV.Gen.Terminals Cnl2aspV.Cnl.Names.
Import ListNotations.
Open Scope string_scope.

Definition same (tab : list (string * tval)) (a b : string) : Prop :=
  exists v, sassoc a tab = Some v /\ sassoc b tab = Some v.

Theorem C09_synonym_terminals :
  same term_COMPARISON_OPERATOR "the same as" "equal to" /\
  same term_COMPARISON_OPERATOR "more than" "greater than" /\
  same term_COMPARISON_OPERATOR "at least" "greater than or equal to" /\
  same term_COMPARISON_OPERATOR "at most" "less than or equal to" /\
  same term_COMPARISON_OPERATOR "not after" "less than or equal to" /\
  same term_AGGREGATE_OPERATOR "the highest" "the biggest" /\
  same term_AGGREGATE_OPERATOR "the lowest" "the smallest" /\
  same term_TELINGO_DUAL_OPERATOR "imply" "implies" /\
  same term_TELINGO_DUAL_OPERATOR "trigger" "triggers" /\
  same term_TEMPORAL_TYPE "minute" "minutes" /\ same term_TEMPORAL_TYPE "day" "days" /\ same term_TEMPORAL_TYPE "step" "steps" /\
  (forall n, In n (map fst term_VERB_NEGATION) -> sassoc n term_VERB_NEGATION = Some (TBool true)).
Proof.
  repeat split; try (eexists; split; vm_compute; reflexivity).
  intros n Hn. cbn in Hn. repeat (destruct Hn as [<-|Hn]; [vm_compute; reflexivity|]). contradiction.
Qed.
Print Assumptions C09_synonym_terminals.

(* alternatives that never reach a callback: every / any, a / an, hold / holds, goes / ranges are terminals whose name starts
   with '_' (filtered by Lark), or sit in a rule whose callback discards its result / ignores that child *)
Theorem C09_filtered_alternatives :
  map fst gram_QUANTIFIER = ["every"; "any"] /\ map fst gram_CNL_INDEFINITE_ARTICLE = ["a"; "an"] /\
  map fst gram_CNL_HOLD = ["hold"; "holds"] /\ map fst gram_CNL_GOES = ["goes"] /\ map fst gram_CNL_RANGES = ["ranges"] /\
  discards_cnl_goes_from = true /\
  (* the only keep-all-tokens rule that mentions the quantifier reads children 1 and 2 only (entity, can/must) *)
  (In "quantified_choice_proposition" keep_all_token_rules -> quantified_choice_children_used = [1; 2]%nat).
Proof. vm_compute. repeat split; auto. Qed.
Print Assumptions C09_filtered_alternatives.

Theorem C09_names :
  (forall n, concept_key (upper n) = concept_key n /\ concept_key (lower n) = concept_key n) /\
  (forall h v p, ends_with_char v "s"%char = false -> verb_key h (v ++ "s") p = verb_key h v p).
Proof. split; [exact concept_key_case_insensitive | exact verb_key_third_person]. Qed.
Print Assumptions C09_names.
