(* Core fragment, a derived definition over one quantified clause ("A c X is <p> when c X [does not] <verb> d Y."): the ground
   rules of the compiled rule are closed in I and support every p-atom of I exactly when the reading of the sentence holds
   (p holds of precisely the subjects for which some object makes the clause true). *)
Require Import Coq.Strings.String Coq.Lists.List Coq.Bool.Bool Coq.ZArith.ZArith Coq.Arith.Arith Lia.
Require Import Cnl2aspV.Base.Util Cnl2aspV.Base.Str Cnl2aspV.Asp.Ground Cnl2aspV.Cnl.Core Cnl2aspV.Cnl.CoreProofs.
Import ListNotations.
Open Scope string_scope.

(* closed under the normal rules of G; a is supported by a rule of G *)
Definition closedb (I : interp) (G : list grule) : bool :=
  forallb (fun r => match r with GRule h b => negb (body_true I b) || holds I h | _ => true end) G.
Definition supported_atom (I : interp) (G : list grule) (a : gatom) : bool := existsb (supportsb I a) G.

Lemma closedb_spec I G : closedb I G = true <-> closed G I.
Proof.
  unfold closedb, closed. rewrite forallb_forall. split.
  - intros H h b Hin Hb. specialize (H _ Hin). cbn in H. rewrite Hb in H. cbn in H. now apply holds_In.
  - intros H r Hr. destruct r as [h b| |]; [|reflexivity|reflexivity]. destruct (body_true I b) eqn:Eb; [|reflexivity].
    cbn. apply holds_In. now apply (H h b).
Qed.
Lemma supported_atom_spec I G a : supported_atom I G a = true <-> exists r, In r G /\ supports I a r.
Proof.
  unfold supported_atom. rewrite existsb_exists. split; intros (r & Hr & Hs); exists r; (split; [exact Hr|]); now apply supportsb_spec.
Qed.

Lemma flat_map_flat_map {A B C} (f : B -> list C) (g : A -> list B) l :
  flat_map f (flat_map g l) = flat_map (fun a => flat_map f (g a)) l.
Proof. induction l as [|a l IH]; cbn [flat_map]; [reflexivity|]. now rewrite flat_map_app, IH. Qed.
Lemma flat_map_map {A B C} (f : B -> list C) (g : A -> B) l : flat_map f (map g l) = flat_map (fun a => f (g a)) l.
Proof. induction l as [|a l IH]; cbn [flat_map map]; [reflexivity|]. now rewrite IH. Qed.
Lemma flat_map_ext' {A B} (f g : A -> list B) l : (forall a, f a = g a) -> flat_map f l = flat_map g l.
Proof. intros H. induction l as [|a l IH]; cbn [flat_map]; [reflexivity|]. now rewrite H, IH. Qed.
Lemma flat_map_singleton {A B} (f : A -> B) l : flat_map (fun a => [f a]) l = map f l.
Proof. induction l as [|a l IH]; cbn; [reflexivity|]. now rewrite IH. Qed.

(* the text of a one-argument atom determines the argument *)
Lemma append_inj_l (p x y : string) : (p ++ x = p ++ y)%string -> x = y.
Proof. induction p as [|c r IH]; cbn; [auto|]. intros H. injection H as H. auto. Qed.
Lemma length_append (a b : string) : String.length (a ++ b) = String.length a + String.length b.
Proof. induction a as [|c r IH]; cbn; [reflexivity|now rewrite IH]. Qed.
Lemma append_inj_r (t x : string) : forall y, (x ++ t = y ++ t)%string -> x = y.
Proof.
  induction x as [|c r IH]; intros [|d u] H; cbn in H.
  - reflexivity.
  - exfalso. apply (f_equal String.length) in H. cbn in H. rewrite length_append in H. lia.
  - exfalso. apply (f_equal String.length) in H. cbn in H. rewrite length_append in H. lia.
  - injection H as -> H. f_equal. auto.
Qed.
Lemma atom_text1_inj p x y : atom_text p [x] = atom_text p [y] -> x = y.
Proof.
  unfold atom_text. cbn [join]. intros H. apply append_inj_l in H. cbn [append] in H. injection H as H.
  now apply append_inj_r in H.
Qed.

Lemma lookup_first (a b x y : string) : lookup [(a, x); (b, y)] a = x.
Proof. unfold lookup, sassoc. cbn [assoc]. now rewrite String.eqb_refl. Qed.
Lemma lookup_second (a b x y : string) : a <> b -> lookup [(a, x); (b, y)] b = y.
Proof.
  intros H. unfold lookup, sassoc. cbn [assoc]. assert (E : String.eqb b a = false) by (apply String.eqb_neq; congruence).
  now rewrite E, String.eqb_refl.
Qed.

Section OneDef.
  Variables (s : spec) (U : list string) (I : interp) (cl : clause) (newpred : string).
  Let sl := cl_slabel cl.
  Let ol := cl_olabel cl.
  Let S := cl_subj cl.
  Let O := cl_obj cl.
  Hypothesis Hne : sl <> ol.

  Let V (x y : string) : gatom := atom_text (verb_pred (cl_verb cl)) [x; y].
  Definition def_body (x y : string) : gbody :=
    if cl_neg cl then {| b_pos := [atom_text S [x]; atom_text O [y]]; b_neg := [V x y] |}
    else {| b_pos := [atom_text S [x]; V x y; atom_text O [y]]; b_neg := [] |}.
  Definition vlit (x y : string) : bool := xorb (cl_neg cl) (holds I (V x y)).

  Let the_def := SDef S sl newpred [cl].

  (* the ground instances: one rule per pair of universe values *)
  Lemma def_ground :
    flat_map (ground_rule U) (compile_sentence s the_def) =
    flat_map (fun x => map (fun y => GRule (atom_text newpred [x]) (def_body x y)) U) U.
  Proof.
    unfold the_def. cbn [compile_sentence flat_map app clause_lits]. rewrite !app_nil_r. fold sl ol S O.
    assert (Hso : String.eqb sl ol = false) by now apply String.eqb_neq.
    assert (Hos : String.eqb ol sl = false) by (apply String.eqb_neq; congruence).
    set (va := {| na_pred := verb_pred (cl_verb cl); na_args := [TVar sl; TVar ol] |}).
    cbn [xorb]. rewrite xorb_false_r.
    assert (Hd : dedup_keep_last [BPos (atom1 S sl); if cl_neg cl then BNeg va else BPos va; BPos (atom1 O ol)] =
                 [BPos (atom1 S sl); if cl_neg cl then BNeg va else BPos va; BPos (atom1 O ol)]).
    { destruct (cl_neg cl); subst va; unfold atom1;
        cbn [dedup_keep_last existsb lit_same_atom]; unfold natom_eqb; cbn [na_pred na_args terms_eqb term_eqb];
        rewrite ?Hso, ?andb_false_r; cbn [orb andb]; rewrite ?andb_false_r; reflexivity. }
    rewrite Hd. clear Hd. cbn [ground_rule].
    assert (Hv : vars_of_atom (atom1 newpred sl) (vars_of_body [BPos (atom1 S sl); if cl_neg cl then BNeg va else BPos va; BPos (atom1 O ol)]) = [sl; ol]).
    { unfold vars_of_body, atom1. destruct (cl_neg cl); subst va;
        cbn [fold_left vars_of_lit vars_of_atom na_args atom1 add_var mem_string];
        unfold add_var; repeat (progress (cbn [mem_string app orb fold_left]; rewrite ?String.eqb_refl, ?Hos, ?Hso)); reflexivity. }
    rewrite Hv. clear Hv. cbn [all_substs].
    rewrite flat_map_flat_map. apply flat_map_ext'. intros x.
    rewrite flat_map_map, flat_map_flat_map. rewrite <- flat_map_singleton. apply flat_map_ext'. intros y.
    cbn [map flat_map app]. unfold def_body, V, atom_text.
    destruct (cl_neg cl); subst va; unfold ground_body, atom1;
      cbn [forallb flat_map app]; unfold ground_atom; cbn [na_pred na_args map apply_term];
      unfold sassoc; cbn [assoc]; rewrite ?String.eqb_refl, ?Hos; reflexivity.
  Qed.

  Definition fires (x y : string) : bool := holds I (atom_text S [x]) && vlit x y && holds I (atom_text O [y]).

  Lemma def_body_true x y : body_true I (def_body x y) = fires x y.
  Proof.
    unfold def_body, fires, vlit, body_true. destruct (cl_neg cl); cbn [b_pos b_neg forallb xorb];
      destruct (holds I (atom_text S [x])), (holds I (V x y)), (holds I (atom_text O [y])); reflexivity.
  Qed.

  (* the interpretation holds exactly the declared values of the two concepts, all of them in the universe *)
  Hypothesis HS : forall x, In x U -> holds I (atom_text S [x]) = mem_string x (dom_of s S).
  Hypothesis HO : forall y, In y U -> holds I (atom_text O [y]) = mem_string y (dom_of s O).
  Hypothesis HSU : incl (dom_of s S) U.
  Hypothesis HOU : incl (dom_of s O) U.

  Lemma def_reading :
    r_sentence s I the_def = true <->
    forall x0, In x0 (dom_of s S) -> (holds I (atom_text newpred [x0]) = true <-> exists y, In y (dom_of s O) /\ vlit x0 y = true).
  Proof.
    unfold r_sentence, the_def. cbn [r_sentence_ok]. rewrite forallb_forall.
    assert (Hso : String.eqb sl ol = false) by now apply String.eqb_neq.
    assert (Hos : String.eqb ol sl = false) by (apply String.eqb_neq; congruence).
    assert (Hl : clause_labels [cl] = [(sl, S); (ol, O)]).
    { unfold clause_labels. cbn [fold_left existsb app fst]. fold sl ol S O. rewrite Hso. cbn [orb]. reflexivity. }
    rewrite Hl. cbn [typed_bindings].
    assert (Hex : forall x0, existsb (fun sg => true && String.eqb (lookup sg sl) x0 && forallb (clause_holds I sg false) [cl])
                    (flat_map (fun x => map (fun sg => (sl, x) :: sg) (flat_map (fun x1 => map (fun sg => (ol, x1) :: sg) [[]]) (dom_of s O))) (dom_of s S)) = true
                  <-> exists x y, In x (dom_of s S) /\ In y (dom_of s O) /\ x = x0 /\ vlit x y = true).
    { intros x0. rewrite existsb_exists. split.
      - intros (sg & Hsg & E). apply in_flat_map in Hsg as (x & Hx & Hsg). apply in_map_iff in Hsg as (sg' & <- & Hsg').
        apply in_flat_map in Hsg' as (y & Hy & Hsg'). cbn [map In] in Hsg'. destruct Hsg' as [<-|[]].
        exists x, y. split; [exact Hx|]. split; [exact Hy|].
        cbn [andb forallb] in E. rewrite andb_true_r in E. apply andb_true_iff in E as (E1 & E2).
        unfold clause_holds in E2. fold sl ol in E1, E2. rewrite lookup_first in E1, E2. rewrite (lookup_second sl ol x y Hne) in E2.
        apply String.eqb_eq in E1. split; [exact E1|]. unfold vlit, V. rewrite xorb_false_r in E2. exact E2.
      - intros (x & y & Hx & Hy & <- & Hv). exists [(sl, x); (ol, y)]. split.
        + apply in_flat_map. exists x. split; [exact Hx|]. apply in_map_iff. exists [(ol, y)]. split; [reflexivity|].
          apply in_flat_map. exists y. split; [exact Hy|]. left; reflexivity.
        + cbn [andb forallb]. rewrite andb_true_r. apply andb_true_iff. split.
          * rewrite lookup_first. apply String.eqb_refl.
          * unfold clause_holds. fold sl ol. rewrite lookup_first, (lookup_second sl ol x y Hne), xorb_false_r. exact Hv. }
    split.
    - intros H x0 Hx0. specialize (H x0 Hx0). apply eqb_prop in H. rewrite H. rewrite Hex. split.
      + intros (x & y & _ & Hy & -> & Hv). exists y. auto.
      + intros (y & Hy & Hv). exists x0, y. auto.
    - intros H x0 Hx0. specialize (H x0 Hx0).
      assert (E : holds I (atom_text newpred [x0]) =
                  existsb (fun sg => true && String.eqb (lookup sg sl) x0 && forallb (clause_holds I sg false) [cl])
                    (flat_map (fun x => map (fun sg => (sl, x) :: sg) (flat_map (fun x1 => map (fun sg => (ol, x1) :: sg) [[]]) (dom_of s O))) (dom_of s S))).
      { apply eq_true_iff_eq. rewrite Hex, H. split.
        - intros (y & Hy & Hv). exists x0, y. auto.
        - intros (x & y & _ & Hy & -> & Hv). exists y. auto. }
      rewrite <- E. apply eqb_reflx.
  Qed.

  (* closed under the ground rules and every derived atom of a declared subject supported  <->  the reading *)
  Theorem one_clause_definition_correct :
    let G := flat_map (ground_rule U) (compile_sentence s the_def) in
    closedb I G && forallb (fun x0 => negb (holds I (atom_text newpred [x0])) || supported_atom I G (atom_text newpred [x0])) (dom_of s S)
    = r_sentence s I the_def.
  Proof.
    cbv zeta. rewrite def_ground. apply eq_true_iff_eq. rewrite def_reading, andb_true_iff, closedb_spec, forallb_forall.
    set (G := flat_map (fun x => map (fun y => GRule (atom_text newpred [x]) (def_body x y)) U) U).
    assert (HinG : forall r, In r G <-> exists x y, In x U /\ In y U /\ r = GRule (atom_text newpred [x]) (def_body x y)).
    { intros r. unfold G. rewrite in_flat_map. split.
      - intros (x & Hx & Hr). apply in_map_iff in Hr as (y & <- & Hy). exists x, y. auto.
      - intros (x & y & Hx & Hy & ->). exists x. split; [exact Hx|]. apply in_map_iff. exists y. auto. }
    assert (Hfire : forall x y, In x U -> In y U -> (fires x y = true <-> In x (dom_of s S) /\ In y (dom_of s O) /\ vlit x y = true)).
    { intros x y Hx Hy. unfold fires. rewrite !andb_true_iff, HS, HO by assumption. rewrite !mem_string_In. tauto. }
    split.
    - intros (Hc & Hs) x0 Hx0. split.
      + intros Hh. specialize (Hs x0 Hx0). rewrite Hh in Hs. cbn in Hs. apply supported_atom_spec in Hs as (r & Hr & Hsup).
        apply HinG in Hr as (x & y & Hx & Hy & ->). cbn [supports] in Hsup. destruct Hsup as (E & Hb).
        apply atom_text1_inj in E. subst x. rewrite def_body_true in Hb. apply (Hfire x0 y Hx Hy) in Hb as (_ & Hyd & Hv).
        exists y. auto.
      + intros (y & Hy & Hv). apply holds_In. apply (Hc (atom_text newpred [x0]) (def_body x0 y)).
        * apply HinG. exists x0, y. auto.
        * rewrite def_body_true. apply Hfire; auto.
    - intros H. split.
      + intros h b Hin Hb. apply HinG in Hin as (x & y & Hx & Hy & E). injection E as -> ->.
        rewrite def_body_true in Hb. apply (Hfire x y Hx Hy) in Hb as (Hxd & Hyd & Hv).
        apply holds_In. apply (H x Hxd). exists y. auto.
      + intros x0 Hx0. destruct (holds I (atom_text newpred [x0])) eqn:Eh; [|reflexivity]. cbn.
        apply (H x0 Hx0) in Eh as (y & Hy & Hv). apply supported_atom_spec.
        exists (GRule (atom_text newpred [x0]) (def_body x0 y)). split.
        * apply HinG. exists x0, y. auto.
        * cbn [supports]. split; [reflexivity|]. rewrite def_body_true. apply Hfire; auto.
  Qed.
End OneDef.
