(* C18 — the command line never crashes and never leaves a partial result.
   main_body is REGENERATED from cnl2asp.py:main by tools/translate/gen_main.py on every run; the theorems quantify over
   every assignment of outcomes (normal / any Exception subclass) to every call that may raise, and over every value of
   every test in main.  Not modelled: argparse's own exits, the file system, BaseExceptions that are not Exceptions. *)
Require Import Coq.Strings.String Coq.Strings.Ascii Coq.Lists.List Coq.Bool.Bool Coq.ZArith.ZArith.
Require Import Cnl2aspV.Base.Str Cnl2aspV.Base.Digits Cnl2aspV.Api.ExcSem Cnl2aspV.Api.ExcProofs Cnl2aspV.Gen.MainSkeleton Cnl2aspV.Api.Cli.
Import ListNotations.
Open Scope string_scope.

Theorem C18_main_total :
  forall (oracle : nat -> option exc) (flag : string -> bool),
    flag "optimize" = false -> flag "debug" = false ->
    terminates_normally (exec_stmts oracle flag main_body false) = true.
Proof. exact main_total. Qed.
Print Assumptions C18_main_total.

Theorem C18_no_partial_output :
  forall (oracle : nat -> option exc) (flag : string -> bool),
    (forall cid, In cid compile_sites -> oracle cid <> None) ->
    snd (exec_stmts oracle flag main_body false) = false.
Proof. exact no_output_when_compile_fails. Qed.
Print Assumptions C18_no_partial_output.

Theorem C18_no_output_in_query_modes :
  forall (oracle : nat -> option exc) (flag : string -> bool),
    flag "check_syntax" = true \/ flag "cnl2json" = true \/ flag "symbols" = true ->
    snd (exec_stmts oracle flag main_body false) = false.
Proof. exact no_output_in_query_modes. Qed.
Print Assumptions C18_no_output_in_query_modes.

(* the diagnostic: built by a total function, cites line and column first, and the quoted word has no blank *)
Theorem C18_diagnostic_position :
  forall c l k ctx line allowed,
    prefix_b ("Parser error at line " ++ show_Z l ++ ", col " ++ show_Z k) (parser_error_text c l k ctx line allowed) = true.
Proof. exact diagnostic_cites_position. Qed.
Theorem C18_unrecognized_word_total :
  forall line i, sforall (fun c => negb (Ascii.eqb c " "%char)) (get_unrecognized_word line i) = true.
Proof. exact unrecognized_word_blank_free. Qed.
Print Assumptions C18_diagnostic_position.

(* non-vacuity: the skeleton really contains the compile call, and a failing compile is handled *)
Example C18_nonvacuous :
  compile_sites <> [] /\
  exec_stmts (fun id => if existsb (Nat.eqb id) compile_sites then Some EOther else None) (fun _ => false) main_body false = (OReturn, false).
Proof. split; [discriminate|vm_compute; reflexivity]. Qed.
