(* Semantics of ASP comparison symbols on integers (the part of gringo's term order the properties need). *)
Require Import Coq.Strings.String Coq.ZArith.ZArith Coq.Lists.List Coq.Bool.Bool Lia.
Import ListNotations.
Open Scope string_scope.

Inductive ckind := CEq | CNe | CLt | CLe | CGt | CGe.

Definition ckind_eqb (a b : ckind) : bool :=
  match a, b with CEq,CEq | CNe,CNe | CLt,CLt | CLe,CLe | CGt,CGt | CGe,CGe => true | _,_ => false end.

Definition kind_of_symbol (s : string) : option ckind :=
  if String.eqb s "=" then Some CEq else if String.eqb s "!=" then Some CNe
  else if String.eqb s "<" then Some CLt else if String.eqb s "<=" then Some CLe
  else if String.eqb s ">" then Some CGt else if String.eqb s ">=" then Some CGe else None.

Definition ksem (k : ckind) (a b : Z) : bool :=
  match k with
  | CEq => Z.eqb a b | CNe => negb (Z.eqb a b)
  | CLt => Z.ltb a b | CLe => Z.leb a b
  | CGt => Z.ltb b a | CGe => Z.leb b a
  end.

Definition kneg (k : ckind) : ckind :=
  match k with CEq => CNe | CNe => CEq | CLt => CGe | CGe => CLt | CGt => CLe | CLe => CGt end.

Lemma ksem_kneg k a b : ksem (kneg k) a b = negb (ksem k a b).
Proof.
  destruct k; simpl; try rewrite negb_involutive; try reflexivity;
  destruct (Z.ltb_spec a b), (Z.leb_spec b a); simpl; try reflexivity; try lia;
  destruct (Z.ltb_spec b a), (Z.leb_spec a b); simpl; try reflexivity; lia.
Qed.

Lemma ckind_eqb_eq a b : ckind_eqb a b = true -> a = b.
Proof. destruct a, b; simpl; congruence. Qed.

(* symbol-level semantics: None when the symbol is not a comparison symbol *)
Definition cmp_sem (sym : string) (a b : Z) : option bool :=
  match kind_of_symbol sym with Some k => Some (ksem k a b) | None => None end.
