(* C06 on the core fragment: the compile model the safety theorem is about prints the implementation's program, the
   generated specification meets the theorem's hypothesis, and (re-computed, the theorem says so) every rule is safe. *)
Require Import Coq.Strings.String Coq.Lists.List Coq.Bool.Bool.
Require Import Cnl2aspV.Cnl.Core Cnl2aspV.Cnl.CoreCases Cnl2aspV.Cnl.CoreSafe.
Import ListNotations.

Definition ksafe_tie (c : kcase) : bool := kcase_ok c.
Definition ksafe_hyp (c : kcase) : bool := forallb author_ok (sentences (k_spec c)).
Definition ksafe_ok (c : kcase) : bool := forallb safe_rule (compile (k_spec c)).
