Require Import Coq.Strings.String Coq.Lists.List Coq.Bool.Bool.
Require Import Cnl2aspV.Base.Util Cnl2aspV.Api.ExcFlowSem Cnl2aspV.Gen.ExcFlow Cnl2aspV.Api.ExcFlowAccepted.
Import ListNotations.
Open Scope string_scope.

(* the escape table: 14 rounds of propagation along the name-based call graph *)
Definition escape_table : list (string * list esc) := Eval vm_compute in iterate 14 functions (init_table functions).
Global Opaque functions.

Lemma table_is_fixpoint : table_eqb (step_table functions escape_table) escape_table = true.
Proof. vm_compute. reflexivity. Qed.

Definition is_accepted (cb via cls : string) : bool :=
  existsb (fun r => match r with (c, v, k, _) => String.eqb c cb && String.eqb v via && String.eqb k cls end) accepted_unstamped.

Definition callback_ok (cb : string) : bool :=
  forallb (fun p => is_accepted cb (fst p) (snd p)) (unstamped (escapes_of functions escape_table cb)).

Lemma all_callbacks_ok : forallb callback_ok callbacks = true.
Proof. vm_compute. reflexivity. Qed.

Theorem lookup_failures_are_stamped :
  forall cb, In cb callbacks ->
  forall via cls, In (via, cls) (unstamped (escapes_of functions escape_table cb)) -> is_accepted cb via cls = true.
Proof.
  intros cb Hcb via cls Hin.
  assert (H : callback_ok cb = true).
  { pose proof all_callbacks_ok as Hall. revert Hcb Hall. generalize callbacks as l. intros l Hl Hall.
    rewrite forallb_forall in Hall. exact (Hall cb Hl). }
  unfold callback_ok in H. rewrite forallb_forall in H.
  exact (H (via, cls) Hin).
Qed.

(* the accepted list contains no stale row: every row is an escape the analysis really finds *)
Definition row_is_live (r : string * string * string * why) : bool :=
  match r with (c, v, k, _) =>
    existsb (fun p => String.eqb (fst p) v && String.eqb (snd p) k) (unstamped (escapes_of functions escape_table c)) end.
Lemma accepted_rows_live : forallb row_is_live accepted_unstamped = true.
Proof. vm_compute. reflexivity. Qed.

(* the lookups the property names ARE stamped where the language says 'declared before use' *)
Definition stamped_example (cb cls : string) : bool :=
  existsb (fun e => String.eqb (e_cls e) "CompilationError" && e_stamped e) (escapes_of functions escape_table cb)
  && negb (existsb (fun p => String.eqb (snd p) cls && negb (is_accepted cb (fst p) cls)) (unstamped (escapes_of functions escape_table cb))).
Lemma core_lookups_stamped :
  stamped_example "CNLTransformer.simple_entity" "LabelNotFound" = true /\
  stamped_example "CNLTransformer.temporal_constraint" "KeyError" = true /\
  stamped_example "CNLTransformer.generic_element" "AttributeGenericError" = true /\
  stamped_example "CNLTransformer.parameter_entity_link" "AttributeNotFound" = true /\
  stamped_example "CNLTransformer.single_quantity_cardinality" "CompilationError" = true.
Proof. vm_compute. repeat split. Qed.
