Require Import Coq.Strings.String Coq.ZArith.ZArith Coq.Lists.List Coq.Bool.Bool Lia.
Require Import Cnl2aspV.Base.Util Cnl2aspV.Gen.Operators Cnl2aspV.Gen.Tables Cnl2aspV.Gen.Terminals
               Cnl2aspV.Asp.CmpSem Cnl2aspV.Cnl.Comparison.
Import ListNotations.
Open Scope string_scope.

(* ---- reflective view of a simple comparison: the kind of the emitted symbol, for each polarity ---- *)
Definition kind_of_op (o : operator) : option ckind :=
  match op_symbol o with Some s => kind_of_symbol s | None => None end.

Definition simple_kind (required : bool) (ph : string) : option ckind :=
  match phrase_op ph with
  | None => None
  | Some o =>
    match (if required && op_ltb o Op_CONJUNCTION then neg_op o else Some o) with
    | None => None
    | Some op => kind_of_op op
    end
  end.

Lemma conv2 {T} neg o (a b : T) :
  convert_operation false {| oc_op := o; oc_operands := [a; b]; oc_negated := neg |} =
  match (if neg && op_ltb o Op_CONJUNCTION then neg_op o else Some o) with
  | None => ConvKeyError
  | Some op => ConvOk [ {| ao_op := op; ao_operands := [a; b]; ao_negated := false |} ]
  end.
Proof.
  unfold convert_operation. cbn [oc_op oc_operands oc_negated length Nat.eqb].
  rewrite !andb_false_r. cbn [andb].
  destruct (if neg && op_ltb o Op_CONJUNCTION then neg_op o else Some o) as [op|]; [|reflexivity].
  now rewrite andb_false_r.
Qed.

Lemma compile_simple_kind required ph k :
  simple_kind required ph = Some k -> forall a b, compile_simple required ph a b = Some (ksem k a b).
Proof.
  unfold simple_kind, compile_simple, parse_simple.
  destruct (phrase_op ph) as [o|]; [|discriminate].
  intros Hk a b.
  assert (E : apply_polarity required {| oc_op := o; oc_operands := [a; b]; oc_negated := false |}
              = {| oc_op := o; oc_operands := [a; b]; oc_negated := required |}) by (destruct required; reflexivity).
  rewrite E, conv2.
  destruct (if required && op_ltb o Op_CONJUNCTION then neg_op o else Some o) as [op|]; [|discriminate].
  unfold kind_of_op in Hk. cbn [body_true]. unfold aspop_true. cbn [ao_op ao_operands ao_negated].
  destruct (op_symbol op) as [sym|]; [|discriminate]. rewrite Hk. cbn [chain_true].
  rewrite !andb_true_r. now destruct (ksem k a b).
Qed.

(* table check 1: for every phrase, the required form emits the complementary kind of the prohibited form *)
Definition phrase_complement_ok (ph : string) : bool :=
  match simple_kind false ph, simple_kind true ph with
  | Some k, Some k' => ckind_eqb k' (kneg k)
  | _, _ => false end.

Lemma phrases_complement_table : forallb phrase_complement_ok comparison_phrases = true.
Proof. vm_compute. reflexivity. Qed.

Lemma simple_complement ph :
  In ph comparison_phrases -> forall a b,
  exists r p, compile_simple true ph a b = Some r /\ compile_simple false ph a b = Some p /\ r = negb p.
Proof.
  intros Hin a b.
  pose proof (forallb_In _ _ phrases_complement_table ph Hin) as H.
  unfold phrase_complement_ok in H.
  destruct (simple_kind false ph) as [k|] eqn:E1; [|discriminate].
  destruct (simple_kind true ph) as [k'|] eqn:E2; [|discriminate].
  apply ckind_eqb_eq in H. subst k'.
  exists (ksem (kneg k) a b), (ksem k a b).
  repeat split.
  - now apply compile_simple_kind.
  - now apply compile_simple_kind.
  - apply ksem_kneg.
Qed.

(* table check 2: the prohibited form means what the phrase names *)
Definition named_kind (ph : string) : option ckind :=
  if mem_string ph ["the same as"; "equal to"] then Some CEq
  else if String.eqb ph "different from" then Some CNe
  else if mem_string ph ["more than"; "greater than"] then Some CGt
  else if String.eqb ph "less than" then Some CLt
  else if mem_string ph ["greater than or equal to"; "at least"] then Some CGe
  else if mem_string ph ["less than or equal to"; "at most"; "not after"] then Some CLe
  else None.

Lemma named_kind_sem ph k : named_kind ph = Some k -> forall a b, named_comparison ph a b = Some (ksem k a b).
Proof.
  unfold named_kind, named_comparison. intros H a b.
  repeat match type of H with (if ?c then _ else _) = _ => destruct c end;
    try discriminate; injection H as <-; reflexivity.
Qed.

Definition phrase_meaning_ok (ph : string) : bool :=
  match simple_kind false ph, named_kind ph with
  | Some k, Some k' => ckind_eqb k k'
  | _, _ => false end.

Lemma phrases_meaning_table : forallb phrase_meaning_ok comparison_phrases = true.
Proof. vm_compute. reflexivity. Qed.

Lemma phrase_meaning ph :
  In ph comparison_phrases -> forall a b,
  exists v, compile_simple false ph a b = Some v /\ named_comparison ph a b = Some v.
Proof.
  intros Hin a b.
  pose proof (forallb_In _ _ phrases_meaning_table ph Hin) as H. unfold phrase_meaning_ok in H.
  destruct (simple_kind false ph) as [k|] eqn:E1; [|discriminate].
  destruct (named_kind ph) as [k'|] eqn:E2; [|discriminate].
  apply ckind_eqb_eq in H. subst k'.
  exists (ksem k a b). split; [now apply compile_simple_kind | now apply named_kind_sem].
Qed.

(* the generated phrase table covers exactly the documented phrases *)
Lemma phrases_are_documented :
  forallb (fun p => mem_string p documented_phrases) comparison_phrases = true /\
  forallb (fun p => mem_string p comparison_phrases) documented_phrases = true.
Proof. vm_compute. split; reflexivity. Qed.

(* negation table: every comparison operator's negation is its complement on all integers *)
Definition comparison_ops : list operator :=
  [Op_EQUALITY; Op_INEQUALITY; Op_GREATER_THAN; Op_LESS_THAN; Op_GREATER_THAN_OR_EQUAL_TO; Op_LESS_THAN_OR_EQUAL_TO].

Definition negation_row_ok (o : operator) : bool :=
  match kind_of_op o, neg_op o with
  | Some k, Some o' => match kind_of_op o' with Some k' => ckind_eqb k' (kneg k) | None => false end
  | _, _ => false end.

Lemma negation_table : forallb negation_row_ok comparison_ops = true.
Proof. vm_compute. reflexivity. Qed.

Lemma negation_complement o :
  In o comparison_ops ->
  exists o' k k', neg_op o = Some o' /\ kind_of_op o = Some k /\ kind_of_op o' = Some k' /\
    forall a b, ksem k' a b = negb (ksem k a b).
Proof.
  intros Hin. pose proof (forallb_In _ _ negation_table o Hin) as H. unfold negation_row_ok in H.
  destruct (kind_of_op o) as [k|]; [|discriminate].
  destruct (neg_op o) as [o'|]; [|discriminate].
  destruct (kind_of_op o') as [k'|] eqn:E; [|discriminate].
  apply ckind_eqb_eq in H. subst k'.
  exists o', k, (kneg k). repeat split; auto. intros; apply ksem_kneg.
Qed.

(* ---- between ---- *)
Lemma between_prohibited x l u :
  compile_between false false x l u = Some ((l <=? x)%Z && (x <=? u)%Z).
Proof. unfold compile_between. cbn. rewrite ?andb_true_r.
  repeat match goal with |- context [Z.leb ?a ?b] => destruct (Z.leb a b) end; reflexivity. Qed.

Lemma between_prohibited_agg x l u :
  compile_between false true x l u = Some ((l <=? x)%Z && (x <=? u)%Z).
Proof. unfold compile_between. cbn. rewrite ?andb_true_r.
  repeat match goal with |- context [Z.leb ?a ?b] => destruct (Z.leb a b) end; reflexivity. Qed.

(* 'required ... between': a single negated chain, the exact complement (after the fix: commit in KNOWN_FINDINGS.json) *)
Lemma between_required x l u :
  compile_between true false x l u = Some (negb ((l <=? x)%Z && (x <=? u)%Z)).
Proof. unfold compile_between. cbn. rewrite ?andb_true_r.
  repeat match goal with |- context [Z.leb ?a ?b] => destruct (Z.leb a b) end; reflexivity. Qed.

Lemma between_required_agg x l u :
  compile_between true true x l u = Some (negb ((l <=? x)%Z && (x <=? u)%Z)).
Proof. unfold compile_between. cbn. rewrite ?andb_true_r.
  repeat match goal with |- context [Z.leb ?a ?b] => destruct (Z.leb a b) end; reflexivity. Qed.

Lemma between_complement agg x l u :
  compile_between true agg x l u = option_map negb (compile_between false agg x l u).
Proof.
  destruct agg; [rewrite between_required_agg, between_prohibited_agg | rewrite between_required, between_prohibited];
  reflexivity.
Qed.
