(* Static may-analysis of exception flow over the skeleton generated in Gen/ExcFlow.v.
   An "escape" is a pair (class, stamped): an exception of that class may leave the function; stamped = it is a
   CompilationError built with the line of the sentence. *)
Require Import Coq.Strings.String Coq.Lists.List Coq.Bool.Bool Coq.Arith.Arith.
Require Import Cnl2aspV.Base.Util.
Import ListNotations.
Open Scope string_scope.

Inductive eitem :=
| ERaise (cls : string) (stamped : bool)
| ECall (name : string)
| ERethrow
| ETry (body : list eitem) (handlers : list (list string * list eitem)).

Record fdef := { f_qual : string; f_name : string; f_body : list eitem }.

(* via = the callee through which the exception arrives in this function ("<raise>" for a raise statement of its own) *)
Record esc := { e_via : string; e_cls : string; e_stamped : bool }.
Definition esc_eqb (a b : esc) : bool := String.eqb (e_via a) (e_via b) && String.eqb (e_cls a) (e_cls b) && Bool.eqb (e_stamped a) (e_stamped b).
Fixpoint add_esc (e : esc) (l : list esc) : list esc :=
  match l with [] => [e] | x :: r => if esc_eqb e x then l else x :: add_esc e r end.
Definition union_esc (a b : list esc) : list esc := fold_left (fun acc e => add_esc e acc) a b.
Definition subset_esc (a b : list esc) : bool := forallb (fun e => existsb (esc_eqb e) b) a.
Definition revia (n : string) (l : list esc) : list esc := map (fun e => {| e_via := n; e_cls := e_cls e; e_stamped := e_stamped e |}) l.

(* does a handler for `classes` catch an exception of class c?  [] = bare except; Exception catches every class *)
Definition handler_catches (classes : list string) (c : string) : bool :=
  match classes with [] => true | _ => mem_string "Exception" classes || mem_string "BaseException" classes || mem_string c classes end.

Section Step.
  (* current approximation: escapes of every function, by bare name (all functions of that name together) *)
  Variable table : list (string * list esc).
  Definition lookup (name : string) : list esc := match sassoc name table with Some l => l | None => [] end.

  Fixpoint esc_items (fuel : nat) (caught : list esc) (items : list eitem) : list esc :=
    match fuel with
    | O => []
    | S f =>
      fold_left (fun acc it =>
        match it with
        | ERaise c s => add_esc {| e_via := "<raise>"; e_cls := c; e_stamped := s |} acc
        | ECall n => union_esc (revia n (lookup n)) acc
        | ERethrow => union_esc caught acc
        | ETry body hs =>
            let b := esc_items f caught body in
            let step := fun (st : list esc * list esc) (h : list string * list eitem) =>
                          let '(remaining, out) := st in
                          let mine := filter (fun e => handler_catches (fst h) (e_cls e)) remaining in
                          let rest := filter (fun e => negb (handler_catches (fst h) (e_cls e))) remaining in
                          match mine with
                          | [] => (rest, out)
                          | _ => (rest, union_esc (esc_items f mine (snd h)) out) end in
            let '(uncaught, out) := fold_left step hs (b, []) in
            union_esc uncaught (union_esc out acc)
        end) items []
    end.
End Step.

Definition depth_fuel := 12.

Definition step_table (funs : list fdef) (table : list (string * list esc)) : list (string * list esc) :=
  map (fun nm => (nm, fold_left (fun acc f => if String.eqb (f_name f) nm then union_esc (esc_items table depth_fuel [] (f_body f)) acc else acc) funs []))
      (map fst table).

Fixpoint iterate (n : nat) (funs : list fdef) (table : list (string * list esc)) : list (string * list esc) :=
  match n with O => table | S k => iterate k funs (step_table funs table) end.

Fixpoint nodup_names (l : list string) (seen : list string) : list string :=
  match l with [] => [] | x :: r => if mem_string x seen then nodup_names r seen else x :: nodup_names r (x :: seen) end.

Definition init_table (funs : list fdef) : list (string * list esc) := map (fun n => (n, [])) (nodup_names (map f_name funs) []).

Definition table_eqb (a b : list (string * list esc)) : bool :=
  forallb (fun p => match sassoc (fst p) b with Some l => subset_esc (snd p) l && subset_esc l (snd p) | None => false end) a.

(* escapes of one qualified function under a table *)
Definition escapes_of (funs : list fdef) (table : list (string * list esc)) (qual : string) : list esc :=
  fold_left (fun acc f => if String.eqb (f_qual f) qual then union_esc (esc_items table depth_fuel [] (f_body f)) acc else acc) funs [].

Definition unstamped (l : list esc) : list (string * string) := map (fun e => (e_via e, e_cls e)) (filter (fun e => negb (e_stamped e)) l).
