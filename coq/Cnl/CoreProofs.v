(* Theorems about the core-fragment compile model of Cnl/Core.v. *)
Require Import Coq.Strings.String Coq.Lists.List Coq.Bool.Bool Coq.ZArith.ZArith.
Require Import Cnl2aspV.Base.Util Cnl2aspV.Asp.Ground Cnl2aspV.Cnl.Core.
Import ListNotations.
Open Scope string_scope.

(* the constraints of a list of ground rules hold in I *)
Definition constraints_ok (I : interp) (G : list grule) : bool := forallb (bounds_ok I) G.

(* "It is required/prohibited that there is [not] a <relation> with ...": the one ground constraint the sentence compiles to is
   satisfied exactly by the interpretations the sentence admits, whatever the universe of values *)
Theorem there_sentence_correct (s : spec) (U : list string) (required neg : bool) (v : verb) (sval oval : string) (I : interp) :
  constraints_ok I (flat_map (ground_rule U) (compile_sentence s (SThere required neg v sval oval))) =
  r_sentence s I (SThere required neg v sval oval).
Proof.
  unfold r_sentence, constraints_ok. cbn [compile_sentence r_sentence_ok flat_map app].
  unfold atom_text.
  generalize (verb_pred v) as p, (term_of_token sval) as x, (term_of_token oval) as y. intros p x y.
  destruct (xorb required neg); cbn; unfold ground_atom, body_true; cbn;
    destruct (holds I _); reflexivity.
Qed.

(* each polarity spelled out: the named instance is in the interpretation or not *)
Corollary there_required_positive s U v a b I :
  constraints_ok I (flat_map (ground_rule U) (compile_sentence s (SThere true false v a b))) =
  holds I (atom_text (verb_pred v) [term_of_token a; term_of_token b]).
Proof. rewrite there_sentence_correct. unfold r_sentence. cbn [r_sentence_ok xorb]. now destruct (holds I _). Qed.

Corollary there_required_negated s U v a b I :
  constraints_ok I (flat_map (ground_rule U) (compile_sentence s (SThere true true v a b))) =
  negb (holds I (atom_text (verb_pred v) [term_of_token a; term_of_token b])).
Proof. rewrite there_sentence_correct. unfold r_sentence. cbn [r_sentence_ok xorb]. now destruct (holds I _). Qed.

Corollary there_prohibited_positive s U v a b I :
  constraints_ok I (flat_map (ground_rule U) (compile_sentence s (SThere false false v a b))) =
  negb (holds I (atom_text (verb_pred v) [term_of_token a; term_of_token b])).
Proof. rewrite there_sentence_correct. unfold r_sentence. cbn [r_sentence_ok xorb]. now destruct (holds I _). Qed.

(* a second "is one of" clause multiplies the rules: one copy per rule made so far and value, in that order *)
Theorem one_of_count s l vals y :
  length (compile_sentence s (SOneOf l vals y)) = length (compile_sentence s y) * length vals.
Proof.
  cbn [compile_sentence]. induction (compile_sentence s y) as [|r rs IH]; cbn [flat_map length]; [reflexivity|].
  now rewrite app_length, map_length, IH.
Qed.

(* ------------------------------------------------------------------ one quantified clause *)
Lemma forallb_flat_map {A B} (f : A -> list B) (p : B -> bool) l :
  forallb p (flat_map f l) = forallb (fun a => forallb p (f a)) l.
Proof. induction l as [|a l IH]; cbn [flat_map forallb]; [reflexivity|]. now rewrite forallb_app, IH. Qed.
Lemma forallb_map' {A B} (f : A -> B) (p : B -> bool) l : forallb p (map f l) = forallb (fun a => p (f a)) l.
Proof. induction l as [|a l IH]; cbn [map forallb]; [reflexivity|]. now rewrite IH. Qed.
Lemma existsb_flat_map {A B} (f : A -> list B) (p : B -> bool) l :
  existsb p (flat_map f l) = existsb (fun a => existsb p (f a)) l.
Proof. induction l as [|a l IH]; cbn [flat_map existsb]; [reflexivity|]. now rewrite existsb_app, IH. Qed.
Lemma existsb_map' {A B} (f : A -> B) (p : B -> bool) l : existsb p (map f l) = existsb (fun a => p (f a)) l.
Proof. induction l as [|a l IH]; cbn [map existsb]; [reflexivity|]. now rewrite IH. Qed.

