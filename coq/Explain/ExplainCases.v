Require Import Coq.Strings.String Coq.Lists.List Coq.Bool.Bool.
Require Import Cnl2aspV.Asp.Syntax Cnl2aspV.Explain.Explain.
Import ListNotations.
Record xcase := { xc_sig : signature; xc_args : list string; xc_out : string }.
Definition xcase_ok (c : xcase) : bool :=
  match sentence_of (xc_sig c) (xc_args c) with Sentence s => String.eqb s (xc_out c) | NotModelled => true end.
Definition xcase_modelled (c : xcase) : bool := match sentence_of (xc_sig c) (xc_args c) with Sentence _ => true | NotModelled => false end.
