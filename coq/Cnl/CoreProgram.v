(* Core fragment, WHOLE specifications: the constraint-and-bounds part of stability of the ground program of a specification
   (any number of concepts and sentences) is the conjunction of the readings of its constraint and choice sentences, for the
   sentence kinds that have an end-to-end theorem (named instances, single-clause constraints with or without a 'where'
   comparison, choice sentences with or without for-each; derived definitions contribute no constraint). *)
Require Import Coq.Strings.String Coq.Lists.List Coq.Bool.Bool Coq.ZArith.ZArith.
Require Import Cnl2aspV.Base.Util Cnl2aspV.Asp.Ground Cnl2aspV.Cnl.Comparison Cnl2aspV.Cnl.Core Cnl2aspV.Cnl.CoreProofs
               Cnl2aspV.Cnl.CoreChoice Cnl2aspV.Cnl.CoreChoiceEach Cnl2aspV.Cnl.CoreWhere Cnl2aspV.Cnl.CoreOneOf Cnl2aspV.Base.Digits.
Import ListNotations.
Open Scope string_scope.

(* the sentence kinds covered, with the side conditions of their theorems *)
Definition concept_names (s : spec) : list string := map c_name (concepts s).
Definition declared (s : spec) (n : string) : Prop := In n (concept_names s).
Definition covered (s : spec) (x : sentence) : Prop :=
  match x with
  | SThere _ _ _ _ _ => True
  | SDef _ _ _ _ => True
  | SCons _ [] [cl] None => cl_slabel cl <> cl_olabel cl /\ declared s (cl_subj cl) /\ declared s (cl_obj cl)
  | SCons _ [] [cl] (Some w) =>
      cl_slabel cl <> cl_olabel cl /\ declared s (cl_subj cl) /\ declared s (cl_obj cl) /\ In (w_phrase w) comparison_phrases /\
      (w_left w = cl_slabel cl \/ w_left w = cl_olabel cl) /\ (w_right w = cl_slabel cl \/ w_right w = cl_olabel cl)
  | SChoice c =>
      declared s (ch_subj c) /\ declared s (ch_obj c) /\ NoDup (dom_of s (ch_obj c)) /\
      var_of s (ch_subj c) (ch_slabel c) <> var_of s (ch_obj c) (ch_olabel c) /\
      match ch_foreach c with
      | None => True
      | Some e => declared s e /\ auto_var s e <> var_of s (ch_subj c) (ch_slabel c) /\ auto_var s e <> var_of s (ch_obj c) (ch_olabel c)
      end
  | SOneOf l vals (SCons _ [] [cl] None) =>
      l = cl_slabel cl /\ cl_slabel cl <> cl_olabel cl /\ declared s (cl_subj cl) /\ declared s (cl_obj cl) /\
      (forall x, In x (dom_of s (cl_subj cl)) -> exists z, small z /\ x = show_Z z) /\ (forall v, In v vals -> small v)
  | _ => False
  end.

(* what the sentence says about constraints and bounds (a definition says nothing there) *)
Definition r_bounds (s : spec) (I : interp) (x : sentence) : bool :=
  match x with SDef _ _ _ _ => true | _ => r_sentence s I x end.

Lemma constraints_ok_app I A B : constraints_ok I (A ++ B) = constraints_ok I A && constraints_ok I B.
Proof. unfold constraints_ok. apply forallb_app. Qed.

Definition only_rules (G : list grule) : Prop := forall r, In r G -> exists h b, r = GRule h b.
Lemma only_rules_ok I G : only_rules G -> constraints_ok I G = true.
Proof. intros H. unfold constraints_ok. apply forallb_forall. intros r Hr. destruct (H r Hr) as (h & b & ->). reflexivity. Qed.

Lemma concept_rules_only U c : only_rules (flat_map (ground_rule U) (compile_concept c)).
Proof.
  intros r Hr. apply in_flat_map in Hr as (nr & Hnr & Hr). unfold compile_concept in Hnr.
  destruct (c_dom c) as [lo hi|vals].
  - destruct Hnr as [<-|[]]. cbn [ground_rule] in Hr. apply in_map_iff in Hr as (z & <- & _). eauto.
  - apply in_map_iff in Hnr as (v & <- & _). cbn [ground_rule] in Hr. destruct Hr as [<-|[]]. eauto.
Qed.

Lemma def_rules_only s U subj label newpred body : only_rules (flat_map (ground_rule U) (compile_sentence s (SDef subj label newpred body))).
Proof.
  intros r Hr. cbn [compile_sentence flat_map] in Hr. rewrite app_nil_r in Hr. cbn [ground_rule] in Hr.
  apply in_flat_map in Hr as (sg & _ & Hr). destruct (ground_body sg _); [|destruct Hr]. destruct Hr as [<-|[]]. eauto.
Qed.

Section Program.
  Variables (s : spec) (U : list string) (I : interp).
  (* the interpretation holds exactly the declared values of every concept, the universe contains them and lists no value twice *)
  Hypothesis Hdom : forall n, declared s n -> forall x, In x U -> holds I (atom_text n [x]) = mem_string x (dom_of s n).
  Hypothesis Hincl : forall n, incl (dom_of s n) U.
  Hypothesis HUnd : NoDup U.

  Lemma sentence_bounds x : covered s x ->
    constraints_ok I (flat_map (ground_rule U) (compile_sentence s x)) = r_bounds s I x.
  Proof.
    intros Hc. destruct x as [c|subj label newpred body|required whenpart main wh|l vals y|required neg v sval oval]; cbn [covered] in Hc.
    - destruct Hc as (Hds & Hdo & Hnd & Hne & Hfe). cbn [r_bounds]. destruct (ch_foreach c) as [e|] eqn:Efe.
      + destruct Hfe as (Hde & Hes & Heo).
        apply (each_choice_bounds_correct s U I c e Efe Hne Hes Heo (Hdom _ Hde) (Hdom _ Hds) (Hdom _ Hdo) (Hincl _) (Hincl _) (Hincl _) HUnd Hnd).
      + apply (choice_bounds_correct s U I c Efe Hne (Hdom _ Hds) (Hdom _ Hdo) (Hincl _) (Hincl _) HUnd Hnd).
    - cbn [r_bounds]. apply only_rules_ok, def_rules_only.
    - destruct whenpart as [|? ?]; [|destruct Hc]. destruct main as [|cl [|? ?]]; try destruct Hc. destruct wh as [w|]; cbn [r_bounds].
      + destruct Hc as (Hne & Hds & Hdo & Hph & Hl & Hr).
        apply (one_clause_where_correct s U I cl required w Hne Hph Hl Hr (Hdom _ Hds) (Hdom _ Hdo) (Hincl _) (Hincl _)).
      + destruct Hc as (Hne & Hds & Hdo).
        apply (one_clause_constraint_correct s U I cl required Hne (Hdom _ Hds) (Hdom _ Hdo) (Hincl _) (Hincl _)).
    - destruct y as [?|? ? ? ?|required whenpart main wh|? ? ?|? ? ? ? ?]; try destruct Hc.
      destruct whenpart as [|? ?]; [|destruct Hc]. destruct main as [|cl [|? ?]]; try destruct Hc. destruct wh as [w|]; [destruct Hc|].
      destruct Hc as (-> & Hne & Hds & Hdo & Hsm & Hv). cbn [r_bounds].
      apply (one_clause_one_of_correct s U I cl required vals Hne (Hdom _ Hds) (Hdom _ Hdo) (Hincl _) (Hincl _) Hsm Hv).
    - cbn [r_bounds]. apply there_sentence_correct.
  Qed.

  Theorem program_bounds :
    (forall x, In x (sentences s) -> covered s x) ->
    constraints_ok I (flat_map (ground_rule U) (compile s)) = forallb (r_bounds s I) (sentences s).
  Proof.
    intros Hcov. unfold compile. rewrite flat_map_app, constraints_ok_app.
    assert (Hc : constraints_ok I (flat_map (ground_rule U) (flat_map compile_concept (concepts s))) = true).
    { apply only_rules_ok. intros r Hr. apply in_flat_map in Hr as (nr & Hnr & Hr). apply in_flat_map in Hnr as (c & _ & Hnr).
      apply (concept_rules_only U c r). apply in_flat_map. eauto. }
    rewrite Hc. cbn [andb]. clear Hc.
    induction (sentences s) as [|x xs IH]; [reflexivity|]. cbn [flat_map forallb]. rewrite flat_map_app, constraints_ok_app.
    rewrite sentence_bounds by (apply Hcov; now left). f_equal. apply IH. intros y Hy. apply Hcov. now right.
  Qed.
End Program.

(* the universe of a specification meets the structural hypotheses: no value twice, every declared value inside *)
Lemma nodup_str_In x l : In x (nodup_str l) <-> In x l.
Proof.
  induction l as [|a r IH]; [tauto|]. cbn [nodup_str]. destruct (mem_string a r) eqn:E.
  - rewrite IH. split; [now right|]. intros [<-|H]; [now apply mem_string_In|exact H].
  - cbn [In]. rewrite IH. tauto.
Qed.
Lemma nodup_str_NoDup l : NoDup (nodup_str l).
Proof.
  induction l as [|a r IH]; [constructor|]. cbn [nodup_str]. destruct (mem_string a r) eqn:E; [exact IH|].
  constructor; [|exact IH]. rewrite nodup_str_In. intros H. apply mem_string_In in H. congruence.
Qed.
Lemma universe_NoDup s : NoDup (universe s).
Proof. apply nodup_str_NoDup. Qed.
Lemma universe_incl s n : incl (dom_of s n) (universe s).
Proof.
  intros x Hx. unfold universe. apply nodup_str_In. unfold dom_of in Hx. destruct (find_concept s n) as [c|] eqn:Ef; [|destruct Hx].
  apply in_flat_map. exists c. split; [|exact Hx]. unfold find_concept in Ef. now apply find_some in Ef as [Hin _].
Qed.

(* ------------------------------------------------------------------ closedness of whole programs *)
Require Import Cnl2aspV.Cnl.CoreDef.

Lemma closedb_app I A B : closedb I (A ++ B) = closedb I A && closedb I B.
Proof. unfold closedb. apply forallb_app. Qed.

(* the facts of a concept are closed in I exactly when I holds every declared value *)
Lemma concept_closed U I c :
  closedb I (flat_map (ground_rule U) (compile_concept c)) = forallb (fun v => holds I (atom_text (c_name c) [v])) (dom_terms (c_dom c)).
Proof.
  unfold compile_concept, dom_terms. destruct (c_dom c) as [lo hi|vals].
  - cbn [flat_map ground_rule]. rewrite app_nil_r. unfold closedb. rewrite !forallb_map'. apply forallb_ext'. intros z. reflexivity.
  - rewrite flat_map_map. unfold closedb. rewrite forallb_flat_map, forallb_map'. apply forallb_ext'. intros v.
    cbn [ground_rule forallb]. rewrite andb_true_r. reflexivity.
Qed.

(* constraints and choice rules are no normal rules: nothing to be closed under *)
Definition no_rules (G : list grule) : Prop := forall r, In r G -> match r with GRule _ _ => False | _ => True end.
Lemma no_rules_closed I G : no_rules G -> closedb I G = true.
Proof. intros H. unfold closedb. apply forallb_forall. intros r Hr. specialize (H r Hr). destruct r; [destruct H|reflexivity|reflexivity]. Qed.

(* closedness of the whole ground program = every declared value holds, and the instances of every sentence's rules are closed *)
Theorem program_closed (s : spec) (U : list string) (I : interp) :
  closedb I (flat_map (ground_rule U) (compile s)) =
  r_domains s I && forallb (fun x => closedb I (flat_map (ground_rule U) (compile_sentence s x))) (sentences s).
Proof.
  unfold compile. rewrite flat_map_app, closedb_app. f_equal.
  - unfold r_domains. induction (concepts s) as [|c cs IH]; [reflexivity|]. cbn [flat_map forallb].
    rewrite flat_map_app, closedb_app, concept_closed, IH. reflexivity.
  - induction (sentences s) as [|x xs IH]; [reflexivity|]. cbn [flat_map forallb]. now rewrite flat_map_app, closedb_app, IH.
Qed.

Lemma cons_no_rules s U required whenpart main wh : no_rules (flat_map (ground_rule U) (compile_sentence s (SCons required whenpart main wh))).
Proof.
  intros r Hr. cbn [compile_sentence flat_map] in Hr. rewrite app_nil_r in Hr. cbn [ground_rule] in Hr.
  apply in_flat_map in Hr as (sg & _ & Hr). destruct (ground_body sg _); [|destruct Hr]. destruct Hr as [<-|[]]. exact Logic.I.
Qed.
Lemma there_no_rules s U required neg v a b : no_rules (flat_map (ground_rule U) (compile_sentence s (SThere required neg v a b))).
Proof.
  intros r Hr. cbn [compile_sentence flat_map] in Hr. rewrite app_nil_r in Hr. cbn [ground_rule] in Hr.
  apply in_flat_map in Hr as (sg & _ & Hr). destruct (ground_body sg _); [|destruct Hr]. destruct Hr as [<-|[]]. exact Logic.I.
Qed.
Lemma choice_no_rules s U c : no_rules (flat_map (ground_rule U) (compile_sentence s (SChoice c))).
Proof.
  intros r Hr. cbn [compile_sentence flat_map] in Hr. rewrite app_nil_r in Hr. unfold compile_choice in Hr.
  destruct (card_bounds (ch_card c)) as [lb ub]. cbn [ground_rule] in Hr.
  apply in_flat_map in Hr as (sg & _ & Hr). destruct (ground_body sg _); [|destruct Hr]. destruct Hr as [<-|[]]. exact Logic.I.
Qed.

Lemma oneof_rules_are_constraints s U l vals required whenpart main wh r :
  In r (flat_map (ground_rule U) (compile_sentence s (SOneOf l vals (SCons required whenpart main wh)))) ->
  exists b, r = GConstraint b.
Proof.
  intros Hr. cbn [compile_sentence flat_map] in Hr. rewrite app_nil_r in Hr. apply in_flat_map in Hr as (nr & Hnr & Hr).
  apply in_map_iff in Hnr as (v & <- & _). cbn [add_eq ground_rule] in Hr.
  apply in_flat_map in Hr as (sg & _ & Hr). destruct (ground_body sg _); [|destruct Hr]. destruct Hr as [<-|[]]. eauto.
Qed.
Lemma oneof_no_rules s U l vals required whenpart main wh :
  no_rules (flat_map (ground_rule U) (compile_sentence s (SOneOf l vals (SCons required whenpart main wh)))).
Proof. intros r Hr. destruct (oneof_rules_are_constraints s U l vals required whenpart main wh r Hr) as (b & ->). exact Logic.I. Qed.

(* without derived definitions: the ground program is closed in I exactly when I holds every declared value *)
Definition no_definition (x : sentence) : Prop :=
  match x with SChoice _ | SCons _ _ _ _ | SThere _ _ _ _ _ => True | SOneOf _ _ (SCons _ _ _ _) => True | _ => False end.
Corollary program_closed_no_definitions (s : spec) (U : list string) (I : interp) :
  (forall x, In x (sentences s) -> no_definition x) ->
  closedb I (flat_map (ground_rule U) (compile s)) = r_domains s I.
Proof.
  intros H. rewrite program_closed. rewrite <- (andb_true_r (r_domains s I)) at 2. f_equal.
  apply forallb_forall. intros x Hx. specialize (H x Hx). apply no_rules_closed.
  destruct x as [c|? ? ? ?|required whenpart main wh|l vals y|required neg v a b]; try destruct H.
  - apply choice_no_rules.
  - apply cons_no_rules.
  - destruct y; try destruct H. apply oneof_no_rules.
  - apply there_no_rules.
Qed.
