Require Import Coq.Strings.String Coq.Lists.List Coq.Bool.Bool Coq.Arith.Arith.
Require Import Cnl2aspV.Cnl.Fresh.
Import ListNotations.
Record frcase := { fr_parser : bool; fr_taken : list string; fr_name : string; fr_out : string }.
Definition frcase_ok (c : frcase) : bool :=
  let fuel := length (fr_taken c) + 3 in
  match (if fr_parser c then new_field_value_fuel fuel (fr_taken c) (fr_name c) else create_new_field_value fuel (fr_taken c) (fr_name c)) with
  | Some r => String.eqb r (fr_out c) | None => false end.
