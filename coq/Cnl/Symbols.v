(* Model of Cnl2asp.get_symbols: __convert_signature, __convert_attribute, Symbol.get_arity (cnl2asp.py),
   and of the argument list ASPConverter.convert_entity gives to an atom built from a signature. *)
Require Import Coq.Strings.String Coq.Lists.List Coq.Bool.Bool Coq.Arith.Arith.
Require Import Cnl2aspV.Base.Util Cnl2aspV.Asp.Syntax Cnl2aspV.Asp.Print.
Import ListNotations.
Open Scope string_scope.

Record eattr := { ea_name : string; ea_origin : origin }.
Record entity := { en_name : string; en_keys : list eattr; en_attrs : list eattr }.

(* EntityComponent.get_keys / get_attributes *)
Definition get_keys (e : entity) : list eattr := match en_keys e with [] => en_attrs e | k => k end.
Definition get_attributes (e : entity) : list eattr := match en_keys e with [] => [] | _ => en_attrs e end.

Inductive sym := SName (n : string) | SNode (pred : string) (inner : sym).

(* __convert_attribute: wrap while the origin link is not the entity itself *)
Fixpoint conv_origin (ename aname : string) (o : origin) : sym :=
  match o with
  | [] => SName aname
  | l :: rest => if negb (oname_eq_str l ename) then SNode (on_name l) (conv_origin ename aname rest) else SName aname
  end.
Definition convert_attribute (ename : string) (a : eattr) : sym := conv_origin ename (ea_name a) (ea_origin a).

Record symbol := { s_pred : string; s_keys : list sym; s_attributes : list sym }.

(* __convert_signature (after the repair recorded in KNOWN_FINDINGS.json: keys are always converted) *)
Definition convert_signature (e : entity) : symbol :=
  let keys := map (convert_attribute (en_name e)) (get_keys e) in
  let attributes := map (convert_attribute (en_name e)) (get_attributes e) in
  {| s_pred := en_name e; s_keys := keys; s_attributes := (keys ++ attributes)%list |}.

Definition top_name (s : sym) : string := match s with SName n => n | SNode p _ => p end.
Fixpoint nodup_s (l : list string) : list string :=
  match l with [] => [] | x :: r => if mem_string x r then nodup_s r else x :: nodup_s r end.

(* Symbol.get_arity *)
Definition flat_arity (s : symbol) : nat := length (s_attributes s).
Definition fn_arity (s : symbol) : nat := length (nodup_s (map top_name (s_attributes s))).

(* convert_entity: one argument per element of entity.keys + entity.attributes *)
Definition atom_arguments (e : entity) : list eattr := (en_keys e ++ en_attrs e)%list.

Lemma atom_arguments_keys_attrs e : atom_arguments e = (get_keys e ++ get_attributes e)%list.
Proof. unfold atom_arguments, get_keys, get_attributes. destruct (en_keys e); [now rewrite app_nil_r|reflexivity]. Qed.

Theorem flat_arity_is_atom_arity e : flat_arity (convert_signature e) = length (atom_arguments e).
Proof. unfold flat_arity, convert_signature. cbn [s_attributes]. now rewrite atom_arguments_keys_attrs, !app_length, !map_length. Qed.

Theorem keys_are_reported e : s_keys (convert_signature e) = firstn (length (get_keys e)) (s_attributes (convert_signature e)).
Proof.
  unfold convert_signature. cbn [s_keys s_attributes].
  rewrite <- (map_length (convert_attribute (en_name e)) (get_keys e)).
  now rewrite firstn_app, Nat.sub_diag, firstn_all, app_nil_r.
Qed.

(* every reported position is the attribute of that position *)
Theorem reported_position e i a : nth_error (atom_arguments e) i = Some a ->
  nth_error (s_attributes (convert_signature e)) i = Some (convert_attribute (en_name e) a).
Proof.
  rewrite atom_arguments_keys_attrs. unfold convert_signature. cbn [s_attributes]. rewrite <- map_app.
  intros H. now rewrite nth_error_map, H.
Qed.
