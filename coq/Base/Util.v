(* Small shared definitions: association lists keyed by strings / generated enums. *)
Require Import Coq.Strings.String Coq.ZArith.ZArith Coq.Lists.List Coq.Bool.Bool.
Import ListNotations.
Open Scope string_scope.

Fixpoint assoc {K V : Type} (eqb : K -> K -> bool) (k : K) (l : list (K * V)) : option V :=
  match l with
  | [] => None
  | (k', v) :: r => if eqb k k' then Some v else assoc eqb k r
  end.

Definition sassoc {V : Type} := @assoc string V String.eqb.

Fixpoint mem_string (s : string) (l : list string) : bool :=
  match l with [] => false | x :: r => String.eqb s x || mem_string s r end.

Lemma mem_string_In s l : mem_string s l = true <-> In s l.
Proof.
  induction l as [|x r IH]; simpl; [split; [discriminate|tauto]|].
  rewrite orb_true_iff, IH, String.eqb_eq. split; intros [H|H]; auto.
Qed.

Lemma assoc_In {K V} (eqb : K -> K -> bool) (Heq : forall a b, eqb a b = true -> a = b) k (l : list (K*V)) v :
  assoc eqb k l = Some v -> In (k, v) l.
Proof.
  induction l as [|[k' v'] r IH]; simpl; [discriminate|].
  destruct (eqb k k') eqn:E; intros H.
  - injection H as <-. apply Heq in E. subst. auto.
  - auto.
Qed.

Lemma forallb_In {A} (f : A -> bool) l : forallb f l = true -> forall x, In x l -> f x = true.
Proof. intros H x Hx. rewrite forallb_forall in H. auto. Qed.
