(* C05: the compiled temporal condition means its reading, for every formula, trace and state. *)
Require Import Coq.Strings.String Coq.Strings.Ascii Coq.Lists.List Coq.Bool.Bool Coq.Arith.Arith.
Require Import Cnl2aspV.Base.Util Cnl2aspV.Base.Str Cnl2aspV.Gen.Operators Cnl2aspV.Gen.Tables Cnl2aspV.Gen.Terminals
               Cnl2aspV.Tel.Sem Cnl2aspV.Tel.Syntax Cnl2aspV.Cnl.Temporal.
Import ListNotations.
Open Scope string_scope.

Definition flagged (n : bool) (X : sig) : sig := if n then s_not X else X.

(* the intended, compositional meaning of what the parser built (own `negated` flag included) *)
Fixpoint osem (tr : trace) (o : ocomp) : option sig :=
  let lam := length tr in
  match o with
  | OEnt p a n =>
      let A := atom_at tr a in
      Some (flagged n (match p with ENone => A | EPreviously => s_prev A | ESubsequently => s_next lam A
                                  | EInitially => s_at_first A | EFinally => s_at_last lam A end))
  | OVal c => sem_const lam c
  | OOp1 op n x => match tsym op, osem tr x with
                   | Some s, Some X => option_map (flagged n) (sem_un lam s X) | _, _ => None end
  | OOp2 op n x y => match tsym op, osem tr x, osem tr y with
                     | Some s, Some X, Some Y => option_map (flagged n) (sem_bin lam s X Y) | _, _, _ => None end
  end.

(* ------------------------------------------------------------------ connectives: name -> operator -> symbol -> meaning *)
Lemma dual_agree lam d dop F G W :
  dual_op d = Some dop -> r_dual lam d F G = Some W ->
  exists s, tsym dop = Some s /\ sem_bin lam s F G = Some W.
Proof.
  unfold r_dual. intros Hd Hr.
  repeat match type of Hr with
  | (if (String.eqb d ?c || String.eqb d ?c') then _ else _) = _ =>
      destruct (String.eqb_spec d c) as [->|]; [cbn [orb] in Hr|destruct (String.eqb_spec d c') as [->|]; [cbn [orb] in Hr|cbn [orb] in Hr]]
  | (if String.eqb d ?c then _ else _) = _ => destruct (String.eqb_spec d c) as [->|]
  end; try discriminate;
  (vm_compute in Hd; injection Hd as <-; injection Hr as <-; eexists; split; [vm_compute; reflexivity | reflexivity]).
Qed.

Lemma atom_ok tr a A : r_atom tr a = Some A -> exists X, build_atom a = COk X /\ osem tr X = Some A.
Proof.
  destruct a as [pre c v|ph]; cbn [r_atom build_atom].
  - intros H. injection H as <-. eexists. split; [reflexivity|]. destruct pre; reflexivity.
  - intros H.
    repeat match type of H with (if String.eqb ph ?c then _ else _) = _ => destruct (String.eqb_spec ph c) as [->|] end;
    try discriminate; injection H as <-; (eexists; split; [vm_compute; reflexivity | reflexivity]).
Qed.

Lemma operand_ok tr o : forall Od, r_operand tr o = Some Od -> exists X, build_operand o = COk X /\ osem tr X = Some Od.
Proof.
  induction o as [a|a d r IH]; intros Od H; cbn [r_operand build_operand] in *.
  - now apply atom_ok.
  - destruct (r_atom tr a) as [A|] eqn:Ea; [|discriminate].
    destruct (r_operand tr r) as [G|] eqn:Er; [|discriminate].
    destruct (atom_ok tr a A Ea) as (x & Bx & Sx). destruct (IH G eq_refl) as (y & By & Sy).
    rewrite Bx, By.
    destruct (dual_op d) as [dop|] eqn:Ed.
    + destruct (dual_agree _ _ _ _ _ _ Ed H) as (s & Hs & Hb).
      eexists. split; [reflexivity|]. cbn [osem]. rewrite Hs, Sx, Sy, Hb. reflexivity.
    + exfalso. unfold r_dual in H.
      repeat match type of H with
      | (if (String.eqb d ?c || String.eqb d ?c') then _ else _) = _ =>
          destruct (String.eqb_spec d c) as [->|]; [vm_compute in Ed; discriminate|destruct (String.eqb_spec d c') as [->|]; [vm_compute in Ed; discriminate|cbn [orb] in H]]
      | (if String.eqb d ?c then _ else _) = _ => destruct (String.eqb_spec d c) as [->|]; [vm_compute in Ed; discriminate|]
      end. discriminate.
Qed.

(* ------------------------------------------------------------------ one level *)
Definition tail_rel (tr : trace) (tail : option (operator * ocomp)) (tailR : option (string * sig)) : Prop :=
  match tail, tailR with
  | None, None => True
  | Some (dop, Y), Some (d, R) => dual_op d = Some dop /\ osem tr Y = Some R
  | _, _ => False end.

Lemma su_neg lam F : sem_un lam "~" F = Some (s_not F). Proof. reflexivity. Qed.
Lemma su_prev lam F : sem_un lam "<" F = Some (s_prev F). Proof. reflexivity. Qed.
Lemma su_evb lam F : sem_un lam "<?" F = Some (s_ev_before F). Proof. reflexivity. Qed.
Lemma su_alb lam F : sem_un lam "<*" F = Some (s_alw_before F). Proof. reflexivity. Qed.
Lemma su_next lam F : sem_un lam ">" F = Some (s_next lam F). Proof. reflexivity. Qed.
Lemma su_eva lam F : sem_un lam ">?" F = Some (s_ev_after lam F). Proof. reflexivity. Qed.
Lemma su_ala lam F : sem_un lam ">*" F = Some (s_alw_after lam F). Proof. reflexivity. Qed.

Ltac compute_names :=
  repeat match goal with
  | |- context [op_by_name ?s] => let v := eval vm_compute in (op_by_name s) in change (op_by_name s) with v
  | |- context [tsym ?o] => is_ground o; let v := eval vm_compute in (tsym o) in change (tsym o) with v
  | |- context [tword_eqb ?a ?b] => let v := eval vm_compute in (tword_eqb a b) in change (tword_eqb a b) with v
  end.

Ltac fin HX HY Hs Hb :=
  repeat (compute_names; cbn [orb andb osem set_negated option_map flagged]; cbv iota beta;
          rewrite ?HX, ?HY, ?Hs, ?Hb, ?su_neg, ?su_prev, ?su_evb, ?su_alb, ?su_next, ?su_eva, ?su_ala);
  reflexivity.

Definition plain_top (X : ocomp) : Prop :=
  match X with OEnt _ _ false | OOp1 _ false _ | OOp2 _ false _ _ => True | _ => False end.

Lemma set_negated_ok tr X Od : plain_top X -> osem tr X = Some Od -> osem tr (set_negated X) = Some (s_not Od).
Proof.
  destruct X as [p a [|]|c|op [|] x|op [|] x y]; cbn [plain_top]; try contradiction; intros _; cbn [osem set_negated].
  - intros H. injection H as <-. reflexivity.
  - destruct (tsym op); [|discriminate]. destruct (osem tr x); [|discriminate].
    destruct (sem_un _ _ _); [|discriminate]. cbn. intros H. injection H as <-. reflexivity.
  - destruct (tsym op); [|discriminate]. destruct (osem tr x); [|discriminate]. destruct (osem tr y); [|discriminate].
    destruct (sem_bin _ _ _ _); [|discriminate]. cbn. intros H. injection H as <-. reflexivity.
Qed.

Lemma level_ok tr neg t1 hold X Od tail tailR Rv :
  osem tr X = Some Od -> tail_rel tr tail tailR ->
  (neg = true -> t1 = None -> hold = None -> tail = None -> plain_top X) ->
  r_level (length tr) neg t1 hold Od tailR = Some Rv ->
  exists Z, build_level neg t1 X hold tail = COk Z /\ osem tr Z = Some Rv.
Proof.
  intros HX HT HP HR.
  destruct tail as [[dop Y]|], tailR as [[d R]|]; cbn [tail_rel] in HT; try contradiction.
  - (* with a tail *)
    destruct HT as [Hd HY].
    destruct t1 as [[]|]; destruct hold as [[hn [] hf]|]; destruct neg; try destruct hn;
      cbn [r_level h_neg h_word word_direction word_quantifier r_quantified r_shift] in HR; try discriminate;
      match type of HR with
      | context [r_dual ?l ?d ?C ?R] => destruct (r_dual l d C R) as [W|] eqn:EW; [|discriminate];
          destruct (dual_agree _ _ _ _ _ _ Hd EW) as (s & Hs & Hb)
      end; injection HR as <-;
      unfold build_level; cbn [h_neg h_word]; compute_names; cbv iota beta;
      (eexists; split; [reflexivity|]); fin HX HY Hs Hb.
  - (* last level *)
    destruct t1 as [[]|]; destruct hold as [[hn [] hf]|]; destruct neg; try destruct hn;
      cbn [r_level h_neg h_word word_direction word_quantifier r_quantified r_shift] in HR; try discriminate;
      injection HR as <-;
      unfold build_level; cbn [h_neg h_word]; compute_names; cbv iota beta;
      (eexists; split; [reflexivity|]);
      first [ fin HX HX HX HX | apply set_negated_ok; [apply HP; reflexivity | exact HX] ].
Qed.

(* ------------------------------------------------------------------ whole formulas *)
Definition bare_constant (o : toperand) : bool := match o with OLeaf (TCon _) => true | _ => false end.

(* 'there is not <constant>' alone: the parser sets `negated` on a plain string, which has no effect; outside the fragment *)
Fixpoint negation_guard (f : tformula) : bool :=
  match f with
  | TFLast _ n t o h => negb (n && match t with None => true | _ => false end && match h with None => true | _ => false end && bare_constant o)
  | TFCons _ _ _ _ _ _ r => negation_guard r
  end.

Lemma operand_plain o X : build_operand o = COk X -> bare_constant o = false -> plain_top X.
Proof.
  destruct o as [[pre c v|ph]|a d r]; cbn [build_operand build_atom bare_constant]; try discriminate.
  - intros H _. injection H as <-. exact I.
  - intros H _. destruct (build_atom a); [|destruct (dual_op d), (build_operand r); discriminate].
    destruct (dual_op d); [|destruct (build_operand r); discriminate].
    destruct (build_operand r); [|discriminate]. injection H as <-. exact I.
Qed.

Lemma r_level_tail_dual lam n t h Od d Rr R :
  r_level lam n t h Od (Some (d, Rr)) = Some R -> exists C W, r_dual lam d C Rr = Some W.
Proof.
  intros H. unfold r_level in H. cbv zeta in H.
  match type of H with match ?core with Some _ => _ | None => None end = _ => destruct core as [[C sh]|]; [|discriminate] end.
  destruct (r_dual lam d C Rr) as [W|] eqn:E; [eauto|discriminate].
Qed.

Lemma r_dual_has_op lam d F G W : r_dual lam d F G = Some W -> exists dop, dual_op d = Some dop.
Proof.
  unfold r_dual. intros H.
  repeat match type of H with
  | (if (String.eqb d ?c || String.eqb d ?c') then _ else _) = _ =>
      destruct (String.eqb_spec d c) as [->|]; [vm_compute; eauto|destruct (String.eqb_spec d c') as [->|]; [vm_compute; eauto|cbn [orb] in H]]
  | (if String.eqb d ?c then _ else _) = _ => destruct (String.eqb_spec d c) as [->|]; [vm_compute; eauto|]
  end. discriminate.
Qed.

Lemma formula_ok tr f : forall R, negation_guard f = true -> treading tr f = Some R ->
  exists Z, build_formula f = COk Z /\ osem tr Z = Some R.
Proof.
  induction f as [p n t o h|p n t o h d r IH]; intros R G H; cbn [treading build_formula negation_guard] in *.
  - destruct (r_operand tr o) as [Od|] eqn:Eo; [|discriminate].
    destruct (operand_ok tr o Od Eo) as (X & BX & SX). rewrite BX.
    apply (level_ok tr n t h X Od None None R SX I); [|exact H].
    intros -> -> -> _. cbn in G. apply negb_true_iff in G. apply (operand_plain o X BX G).
  - destruct (r_operand tr o) as [Od|] eqn:Eo; [|discriminate].
    destruct (treading tr r) as [Rr|] eqn:Er; [|discriminate].
    destruct (operand_ok tr o Od Eo) as (X & BX & SX). destruct (IH Rr G eq_refl) as (Y & BY & SY).
    rewrite BX, BY.
    destruct (dual_op d) as [dop|] eqn:Ed.
    + apply (level_ok tr n t h X Od (Some (dop, Y)) (Some (d, Rr)) R SX); [split; assumption| discriminate | exact H].
    + exfalso. (* the reading is undefined for a connective the grammar does not have *)
      destruct (r_level_tail_dual _ _ _ _ _ _ _ _ H) as (C & W & EW).
      destruct (r_dual_has_op _ _ _ _ _ EW) as (dop & E). congruence.
Qed.

(* ------------------------------------------------------------------ what telingo reads = the intended meaning, on clean formulas *)
Definition inner_clean (f : tform) : bool := negb (has_prime f) && negb (has_neg_atom f) && negb (has_init f).

Lemma tsym_neg : tsym Op_NEGATION = Some "~".
Proof. vm_compute. reflexivity. Qed.

Lemma option_map_flagged_false (r : option sig) : option_map (flagged false) r = r.
Proof. destruct r; reflexivity. Qed.

Lemma inner_clean_un op g : inner_clean (FUn op g) = inner_clean g.  Proof. reflexivity. Qed.
Lemma inner_clean_bin op g h : inner_clean (FBin op g h) = inner_clean g && inner_clean h.
Proof.
  unfold inner_clean. cbn [has_prime has_neg_atom has_init].
  destruct (has_prime g), (has_prime h), (has_neg_atom g), (has_neg_atom h), (has_init g), (has_init h); reflexivity.
Qed.

Lemma tsat_inner tr o : inner_clean (to_tform_args o) = true -> tsat_in tr Inner (to_tform_args o) = osem tr o.
Proof.
  induction o as [p a n|c|op n x IH|op n x IHx y IHy]; cbn [to_tform_args]; intros C.
  - unfold inner_clean in C. cbn [has_prime has_neg_atom has_init] in C.
    destruct n; [cbn in C; rewrite andb_false_r in C; discriminate|].
    destruct p; cbn in C; try discriminate. reflexivity.
  - reflexivity.
  - destruct n.
    + rewrite inner_clean_un, inner_clean_un in C.
      cbn [tsat_in]. rewrite tsym_neg. cbn [tsat_in] in *. rewrite (IH C). cbn [osem].
      destruct (tsym op); [|reflexivity]. destruct (osem tr x); [|reflexivity].
      destruct (sem_un _ _ _); reflexivity.
    + rewrite inner_clean_un in C. cbn [tsat_in osem]. rewrite (IH C).
      destruct (tsym op); [|reflexivity]. destruct (osem tr x); [|reflexivity].
      now rewrite option_map_flagged_false.
  - destruct n.
    + rewrite inner_clean_un, inner_clean_bin in C. apply andb_true_iff in C as [Cx Cy].
      cbn [tsat_in]. rewrite tsym_neg. rewrite (IHx Cx), (IHy Cy). cbn [osem].
      destruct (tsym op); [|reflexivity]. destruct (osem tr x); [|reflexivity]. destruct (osem tr y); [|reflexivity].
      destruct (sem_bin _ _ _ _); reflexivity.
    + rewrite inner_clean_bin in C. apply andb_true_iff in C as [Cx Cy].
      cbn [tsat_in osem]. rewrite (IHx Cx), (IHy Cy).
      destruct (tsym op); [|reflexivity]. destruct (osem tr x); [|reflexivity]. destruct (osem tr y); [|reflexivity].
      now rewrite option_map_flagged_false.
Qed.

Definition operand_clean (f : tform) : bool := negb (has_prime f) && negb (has_neg_atom f) && negb (operand_inner_init f).

Lemma clean_split a b c : negb a && negb b && negb c = true -> a = false /\ b = false /\ c = false.
Proof. destruct a, b, c; cbn; intros; try discriminate; auto. Qed.

Lemma tsat_operand_ok tr o : operand_clean (to_tform_args o) = true -> tsat_operand tr (to_tform_args o) = osem tr o.
Proof.
  destruct o as [p a n|c|op n x|op n x y]; cbn [to_tform_args]; intros C.
  - apply clean_split in C as (Cp & Cn & _). cbn [has_prime has_neg_atom] in *. subst n.
    destruct p; try discriminate; reflexivity.
  - reflexivity.
  - assert (IC : inner_clean (to_tform_args (OOp1 op n x)) = true).
    { cbn [to_tform_args]. apply clean_split in C as (C1 & C2 & C3). unfold inner_clean.
      destruct n; cbn [has_prime has_neg_atom has_init operand_inner_init] in *; now rewrite C1, C2, C3. }
    rewrite <- (tsat_inner tr (OOp1 op n x) IC). cbn [to_tform_args]. destruct n; reflexivity.
  - destruct n.
    + assert (IC : inner_clean (to_tform_args (OOp2 op true x y)) = true).
      { cbn [to_tform_args]. apply clean_split in C as (C1 & C2 & C3). unfold inner_clean.
        cbn [has_prime has_neg_atom has_init operand_inner_init] in *. now rewrite C1, C2, C3. }
      rewrite <- (tsat_inner tr (OOp2 op true x y) IC). reflexivity.
    + apply clean_split in C as (C1 & C2 & C3). cbn [has_prime has_neg_atom] in C1, C2.
      apply orb_false_iff in C1 as [C1x C1y]. apply orb_false_iff in C2 as [C2x C2y].
      destruct x as [p a n|c|op1 n1 x1|op1 n1 x1 y1].
      * (* leftmost atom: gets the << / >> rewriting *)
        cbn [to_tform_args operand_inner_init] in *. cbn [has_neg_atom has_prime] in C2x, C1x. subst n.
        assert (ICy : inner_clean (to_tform_args y) = true) by (unfold inner_clean; now rewrite C1y, C2y, C3).
        cbn [tsat_operand osem]. rewrite (tsat_inner tr y ICy).
        destruct (tsym op); [|reflexivity].
        destruct p; try discriminate; cbn [tsat_in sem_natom sem_atom flagged];
          (destruct (osem tr y); [|reflexivity]); now rewrite option_map_flagged_false.
      * cbn [to_tform_args operand_inner_init has_init] in *.
        assert (IC : inner_clean (to_tform_args (OOp2 op false (OVal c) y)) = true)
          by (unfold inner_clean; cbn [to_tform_args has_prime has_neg_atom has_init]; now rewrite C1y, C2y, C3).
        rewrite <- (tsat_inner tr _ IC). reflexivity.
      * assert (IC : inner_clean (to_tform_args (OOp2 op false (OOp1 op1 n1 x1) y)) = true).
        { unfold inner_clean.
          destruct n1; cbn [to_tform_args has_prime has_neg_atom has_init operand_inner_init] in *;
            rewrite ?C1x, ?C2x, ?C1y, ?C2y; cbn [orb negb andb]; now rewrite C3. }
        rewrite <- (tsat_inner tr _ IC). cbn [to_tform_args]. destruct n1; reflexivity.
      * assert (IC : inner_clean (to_tform_args (OOp2 op false (OOp2 op1 n1 x1 y1) y)) = true).
        { unfold inner_clean.
          destruct n1; cbn [to_tform_args has_prime has_neg_atom has_init operand_inner_init] in *;
            rewrite ?C1x, ?C2x, ?C1y, ?C2y; cbn [orb negb andb]; now rewrite C3. }
        rewrite <- (tsat_inner tr _ IC). cbn [to_tform_args]. destruct n1; reflexivity.
Qed.

(* ------------------------------------------------------------------ the rule body *)
Lemma body_sat_ok tr o b : convert_top o = Some b -> body_clean b = true -> body_sat tr b = osem tr o.
Proof.
  destruct o as [p a n|c|op n x|op n x y]; cbn [convert_top]; intros H; injection H as <-; cbn [body_clean]; intros C.
  - destruct p; cbn [prime_of] in C; try discriminate. cbn [prime_of body_sat osem]. destruct n; reflexivity.
  - discriminate.
  - cbn [to_tform] in *. assert (OC : operand_clean (to_tform_args x) = true) by exact C.
    cbn [body_sat tsat osem]. rewrite (tsat_operand_ok tr x OC).
    destruct (tsym op); [|reflexivity]. destruct (osem tr x); [|reflexivity].
    destruct (sem_un _ _ _); destruct n; reflexivity.
  - cbn [to_tform] in *. unfold tform_clean in C. cbn [has_prime has_neg_atom inner_init] in C.
    assert (OCx : operand_clean (to_tform_args x) = true /\ operand_clean (to_tform_args y) = true).
    { unfold operand_clean.
      destruct (has_prime (to_tform_args x)), (has_prime (to_tform_args y)), (has_neg_atom (to_tform_args x)),
               (has_neg_atom (to_tform_args y)), (operand_inner_init (to_tform_args x)), (operand_inner_init (to_tform_args y));
        cbn in *; try discriminate; auto. }
    destruct OCx as [OCx OCy].
    cbn [body_sat tsat osem]. rewrite (tsat_operand_ok tr x OCx), (tsat_operand_ok tr y OCy).
    destruct (tsym op); [|reflexivity]. destruct (osem tr x); [|reflexivity]. destruct (osem tr y); [|reflexivity].
    destruct (sem_bin _ _ _ _); destruct n; reflexivity.
Qed.

Theorem condition_correct f tr R b :
  negation_guard f = true -> treading tr f = Some R -> compile_condition f = COk b -> body_clean b = true ->
  body_sat tr b = Some R.
Proof.
  intros G HR HC HB. destruct (formula_ok tr f R G HR) as (Z & BZ & SZ).
  unfold compile_condition in HC. rewrite BZ in HC.
  destruct (convert_top Z) as [b'|] eqn:E; [|discriminate]. injection HC as <-.
  now rewrite (body_sat_ok tr Z b' E HB).
Qed.

Lemma osem_negate tr Z R : (forall c, Z <> OVal c) -> osem tr Z = Some R ->
  exists Sg, osem tr (negate_for_requirement Z) = Some Sg /\ forall k, Sg k = negb (R k).
Proof.
  intros NV. destruct Z as [p a n|c|op n x|op n x y]; cbn [negate_for_requirement osem].
  - intros H. injection H as <-. eexists. split; [reflexivity|]. intros k. destruct n; cbn [negb flagged]; unfold s_not; now rewrite ?negb_involutive.
  - exfalso. now apply (NV c).
  - destruct (tsym op); [|discriminate]. destruct (osem tr x); [|discriminate]. destruct (sem_un _ _ _) as [U|]; [|discriminate].
    cbn [option_map]. intros H. injection H as <-. eexists. split; [reflexivity|].
    intros k. destruct n; cbn [negb flagged]; unfold s_not; now rewrite ?negb_involutive.
  - destruct (tsym op); [|discriminate]. destruct (osem tr x); [|discriminate]. destruct (osem tr y); [|discriminate].
    destruct (sem_bin _ _ _ _) as [U|]; [|discriminate].
    cbn [option_map]. intros H. injection H as <-. eexists. split; [reflexivity|].
    intros k. destruct n; cbn [negb flagged]; unfold s_not; now rewrite ?negb_involutive.
Qed.

(* prohibited: the body holds exactly where the condition holds; required: exactly where it does not *)
Theorem constraint_correct required f tr R b :
  negation_guard f = true -> treading tr f = Some R -> compile_constraint required f = COk b -> body_clean b = true ->
  exists Sg, body_sat tr b = Some Sg /\ forall k, Sg k = (if required then negb (R k) else R k).
Proof.
  intros G HR HC HB. destruct (formula_ok tr f R G HR) as (Z & BZ & SZ).
  unfold compile_constraint in HC. rewrite BZ in HC.
  destruct required.
  - destruct (convert_top (negate_for_requirement Z)) as [b'|] eqn:E; [|discriminate]. injection HC as <-.
    assert (NV : forall c, Z <> OVal c).
    { intros c ->. cbn in E. injection E as <-. discriminate. }
    destruct (osem_negate tr Z R NV SZ) as (Sg & HS & Hk).
    exists Sg. split; [|exact Hk]. now rewrite (body_sat_ok tr _ b' E HB).
  - destruct (convert_top Z) as [b'|] eqn:E; [|discriminate]. injection HC as <-.
    exists R. split; [now rewrite (body_sat_ok tr Z b' E HB)|reflexivity].
Qed.

(* ------------------------------------------------------------------ the three recorded defects, exhibited on the model *)
Definition P1 := TEnt ENone "p" "1".
Definition Q2 := TEnt ENone "q" "2".

(* F-C05-nested-initially *)
Definition f_nested_init := TFLast false false None (ODual P1 "and" (ODual Q2 "or" (OLeaf (TEnt EInitially "p" "1")))) None.
Lemma nested_initially_refuted :
  exists tr k b R Sg, treading tr f_nested_init = Some R /\ compile_condition f_nested_init = COk b /\
                      body_sat tr b = Some Sg /\ Sg k <> R k.
Proof.
  exists [["p(1)"]], 0%nat. eexists. eexists. eexists.
  split; [reflexivity|]. split; [vm_compute; reflexivity|]. split; [vm_compute; reflexivity|]. vm_compute. discriminate.
Qed.

(* F-C05-primes-in-formula: telingo refuses the text (body_sat undefined) although the condition has a reading *)
Definition f_prime := TFLast false false None (ODual (TEnt EPreviously "p" "1") "and" (OLeaf Q2)) None.
Lemma primes_refuted :
  exists b, compile_condition f_prime = COk b /\ (forall tr, treading tr f_prime <> None) /\ (forall tr, body_sat tr b = None).
Proof. eexists. split; [vm_compute; reflexivity|]. split; intros tr; [discriminate|reflexivity]. Qed.

(* F-C05-negated-entity-in-formula: 'not q(2)' inside &tel (has_neg_atom); telingo refuses it (observed by the check) *)
Definition f_neg_entity := TFCons false false None (OLeaf P1) None "or" (TFLast false true None (OLeaf Q2) None).
Lemma negated_entity_unclean :
  exists b, compile_condition f_neg_entity = COk b /\ body_clean b = false /\
            print_body_item true b = "not not &tel {p(1) | not q(2)}".
Proof. eexists. split; [vm_compute; reflexivity|]. split; vm_compute; reflexivity. Qed.

(* non-vacuity: a documented sentence of examples/telingo/operators meets every hypothesis *)
Definition f_example := TFLast false false (Some WBefore) (OLeaf P1) (Some {| h_neg := false; h_word := WAlways; h_hold_first := false |}).
Lemma example_supported :
  negation_guard f_example = true /\ (forall tr, treading tr f_example <> None) /\
  exists b, compile_condition f_example = COk b /\ body_clean b = true /\ print_body_item true b = "not not &tel {<* p(1)}".
Proof. split; [reflexivity|]. split; [intros tr; discriminate|]. eexists. split; [vm_compute; reflexivity|]. split; vm_compute; reflexivity. Qed.
