(* main(): totality and no partial output over the GENERATED skeleton; the diagnostic text of ParserError. *)
Require Import Coq.Strings.String Coq.Strings.Ascii Coq.Lists.List Coq.Bool.Bool Coq.Arith.Arith Coq.ZArith.ZArith.
Require Import Cnl2aspV.Base.Util Cnl2aspV.Base.Str Cnl2aspV.Base.Digits Cnl2aspV.Gen.Tables.
Require Import Cnl2aspV.Api.ExcSem Cnl2aspV.Api.ExcProofs Cnl2aspV.Gen.MainSkeleton.
Import ListNotations.
Open Scope string_scope.

(* -o needs the absent package ngo and --debug re-raises on purpose: both outside the property's configurations *)
Definition fixed_flags : list (string * bool) := [("optimize", false); ("debug", false)].

Lemma main_guard : tot_stmts fixed_flags main_body = true.
Proof. vm_compute. reflexivity. Qed.

Theorem main_total (oracle : nat -> option exc) (flag : string -> bool) :
  flag "optimize" = false -> flag "debug" = false ->
  terminates_normally (exec_stmts oracle flag main_body false) = true.
Proof.
  intros Ho Hd. apply no_raise_terminates. apply (sound_stmts fixed_flags oracle flag); [|exact main_guard].
  intros f b H. unfold fixed_flags, sassoc in H. cbn [assoc] in H.
  destruct (String.eqb_spec f "optimize") as [->|]; [injection H as <-; exact Ho|].
  destruct (String.eqb_spec f "debug") as [->|]; [injection H as <-; exact Hd|]. discriminate.
Qed.

(* main_body = everything up to and including the try around compile()  ++  the rest (optimize, output, solving) *)
Fixpoint has_site (ids : list nat) (s : stmt) : bool :=
  match s with
  | SCall id _ _ => existsb (Nat.eqb id) ids
  | SIf _ a b => has_site_stmts ids a || has_site_stmts ids b
  | STry body hs => has_site_stmts ids body
  | _ => false end
with has_site_stmts (ids : list nat) (ss : stmts) : bool :=
  match ss with SNil => false | SCons s r => has_site ids s || has_site_stmts ids r end.

Fixpoint split_after (ids : list nat) (ss : stmts) : stmts * stmts :=
  match ss with
  | SNil => (SNil, SNil)
  | SCons s r => if has_site ids s then (SCons s SNil, r)
                 else let '(p, q) := split_after ids r in (SCons s p, q)
  end.

Definition main_prefix : stmts := fst (split_after compile_sites main_body).
Definition main_rest : stmts := snd (split_after compile_sites main_body).

Lemma main_split : main_body = app_stmts main_prefix main_rest.
Proof. vm_compute. reflexivity. Qed.
Lemma prefix_never_opens : opens_stmts main_prefix = false.
Proof. vm_compute. reflexivity. Qed.

Lemma agrees_of (fixed : list (string * bool)) (flag : string -> bool) :
  forallb (fun p => Bool.eqb (flag (fst p)) (snd p)) fixed = true -> agrees fixed flag.
Proof.
  induction fixed as [|[f b] r IH]; intros H g c E; cbn in *; [discriminate|].
  apply andb_true_iff in H as [H1 H2]. unfold sassoc in E. cbn [assoc] in E.
  destruct (String.eqb_spec g f) as [->|]; [injection E as <-; now apply Bool.eqb_prop|]. now apply IH.
Qed.

Lemma no_open_if_prefix_not_normal oracle flag :
  not_normal (exec_stmts oracle flag main_prefix false) -> snd (exec_stmts oracle flag main_body false) = false.
Proof.
  intros NN. rewrite main_split, exec_app.
  pose proof (keeps_stmts oracle flag main_prefix prefix_never_opens false) as K. unfold not_normal in NN.
  destruct (exec_stmts oracle flag main_prefix false) as [[| |e] op]; cbn [fst snd] in *; [contradiction|exact K|exact K].
Qed.

(* when compile() raises, whatever it raises, the output file is never opened *)
Theorem no_output_when_compile_fails (oracle : nat -> option exc) (flag : string -> bool) :
  (forall cid, In cid compile_sites -> oracle cid <> None) ->
  snd (exec_stmts oracle flag main_body false) = false.
Proof.
  intros Hc. apply no_open_if_prefix_not_normal.
  apply (nn_sound_stmts [] (fun id => existsb (Nat.eqb id) compile_sites) oracle flag).
  - intros f b E. discriminate.
  - intros id H. apply existsb_exists in H as (c & Hin & E). apply Nat.eqb_eq in E. subst. now apply Hc.
  - vm_compute. reflexivity.
Qed.

(* -c / --cnl2json / --symbols never open an output file, whatever happens *)
Theorem no_output_in_query_modes (oracle : nat -> option exc) (flag : string -> bool) :
  flag "check_syntax" = true \/ flag "cnl2json" = true \/ flag "symbols" = true ->
  snd (exec_stmts oracle flag main_body false) = false.
Proof.
  intros H. apply no_open_if_prefix_not_normal.
  destruct H as [H|[H|H]].
  - apply (nn_sound_stmts [("check_syntax", true)] (fun _ => false) oracle flag);
      [apply agrees_of; cbn; now rewrite H | discriminate | vm_compute; reflexivity].
  - apply (nn_sound_stmts [("cnl2json", true)] (fun _ => false) oracle flag);
      [apply agrees_of; cbn; now rewrite H | discriminate | vm_compute; reflexivity].
  - apply (nn_sound_stmts [("symbols", true)] (fun _ => false) oracle flag);
      [apply agrees_of; cbn; now rewrite H | discriminate | vm_compute; reflexivity].
Qed.

(* ---------------------------------------------------------------- ParserError (cnl2asp_exceptions.py) *)
Fixpoint take_word (s : string) : string :=       (* characters up to the first blank *)
  match s with EmptyString => EmptyString | String c r => if Ascii.eqb c " " then EmptyString else String c (take_word r) end.
(* the maximal blank-free run around position i:  string[down+1:up] *)
Fixpoint word_back (rev_prefix : string) (acc : string) : string :=
  match rev_prefix with EmptyString => acc | String c r => if Ascii.eqb c " " then acc else word_back r (String c acc) end.
Fixpoint split_at (n : nat) (s : string) (rev_prefix : string) : string * string :=
  match n, s with
  | O, _ => (rev_prefix, s)
  | S k, String c r => split_at k r (String c rev_prefix)
  | S _, EmptyString => (rev_prefix, EmptyString)
  end.
Definition get_unrecognized_word (line : string) (index : nat) : string :=
  let '(rp, rest) := split_at index line EmptyString in
  match rest with
  | EmptyString => word_back rp EmptyString                 (* index = len(line): up stops at once; down scans back from index... *)
  | String c r => if Ascii.eqb c " " then EmptyString       (* string[index] is a blank: up = down = index *)
                  else word_back rp (String c (take_word r))
  end.

Definition expected_line (w : string) : string :=
  if prefix_b "_CNL_" w then " * " ++ removeprefix "_CNL_" w ++ nl
  else if String.eqb w "SPACE" then " * SPACE ("" "")" ++ nl
  else " * " ++ w ++ nl.

Definition parser_error_text (unexpected_char : string) (line_number col_number : Z) (context line : string) (allowed : list string) : string :=
  let expected := String.concat "" (map expected_line allowed) in
  let w := get_unrecognized_word line (Z.to_nat (col_number - 1)) in
  let hint := if (mem_string w locked_keywords && mem_string "STRING" allowed) || mem_string "PARAMETER_NAME" allowed
              then "Might be caused by the usage of a locked keyword """ ++ w ++ """ as a name" else "" in
  "Parser error at line " ++ show_Z line_number ++ ", col " ++ show_Z col_number ++ ". Unexpected char """ ++ unexpected_char ++ """:" ++ nl ++
  context ++ "Expected one of:" ++ nl ++ expected ++ nl ++ nl ++ hint.

Lemma prefix_b_app_same x : forall y z, prefix_b (x ++ y) (x ++ z) = prefix_b y z.
Proof. induction x as [|c r IH]; intros y z; cbn; [reflexivity|]. now rewrite Ascii.eqb_refl, IH. Qed.
Lemma prefix_b_self_app x : forall t, prefix_b x (x ++ t) = true.
Proof. induction x as [|c r IH]; intros t; cbn; [now destruct t|]. now rewrite Ascii.eqb_refl, IH. Qed.

Theorem diagnostic_cites_position c l k ctx line allowed :
  prefix_b ("Parser error at line " ++ show_Z l ++ ", col " ++ show_Z k) (parser_error_text c l k ctx line allowed) = true.
Proof.
  unfold parser_error_text. cbv zeta.
  rewrite prefix_b_app_same, prefix_b_app_same, prefix_b_app_same. apply prefix_b_self_app.
Qed.

(* the word scan is blank-free (and total: it is a function) *)
Lemma take_word_no_blank s : sforall (fun c => negb (Ascii.eqb c " ")) (take_word s) = true.
Proof. induction s as [|c r IH]; cbn; [reflexivity|]. destruct (Ascii.eqb c " ") eqn:E; cbn; [reflexivity|]. now rewrite E, IH. Qed.
Lemma word_back_no_blank rp : forall acc, sforall (fun c => negb (Ascii.eqb c " ")) acc = true ->
  sforall (fun c => negb (Ascii.eqb c " ")) (word_back rp acc) = true.
Proof. induction rp as [|c r IH]; cbn; intros acc H; [exact H|]. destruct (Ascii.eqb c " ") eqn:E; [exact H|]. apply IH. cbn. now rewrite E, H. Qed.
Theorem unrecognized_word_blank_free line i :
  sforall (fun c => negb (Ascii.eqb c " ")) (get_unrecognized_word line i) = true.
Proof.
  unfold get_unrecognized_word. destruct (split_at i line EmptyString) as [rp rest].
  destruct rest as [|c r]; [now apply word_back_no_blank|].
  destruct (Ascii.eqb c " ") eqn:E; [reflexivity|]. apply word_back_no_blank. cbn. now rewrite E, take_word_no_blank.
Qed.
