(* Totality of a control skeleton: a syntactic guard and its soundness (mutual structural induction). *)
Require Import Coq.Strings.String Coq.Lists.List Coq.Bool.Bool Coq.Arith.Arith.
Require Import Cnl2aspV.Base.Util Cnl2aspV.Api.ExcSem.
Import ListNotations.
Open Scope string_scope.

Section Guard.
  Variable fixed : list (string * bool).      (* tests whose value is fixed by the theorem's hypotheses *)

  Fixpoint tot_stmt (s : stmt) : bool :=
    match s with
    | SCall _ _ KApi => false
    | SCall _ _ _ => true
    | SOpenOut => true
    | SReturn => true
    | SRaise => false
    | SIf f a b => match sassoc f fixed with
                   | Some true => tot_stmts a | Some false => tot_stmts b | None => tot_stmts a && tot_stmts b end
    | STry _ hs => tot_handlers hs            (* whatever the body raises is caught by a total handler *)
    end
  with tot_stmts (ss : stmts) : bool :=
    match ss with SNil => true | SCons s r => tot_stmt s && tot_stmts r end
  with tot_handlers (hs : handlers) : bool :=
    match hs with
    | HNil => false
    | HCons cls body r => tot_stmts body && (String.eqb cls "Exception" || tot_handlers r)
    end.

  Definition agrees (flag : string -> bool) : Prop := forall f b, sassoc f fixed = Some b -> flag f = b.

  Section Sound.
    Variable oracle : nat -> option exc.
    Variable flag : string -> bool.
    Hypothesis Hag : agrees flag.

    Definition no_raise (r : outcome * bool) : Prop := match fst r with ORaise _ => False | _ => True end.

    Lemma exec_try body hs op :
      exec_stmt oracle flag (STry body hs) op =
      match exec_stmts oracle flag body op with (ORaise e, op') => exec_handlers oracle flag hs e op' | r => r end.
    Proof. reflexivity. Qed.
    Lemma exec_if f a b op :
      exec_stmt oracle flag (SIf f a b) op = if flag f then exec_stmts oracle flag a op else exec_stmts oracle flag b op.
    Proof. reflexivity. Qed.
    Lemma exec_cons s r op :
      exec_stmts oracle flag (SCons s r) op =
      match exec_stmt oracle flag s op with (ONormal, op') => exec_stmts oracle flag r op' | res => res end.
    Proof. reflexivity. Qed.
    Lemma exec_hcons cls body r e op :
      exec_handlers oracle flag (HCons cls body r) e op =
      if catches cls e then exec_stmts oracle flag body op else exec_handlers oracle flag r e op.
    Proof. reflexivity. Qed.

    Fixpoint sound_stmt (s : stmt) : tot_stmt s = true -> forall op, no_raise (exec_stmt oracle flag s op)
    with sound_stmts (ss : stmts) : tot_stmts ss = true -> forall op, no_raise (exec_stmts oracle flag ss op)
    with sound_handlers (hs : handlers) : tot_handlers hs = true -> forall e op, no_raise (exec_handlers oracle flag hs e op).
    Proof.
      - destruct s as [id name k| | | |f a b|body hs]; intros H op.
        + destruct k; try discriminate; exact I.
        + exact I.
        + exact I.
        + discriminate.
        + rewrite exec_if. cbn [tot_stmt] in H. destruct (sassoc f fixed) as [[|]|] eqn:E.
          * rewrite (Hag f true E). now apply sound_stmts.
          * rewrite (Hag f false E). now apply sound_stmts.
          * apply andb_true_iff in H as [Ha Hb]. destruct (flag f); now apply sound_stmts.
        + rewrite exec_try. cbn [tot_stmt] in H.
          destruct (exec_stmts oracle flag body op) as [[| |e] op'] eqn:E; [exact I|exact I|].
          now apply sound_handlers.
      - destruct ss as [|s r]; intros H op; [exact I|].
        rewrite exec_cons. cbn [tot_stmts] in H. apply andb_true_iff in H as [Hs Hr].
        pose proof (sound_stmt s Hs op) as Ns. unfold no_raise in Ns.
        destruct (exec_stmt oracle flag s op) as [[| |e] op'] eqn:E; cbn [fst] in Ns; [|exact I|contradiction].
        now apply sound_stmts.
      - destruct hs as [|cls body r]; intros H e op; [discriminate|].
        rewrite exec_hcons. cbn [tot_handlers] in H. apply andb_true_iff in H as [Hb Hr].
        destruct (catches cls e) eqn:Ec; [now apply sound_stmts|].
        unfold catches in Ec. apply orb_false_iff in Ec as [Ec _]. rewrite Ec in Hr. cbn [orb] in Hr.
        now apply sound_handlers.
    Qed.
  End Sound.
End Guard.

Lemma no_raise_terminates r : no_raise r -> terminates_normally r = true.
Proof. unfold no_raise, terminates_normally. destruct (fst r); auto; contradiction. Qed.

(* ------------------------------------------------------------------ "never finishes normally" and "never opens" *)
Fixpoint app_stmts (a b : stmts) : stmts := match a with SNil => b | SCons s r => SCons s (app_stmts r b) end.

Fixpoint opens_stmt (s : stmt) : bool :=
  match s with
  | SOpenOut => true
  | SIf _ a b => opens_stmts a || opens_stmts b
  | STry body hs => opens_stmts body || opens_handlers hs
  | _ => false end
with opens_stmts (ss : stmts) : bool := match ss with SNil => false | SCons s r => opens_stmt s || opens_stmts r end
with opens_handlers (hs : handlers) : bool := match hs with HNil => false | HCons _ b r => opens_stmts b || opens_handlers r end.

Section Frames.
  Variable fixed : list (string * bool).
  Variable raising : nat -> bool.            (* API sites assumed to raise in the scenario under study *)

  Fixpoint nn_stmt (s : stmt) : bool :=
    match s with
    | SReturn | SRaise => true
    | SCall id _ KApi => raising id
    | SCall _ _ _ => false
    | SOpenOut => false
    | SIf f a b => match sassoc f fixed with
                   | Some true => nn_stmts a | Some false => nn_stmts b | None => nn_stmts a && nn_stmts b end
    | STry body hs => nn_stmts body && nn_handlers hs
    end
  with nn_stmts (ss : stmts) : bool := match ss with SNil => false | SCons s r => nn_stmt s || nn_stmts r end
  with nn_handlers (hs : handlers) : bool := match hs with HNil => true | HCons _ b r => nn_stmts b && nn_handlers r end.

  Variable oracle : nat -> option exc.
  Variable flag : string -> bool.
  Hypothesis Hag : agrees fixed flag.
  Hypothesis Hraise : forall id, raising id = true -> oracle id <> None.

  Definition not_normal (r : outcome * bool) : Prop := fst r <> ONormal.

  Fixpoint nn_sound_stmt (s : stmt) : nn_stmt s = true -> forall op, not_normal (exec_stmt oracle flag s op)
  with nn_sound_stmts (ss : stmts) : nn_stmts ss = true -> forall op, not_normal (exec_stmts oracle flag ss op)
  with nn_sound_handlers (hs : handlers) : nn_handlers hs = true -> forall e op, not_normal (exec_handlers oracle flag hs e op).
  Proof.
    - destruct s as [id name k| | | |f a b|body hs]; intros H op.
      + destruct k; try discriminate. cbn [nn_stmt] in H. cbn [exec_stmt].
        specialize (Hraise id H). destruct (oracle id); [discriminate|contradiction].
      + discriminate.
      + discriminate.
      + discriminate.
      + rewrite exec_if. cbn [nn_stmt] in H. destruct (sassoc f fixed) as [[|]|] eqn:E.
        * rewrite (Hag f true E). now apply nn_sound_stmts.
        * rewrite (Hag f false E). now apply nn_sound_stmts.
        * apply andb_true_iff in H as [Ha Hb]. destruct (flag f); now apply nn_sound_stmts.
      + rewrite exec_try. cbn [nn_stmt] in H. apply andb_true_iff in H as [Hb Hh].
        pose proof (nn_sound_stmts body Hb op) as Nb. unfold not_normal in Nb.
        destruct (exec_stmts oracle flag body op) as [[| |e] op'] eqn:E; cbn [fst] in Nb.
        * contradiction.
        * discriminate.
        * now apply nn_sound_handlers.
    - destruct ss as [|s r]; intros H op; [discriminate|].
      rewrite exec_cons. cbn [nn_stmts] in H.
      destruct (exec_stmt oracle flag s op) as [[| |e] op'] eqn:E.
      + apply orb_true_iff in H as [Hs|Hr].
        * pose proof (nn_sound_stmt s Hs op) as Ns. unfold not_normal in Ns. rewrite E in Ns. contradiction.
        * now apply nn_sound_stmts.
      + discriminate.
      + discriminate.
    - destruct hs as [|cls body r]; intros H e op; [discriminate|].
      rewrite exec_hcons. cbn [nn_handlers] in H. apply andb_true_iff in H as [Hb Hr].
      destruct (catches cls e); [now apply nn_sound_stmts|now apply nn_sound_handlers].
  Qed.

  (* a statement list without SOpenOut leaves the flag as it was *)
  Fixpoint keeps_stmt (s : stmt) : opens_stmt s = false -> forall op, snd (exec_stmt oracle flag s op) = op
  with keeps_stmts (ss : stmts) : opens_stmts ss = false -> forall op, snd (exec_stmts oracle flag ss op) = op
  with keeps_handlers (hs : handlers) : opens_handlers hs = false -> forall e op, snd (exec_handlers oracle flag hs e op) = op.
  Proof.
    - destruct s as [id name k| | | |f a b|body hs]; intros H op.
      + cbn [exec_stmt]. destruct k; try reflexivity. destruct (oracle id); reflexivity.
      + discriminate.
      + reflexivity.
      + reflexivity.
      + rewrite exec_if. cbn [opens_stmt] in H. apply orb_false_iff in H as [Ha Hb]. destruct (flag f); now apply keeps_stmts.
      + rewrite exec_try. cbn [opens_stmt] in H. apply orb_false_iff in H as [Hb Hh].
        pose proof (keeps_stmts body Hb op) as K.
        destruct (exec_stmts oracle flag body op) as [[| |e] op'] eqn:E; cbn [snd] in K; subst op'; try reflexivity.
        now apply keeps_handlers.
    - destruct ss as [|s r]; intros H op; [reflexivity|].
      rewrite exec_cons. cbn [opens_stmts] in H. apply orb_false_iff in H as [Hs Hr].
      pose proof (keeps_stmt s Hs op) as K.
      destruct (exec_stmt oracle flag s op) as [[| |e] op'] eqn:E; cbn [snd] in K; subst op'; try reflexivity.
      now apply keeps_stmts.
    - destruct hs as [|cls body r]; intros H e op; [reflexivity|].
      rewrite exec_hcons. cbn [opens_handlers] in H. apply orb_false_iff in H as [Hb Hr].
      destruct (catches cls e); [now apply keeps_stmts|now apply keeps_handlers].
  Qed.

  Lemma exec_app a b : forall op,
    exec_stmts oracle flag (app_stmts a b) op =
    match exec_stmts oracle flag a op with (ONormal, op') => exec_stmts oracle flag b op' | res => res end.
  Proof.
    induction a as [|s r IH]; intros op.
    - reflexivity.
    - cbn [app_stmts]. rewrite !exec_cons. destruct (exec_stmt oracle flag s op) as [[| |e] op']; try reflexivity.
      apply IH.
  Qed.
End Frames.
