(* Linear-time temporal logic with past over finite traces, as telingo 2.1 interprets &tel formulas (TEL_f).
   A signal is the truth value of a formula at every position; lam is the trace length. *)
Require Import Coq.Strings.String Coq.Lists.List Coq.Bool.Bool Coq.Arith.Arith.
Require Import Cnl2aspV.Base.Util.
Import ListNotations.

Definition sig := nat -> bool.
Definition trace := list (list string).

Definition atom_at (tr : trace) (a : string) : sig := fun k => mem_string a (nth k tr []).

Definition s_true : sig := fun _ => true.
Definition s_false : sig := fun _ => false.
Definition s_initial : sig := fun k => Nat.eqb k 0.
Definition s_final (lam : nat) : sig := fun k => Nat.eqb (S k) lam.
Definition s_not (F : sig) : sig := fun k => negb (F k).
Definition s_and (F G : sig) : sig := fun k => F k && G k.
Definition s_or (F G : sig) : sig := fun k => F k || G k.
Definition s_impl (F G : sig) : sig := fun k => negb (F k) || G k.          (* F -> G *)
Definition s_equiv (F G : sig) : sig := fun k => Bool.eqb (F k) (G k).

Definition s_prev (F : sig) : sig := fun k => match k with O => false | S j => F j end.
Definition s_wprev (F : sig) : sig := fun k => match k with O => true | S j => F j end.
Fixpoint s_since (F G : sig) (k : nat) : bool :=       (* F since G:  exists j<=k, G j /\ forall i in (j,k], F i *)
  G k || (F k && match k with O => false | S j => s_since F G j end).
Fixpoint s_trigger (F G : sig) (k : nat) : bool :=     (* F trigger G: forall j<=k, G j \/ exists i in (j,k], F i *)
  G k && (F k || match k with O => true | S j => s_trigger F G j end).
Definition s_ev_before (G : sig) : sig := s_since s_true G.
Definition s_alw_before (G : sig) : sig := s_trigger s_false G.
Definition s_precede (F G : sig) : sig := s_and (s_prev F) G.
Definition s_wprecede (F G : sig) : sig := s_and (s_wprev F) G.

Definition s_next (lam : nat) (F : sig) : sig := fun k => Nat.ltb (S k) lam && F (S k).
Definition s_wnext (lam : nat) (F : sig) : sig := fun k => negb (Nat.ltb (S k) lam) || F (S k).
Fixpoint until_d (F G : sig) (d k : nat) : bool :=
  match d with O => false | S d' => G k || (F k && until_d F G d' (S k)) end.
Fixpoint release_d (F G : sig) (d k : nat) : bool :=
  match d with O => true | S d' => G k && (F k || release_d F G d' (S k)) end.
Definition s_until (lam : nat) (F G : sig) : sig := fun k => until_d F G (lam - k) k.     (* F until G *)
Definition s_release (lam : nat) (F G : sig) : sig := fun k => release_d F G (lam - k) k. (* F release G *)
Definition s_ev_after (lam : nat) (G : sig) : sig := s_until lam s_true G.
Definition s_alw_after (lam : nat) (G : sig) : sig := s_release lam s_false G.
Definition s_follow (lam : nat) (F G : sig) : sig := s_and F (s_next lam G).
Definition s_wfollow (lam : nat) (F G : sig) : sig := s_and F (s_wnext lam G).

Definition s_at_first (F : sig) : sig := fun _ => F 0.
Definition s_at_last (lam : nat) (F : sig) : sig := fun _ => F (lam - 1).
