(* Proofs about Time/CalendarDef.v (kept apart so that the 146097-case cycle check is not recomputed). *)
Require Import Coq.Strings.String Coq.Strings.Ascii Coq.ZArith.ZArith Coq.Lists.List Coq.Bool.Bool Lia.
Require Import Cnl2aspV.Base.Digits Cnl2aspV.Base.RangeCheck.
Require Export Cnl2aspV.Time.CalendarDef.
Import ListNotations.
Open Scope string_scope.
Open Scope Z_scope.

Lemma is_leap_shift y q : is_leap (q * 400 + y) = is_leap y.
Proof.
  unfold is_leap.
  replace ((q * 400 + y) mod 4) with (y mod 4) by (replace (q*400+y) with (y + (q*100)*4) by lia; now rewrite Z.mod_add by lia).
  replace ((q * 400 + y) mod 100) with (y mod 100) by (replace (q*400+y) with (y + (q*4)*100) by lia; now rewrite Z.mod_add by lia).
  replace ((q * 400 + y) mod 400) with (y mod 400) by (replace (q*400+y) with (y + q*400) by lia; now rewrite Z.mod_add by lia).
  reflexivity.
Qed.

Lemma days_before_year_shift y q : days_before_year (q * 400 + y) = q * DI400Y + days_before_year y.
Proof.
  unfold days_before_year, DI400Y. cbv zeta.
  replace (q * 400 + y - 1) with ((y - 1) + q * 400) by lia.
  replace ((y - 1 + q * 400) / 4) with ((y - 1) / 4 + q * 100) by (replace (y-1+q*400) with ((y-1) + (q*100)*4) by lia; now rewrite Z.div_add by lia).
  replace ((y - 1 + q * 400) / 100) with ((y - 1) / 100 + q * 4) by (replace (y-1+q*400) with ((y-1) + (q*4)*100) by lia; now rewrite Z.div_add by lia).
  replace ((y - 1 + q * 400) / 400) with ((y - 1) / 400 + q) by (now rewrite Z.div_add by lia).
  lia.
Qed.

Lemma ord_of_ymd_shift y m d q : ord_of_ymd (q * 400 + y) m d = q * DI400Y + ord_of_ymd y m d.
Proof. unfold ord_of_ymd, days_before_month. rewrite days_before_year_shift, is_leap_shift. lia. Qed.

Lemma valid_md_shift y m d q : valid_md (q * 400 + y) m d = valid_md y m d.
Proof. unfold valid_md, days_in_month. now rewrite is_leap_shift. Qed.

Lemma calendar_roundtrip n : 1 <= n <= max_ord ->
  match ymd_of_ord n with (y, m, d) => valid_ymd y m d = true /\ ord_of_ymd y m d = n end.
Proof.
  intros H. unfold ymd_of_ord. cbv zeta.
  pose proof (Z.mod_pos_bound (n - 1) DI400Y ltac:(unfold DI400Y; lia)) as Hr.
  pose proof (range_check_sound _ _ _ cycle_check ((n - 1) mod DI400Y) ltac:(unfold DI400Y in *; lia)) as E.
  unfold cycle_ok in E. destruct (ymd_cycle ((n - 1) mod DI400Y)) as [[y m] d].
  apply andb_true_iff in E as [E _]. apply andb_true_iff in E as [E Hlate].
  apply andb_true_iff in E as [E Hord]. apply andb_true_iff in E as [E Hvalid].
  apply andb_true_iff in E as [Hy1 Hy400].
  apply Z.leb_le in Hy1, Hy400. apply Z.eqb_eq in Hord.
  pose proof (Z.div_mod (n - 1) DI400Y ltac:(unfold DI400Y; lia)) as Hdm.
  assert (Hq : 0 <= (n - 1) / DI400Y <= 24).
  { split; [apply Z.div_pos; unfold DI400Y; lia|]. assert ((n - 1) / DI400Y < 25); [|lia].
    apply Z.div_lt_upper_bound; unfold DI400Y, max_ord in *; lia. }
  split.
  - unfold valid_ymd. rewrite valid_md_shift, Hvalid, andb_true_r.
    apply andb_true_iff; split; apply Z.leb_le; [lia|].
    destruct (Z.eq_dec ((n - 1) / DI400Y) 24) as [E24|N24]; [|lia].
    apply orb_true_iff in Hlate as [Hn|Hy].
    + apply negb_true_iff, Z.leb_gt in Hn. unfold DI400Y, max_ord in *. lia.
    + apply Z.leb_le in Hy. lia.
  - rewrite ord_of_ymd_shift. unfold DI400Y in *. lia.
Qed.

Lemma ymd_of_ord_injective a b : 1 <= a <= max_ord -> 1 <= b <= max_ord -> ymd_of_ord a = ymd_of_ord b -> a = b.
Proof.
  intros Ha Hb E. pose proof (calendar_roundtrip a Ha) as Ra. pose proof (calendar_roundtrip b Hb) as Rb.
  rewrite E in Ra. destruct (ymd_of_ord b) as [[y m] d]. destruct Ra as [_ Ra], Rb as [_ Rb]. congruence.
Qed.

Lemma days_in_month_le31 y m : days_in_month y m <= 31.
Proof. unfold days_in_month, days_in_month_tab. repeat match goal with |- context [if ?c then _ else _] => destruct c end; lia. Qed.

Lemma parse_fmt_date y m d : 1000 <= y -> valid_ymd y m d = true -> parse_date (fmt_date y m d) = Some (ord_of_ymd y m d).
Proof.
  intros Hy V. pose proof V as V0. unfold valid_ymd, valid_md in V.
  repeat (apply andb_true_iff in V; destruct V as [V ?]).
  repeat match goal with H : (_ <=? _) = true |- _ => apply Z.leb_le in H end.
  pose proof (days_in_month_le31 y m).
  unfold fmt_date, parse_date. cbn [pad2 pad4 append]. unfold parse_date_fields.
  change (String (digit_char (d / 10)) (String (digit_char (d mod 10)) "")) with (pad2 d).
  change (String (digit_char (m / 10)) (String (digit_char (m mod 10)) "")) with (pad2 m).
  change (String (digit_char (y / 1000)) (String (digit_char ((y / 100) mod 10))
            (String (digit_char ((y / 10) mod 10)) (String (digit_char (y mod 10)) "")))) with (pad4 y).
  unfold parse_1or2, parse_year.
  rewrite (pad2_val d) by lia. rewrite (pad2_val m) by lia. rewrite (pad4_val y) by lia.
  cbn [String.length pad2 pad4 Nat.eqb orb andb].
  replace (1 <=? d) with true by (symmetry; apply Z.leb_le; lia).
  replace (d <=? 31) with true by (symmetry; apply Z.leb_le; lia).
  replace (1 <=? m) with true by (symmetry; apply Z.leb_le; lia).
  replace (m <=? 12) with true by (symmetry; apply Z.leb_le; lia).
  cbn [andb]. now rewrite V0.
Qed.

Lemma year_of_ord_ge n : min_fmt_ord <= n <= max_ord -> match ymd_of_ord n with (y, _, _) => 1000 <= y end.
Proof.
  intros H. unfold ymd_of_ord. cbv zeta. unfold min_fmt_ord, max_ord in H.
  pose proof (Z.mod_pos_bound (n - 1) DI400Y ltac:(unfold DI400Y; lia)) as Hr.
  pose proof (range_check_sound _ _ _ cycle_check ((n - 1) mod DI400Y) ltac:(unfold DI400Y in *; lia)) as E.
  unfold cycle_ok in E. destruct (ymd_cycle ((n - 1) mod DI400Y)) as [[y m] d].
  apply andb_true_iff in E as [E Hearly]. apply andb_true_iff in E as [E _].
  apply andb_true_iff in E as [E _]. apply andb_true_iff in E as [E _].
  apply andb_true_iff in E as [Hy1 _]. apply Z.leb_le in Hy1.
  pose proof (Z.div_mod (n - 1) DI400Y ltac:(unfold DI400Y; lia)) as Hdm.
  assert (Hq : 2 <= (n - 1) / DI400Y) by (apply Z.div_le_lower_bound; unfold DI400Y; lia).
  destruct (Z.eq_dec ((n - 1) / DI400Y) 2) as [E2|N2]; [|lia].
  apply orb_true_iff in Hearly as [Hn|Hy].
  - apply negb_true_iff, Z.leb_gt in Hn. unfold DI400Y in *. lia.
  - apply Z.leb_le in Hy. lia.
Qed.

Lemma date_text_roundtrip n : min_fmt_ord <= n <= max_ord -> parse_date (fmt_ord n) = Some n.
Proof.
  intros H. unfold fmt_ord.
  pose proof (calendar_roundtrip n ltac:(unfold min_fmt_ord in *; lia)) as R.
  pose proof (year_of_ord_ge n H) as Y.
  destruct (ymd_of_ord n) as [[y m] d]. destruct R as [V R].
  rewrite parse_fmt_date by assumption. now rewrite R.
Qed.

Lemma fmt_ord_injective a b : min_fmt_ord <= a <= max_ord -> min_fmt_ord <= b <= max_ord -> fmt_ord a = fmt_ord b -> a = b.
Proof.
  intros Ha Hb E. pose proof (date_text_roundtrip a Ha) as Ra. rewrite E, (date_text_roundtrip b Hb) in Ra. congruence.
Qed.
