Require Import Coq.Strings.String Coq.Lists.List Coq.Bool.Bool.
Require Import Cnl2aspV.Cnl.Values.
Import ListNotations.
Record vcase := { v_consts : list string; v_in : string; v_out : string }.
Definition vcase_ok (c : vcase) : bool := String.eqb (convert_value (v_consts c) (v_in c)) (v_out c).
