(* Decimal digits and zero-padded fields, as Python's %02d / %04d / int() see them on ASCII. *)
Require Import Coq.Strings.String Coq.Strings.Ascii Coq.ZArith.ZArith Coq.Lists.List Coq.Bool.Bool Lia.
Require Import Cnl2aspV.Base.RangeCheck.
Import ListNotations.
Open Scope Z_scope.

Definition digit_char (d : Z) : ascii := ascii_of_nat (48 + Z.to_nat d).
Definition char_digit (c : ascii) : option Z :=
  let n := Z.of_nat (nat_of_ascii c) in if (48 <=? n) && (n <=? 57) then Some (n - 48) else None.

Definition pad2 (n : Z) : string := String (digit_char (n / 10)) (String (digit_char (n mod 10)) EmptyString).
Definition pad4 (n : Z) : string :=
  String (digit_char (n / 1000)) (String (digit_char ((n / 100) mod 10))
    (String (digit_char ((n / 10) mod 10)) (String (digit_char (n mod 10)) EmptyString))).

(* value of a string of decimal digits (None if empty or a non-digit occurs) *)
Fixpoint digits_val_acc (s : string) (acc : Z) : option Z :=
  match s with
  | EmptyString => Some acc
  | String c r => match char_digit c with Some d => digits_val_acc r (acc * 10 + d) | None => None end
  end.
Definition digits_val (s : string) : option Z :=
  match s with EmptyString => None | _ => digits_val_acc s 0 end.

Lemma pad2_val_check : range_check (fun n => match digits_val (pad2 n) with Some m => Z.eqb m n | None => false end) 0 100 = true.
Proof. vm_compute. reflexivity. Qed.
Lemma pad2_val n : 0 <= n < 100 -> digits_val (pad2 n) = Some n.
Proof.
  intros H. pose proof (range_check_sound _ _ _ pad2_val_check n ltac:(lia)) as E. cbv beta in E.
  destruct (digits_val (pad2 n)); [|discriminate]. apply Z.eqb_eq in E. now subst.
Qed.

Lemma pad4_val_check : range_check (fun n => match digits_val (pad4 n) with Some m => Z.eqb m n | None => false end) 0 10000 = true.
Proof. vm_compute. reflexivity. Qed.
Lemma pad4_val n : 0 <= n < 10000 -> digits_val (pad4 n) = Some n.
Proof.
  intros H. pose proof (range_check_sound _ _ _ pad4_val_check n ltac:(lia)) as E. cbv beta in E.
  destruct (digits_val (pad4 n)); [|discriminate]. apply Z.eqb_eq in E. now subst.
Qed.

(* Python str(int) for a non-negative integer (used for fact indices); fuel-free via positive recursion is awkward,
   so we print at most 19 digits, enough for every index the model produces (checked by the caller). *)
Fixpoint show_nat_digits (fuel : nat) (n : Z) (acc : string) : string :=
  match fuel with
  | O => acc
  | S f => let acc' := String (digit_char (n mod 10)) acc in
           if n <? 10 then acc' else show_nat_digits f (n / 10) acc'
  end.
Definition show_Z (n : Z) : string :=
  if n <? 0 then String "-"%char (show_nat_digits 20 (- n) EmptyString) else show_nat_digits 20 n EmptyString.
