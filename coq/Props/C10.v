(* C10 — sentences are compiled independently and in order.
   (1) structural laws of a left fold over sentences (any state, sentence and rule types, any step function);
   (2) the generated fact that the transformer and the converter carry nothing from one sentence to the next except the
       problem / specification under construction, the output encoding and the list of temporal concepts already printed
       (every other instance attribute is re-created by _clear / clear_support_variables, which run after every sentence / rule).
   That the real compiler IS such a fold - in particular that conversion, which runs after the whole text has been parsed,
   does not look at signatures of later sentences - is decided by the oracle (every prefix cut and every single-sentence
   removal on the implementation); it becomes a theorem with the compile model: partial. *)
Require Import Coq.Strings.String Coq.Lists.List Coq.Bool.Bool.
Require Import Cnl2aspV.Gen.Effects Cnl2aspV.Cnl.Fold.
Import ListNotations.

Theorem C10_prefix :
  forall (St Sn R : Type) (step : St -> Sn -> St * list R) st l1 l2,
    exists tail, snd (compile_from St Sn R step st (l1 ++ l2)) = (snd (compile_from St Sn R step st l1) ++ tail)%list.
Proof. exact prefix. Qed.
Print Assumptions C10_prefix.

Theorem C10_order :
  forall (St Sn R : Type) (step : St -> Sn -> St * list R) st l,
    snd (compile_from St Sn R step st l) = concat (blocks_from St Sn R step st l).
Proof. exact order. Qed.
Print Assumptions C10_order.

Theorem C10_remove :
  forall (St Sn R : Type) (step : St -> Sn -> St * list R) st l1 x l2,
    fst (step (fst (compile_from St Sn R step st l1)) x) = fst (compile_from St Sn R step st l1) ->
    snd (compile_from St Sn R step st (l1 ++ l2)) =
      (snd (compile_from St Sn R step st l1) ++ snd (compile_from St Sn R step (fst (compile_from St Sn R step st l1)) l2))%list /\
    snd (compile_from St Sn R step st (l1 ++ x :: l2)) =
      (snd (compile_from St Sn R step st l1) ++ snd (step (fst (compile_from St Sn R step st l1)) x)
        ++ snd (compile_from St Sn R step (fst (compile_from St Sn R step st l1)) l2))%list.
Proof. exact remove. Qed.
Print Assumptions C10_remove.

Theorem C10_no_leak : no_leak = true.
Proof. vm_compute. reflexivity. Qed.
Print Assumptions C10_no_leak.

(* the compile model of the core fragment (Cnl/Core.v, which the C01 check ties byte for byte to the implementation on every generated F0
   specification) IS such a fold: the program of a text is the program of the text before a sentence, then that sentence's own rules - which
   depend on the declared concepts only -, then the rules of the remaining sentences; removing the sentence removes exactly its block *)
Require Import Cnl2aspV.Cnl.Core Cnl2aspV.Cnl.CoreFold.
Theorem C10_core_fragment_blocks :
  forall cs l1 x l2,
  compile (with_sentences cs (l1 ++ x :: l2)) =
  (compile (with_sentences cs l1) ++ compile_sentence (with_sentences cs []) x ++ flat_map (compile_sentence (with_sentences cs [])) l2)%list.
Proof. exact core_sentence_blocks. Qed.
Print Assumptions C10_core_fragment_blocks.

Theorem C10_core_fragment_removal :
  forall cs l1 l2,
  compile (with_sentences cs (l1 ++ l2)) = (compile (with_sentences cs l1) ++ flat_map (compile_sentence (with_sentences cs [])) l2)%list.
Proof. exact core_sentence_removal. Qed.
Print Assumptions C10_core_fragment_removal.
