"""T-gen: coq/Gen/Effects.v -- process-wide mutable state of cnl2asp and the footprint of every public API method.

* globals: class-level attributes and module-level names that are ASSIGNED or MUTATED (append/remove/extend/update/clear/
  +=, item or attribute assignment through them) somewhere outside their defining statement;
* mutable default arguments (list/dict/set displays or constructor calls as defaults);
* per function: direct reads / writes of those globals; calls (name-based, over-approximating);
* per public API method of Cnl2asp: the globals it assigns a fresh value BEFORE its first call (reset-before-read).
Fail-closed on syntax errors only; unknown constructs cannot hide an access because accesses are found by walking every node."""
import ast
import glob
import os
import sys

HERE = os.path.dirname(os.path.abspath(__file__))
sys.path.insert(0, os.path.join(os.path.dirname(HERE), 'harness'))
from common import COQ, REPO, write_if_changed, coq_str  # noqa: E402

MUTATORS = {'append', 'remove', 'extend', 'update', 'clear', 'insert', 'pop', 'add', 'discard', 'sort', 'reverse', 'setdefault'}
API = ['compile', 'get_symbols', 'check_syntax', 'cnl_to_json', 'parse_input']


def coq_list(xs):
    return '[' + '; '.join(xs) + ']'


def main():
    base = os.path.join(REPO, 'src', 'cnl2asp')
    files = sorted(glob.glob(os.path.join(base, '**', '*.py'), recursive=True))
    files = [f for f in files if '/solver/' not in f]
    trees = {os.path.relpath(f, base): ast.parse(open(f).read()) for f in files}
    classes = {}
    class_attrs = set()       # "Class.attr" declared in a class body
    module_names = set()      # module-level assigned names
    mutable_defaults = []
    for m, t in trees.items():
        for node in t.body:
            if isinstance(node, (ast.Assign, ast.AnnAssign)):
                for tg in (node.targets if isinstance(node, ast.Assign) else [node.target]):
                    if isinstance(tg, ast.Name):
                        module_names.add(tg.id)
        for node in ast.walk(t):
            if isinstance(node, ast.ClassDef):
                classes[node.name] = m
                for st in node.body:
                    if isinstance(st, (ast.Assign, ast.AnnAssign)):
                        for tg in (st.targets if isinstance(st, ast.Assign) else [st.target]):
                            if isinstance(tg, ast.Name):
                                class_attrs.add('%s.%s' % (node.name, tg.id))
            if isinstance(node, ast.FunctionDef):
                for d in list(node.args.defaults) + [d for d in node.args.kw_defaults if d is not None]:
                    if isinstance(d, (ast.List, ast.Dict, ast.Set)) or (isinstance(d, ast.Call) and not (isinstance(d.func, ast.Name) and d.func.id in ('int', 'str', 'tuple', 'frozenset'))):
                        mutable_defaults.append('%s:%s(%s)' % (m, node.name, ast.unparse(d)))

    def gref(node):
        """'Class.attr' / module-level NAME if the expression denotes a candidate global"""
        if isinstance(node, ast.Attribute) and isinstance(node.value, ast.Name) and node.value.id in classes:
            return '%s.%s' % (node.value.id, node.attr)
        if isinstance(node, ast.Name) and node.id in module_names and node.id.isupper():
            return node.id
        return None

    funs = {}   # qual -> dict(name, reads, writes, calls, body)
    for m, t in trees.items():
        def visit(node, cls):
            for ch in node.body:
                if isinstance(ch, ast.ClassDef):
                    visit(ch, ch.name)
                elif isinstance(ch, ast.FunctionDef):
                    q = '%s.%s' % (cls, ch.name) if cls else '%s:%s' % (m, ch.name)
                    reads, writes, calls = set(), set(), set()
                    for n in ast.walk(ch):
                        if isinstance(n, (ast.Assign, ast.AugAssign, ast.AnnAssign)):
                            tgs = n.targets if isinstance(n, ast.Assign) else [n.target]
                            for tg in tgs:
                                base_t = tg
                                while isinstance(base_t, (ast.Subscript,)):
                                    base_t = base_t.value
                                g = gref(base_t)
                                if g:
                                    writes.add(g)
                                elif isinstance(base_t, ast.Attribute):
                                    g2 = gref(base_t.value)     # Class.attr.field = ...
                                    if g2:
                                        writes.add(g2)
                        if isinstance(n, ast.Call):
                            f = n.func
                            name = f.attr if isinstance(f, ast.Attribute) else f.id if isinstance(f, ast.Name) else None
                            if name:
                                calls.add(name)
                            if name == 'transform':        # Lark calls the transformer's callbacks reflectively
                                calls.add('<all CNLTransformer callbacks>')
                            if name in ('str', 'print', 'join', 'format', 'repr', 'dumps', 'write'):
                                calls.update(['__str__', '__repr__'])
                            if name in ('hash', 'set', 'Counter', 'dict'):
                                calls.add('__hash__')
                            if isinstance(f, ast.Attribute) and f.attr in MUTATORS:
                                g = gref(f.value)
                                if g:
                                    writes.add(g)
                        if isinstance(n, (ast.JoinedStr, ast.FormattedValue)):
                            calls.update(['__str__', '__repr__'])
                        if isinstance(n, ast.Compare):
                            calls.update(['__eq__', '__ne__', '__lt__', '__gt__', '__le__', '__ge__', '__contains__'])
                        g = gref(n) if isinstance(n, (ast.Attribute, ast.Name)) else None
                        if g and isinstance(getattr(n, 'ctx', None), ast.Load):
                            reads.add(g)
                    funs[q] = dict(name=ch.name, reads=reads, writes=writes, calls=calls, node=ch, cls=cls)
                    visit(ch, cls)
        visit(t, None)
    callbacks = sorted(set(f['name'] for f in funs.values() if f['cls'] == 'CNLTransformer'))
    for f in funs.values():
        if '<all CNLTransformer callbacks>' in f['calls']:
            f['calls'].discard('<all CNLTransformer callbacks>')
            f['calls'].update(callbacks)
    written = set()
    for f in funs.values():
        written |= f['writes']
    # globals = candidates that are written somewhere (constants never written are not state)
    globals_ = sorted(written)
    # resets-before-first-read of the API methods: constant assignments to globals at the start of the body, then -- if the first
    # call is to another API method of the same object and nothing was read before -- that method's resets as well
    def first_call(st):
        for n in ast.walk(st):
            if isinstance(n, ast.Call):
                f = n.func
                if isinstance(f, ast.Attribute) and isinstance(f.value, ast.Name) and f.value.id == 'self':
                    return f.attr
                return '<other>'
        return None

    memo = {}

    def eff_resets(a, depth=0):
        if a in memo:
            return memo[a]
        q = 'Cnl2asp.%s' % a
        if q not in funs:
            raise KeyError('API method %s not found' % q)
        resets = []
        for st in funs[q]['node'].body:
            if isinstance(st, ast.Expr) and isinstance(st.value, ast.Constant):
                continue      # docstring
            if isinstance(st, ast.Assign) and len(st.targets) == 1 and gref(st.targets[0]) and not any(isinstance(x, ast.Call) for x in ast.walk(st.value)):
                resets.append(gref(st.targets[0]))
                continue
            reads_here = [gref(n) for n in ast.walk(st) if isinstance(n, (ast.Attribute, ast.Name)) and gref(n) and isinstance(getattr(n, 'ctx', None), ast.Load)]
            fc = first_call(st)
            if fc in API and not reads_here and depth < 5:
                resets += [r for r in eff_resets(fc, depth + 1) if r not in resets]
            break
        memo[a] = resets
        return resets
    api_rows = [(a, eff_resets(a)) for a in API]
    out = '(* GENERATED from /repo/src/cnl2asp by tools/translate/gen_effects.py *)\n'
    out += 'Require Import Coq.Strings.String Coq.Lists.List.\nImport ListNotations.\nOpen Scope string_scope.\n\n'
    out += 'Record fun_effects := { fe_qual : string; fe_name : string; fe_reads : list string; fe_writes : list string; fe_calls : list string }.\n\n'
    out += 'Definition globals : list string := %s.\n\n' % coq_list([coq_str(g) for g in globals_])
    rows = []
    for q, f in sorted(funs.items()):
        rows.append('{| fe_qual := %s; fe_name := %s; fe_reads := %s; fe_writes := %s; fe_calls := %s |}' % (
            coq_str(q), coq_str(f['name']), coq_list([coq_str(x) for x in sorted(f['reads'] & written)]),
            coq_list([coq_str(x) for x in sorted(f['writes'])]), coq_list([coq_str(x) for x in sorted(f['calls'])])))
    out += 'Definition effects : list fun_effects :=\n  [%s].\n\n' % ';\n   '.join(rows)
    out += 'Definition api_resets : list (string * list string) :=\n  [%s].\n\n' % '; '.join('(%s, %s)' % (coq_str(a), coq_list([coq_str(r) for r in rs])) for a, rs in api_rows)
    out += 'Definition mutable_defaults : list string := %s.\n' % coq_list([coq_str(x) for x in sorted(mutable_defaults)])
    # ---- per-sentence scratch of the transformer and the converter (C10)
    def self_attrs_assigned(fn):
        res = []
        for n in ast.walk(fn):
            if isinstance(n, (ast.Assign, ast.AnnAssign)):
                for tg in (n.targets if isinstance(n, ast.Assign) else [n.target]):
                    if isinstance(tg, ast.Attribute) and isinstance(tg.value, ast.Name) and tg.value.id == 'self' and tg.attr not in res:
                        res.append(tg.attr)
        return res

    def calls_self(fn, name):
        return any(isinstance(n, ast.Call) and isinstance(n.func, ast.Attribute) and isinstance(n.func.value, ast.Name)
                   and n.func.value.id == 'self' and n.func.attr == name for n in ast.walk(fn))

    def all_self_attrs(cls):
        res = []
        for q, f in funs.items():
            if f['cls'] == cls:
                for a in self_attrs_assigned(f['node']):
                    if a not in res:
                        res.append(a)
        return res
    rows2 = []
    for cls, reset in (('CNLTransformer', '_clear'), ('ASPConverter', 'clear_support_variables')):
        init = self_attrs_assigned(funs['%s.__init__' % cls]['node'])
        everywhere = all_self_attrs(cls)
        resets = self_attrs_assigned(funs['%s.%s' % (cls, reset)]['node'])
        rows2.append('(%s, %s, %s, %s)' % (coq_str(cls), coq_list([coq_str(a) for a in init]), coq_list([coq_str(a) for a in everywhere]), coq_list([coq_str(a) for a in resets])))
    out += '\n(* class, attributes assigned in __init__, attributes assigned anywhere in the class, attributes re-created by the reset method *)\n'
    out += 'Definition instance_state : list (string * list string * list string * list string) :=\n  [%s].\n' % ';\n   '.join(rows2)
    enders = []
    for cb in ('standard_proposition', 'implicit_definition_proposition', 'explicit_definition_proposition'):
        enders.append('(%s, %s)' % (coq_str(cb), 'true' if calls_self(funs['CNLTransformer.%s' % cb]['node'], '_clear') else 'false'))
    out += 'Definition sentence_callbacks_clear : list (string * bool) := %s.\n' % coq_list(enders)
    cp = funs['ASPConverter.convert_problem']['node']
    in_loop = any(isinstance(n, ast.For) and any(isinstance(m, ast.Call) and isinstance(m.func, ast.Attribute) and m.func.attr == 'clear_support_variables' for m in ast.walk(n)) for n in ast.walk(cp))
    out += 'Definition convert_problem_clears_per_proposition : bool := %s.\n' % ('true' if in_loop else 'false')
    write_if_changed(os.path.join(COQ, 'Gen', 'Effects.v'), out)
    return 0


if __name__ == '__main__':
    try:
        sys.exit(main())
    except (SyntaxError, KeyError, AttributeError, FileNotFoundError) as e:
        print('TRANSLATOR-FAILED gen_effects: %s: %s' % (type(e).__name__, e))
        sys.exit(2)
