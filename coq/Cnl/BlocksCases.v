Require Import Coq.Strings.String Coq.Lists.List Coq.Bool.Bool.
Require Import Cnl2aspV.Cnl.Blocks.
Import ListNotations.
Open Scope string_scope.
(* a sentence is represented by the rule texts it produces (obtained from prefix compilations of the header-free text) *)
Definition Sent := list string.
Record bcase := { bc_spec : spec Sent; bc_out : string }.
Definition bcase_ok (c : bcase) : bool := String.eqb (print_spec Sent (fun x => x) (bc_spec c)) (bc_out c).
