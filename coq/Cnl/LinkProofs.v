Require Import Coq.Strings.String Coq.Strings.Ascii Coq.Lists.List Coq.Bool.Bool Coq.Arith.Arith Lia.
Require Import Cnl2aspV.Base.Util Cnl2aspV.Base.Str Cnl2aspV.Asp.Syntax Cnl2aspV.Asp.Print Cnl2aspV.Cnl.Fresh Cnl2aspV.Cnl.Link.
Import ListNotations.
Open Scope string_scope.

(* ------------------------------------------------------------------ same_origin relates chains with the same root *)
Definition root (o : origin) : option oname := match rev o with [] => None | x :: _ => Some x end.

Definition root_related (o1 o2 : origin) : Prop :=
  match root o1, root o2 with Some a, Some b => oname_eq a b = true | None, None => True | _, _ => False end.

Lemma rev_cons_root (a : oname) (r : origin) : r <> [] -> root (a :: r) = root r.
Proof.
  intros Hr. unfold root. cbn [rev]. destruct (rev r) eqn:E.
  - exfalso. apply Hr. apply (f_equal (@rev oname)) in E. now rewrite rev_involutive in E.
  - reflexivity.
Qed.

Lemma origin_eqb_root o1 : forall o2, origin_eqb o1 o2 = true -> root_related o1 o2.
Proof.
  induction o1 as [|a r IH]; intros [|b s] H; cbn [origin_eqb] in H; try discriminate; [exact I|].
  apply andb_true_iff in H as [Hab Hrs].
  destruct r as [|a' r']; destruct s as [|b' s']; cbn [origin_eqb] in Hrs; try discriminate.
  - unfold root_related, root. cbn. exact Hab.
  - unfold root_related. rewrite (rev_cons_root a (a' :: r')), (rev_cons_root b (b' :: s')) by discriminate. now apply IH.
Qed.

Lemma origin_eqb_nonempty_tail (t o2 : origin) : origin_eqb t o2 = true -> o2 <> [] -> t <> [].
Proof. intros H Hn ->. destruct o2; [contradiction|discriminate]. Qed.

Theorem same_origin_root o1 o2 : same_origin o1 o2 = true -> root_related o1 o2.
Proof.
  unfold same_origin. destruct o1 as [|a t1]; destruct o2 as [|b t2]; try discriminate; [intros _; exact I|].
  intros H. apply orb_true_iff in H as [H|H]; [apply orb_true_iff in H as [H|H]|].
  - now apply origin_eqb_root.
  - (* t1 = b :: t2 *)
    pose proof (origin_eqb_nonempty_tail t1 (b :: t2) H ltac:(discriminate)) as Ht.
    unfold root_related. rewrite (rev_cons_root a t1 Ht). now apply origin_eqb_root.
  - pose proof (origin_eqb_nonempty_tail t2 (a :: t1) H ltac:(discriminate)) as Ht.
    apply origin_eqb_root in H. unfold root_related in *. rewrite (rev_cons_root b t2 Ht).
    destruct (root t2), (root (a :: t1)); try contradiction; try exact I.
    (* symmetry of NameComponent equality *)
    unfold oname_eq in *. now rewrite orb_comm.
Qed.

(* ------------------------------------------------------------------ one write of the linker is typed *)
Lemma positions_by_name_origin_spec name o l : forall s i,
  In i (positions_by_name_origin name o l s) ->
  exists a, nth_error l (i - s) = Some a /\ s <= i /\ a_name a = name /\ same_origin (a_origin a) o = true.
Proof.
  induction l as [|x r IH]; intros s i H; cbn [positions_by_name_origin] in H; [contradiction|].
  apply in_app_or in H as [H|H].
  - destruct (String.eqb (a_name x) name && same_origin (a_origin x) o) eqn:E; [|contradiction].
    destruct H as [<-|[]]. apply andb_true_iff in E as [E1 E2]. apply String.eqb_eq in E1.
    exists x. rewrite Nat.sub_diag. auto.
  - destruct (IH (S s) i H) as (a & Hn & Hle & Hnm & Ho). exists a. repeat split; auto; [|lia].
    replace (i - s) with (S (i - S s)) by lia. exact Hn.
Qed.

Lemma update_nth_other n f l j : j <> n -> nth_error (update_nth n f l) j = nth_error l j.
Proof.
  revert l j. induction n as [|k IH]; intros [|a r] j Hj; cbn [update_nth]; try reflexivity.
  - destruct j; [contradiction|reflexivity].
  - destruct j as [|j']; [reflexivity|]. cbn [nth_error]. apply IH. lia.
Qed.
Lemma update_nth_same n f l a : nth_error l n = Some a -> nth_error (update_nth n f l) n = Some (f a).
Proof. revert l. induction n as [|k IH]; intros [|x r] H; cbn in *; try discriminate; [now injection H as ->|now apply IH]. Qed.

(* set_first_null changes at most one position, and that position has the requested name and a same_origin origin *)
Theorem set_first_null_typed name v o l j a a' :
  o <> [] -> nth_error l j = Some a -> nth_error (set_first_null name v o l) j = Some a' -> a' <> a ->
  a' = set_value a v /\ a_name a = name /\ same_origin (a_origin a) o = true.
Proof.
  intros Ho Hj Hj' Hne. unfold set_first_null in Hj'. destruct o as [|o0 orest]; [contradiction|].
  set (cands := positions_by_name_origin name (o0 :: orest) l 0) in *.
  destruct (find _ cands) as [i|] eqn:Ef; [|rewrite Hj in Hj'; injection Hj' as <-; contradiction].
  apply find_some in Ef as [Hin _].
  destruct (Nat.eq_dec j i) as [->|Hji].
  - rewrite (update_nth_same i _ l a Hj) in Hj'. injection Hj' as <-.
    destruct (positions_by_name_origin_spec _ _ _ 0 i Hin) as (x & Hx & _ & Hn & Hs). rewrite Nat.sub_0_r, Hj in Hx. injection Hx as <-.
    auto.
  - rewrite update_nth_other in Hj' by exact Hji. rewrite Hj in Hj'. injection Hj' as <-. contradiction.
Qed.
