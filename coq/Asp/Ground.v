(* Ground answer set programs of the class the compiler emits (facts, normal rules, choice rules with conditional elements and
   cardinality bounds, constraints), their stable models, and the characterisation for hierarchical programs. *)
Require Import Coq.Strings.String Coq.Lists.List Coq.Bool.Bool Coq.Arith.Arith Lia.
Require Import Cnl2aspV.Base.Util.
Import ListNotations.

Definition gatom := string.
Definition interp := list gatom.
Definition holds (I : interp) (a : gatom) : bool := mem_string a I.

Record gbody := { b_pos : list gatom; b_neg : list gatom }.
Definition body_true (I : interp) (b : gbody) : bool := forallb (holds I) (b_pos b) && forallb (fun a => negb (holds I a)) (b_neg b).

Inductive grule :=
| GRule (head : gatom) (body : gbody)
| GChoice (lb ub : option nat) (elems : list (gatom * list gatom)) (body : gbody)       (* lb { a : cond ; ... } ub :- body *)
| GConstraint (body : gbody).

Definition cond_true (I : interp) (c : list gatom) : bool := forallb (holds I) c.

(* ---------------------------------------------------------------- the reduct: a definite program (head <- positive body) *)
Definition drule := (gatom * list gatom)%type.
Definition reduct_rule (I : interp) (r : grule) : list drule :=
  match r with
  | GRule h b => if forallb (fun a => negb (holds I a)) (b_neg b) then [(h, b_pos b)] else []
  | GChoice _ _ elems b =>
      if forallb (fun a => negb (holds I a)) (b_neg b)
      then flat_map (fun e => if holds I (fst e) then [(fst e, (b_pos b ++ snd e)%list)] else []) elems
      else []
  | GConstraint _ => []
  end.
Definition reduct (P : list grule) (I : interp) : list drule := flat_map (reduct_rule I) P.

Definition dmodel (R : list drule) (J : interp) : Prop := forall h pos, In (h, pos) R -> (forall a, In a pos -> In a J) -> In h J.

(* constraints and cardinality bounds are conditions on I itself *)
Definition count_chosen (I : interp) (elems : list (gatom * list gatom)) : nat :=
  length (filter (fun e => holds I (fst e) && cond_true I (snd e)) elems).
Definition bounds_ok (I : interp) (r : grule) : bool :=
  match r with
  | GChoice lb ub elems b =>
      negb (body_true I b) ||
      ((match lb with Some l => Nat.leb l (count_chosen I elems) | None => true end) &&
       (match ub with Some u => Nat.leb (count_chosen I elems) u | None => true end))
  | GConstraint b => negb (body_true I b)
  | GRule _ _ => true
  end.

Definition stable (P : list grule) (I : interp) : Prop :=
  forallb (bounds_ok I) P = true /\ dmodel (reduct P I) I /\ (forall J, dmodel (reduct P I) J -> incl I J).

(* ---------------------------------------------------------------- supported + closed *)
Definition closed (P : list grule) (I : interp) : Prop :=
  forall h b, In (GRule h b) P -> body_true I b = true -> In h I.

Definition supports (I : interp) (a : gatom) (r : grule) : Prop :=
  match r with
  | GRule h b => h = a /\ body_true I b = true
  | GChoice _ _ elems b => body_true I b = true /\ exists c, In (a, c) elems /\ cond_true I c = true
  | GConstraint _ => False
  end.
Definition supported (P : list grule) (I : interp) : Prop := forall a, In a I -> exists r, In r P /\ supports I a r.

Definition supportsb (I : interp) (a : gatom) (r : grule) : bool :=
  match r with
  | GRule h b => String.eqb h a && body_true I b
  | GChoice _ _ elems b => body_true I b && existsb (fun e => String.eqb (fst e) a && cond_true I (snd e)) elems
  | GConstraint _ => false
  end.

Lemma supportsb_spec I a r : supportsb I a r = true <-> supports I a r.
Proof.
  destruct r as [h b|lb ub elems b|b]; cbn [supportsb supports].
  - rewrite andb_true_iff, String.eqb_eq. tauto.
  - rewrite andb_true_iff, existsb_exists. split.
    + intros [Hb ([a' c] & Hin & He)]. cbn [fst snd] in He. apply andb_true_iff in He as [E Hc]. apply String.eqb_eq in E. subst a'.
      split; [exact Hb|]. exists c. auto.
    + intros [Hb (c & Hin & Hc)]. split; [exact Hb|]. exists (a, c). split; [exact Hin|]. cbn [fst snd]. now rewrite String.eqb_refl, Hc.
  - split; [discriminate|contradiction].
Qed.

Definition sc (P : list grule) (I : interp) : Prop := forallb (bounds_ok I) P = true /\ closed P I /\ supported P I.

(* ---------------------------------------------------------------- hierarchical programs *)
Definition below (lvl : gatom -> nat) (n : nat) (l : list gatom) : Prop := forall a, In a l -> lvl a < n.
Definition hier_rule (lvl : gatom -> nat) (r : grule) : Prop :=
  match r with
  | GRule h b => below lvl (lvl h) (b_pos b) /\ below lvl (lvl h) (b_neg b)
  | GChoice _ _ elems b => forall a c, In (a, c) elems -> below lvl (lvl a) (b_pos b) /\ below lvl (lvl a) (b_neg b) /\ below lvl (lvl a) c
  | GConstraint _ => True
  end.
Definition hierarchical (lvl : gatom -> nat) (P : list grule) : Prop := forall r, In r P -> hier_rule lvl r.

(* ---------------------------------------------------------------- lemmas *)
Lemma holds_In I a : holds I a = true <-> In a I.
Proof. apply mem_string_In. Qed.

Lemma forallb_holds I l : forallb (holds I) l = true <-> (forall a, In a l -> In a I).
Proof. rewrite forallb_forall. split; intros H a Ha; [apply holds_In; auto | apply holds_In; auto]. Qed.

Lemma body_true_split I b : body_true I b = true <->
  (forall a, In a (b_pos b) -> In a I) /\ forallb (fun a => negb (holds I a)) (b_neg b) = true.
Proof. unfold body_true. rewrite andb_true_iff, forallb_holds. tauto. Qed.

Lemma in_reduct P I h pos : In (h, pos) (reduct P I) <-> exists r, In r P /\ In (h, pos) (reduct_rule I r).
Proof. unfold reduct. rewrite in_flat_map. tauto. Qed.

Theorem sc_stable lvl P I : hierarchical lvl P -> sc P I -> stable P I.
Proof.
  intros Hh (Hb & Hc & Hs). split; [exact Hb|]. split.
  - (* I is a model of its reduct *)
    intros h pos Hin Hpos. apply in_reduct in Hin as (r & Hr & Hin).
    destruct r as [h' b|lb ub elems b|b]; cbn [reduct_rule] in Hin.
    + destruct (forallb (fun a => negb (holds I a)) (b_neg b)) eqn:En; [|contradiction].
      destruct Hin as [E|[]]. injection E as <- <-. apply (Hc h' b Hr). apply body_true_split. auto.
    + destruct (forallb _ (b_neg b)); [|contradiction]. apply in_flat_map in Hin as (e & _ & He).
      destruct (holds I (fst e)) eqn:Eh; [|contradiction]. destruct He as [E|[]]. injection E as <- _. now apply holds_In.
    + contradiction.
  - (* least: by induction on the level *)
    intros J HJ. assert (G : forall n a, lvl a < n -> In a I -> In a J).
    { induction n as [|n IH]; intros a Hl Ha; [lia|].
      destruct (Hs a Ha) as (r & Hr & Hsup). specialize (Hh r Hr).
      destruct r as [h b|lb ub elems b|b]; cbn [supports hier_rule] in *.
      - destruct Hsup as [-> Hbt]. apply body_true_split in Hbt as [Hp Hn]. destruct Hh as [Hlp _].
        apply (HJ a (b_pos b)).
        + apply in_reduct. exists (GRule a b). split; [exact Hr|]. cbn [reduct_rule]. rewrite Hn. now left.
        + intros x Hx. apply IH; [specialize (Hlp x Hx); lia | now apply Hp].
      - destruct Hsup as [Hbt (c & Hc' & Hct)]. apply body_true_split in Hbt as [Hp Hn].
        destruct (Hh a c Hc') as (Hlp & _ & Hlc).
        apply (HJ a (b_pos b ++ c)%list).
        + apply in_reduct. exists (GChoice lb ub elems b). split; [exact Hr|]. cbn [reduct_rule]. rewrite Hn.
          apply in_flat_map. exists (a, c). split; [exact Hc'|]. cbn [fst snd]. rewrite (proj2 (holds_In I a) Ha). now left.
        + intros x Hx. apply in_app_or in Hx as [Hx|Hx].
          * apply IH; [specialize (Hlp x Hx); lia | now apply Hp].
          * apply IH; [specialize (Hlc x Hx); lia |]. apply (proj1 (forallb_holds I c) Hct x Hx).
      - contradiction. }
    intros a Ha. apply (G (S (lvl a)) a); [lia|exact Ha].
Qed.

Definition remove_atom (a : gatom) (I : interp) : interp := filter (fun x => negb (String.eqb x a)) I.
Lemma in_remove a I x : In x (remove_atom a I) <-> In x I /\ x <> a.
Proof.
  unfold remove_atom. rewrite filter_In, negb_true_iff. split; intros [H1 H2]; split; auto.
  - intros ->. now rewrite String.eqb_refl in H2.
  - now apply String.eqb_neq.
Qed.

Theorem stable_sc P I : stable P I -> sc P I.
Proof.
  intros (Hb & Hm & Hl). split; [exact Hb|]. split.
  - intros h b Hr Hbt. apply body_true_split in Hbt as [Hp Hn]. apply (Hm h (b_pos b)); [|exact Hp].
    apply in_reduct. exists (GRule h b). split; [exact Hr|]. cbn [reduct_rule]. rewrite Hn. now left.
  - (* an unsupported atom could be dropped, contradicting leastness *)
    intros a Ha. destruct (existsb (supportsb I a) P) eqn:Esup.
    { apply existsb_exists in Esup as (r & Hr & Hsr). exists r. split; [exact Hr|]. now apply supportsb_spec. }
    assert (Hns : ~ exists r, In r P /\ supports I a r).
    { intros (r & Hr & Hsr). apply supportsb_spec in Hsr.
      assert (existsb (supportsb I a) P = true) by (apply existsb_exists; eauto). congruence. }
    exfalso.
    assert (HJ : dmodel (reduct P I) (remove_atom a I)).
    { intros h pos Hin Hpos. apply in_remove. split.
      - apply (Hm h pos Hin). intros x Hx. now apply (in_remove a I x), Hpos.
      - intros ->. apply Hns. apply in_reduct in Hin as (r & Hr & Hin). exists r. split; [exact Hr|].
        destruct r as [h' b|lb ub elems b|b]; cbn [reduct_rule supports] in *.
        + destruct (forallb (fun x => negb (holds I x)) (b_neg b)) eqn:En; [|contradiction].
          destruct Hin as [E|[]]. injection E as -> <-. split; [reflexivity|]. apply body_true_split. split; [|exact En].
          intros x Hx. now apply (in_remove a I x), Hpos.
        + destruct (forallb (fun x => negb (holds I x)) (b_neg b)) eqn:En; [|contradiction].
          apply in_flat_map in Hin as ([a' c] & He & Hin). cbn [fst snd] in Hin.
          destruct (holds I a'); [|contradiction]. destruct Hin as [E|[]]. injection E as -> <-. split.
          * apply body_true_split. split; [|exact En]. intros x Hx. apply (in_remove a I x), Hpos, in_or_app. now left.
          * exists c. split; [exact He|]. apply forallb_holds. intros x Hx. apply (in_remove a I x), Hpos, in_or_app. now right.
        + contradiction. }
    apply Hl in HJ. specialize (HJ a Ha). apply in_remove in HJ as [_ HJ]. now apply HJ.
Qed.

(* ---------------------------------------------------------------- executable form of sc, and the theorem in one statement *)
Definition closedb (P : list grule) (I : interp) : bool :=
  forallb (fun r => match r with GRule h b => negb (body_true I b) || holds I h | _ => true end) P.
Definition supportedb (P : list grule) (I : interp) : bool := forallb (fun a => existsb (supportsb I a) P) I.
Definition scb (P : list grule) (I : interp) : bool := forallb (bounds_ok I) P && closedb P I && supportedb P I.

Lemma scb_spec P I : scb P I = true <-> sc P I.
Proof.
  unfold scb, sc. rewrite !andb_true_iff. split.
  - intros [[Hb Hc] Hs]. split; [exact Hb|]. split.
    + intros h b Hr Hbt. unfold closedb in Hc. rewrite forallb_forall in Hc. specialize (Hc _ Hr). cbn in Hc.
      rewrite Hbt in Hc. cbn in Hc. now apply holds_In.
    + intros a Ha. unfold supportedb in Hs. rewrite forallb_forall in Hs. specialize (Hs a Ha).
      apply existsb_exists in Hs as (r & Hr & Hsr). exists r. split; [exact Hr|]. now apply supportsb_spec.
  - intros (Hb & Hc & Hs). split; [split; [exact Hb|]|].
    + unfold closedb. apply forallb_forall. intros r Hr. destruct r as [h b| |]; try reflexivity.
      destruct (body_true I b) eqn:E; [|reflexivity]. cbn. apply holds_In. now apply (Hc h b).
    + unfold supportedb. apply forallb_forall. intros a Ha. destruct (Hs a Ha) as (r & Hr & Hsr).
      apply existsb_exists. exists r. split; [exact Hr|]. now apply supportsb_spec.
Qed.

Theorem hierarchical_stable lvl P I : hierarchical lvl P -> (stable P I <-> scb P I = true).
Proof.
  intros Hh. rewrite scb_spec. split; [apply stable_sc | now apply (sc_stable lvl)].
Qed.
