(* show_Z and digits_val are inverse on the integers show_Z prints completely (fewer than 20 digits). *)
Require Import Coq.Strings.String Coq.Strings.Ascii Coq.ZArith.ZArith Coq.Lists.List Lia.
Require Import Cnl2aspV.Base.Digits.
Open Scope Z_scope.

Lemma char_digit_digit_char d : 0 <= d < 10 -> char_digit (digit_char d) = Some d.
Proof.
  intros H. assert (E : d = 0 \/ d = 1 \/ d = 2 \/ d = 3 \/ d = 4 \/ d = 5 \/ d = 6 \/ d = 7 \/ d = 8 \/ d = 9) by lia.
  destruct E as [->|[->|[->|[->|[->|[->|[->|[->|[->| ->]]]]]]]]]; reflexivity.
Qed.

Lemma show_S f n acc :
  show_nat_digits (S f) n acc =
  if n <? 10 then String (digit_char (n mod 10)) acc else show_nat_digits f (n / 10) (String (digit_char (n mod 10)) acc).
Proof. reflexivity. Qed.

Lemma show_digits_val f : forall n acc a0, 0 <= n < 10 ^ Z.of_nat (S f) ->
  exists k, 0 < k /\ digits_val_acc (show_nat_digits (S f) n acc) a0 = digits_val_acc acc (a0 * 10 ^ k + n).
Proof.
  induction f as [|f IH]; intros n acc a0 Hn; rewrite show_S; destruct (n <? 10) eqn:E.
  - apply Z.ltb_lt in E. exists 1. split; [lia|]. cbn [digits_val_acc]. rewrite Z.mod_small by lia.
    rewrite char_digit_digit_char by lia. f_equal; lia.
  - apply Z.ltb_ge in E. change (10 ^ Z.of_nat 1) with 10 in Hn. lia.
  - apply Z.ltb_lt in E. exists 1. split; [lia|]. cbn [digits_val_acc]. rewrite Z.mod_small by lia.
    rewrite char_digit_digit_char by lia. f_equal; lia.
  - apply Z.ltb_ge in E.
    assert (Hq : 0 <= n / 10 < 10 ^ Z.of_nat (S f)).
    { rewrite (Nat2Z.inj_succ (S f)), Z.pow_succ_r in Hn by lia. split; [apply Z.div_pos; lia|]. apply Z.div_lt_upper_bound; lia. }
    destruct (IH (n / 10) (String (digit_char (n mod 10)) acc) a0 Hq) as (k & Hk & Eq).
    exists (k + 1). split; [lia|]. rewrite Eq. cbn [digits_val_acc].
    rewrite char_digit_digit_char by (apply Z.mod_pos_bound; lia). f_equal.
    rewrite Z.pow_add_r by lia. pose proof (Z.div_mod n 10). lia.
Qed.

Lemma show_digits_nonempty f n acc : show_nat_digits (S f) n acc <> EmptyString.
Proof.
  revert n acc. induction f as [|f IH]; intros n acc; cbn [show_nat_digits].
  - destruct (n <? 10); discriminate.
  - destruct (n <? 10); [discriminate|]. apply IH.
Qed.

Lemma digits_val_show n : 0 <= n < 10 ^ 20 -> digits_val (show_nat_digits 20 n EmptyString) = Some n.
Proof.
  intros H. unfold digits_val. destruct (show_nat_digits 20 n EmptyString) eqn:E.
  - exfalso. exact (show_digits_nonempty 19 n EmptyString E).
  - rewrite <- E. destruct (show_digits_val 19 n EmptyString 0 H) as (k & _ & Eq). rewrite Eq. cbn [digits_val_acc]. f_equal; lia.
Qed.
