Require Import Coq.Strings.String Coq.Lists.List Coq.Bool.Bool.
Require Import Cnl2aspV.Tel.Sem Cnl2aspV.Tel.Syntax Cnl2aspV.Cnl.Temporal.
Import ListNotations.
Open Scope string_scope.
Example C05_placeholder : render_formula (TFLast false false None (OLeaf (TEnt ENone "p" "1")) None) = "there is a p with id 1".
Proof. reflexivity. Qed.
