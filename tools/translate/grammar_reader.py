"""Fail-closed reader for the *literal* terminals of grammar.lark.

Recognised right-hand sides: string literals ("..." with optional i flag), references to other
terminals, concatenation, alternation and parenthesised groups.  Anything else (regexps, ?, *, +,
[...] optionals, templates) raises Unsupported naming terminal and text, which the caller reports as a
broken tie.  The result for a terminal is the finite list of strings it can match, in grammar order.
"""
import re


class Unsupported(Exception):
    pass


def read_definitions(grammar_text):
    """name -> raw right-hand side (joined continuation lines), for terminals and rules."""
    defs = {}
    order = []
    cur = None
    for raw in grammar_text.splitlines():
        line = raw
        # strip // comments that are not inside a string or regexp
        out = []
        i = 0
        instr = None
        while i < len(line):
            c = line[i]
            if instr:
                out.append(c)
                if c == '\\' and i + 1 < len(line):
                    out.append(line[i + 1])
                    i += 1
                elif c == instr:
                    instr = None
            elif c in '"/' and not (c == '/' and line.startswith('//', i)):
                instr = c
                out.append(c)
            elif line.startswith('//', i):
                break
            else:
                out.append(c)
            i += 1
        line = ''.join(out).rstrip()
        if not line.strip() or line.strip().startswith('%'):
            continue
        m = re.match(r'^([?!]?[A-Za-z_][A-Za-z0-9_]*)(\.-?\d+)?\s*:(.*)$', line)
        if m and not line[0].isspace():
            cur = m.group(1).lstrip('?!')
            defs[cur] = m.group(3).strip()
            order.append(cur)
        elif cur and (line[0].isspace()):
            defs[cur] += ' ' + line.strip()
        else:
            raise Unsupported('cannot read grammar line: %r' % raw)
    return defs, order


TOK = re.compile(r'\s*("(?:[^"\\]|\\.)*"i?|[A-Za-z_][A-Za-z0-9_]*|\||\(|\)|->\s*[a-z_]+|.)')


def _tokens(rhs):
    pos = 0
    toks = []
    while pos < len(rhs):
        m = TOK.match(rhs, pos)
        if not m:
            break
        t = m.group(1)
        pos = m.end()
        if t.strip():
            toks.append(t)
    return toks


def enumerate_terminal(defs, name, _stack=()):
    """All strings matched by literal terminal `name` -> list of (string, case_insensitive)"""
    if name in _stack:
        raise Unsupported('recursive terminal %s' % name)
    if name not in defs:
        raise Unsupported('terminal %s is not defined in the grammar (imported or regexp)' % name)
    toks = _tokens(defs[name])
    pos = [0]

    def alt():
        res = seq()
        while pos[0] < len(toks) and toks[pos[0]] == '|':
            pos[0] += 1
            res = res + seq()
        return res

    def seq():
        res = [('', False)]
        progressed = False
        while pos[0] < len(toks) and toks[pos[0]] not in ('|', ')'):
            a = atom()
            res = [(x + y, ci1 or ci2) for (x, ci1) in res for (y, ci2) in a]
            progressed = True
        if not progressed:
            raise Unsupported('empty alternative in terminal %s' % name)
        return res

    def atom():
        t = toks[pos[0]]
        pos[0] += 1
        if t.startswith('"'):
            ci = t.endswith('i')
            body = t[1:-2] if ci else t[1:-1]
            body = body.replace('\\"', '"').replace('\\\\', '\\')
            return [(body, ci)]
        if t == '(':
            r = alt()
            if pos[0] >= len(toks) or toks[pos[0]] != ')':
                raise Unsupported('unbalanced group in terminal %s' % name)
            pos[0] += 1
            return r
        if re.match(r'^[A-Z_][A-Z0-9_]*$', t):
            return enumerate_terminal(defs, t, _stack + (name,))
        raise Unsupported('terminal %s: construct %r is not a literal/alternation/concatenation' % (name, t))

    r = alt()
    if pos[0] != len(toks):
        raise Unsupported('terminal %s: trailing %r' % (name, toks[pos[0]:]))
    return r


def strings_of(defs, name):
    return [s for s, _ in enumerate_terminal(defs, name)]
