"""C06 -- every compiled program is accepted by the solver it targets."""
import itertools
import os
import random
import re
import subprocess
import tempfile
from concurrent.futures import ThreadPoolExecutor

import common
import impl
import stream
import aspast
import solve
import gen_core
from common import Report, coq_str, coq_list

PID = 'C06'
PRE_P = 'Require Import Cnl2aspV.Gen.Operators Cnl2aspV.Asp.Syntax Cnl2aspV.Asp.Print Cnl2aspV.Asp.PrintCases.'
PRE_V = 'Require Import Cnl2aspV.Cnl.Values Cnl2aspV.Cnl.ValuesCases.'
PRE_K = 'Require Import Cnl2aspV.Cnl.Core Cnl2aspV.Cnl.CoreCases Cnl2aspV.Cnl.CoreSafe Cnl2aspV.Cnl.CoreSafeCases.'


def is_temporal(prog):
    return '&tel' in prog or '#program' in prog or re.search(r"[a-z_]\w*'\(|'[a-z_]\w*\(", prog) is not None


def telingo_accepts(prog):
    with tempfile.NamedTemporaryFile('w', suffix='.lp', delete=False, dir=os.environ.get('VERIF_WORK')) as fh:
        fh.write(prog)
        path = fh.name
    try:
        p = subprocess.run([common.PY, '-m', 'telingo', path, '--imin=1', '--imax=2', '1', '--verbose=0', '--warn=none'],
                           stdout=subprocess.PIPE, stderr=subprocess.PIPE, text=True, timeout=300)
    finally:
        os.unlink(path)
    err = p.stderr + p.stdout
    bad = ('ERROR' in err) or ('Traceback' in err) or ('error:' in err)
    # the diagnosis ('error: ...' / 'info: ...' lines) comes before the traceback: keep those lines and the tail
    diag = '\n'.join(l for l in err.split('\n') if 'error:' in l or 'info:' in l or 'missing definition' in l)
    return (not bad), (diag[:600] + '\n' + err[-600:])


def value_cases(rnd, tier):
    from cnl2asp.converter.asp_converter import ASPConverter
    from cnl2asp.specification.attribute_component import ValueComponent
    alpha = ['a', 'B', 'z', 'X', '1', '0', '_']
    toks = [''.join(t) for n in (1, 2, 3) for t in itertools.product(alpha, repeat=n)]
    toks += ['ann', 'Kelvin', 'X', 'X1', 'ND_D', '12', '007', '_', 'a_b', 'aB', 'ABc', 'k', 'max', '&true', '&final', '', 'x y', '1.5', '1A', "it's"]
    n = 2000 if tier == 'thorough' else 250
    for _ in range(n):
        toks.append(''.join(rnd.choice('abXYZ019_kq') for _ in range(rnd.randint(1, 7))))
    cases = []
    for t in toks:
        consts = rnd.choice([[], ['k'], ['k', 'max'], ['aB']])
        conv = ASPConverter()
        for c in consts:
            conv._asp_encoding.add_constant((c, '1'))
        out = conv.convert_value(ValueComponent(t))
        cases.append((consts, t, str(out)))
    return cases


def run(tier, seed):
    rep = Report(PID, tier, seed)
    rnd = random.Random(seed)
    proof = common.build_property(PID, extra=['Asp/PrintCases.vo', 'Cnl/ValuesCases.vo', 'Cnl/CoreSafeCases.vo'])
    findings = {f['id']: f for f in common.load_findings(PID) if f.get('status') == 'known'}
    specs = stream.specs(tier, seed, n_quick=220)
    # directed: the witness of every known finding of the temporal printer is part of every run (the finding must still be there)
    specs += [('directed/primes-in-formula', 'A p is identified by an id.\nA q is identified by an id.\n'
               'Whenever there is previously a p with id 1 and a q with id 2, then we can have a h.\n', None),
              ('directed/negated-entity-in-formula', 'A p is identified by an id.\nA q is identified by an id.\n'
               'Whenever there is a p with id 1 or there is not a q with id 2, then we can have a h.\n', None)]
    res = stream.objects_many([t for _, t, _ in specs])
    pcases, pmeta = [], []
    st = dict(parsed=0, grounded=0, temporal=0, rejected=0, corpus_ground_failures=0)
    temporal_jobs = []
    for (name, text, sents), r in zip(specs, res):
        if r[0] == 'rejected':
            st['rejected'] += 1
            continue
        if r[0] != 'ok':
            rep.notes.append('%s: %s %s' % (name, r[0], r[1]))
            continue
        _, term, flat, fn, _ = r
        rep.case(text)
        pcases.append('{| pc_enc := %s; pc_flat := %s; pc_fn := %s |}' % (term, coq_str(flat), coq_str(fn)))
        pmeta.append(dict(name=name, text=text, program=flat))
        # 1. syntax: the solver's own parser
        try:
            aspast.parse(flat)
            st['parsed'] += 1
        except aspast.ParseError as e:
            rep.violation('clingo rejects the syntax of the compiled program', dict(text=text, program=flat, error=str(e)[:500]))
            continue
        if is_temporal(flat):
            st['temporal'] += 1
            temporal_jobs.append((name, text, flat))
            continue
        # 2. grounding, for inputs that meet the hypothesis by construction (wide generator)
        ok, msgs = solve.ground_messages(flat)
        if ok:
            st['grounded'] += 1
            continue
        if sents is None and not name.startswith('regressions/c06_'):      # (the c06_ regression texts are written to meet the hypothesis)
            st['corpus_ground_failures'] += 1     # hypothesis (author variables positive, facts total) not established for corpus texts
            continue
        m = ' '.join(x[1] for x in msgs)
        anon = "'#Anon" in m and 'unsafe' in m
        named = re.findall(r"note: '([A-Z]\w*)' is unsafe", m)
        head_has_anon = any(re.search(r'^[^:]*\{[^}]*\b_\b[^}]*\}', l) or re.search(r'^[a-z_]\w*\([^)]*\b_\b[^)]*\)\s*(\||:-|\.)', l) for l in flat.split('\n'))
        if anon and not named and head_has_anon and sents is not None and 'F-C06-anonymous-in-head' in findings:      # (wide-generator inputs only: the regression texts must ground)
            rep.known_finding('F-C06-anonymous-in-head', findings['F-C06-anonymous-in-head']['summary'])
        else:
            rep.violation('the compiled program does not ground: %s' % m[:300], dict(text=text, program=flat, messages=msgs[:3]))
    with ThreadPoolExecutor(max_workers=12) as ex:
        tres = list(ex.map(lambda j: telingo_accepts(j[2]), temporal_jobs))
    for (name, text, flat), (ok, err) in zip(temporal_jobs, tres):
        if ok:
            continue
        known = None
        if 'leading primes' in err or 'trailing primes' in err:
            known = 'F-C06-primes-in-formula'
        elif 'future atoms not supported' in err:
            known = 'F-C06-future-atom-in-body'
        elif 'missing definition for operator' in err and re.search(r'&tel \{[^}]*\bnot ', flat):
            known = 'F-C06-negated-entity-in-formula'
        elif "'#Anon" in err and 'unsafe' in err:
            known = 'F-C06-anonymous-in-head'
        if known and known in findings:
            rep.known_finding(known, findings[known]['summary'])
        elif name.startswith('examples/') or name.startswith('test_') or name.startswith('regressions/'):
            # corpus texts: the grounding hypothesis is not established; only syntax errors are scored
            if 'syntax error' in err or 'lexer error' in err:
                rep.violation('telingo rejects the syntax of the compiled program', dict(text=text, program=flat, error=err))
            else:
                st['corpus_ground_failures'] += 1
        else:
            rep.violation('telingo rejects the compiled program', dict(text=text, program=flat, error=err))
    # value-level correspondence
    vc = value_cases(rnd, tier)
    vcases = ['{| v_consts := %s; v_in := %s; v_out := %s |}' % (coq_list([coq_str(c) for c in cs]), coq_str(t), coq_str(o)) for cs, t, o in vc
              if all(ord(ch) < 128 for ch in t)]
    rep.evaluations += len(vcases)
    rep.sample(dict(text=pmeta[0]['text'], program=pmeta[0]['program']))
    rep.sample(dict(convert_value=[(t, o) for _, t, o in vc[-5:]]))
    # core fragment: the compile model of the safety theorem against the implementation; the implementation's programs must ground
    kspecs = gen_core.directed()
    while len(kspecs) < (400 if tier == 'thorough' else 60):
        kspecs.append(gen_core.gen(rnd, max_dom=2))
    ktexts = [gen_core.render(x) for x in kspecs]
    kcases, kmeta = [], []
    for ks, kt, kr in zip(kspecs, ktexts, impl.compile_many(ktexts)):
        rep.case(kt)
        if kr[0] != 'ok':
            rep.violation('a core-fragment specification is rejected', dict(text=kt, result=kr[:3]))
            continue
        kcases.append('{| k_spec := %s; k_out := %s |}' % (gen_core.coq_spec(ks), coq_str(kr[1])))
        kmeta.append(dict(text=kt, program=kr[1]))
        ok, msgs = solve.ground_messages(kr[1])
        if not ok:
            rep.violation('the compiled core-fragment program does not ground: %s' % ' '.join(x[1] for x in msgs)[:300],
                          dict(text=kt, program=kr[1], messages=msgs[:3]))
    st['core_specifications'] = len(kcases)
    tie_broken = []
    if proof['ok'] or proof['extra_ok']:
        k1 = common.run_cases(PID, 'ktie', PRE_K, kcases, 'ksafe_tie', shard=40)
        k2 = common.run_cases(PID, 'khyp', PRE_K, kcases, 'ksafe_hyp', shard=40)
        k3 = common.run_cases(PID, 'ksafe', PRE_K, kcases, 'ksafe_ok', shard=40)
        if k1:
            tie_broken.append('core compile model (Cnl/Core.v, C06_core_fragment_safe) differs from the implementation on %d specifications, first: %r' % (len(k1), kmeta[k1[0]]))
        if k2:
            tie_broken.append('a generated core specification does not meet the hypothesis of C06_core_fragment_safe: %r' % (kmeta[k2[0]],))
        for i in [x for x in k3 if x not in k1][:3]:
            rep.violation('a rule of the compiled core-fragment program is unsafe (model evaluation)', kmeta[i])
        f1 = common.run_cases(PID, 'flat', PRE_P, pcases, 'flat_ok', shard=40)
        f2 = common.run_cases(PID, 'val', PRE_V, vcases, 'vcase_ok', shard=1500)
        if f1:
            tie_broken.append('printer model differs from the implementation on %d programs, first: %s' % (len(f1), pmeta[f1[0]]['name']))
        if f2:
            tie_broken.append('convert_value model differs on %d tokens, first: %r' % (len(f2), vc[f2[0]]))
    if not proof['ok']:
        tie_broken.append('theorem file does not build: %s' % proof['failed_at'])
    if proof['bad']:
        tie_broken.append('forbidden tokens: %r' % proof['bad'])
    if tie_broken and not rep.violations:
        rep.violation('proof obligation or correspondence no longer checks and no failing input was found: ' + ' | '.join(tie_broken),
                      dict(kind='broken-tie', theorem='Props/C06.v / printer + convert_value correspondence', details=tie_broken,
                           searched='%d programs parsed by clingo.ast, %d grounded, %d temporal programs through telingo' % (st['parsed'], st['grounded'], st['temporal'])), no_input=True)
    elif tie_broken:
        rep.notes.extend(tie_broken)
    rep.cov.update(programs=len(pcases), parsed_by_clingo=st['parsed'], grounded_ok=st['grounded'], temporal_programs=st['temporal'],
                   inputs_rejected_by_compiler=st['rejected'], corpus_programs_not_grounding_unscored=st['corpus_ground_failures'], value_tokens=len(vcases), core_specifications=st['core_specifications'])
    rep.assumptions += ['clingo.ast.parse_string / clingo.Control.ground / telingo are the definition of "accepted by the solver"',
                        'grounding is scored only for wide-generator inputs, which meet the hypothesis (author variables in positive occurrences, total facts) by construction']
    return rep.finish(proof, rule='corpus + wide generator; every output parsed by the solver, wide-generator outputs grounded, temporal outputs run through telingo; '
                                  'convert_value on all tokens over a 7-letter alphabet up to length 3 + random; distinct by specification text')
