"""C05 -- temporal connectives mean what they say on every trace."""
import itertools
import json
import os
import random
import re
import subprocess
import tempfile
from concurrent.futures import ThreadPoolExecutor

import common
import impl
import translate
from common import Report, coq_str, coq_bool, coq_opt, coq_list

PID = 'C05'
PRE = 'Require Import Cnl2aspV.Tel.Sem Cnl2aspV.Tel.Syntax Cnl2aspV.Cnl.Temporal Cnl2aspV.Cnl.C05Cases.'
DECL = "A p is identified by an id.\nA q is identified by an id.\n"

TWORDS = {'WAlways': 'always', 'WEventually': 'eventually', 'WBefore': 'before', 'WSinceBefore': 'since before',
          'WAfter': 'after', 'WSinceAfter': 'since after'}
PREFIX = {'ENone': '', 'EPreviously': 'previously ', 'ESubsequently': 'subsequently ', 'EInitially': 'initially ', 'EFinally': 'finally '}
CONSTS = ["it is the initial state", "it is the final state", "the true constant", "the false constant"]
KINDS = {'KWheneverCan': ("Whenever %s, then we can have a h.", True), 'KWheneverMust': ("Whenever %s, then we must have a h.", True),
         'KProhibited': ("It is prohibited that %s.", False), 'KRequired': ("It is required that %s.", False)}


def duals():
    import grammar_reader as gr
    defs, _ = gr.read_definitions(impl.grammar_text())
    return gr.strings_of(defs, 'TELINGO_DUAL_OPERATOR')


# ---- python mirror of the CNL syntax (only for generation + rendering; Coq re-renders and compares)
def atom_ent(pre, c):
    return ('ent', pre, c, '1' if c == 'p' else '2')


def r_atom(a):
    if a[0] == 'ent':
        return '%sa %s with id %s' % (PREFIX[a[1]], a[2], a[3])
    return a[1]


def r_operand(o):
    s = r_atom(o[0])
    for d, a in o[1]:
        s += ' %s %s' % (d, r_atom(a))
    return s


def r_level(l):
    pre, neg, t1, opd, hold = l
    t = (TWORDS[t1] + ' ') if t1 else ''
    s = (t if pre else '') + 'there is ' + ('not ' if neg else '') + ('' if pre else t) + r_operand(opd)
    if hold:
        hn, hw, hf = hold
        s += ' that ' + ('do not ' if hn else '') + (('holds ' + TWORDS[hw]) if hf else (TWORDS[hw] + ' holds'))
    return s


def r_formula(f):
    s = r_level(f[0][0])
    for d, l in f[1:]:
        s += ' %s %s' % (d, r_level(l))
    return s


def c_atom(a):
    if a[0] == 'ent':
        return '(TEnt %s %s %s)' % (a[1], coq_str(a[2]), coq_str(a[3]))
    return '(TCon %s)' % coq_str(a[1])


def c_operand(o):
    first, rest = o
    if not rest:
        return '(OLeaf %s)' % c_atom(first)
    d, a = rest[0]
    return '(ODual %s %s %s)' % (c_atom(first), coq_str(d), c_operand((a, rest[1:])))


def c_level_args(l):
    pre, neg, t1, opd, hold = l
    h = 'None' if not hold else '(Some {| h_neg := %s; h_word := %s; h_hold_first := %s |})' % (coq_bool(hold[0]), hold[1], coq_bool(hold[2]))
    return '%s %s %s %s %s' % (coq_bool(pre), coq_bool(neg), 'None' if not t1 else '(Some %s)' % t1, c_operand(opd), h)


def c_formula(f):
    # f = [(level0,), (d1, level1), ...]
    levels = [f[0][0]] + [l for _, l in f[1:]]
    ds = [d for d, _ in f[1:]]

    def go(i):
        if i == len(levels) - 1:
            return '(TFLast %s)' % c_level_args(levels[i])
        return '(TFCons %s %s %s)' % (c_level_args(levels[i]), coq_str(ds[i]), go(i + 1))
    return go(0)


def gen_formulas(rnd, tier, DUALS):
    """Structured shapes: exhaustive small families first, then random deeper ones."""
    out = []
    P, Q = atom_ent('ENone', 'p'), atom_ent('ENone', 'q')
    # F1: every dual between two plain atoms, operand level and operation level
    for d in DUALS:
        out.append([((False, False, None, (P, [(d, Q)]), None),)])
        out.append([((False, False, None, (P, []), None),), (d, (False, False, None, (Q, []), None))])
    # F2: every t1 x hold combination on a single atom (valid and invalid), both orders, both placements
    for t1 in [None] + list(TWORDS):
        for hold in [None] + [(hn, hw, hf) for hn in (False, True) for hw in TWORDS for hf in (False, True)]:
            for pre in ((False, True) if t1 else (False,)):
                out.append([((pre, False, t1, (P, []), hold),)])
    # F3: negations
    for neg in (False, True):
        for t1 in (None, 'WBefore', 'WAfter'):
            out.append([((False, neg, t1, (P, [('and', Q)]), None),)])
            out.append([((False, neg, t1, (P, []), None),), ('or', (False, True, None, (Q, []), None))])
    # F4: constants and prefixes
    for c in CONSTS:
        out.append([((False, False, None, (P, [('and', ('con', c))]), None),)])
        out.append([((False, False, None, (('con', c), [('or', Q)]), None),)])
    for pre in PREFIX:
        out.append([((False, False, None, (atom_ent(pre, 'p'), [('and', Q)]), None),)])
        out.append([((False, False, None, (P, [('and', atom_ent(pre, 'q'))]), None),)])
        out.append([((False, False, None, (P, [('and', Q), ('or', atom_ent(pre, 'p'))]), None),)])
        out.append([((False, False, 'WBefore', (atom_ent(pre, 'p'), []), None),)])
    # F5: random deeper shapes
    n = 1500 if tier == 'thorough' else 80

    def rnd_atom():
        r = rnd.random()
        if r < 0.12:
            return ('con', rnd.choice(CONSTS))
        pre = 'ENone' if rnd.random() < 0.8 else rnd.choice(['EInitially', 'EFinally', 'EPreviously', 'ESubsequently'])
        return atom_ent(pre, rnd.choice('pq'))

    def rnd_level():
        k = rnd.choice([0, 0, 1, 1, 2])
        first = rnd_atom()
        while first[0] == 'con' and k == 0:
            first = rnd_atom()
        opd = (first, [(rnd.choice(DUALS), rnd_atom()) for _ in range(k)])
        t1 = rnd.choice([None, None, 'WBefore', 'WAfter', 'WAlways', 'WEventually', 'WSinceBefore', 'WSinceAfter'])
        hold = None
        if rnd.random() < 0.45:
            if t1 in ('WBefore', 'WAfter', 'WSinceBefore', 'WSinceAfter'):
                hw = rnd.choice(['WAlways', 'WEventually'])
            elif t1 in ('WAlways', 'WEventually'):
                hw = rnd.choice(['WBefore', 'WAfter', 'WSinceBefore', 'WSinceAfter'])
            else:
                hw = rnd.choice(list(TWORDS))
            hold = (rnd.random() < 0.3, hw, rnd.random() < 0.5)
        elif t1 in ('WAlways', 'WEventually', 'WSinceBefore', 'WSinceAfter') and rnd.random() < 0.8:
            t1 = rnd.choice([None, 'WBefore', 'WAfter'])
        pre = bool(t1) and rnd.random() < 0.3
        return (pre, rnd.random() < 0.2, t1, opd, hold)
    for _ in range(n):
        f = [(rnd_level(),)]
        for _ in range(rnd.choice([0, 0, 1, 1, 2])):
            f.append((rnd.choice(DUALS), rnd_level()))
        out.append(f)
    return out


def body_of(program_text):
    line = program_text.strip().split('\n')[-1]
    if ':-' not in line:
        return None
    return line.split(':-', 1)[1].strip().rstrip('.').strip() if line.endswith('.') else None


def telingo_obs(body, horizon):
    """-> list of (trace, hvals) or ('error', message)"""
    if body.startswith('&tel'):
        body = 'not not ' + body      # a constraint body: '&tel' may not stand alone in the body of a rule with a head
    prog = '#program always.\n{p(1)}. {q(2)}.\ns.\nh :- %s.\n#show p/1. #show q/1. #show h/0. #show s/0.\n' % body
    with tempfile.NamedTemporaryFile('w', suffix='.lp', delete=False, dir=os.environ.get('VERIF_WORK')) as fh:
        fh.write(prog)
        path = fh.name
    try:
        p = subprocess.run([common.PY, '-m', 'telingo', path, '--imin=%d' % horizon, '--imax=%d' % horizon, '0', '--outf=2', '--warn=none'],
                           stdout=subprocess.PIPE, stderr=subprocess.PIPE, text=True, timeout=300)
    finally:
        os.unlink(path)
    try:
        d = json.loads(p.stdout)
    except Exception:
        return ('error', (p.stdout + p.stderr)[-400:])
    obs = []
    for call in d.get('Call', []):
        for w in call.get('Witnesses', []):
            states = {}
            for a in w['Value']:
                name, args = a.split('(', 1)
                args = args[:-1].split(',')
                t = int(args[-1])
                st = states.setdefault(t, set())
                if name in ('p', 'q'):
                    st.add('%s(%s)' % (name, args[0]))
                elif name == 'h':
                    st.add('h')
                elif name == 's':
                    st.add('s')
            lam = max(states) + 1
            tr = [sorted(x for x in states.get(t, ()) if x not in ('h', 's')) for t in range(lam)]
            hv = ['h' in states.get(t, ()) for t in range(lam)]
            obs.append((tr, hv))
    if not obs:      # {p(1)}. {q(2)}. always has models: no witness at all means telingo refused the program
        return ('error', (p.stderr or p.stdout)[-400:])
    return obs


def run(tier, seed):
    rep = Report(PID, tier, seed)
    rnd = random.Random(seed)
    tie_ok, tout = translate.run(['tables'])
    proof = common.build_property(PID, extra=['Cnl/C05Cases.vo'])
    findings = {f['id']: f for f in common.load_findings(PID) if f.get('status') == 'known'}
    try:
        DUALS = duals()
    except Exception as e:
        DUALS = ["and", "or", "implies", "imply", "equivalent to", "trigger", "triggers", "since", "precede", "releases", "until", "follow"]
        tie_ok = False
        tout += str(e)
    formulas = gen_formulas(rnd, tier, DUALS)
    horizon = 4 if tier == 'thorough' else 3
    jobs = []
    for n_f, f in enumerate(formulas):
        kinds = list(KINDS) if tier == 'thorough' else [rnd.choice(['KWheneverCan', 'KWheneverMust']), rnd.choice(['KProhibited', 'KRequired'])][n_f % 2:][:1] + ([rnd.choice(list(KINDS))] if n_f % 5 == 0 else [])
        for k in kinds:
            jobs.append((k, f))
    ccases, cmeta, bodies = [], [], []
    texts = [KINDS[k][0] % r_formula(f) for k, f in jobs]
    results_c = impl.compile_many([DECL + t for t in texts])
    for (k, f), text, r in zip(jobs, texts, results_c):
        rep.case((k, text))
        body = body_of(r[1]) if r[0] == 'ok' else None
        ccases.append('{| c_kind := %s; c_f := %s; c_text := %s; c_impl_body := %s |}' % (k, c_formula(f), coq_str(text), coq_opt(None if body is None else coq_str(body))))
        cmeta.append(dict(text=DECL + text, impl=r[:3], kind=k))
        bodies.append(body)
    # oracle: telingo on the IMPLEMENTATION's body
    idx = [i for i, b in enumerate(bodies) if b is not None]
    with ThreadPoolExecutor(max_workers=14) as ex:
        results = list(ex.map(lambda i: telingo_obs(bodies[i], horizon), idx))
    ocases, ometa = [], []
    telingo_rejects = []
    ntraces = 0
    for i, res in zip(idx, results):
        k, f = jobs[i]
        if isinstance(res, tuple):
            telingo_rejects.append(i)
            continue
        ntraces += len(res)
        obs = coq_list(['(%s, %s)' % (coq_list([coq_list([coq_str(a) for a in st]) for st in tr]), coq_list([coq_bool(b) for b in hv])) for tr, hv in res])
        ocases.append('{| o_kind := %s; o_f := %s; o_obs := %s |}' % (k, c_formula(f), obs))
        ometa.append(dict(i=i, **cmeta[i]))
    rep.evaluations += ntraces
    rep.sample(cmeta[0]); rep.sample(cmeta[len(cmeta) // 2]); rep.sample(cmeta[-1])

    # conditions spread over several 'whenever' clauses of one sentence: the rule must fire exactly where ALL clauses hold
    # (reading: the conjunction of the clauses; no compile model here, only the oracle)
    pres = ['ENone', 'EInitially', 'EFinally', 'EPreviously', 'ESubsequently']
    pairs = [((a, c), (b, c)) for c in 'pq' for a in pres for b in pres if a != b]
    others = [((a, 'p'), (b, 'q')) for a in pres for b in pres] + [((a, 'q'), (b, 'p')) for a in pres for b in pres]
    chosen = pairs + (others if tier == 'thorough' else rnd.sample(others, 12))
    mjobs = []
    for cl in chosen:
        lv = [(False, False, None, (atom_ent(pre, c), []), None) for pre, c in cl]
        f = [(lv[0],)] + [('and', l) for l in lv[1:]]
        text = 'Whenever ' + ', whenever '.join('there is ' + r_atom(atom_ent(pre, c)) for pre, c in cl) + ', then we must have a h.'
        mjobs.append((f, text))
    mres = impl.compile_many([DECL + t for _, t in mjobs])
    mbodies = [body_of(r[1]) if r[0] == 'ok' else None for r in mres]
    midx = [i for i, b in enumerate(mbodies) if b is not None]
    with ThreadPoolExecutor(max_workers=14) as ex:
        mobs = list(ex.map(lambda i: telingo_obs(mbodies[i], horizon), midx))
    mcases, mmeta = [], []
    for i, res in zip(midx, mobs):
        if isinstance(res, tuple):
            continue
        rep.evaluations += len(res)
        obs = coq_list(['(%s, %s)' % (coq_list([coq_list([coq_str(a) for a in st]) for st in tr]), coq_list([coq_bool(b) for b in hv])) for tr, hv in res])
        mcases.append('{| o_kind := KWheneverMust; o_f := %s; o_obs := %s |}' % (c_formula(mjobs[i][0]), obs))
        mmeta.append(dict(text=DECL + mjobs[i][1], impl=mres[i][:3], kind='several whenever clauses'))
        rep.case(('multi', mjobs[i][1]))
    rep.cov['several_clause_sentences'] = len(mcases)
    for (f, t), r in zip(mjobs, mres):
        if r[0] != 'ok':
            rep.violation('a condition spread over several whenever clauses is not compiled', dict(text=DECL + t, result=[str(x) for x in r[:3]]))
            break

    tie_broken = []
    corr_fail = obs_fail = mobs_fail = undefined = []
    if proof['ok'] or proof['extra_ok']:
        corr_fail = common.run_cases(PID, 'corr', PRE, ccases, 'corr_ok', shard=300)
        obs_fail = common.run_cases(PID, 'obs', PRE, ocases, 'obs_ok', shard=60)
        mobs_fail = common.run_cases(PID, 'mobs', PRE, ocases, 'model_obs_ok', shard=60)
        undefined = common.run_cases(PID, 'rdef', PRE, ocases, 'reading_defined', shard=300)
        # telingo's own ';>' / '<;' deviate from  F & >G / <F & G  when an operand is not an atom (observed, see DESIGN 8):
        # there the verdict of telingo is not the standard semantics; compare the model's semantics with the reading instead
        import re as _re
        seq_pat = _re.compile(r'\) (;>:?|<:?;) | (;>:?|<:?;) \(')
        dev = [j for j in mobs_fail if ometa[j]['i'] not in corr_fail and seq_pat.search(bodies[ometa[j]['i']] or '')]
        if dev:
            mr = common.run_cases(PID, 'mread', PRE, [ocases[j] for j in dev], 'model_reading_ok', shard=60)
            bad_dev = set(dev[x] for x in mr)
            rep.cov['telingo_sequence_deviations'] = len(dev)
            obs_fail = [j for j in obs_fail if j not in dev or j in bad_dev]
            mobs_fail = [j for j in mobs_fail if j not in dev]
        mfail = common.run_cases(PID, 'multi', PRE, mcases, 'obs_ok', shard=60)
        nv = 0
        for j in mfail:
            if 'finally ' in mmeta[j]['text'].split('\n')[-1] and 'F-C05-bare-finally' in findings:
                rep.known_finding('F-C05-bare-finally', findings['F-C05-bare-finally']['summary'])
                continue
            nv += 1
            if nv <= 2:
                rep.violation('the compiled rule does not fire exactly where all the whenever clauses of the sentence hold', mmeta[j])
    if not proof['ok']:
        tie_broken.append('theorem file does not build: %s' % proof['failed_at'])
    rep.cov.update(sentences=len(jobs), compiled_ok=len(idx), telingo_runs=len(idx), traces_observed=ntraces, horizon=horizon,
                   reading_undefined=len(undefined), telingo_rejected=len(telingo_rejects))

    # classification against the known findings: the structured triggers are computed by the Coq model on its compiled formula
    def trig_set(checker, cases):
        if not (proof['ok'] or proof['extra_ok']) or not cases:
            return set()
        not_trig = set(common.run_cases(PID, 'trg_' + checker, PRE, cases, checker, shard=300))
        return set(range(len(cases))) - not_trig
    T_init = trig_set('otrig_inner_init', ocases)
    T_prime_c = trig_set('ctrig_prime', ccases)
    T_neg_c = trig_set('ctrig_neg_atom', ccases)
    T_bare_c = trig_set('ctrig_bare', ccases)
    new = []
    bare_known = set()
    for j in obs_fail:
        if 'F-C05-nested-initially' in findings and j in T_init and j not in mobs_fail:
            rep.known_finding('F-C05-nested-initially', findings['F-C05-nested-initially']['summary'])
        elif ('F-C05-bare-finally' in findings and int(ometa[j]['i']) in T_bare_c and 'finally ' in ometa[j]['text'].split('\n')[-1]
              and re.search(r'(?<![A-Za-z0-9_&])__[a-z]', str(ometa[j]['impl']))):
            # trigger: the condition is a bare 'finally' entity (no temporal formula) and the rule body holds the literal '__p(..)'
            # (the model reads '__p' as 'finally p'; telingo gives it no meaning: that disagreement IS the finding)
            rep.known_finding('F-C05-bare-finally', findings['F-C05-bare-finally']['summary'])
            bare_known.add(j)
        else:
            new.append(j)
    for j in new[:3]:
        rep.violation('the compiled rule does not fire exactly where the condition, read as LTL with past, is true', ometa[j])
    if len(new) > 3:
        rep.notes.append('%d further oracle failures' % (len(new) - 3))
    new_rej = []
    for i in telingo_rejects:
        if i in T_prime_c and 'F-C05-primes-in-formula' in findings:
            rep.known_finding('F-C05-primes-in-formula', findings['F-C05-primes-in-formula']['summary'])
        elif i in T_neg_c and 'F-C05-negated-entity-in-formula' in findings:
            rep.known_finding('F-C05-negated-entity-in-formula', findings['F-C05-negated-entity-in-formula']['summary'])
        elif i in T_bare_c:
            continue   # a bare decorated literal / constant, not a temporal formula: outside this property's fragment
        else:
            new_rej.append(i)
    for i in new_rej[:2]:
        rep.violation('telingo rejects the compiled rule', cmeta[i])
    rep.cov['outside_fragment_bare_literal'] = len(T_bare_c)

    if not tie_ok:
        tie_broken.append('translator failed closed: ' + tout[-600:])
    if corr_fail:
        tie_broken.append('correspondence (model body text vs implementation) differs on %d sentences, first: %r' % (len(corr_fail), cmeta[corr_fail[0]]))
    def bare_finally(j):
        return ('F-C05-bare-finally' in findings and int(ometa[j]['i']) in T_bare_c and 'finally ' in ometa[j]['text'].split('\n')[-1]
                and bool(re.search(r'(?<![A-Za-z0-9_&])__[a-z]', str(ometa[j]['impl']))))
    # (a bare decorated literal in a rule body -- 'q(2), _p(1), __p(1) outside &tel -- is not a temporal formula: Tel/Sem.v gives such a
    # body the meaning of the one-operator formula, telingo treats it as a literal of its own; the comparison of the MODEL's semantics with
    # telingo is restricted to formulas, the comparison of the IMPLEMENTATION with the reading above is not)
    only_model = [j for j in mobs_fail if ometa[j]['i'] not in corr_fail and j not in bare_known and not bare_finally(j)
                  and int(ometa[j]['i']) not in T_bare_c]
    if only_model:
        tie_broken.append('model semantics (Tel/Sem.v) disagrees with telingo on %d sentences, first: %r' % (len(only_model), ometa[only_model[0]]))
    if proof['bad']:
        tie_broken.append('forbidden tokens: %r' % proof['bad'])
    if tie_broken and not rep.violations:
        rep.violation('proof obligation or correspondence no longer checks and no failing input was found: ' + ' | '.join(tie_broken)[:1500],
                      dict(kind='broken-tie', theorem='Props/C05.v', details=tie_broken,
                           searched='%d sentences, %d telingo traces up to length %d' % (len(jobs), ntraces, horizon)), no_input=True)
    elif tie_broken:
        rep.notes.extend(tie_broken)
    for fid in findings:
        if fid not in rep.known and proof['ok'] and tier == 'thorough':
            rep.notes.append('known finding %s was not reproduced in this run' % fid)
    rep.assumptions += ['telingo 2.1.x decides the truth of the rule body per state (external semantics, also used to validate Tel/Sem.v)',
                        'Lark parses the rendered sentence as the structured formula (checked: the model re-renders the sentence and predicts the body text)']
    return rep.finish(proof, rule='formula families F1-F4 enumerated completely (all connectives, all t1 x hold combinations, negations, constants, '
                                  'prefixes) + seeded random shapes up to 3 levels x 3 operands; each sentence observed on ALL traces of length '
                                  '1..%d over p(1), q(2); distinct by sentence text' % horizon)
