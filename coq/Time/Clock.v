(* Minutes of a day <-> the text Python's '%I:%M %p' prints / parses (C locale). *)
Require Import Coq.Strings.String Coq.Strings.Ascii Coq.ZArith.ZArith Coq.Lists.List Coq.Bool.Bool Lia.
Require Import Cnl2aspV.Base.Digits Cnl2aspV.Base.RangeCheck.
Import ListNotations.
Open Scope string_scope.
Open Scope Z_scope.

(* strftime('%I:%M %p') of 1900-01-01 00:00 + m minutes, 0 <= m < 1440 *)
Definition fmt_time (m : Z) : string :=
  let h := m / 60 in
  let h12 := if h mod 12 =? 0 then 12 else h mod 12 in
  pad2 h12 ++ ":" ++ pad2 (m mod 60) ++ " " ++ (if h <? 12 then "AM" else "PM").

Definition lower_char (c : ascii) : ascii :=
  let n := nat_of_ascii c in if (Nat.leb 65 n && Nat.leb n 90)%bool then ascii_of_nat (n + 32) else c.
Fixpoint lower (s : string) : string := match s with EmptyString => EmptyString | String c r => String (lower_char c) (lower r) end.

(* strptime fields: %I = 1[0-2]|0[1-9]|[1-9] ; %M = [0-5]\d|\d ; %p = am|pm (case-insensitive) *)
Definition parse_hour12 (s : string) : option Z :=
  match digits_val s with
  | Some v => if ((String.length s =? 1)%nat && (1 <=? v) || (String.length s =? 2)%nat && (1 <=? v) && (v <=? 12))%bool then Some v else None
  | None => None end.
Definition parse_minute (s : string) : option Z :=
  match digits_val s with
  | Some v => if ((String.length s =? 1)%nat || (String.length s =? 2)%nat && (v <=? 59))%bool then Some v else None
  | None => None end.

(* the three tokens of `temporal_value` (NUMBER ":" NUMBER string) -> minutes since midnight *)
Definition parse_time_fields (h mi p : string) : option Z :=
  match parse_hour12 h, parse_minute mi with
  | Some hv, Some mv =>
    let pl := lower p in
    if String.eqb pl "am" then Some ((hv mod 12) * 60 + mv)
    else if String.eqb pl "pm" then Some ((hv mod 12 + 12) * 60 + mv)
    else None
  | _, _ => None end.

(* splitting the printed text back into its fields *)
Definition parse_time (s : string) : option Z :=
  match s with
  | String h1 (String h2 (String ":" (String m1 (String m2 (String " " p))))) =>
      parse_time_fields (String h1 (String h2 "")) (String m1 (String m2 "")) p
  | _ => None end.

Lemma clock_roundtrip_check :
  range_check (fun m => match parse_time (fmt_time m) with Some m' => Z.eqb m' m | None => false end) 0 1440 = true.
Proof. vm_compute. reflexivity. Qed.

Lemma clock_roundtrip m : 0 <= m < 1440 -> parse_time (fmt_time m) = Some m.
Proof.
  intros H. pose proof (range_check_sound _ _ _ clock_roundtrip_check m ltac:(lia)) as E. cbv beta in E.
  destruct (parse_time (fmt_time m)); [|discriminate]. apply Z.eqb_eq in E. now subst.
Qed.

Lemma fmt_time_injective a b : 0 <= a < 1440 -> 0 <= b < 1440 -> fmt_time a = fmt_time b -> a = b.
Proof.
  intros Ha Hb E. pose proof (clock_roundtrip a Ha) as Ra. rewrite E, (clock_roundtrip b Hb) in Ra. congruence.
Qed.
