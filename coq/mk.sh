#!/bin/sh
# developer helper: refresh _CoqProject/Makefile and build the given targets
cd /verif && /venv/bin/python -c "
import sys; sys.path.insert(0,'tools/harness')
import common
common.ensure_makefile()" && cd /verif/coq && (timeout 1500 make -j16 "$@" 2>&1; echo "make exit $?") | grep -v "^Closed under\|^COQDEP\|^COQC" | tail -40
