(* Process-wide state and the footprints of the public API (C12).
   Part 1: a generic non-interference ("frame") theorem for operations that respect a read/write/reset footprint.
   Part 2: the footprints of the real API methods, computed from the GENERATED effect summary Gen/Effects.v. *)
Require Import Coq.Strings.String Coq.Lists.List Coq.Bool.Bool Coq.Arith.Arith.
Require Import Cnl2aspV.Base.Util Cnl2aspV.Gen.Effects.
Import ListNotations.
Open Scope string_scope.

(* ------------------------------------------------------------------ Part 1 *)
Section Frame.
  Variables (V R : Type).                      (* values of global variables; results (output text / exception) *)
  Definition gstate := string -> V.

  Record op := { o_reads : list string; o_writes : list string; o_resets : list string; o_run : gstate -> R * gstate }.

  Definition agree_on (vars : list string) (g1 g2 : gstate) : Prop := forall v, In v vars -> g1 v = g2 v.
  Definition live_reads (o : op) : list string := filter (fun v => negb (mem_string v (o_resets o))) (o_reads o).

  Record respects (o : op) : Prop := {
    r_dep : forall g1 g2, agree_on (live_reads o) g1 g2 ->
            fst (o_run o g1) = fst (o_run o g2) /\ agree_on (o_writes o) (snd (o_run o g1)) (snd (o_run o g2));
    r_frame : forall g v, ~ In v (o_writes o) -> snd (o_run o g) v = g v }.

  Definition run (h : list op) (g : gstate) : gstate := fold_left (fun g o => snd (o_run o g)) h g.

  Variable options : list string.             (* variables no operation of a history writes *)

  Lemma options_preserved h : Forall (fun o => respects o /\ forall v, In v options -> ~ In v (o_writes o)) h ->
    forall g, agree_on options (run h g) g.
  Proof.
    induction h as [|o r IH]; intros H g v Hv; [reflexivity|].
    inversion H as [|? ? [Ho Hw] Hr]; subst. cbn [run fold_left]. fold (run r (snd (o_run o g))).
    rewrite (IH Hr _ v Hv). apply (r_frame o Ho). now apply Hw.
  Qed.

  Theorem history_independent (a : op) (h : list op) (g : gstate) :
    respects a -> (forall v, In v (live_reads a) -> In v options) ->
    Forall (fun o => respects o /\ forall v, In v options -> ~ In v (o_writes o)) h ->
    fst (o_run a (run h g)) = fst (o_run a g).
  Proof.
    intros Ha Hsub Hh. apply (r_dep a Ha). intros v Hv. apply (options_preserved h Hh g v). now apply Hsub.
  Qed.

  Theorem idempotent (a : op) (g : gstate) :
    respects a -> (forall v, In v (live_reads a) -> In v options) -> (forall v, In v options -> ~ In v (o_writes a)) ->
    fst (o_run a (snd (o_run a g))) = fst (o_run a g).
  Proof.
    intros Ha Hsub Hw. apply (history_independent a [a] g Ha Hsub). constructor; [split; assumption|constructor].
  Qed.
End Frame.

(* ------------------------------------------------------------------ Part 2: footprints from the generated summary *)
Fixpoint union_s (a b : list string) : list string :=
  match a with [] => b | x :: r => if mem_string x b then union_s r b else union_s r (x :: b) end.

Definition callees_of (names : list string) : list string :=
  fold_left (fun acc f => if mem_string (fe_name f) names then union_s (fe_calls f) acc else acc) effects [].

(* breadth-first closure of the name-based call graph: only the newly found names are expanded in each round *)
Fixpoint reach (n : nat) (seen frontier : list string) : list string :=
  match n with
  | O => seen
  | S k => match frontier with
           | [] => seen
           | _ => let next := filter (fun x => negb (mem_string x seen)) (callees_of frontier) in
                  reach k (seen ++ next)%list next
           end
  end.

Definition reach_fuel := 40.
Definition reachable (entry : string) : list string := reach reach_fuel [entry] [entry].

Definition reads_of (names : list string) : list string :=
  fold_left (fun acc f => if mem_string (fe_name f) names then union_s (fe_reads f) acc else acc) effects [].
Definition writes_of (names : list string) : list string :=
  fold_left (fun acc f => if mem_string (fe_name f) names then union_s (fe_writes f) acc else acc) effects [].

Definition api_methods : list string := ["compile"; "get_symbols"; "check_syntax"; "cnl_to_json"].

Definition api_reads (a : string) : list string := reads_of (reachable a).
Definition api_writes (a : string) : list string := writes_of (reachable a).
Definition api_resets_of (a : string) : list string := match sassoc a api_resets with Some l => l | None => [] end.

(* option fields: process-wide variables that no API method writes (they are set by the caller: Utility.PRINT_WITH_FUNCTIONS) *)
Definition not_written_by_api (g : string) : bool := negb (existsb (fun a0 => mem_string g (api_writes a0)) api_methods).
Definition option_fields : list string := filter not_written_by_api globals.

(* the side condition of history_independent, decidable *)
Definition api_pure (a : string) : bool :=
  forallb (fun v => mem_string v (api_resets_of a) || mem_string v option_fields) (api_reads a).

Definition reach_closed (a : string) : bool :=      (* the fuel was enough: one more round adds nothing *)
  let r := reachable a in forallb (fun n => mem_string n r) (callees_of r).

Global Strategy opaque [effects reachable api_reads api_writes api_resets_of].
