Require Import Coq.Strings.String Coq.Lists.List Coq.Bool.Bool Coq.Arith.Arith.
Require Import Cnl2aspV.Base.Util Cnl2aspV.Asp.Syntax Cnl2aspV.Asp.Print Cnl2aspV.Cnl.Symbols.
Import ListNotations.
Open Scope string_scope.

Fixpoint sym_eqb (a b : sym) : bool :=
  match a, b with
  | SName x, SName y => String.eqb x y
  | SNode p x, SNode q y => String.eqb p q && sym_eqb x y
  | _, _ => false end.
Fixpoint syms_eqb (a b : list sym) : bool :=
  match a, b with [], [] => true | x :: r, y :: s => sym_eqb x y && syms_eqb r s | _, _ => false end.

(* the implementation's Symbol for the same signature, with both arities as it reports them *)
Record scase := { sc_entity : entity; sc_keys : list sym; sc_attrs : list sym; sc_flat : nat; sc_fn : nat }.
Definition scase_ok (c : scase) : bool :=
  let s := convert_signature (sc_entity c) in
  syms_eqb (s_keys s) (sc_keys c) && syms_eqb (s_attributes s) (sc_attrs c) &&
  Nat.eqb (flat_arity s) (sc_flat c) && Nat.eqb (fn_arity s) (sc_fn c).
