(* Lexical classes of gringo terms the compiler emits as leaves. *)
Require Import Coq.Strings.String Coq.Strings.Ascii Coq.Lists.List Coq.Bool.Bool Coq.Arith.Arith.
Require Import Cnl2aspV.Base.Util Cnl2aspV.Base.Str.
Import ListNotations.
Open Scope string_scope.

Definition is_word_c (c : ascii) : bool := is_alpha_c c || is_digit_c c || Ascii.eqb c "_".
Definition word (s : string) : bool := match s with EmptyString => false | _ => sforall is_word_c s end.

Definition is_integer (s : string) : bool := isnumeric s.                          (* NUMBER: [0-9]+ *)
Definition is_variable (s : string) : bool :=                                      (* VARIABLE: [A-Z][A-Za-z0-9_]* *)
  match s with String c r => is_upper_c c && sforall is_word_c r | EmptyString => false end.
Definition is_identifier (s : string) : bool :=                                    (* IDENTIFIER: [a-z][A-Za-z0-9_]* *)
  match s with String c r => is_lower_c c && sforall is_word_c r | EmptyString => false end.
Definition is_anonymous (s : string) : bool := String.eqb s "_".
Definition plain_string_c (c : ascii) : bool :=
  negb (Ascii.eqb c """") && negb (Ascii.eqb c "\") && negb (Nat.eqb (nat_of_ascii c) 10).
(* STRING: a quote, characters without quote/backslash/newline, a quote *)
Definition is_quoted_of (body s : string) : bool := String.eqb s ("""" ++ body ++ """") && sforall plain_string_c body.

Inductive leaf_class := LInteger | LVariable | LAnonymous | LConstant | LString.

Definition leaf_ok (cl : leaf_class) (body s : string) : bool :=
  match cl with
  | LInteger => is_integer s | LVariable => is_variable s | LAnonymous => is_anonymous s
  | LConstant => is_identifier s | LString => is_quoted_of body s end.
