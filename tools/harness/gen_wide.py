"""Wide generator (DESIGN 4.2): structured random specifications over a fixed vocabulary.
A specification is a list of sentence records {text, kind, introduces} (declarations first), rendered one sentence per line.
Every random choice comes from the random.Random passed in."""
import random

CONCEPTS = ['node', 'shelf', 'box', 'room', 'tool', 'crate', 'item', 'color', 'worker', 'task']
KEYS = ['id', 'code', 'serial', 'label']
ATTRS = ['weight', 'height', 'size', 'batch', 'cost', 'level']
VERBS = [('store', None), ('host', None), ('kept', 'in'), ('joined', 'to'), ('assigned', 'to'), ('hold', None), ('reach', None),
         ('paint', None), ('moved', 'from'), ('linked', 'to'), ('use', None)]
CMP = ['the same as', 'different from', 'equal to', 'more than', 'greater than', 'less than', 'greater than or equal to',
       'less than or equal to', 'at least', 'at most', 'not after']
CARD = ['', 'exactly 1 ', 'at most 2 ', 'at least 1 ', 'between 1 and 2 ', 'exactly 0 ', 'at most 1 ']
AGG = ['the number', 'the total', 'the highest', 'the lowest', 'the biggest', 'the smallest']
LABELS = ['X', 'Y', 'Z', 'W', 'V', 'U']


class World:
    def __init__(self, rnd):
        self.rnd = rnd
        n = rnd.randint(2, 4)
        names = rnd.sample(CONCEPTS, n)
        self.concepts = {}
        for c in names:
            nk = 1 if rnd.random() < 0.75 else 2
            keys = rnd.sample(KEYS, nk)
            attrs = rnd.sample(ATTRS, rnd.choice([0, 0, 1, 1, 2]))
            self.concepts[c] = dict(keys=keys, attrs=attrs, dom=None, fk=None)
        self.order = names
        self.verbs = {}      # verb text -> (subject concept, object concept)
        self.sentences = []

    def single_key(self):
        return [c for c in self.order if len(self.concepts[c]['keys']) == 1 and not self.concepts[c]['fk']]

    def add(self, text, kind, introduces=False):
        self.sentences.append(dict(text=text, kind=kind, introduces=introduces))


def art(w):
    return 'an' if w[0] in 'aeiou' else 'a'


def verb_text(v, third=False):
    name, prep = v
    if name in ('kept', 'joined', 'assigned', 'moved', 'linked'):
        base = 'is ' + name if third else 'be ' + name
    else:
        base = name + ('s' if third else '')
    return base + (' ' + prep if prep else '')


def declarations(w):
    rnd = w.rnd
    for c in w.order:
        info = w.concepts[c]
        s = '%s %s is identified by %s %s' % (art(c).capitalize(), c, art(info['keys'][0]), info['keys'][0])
        for k in info['keys'][1:]:
            s += ', and by %s %s' % (art(k), k)
        if info['attrs']:
            s += ', and has ' + ', '.join('%s %s' % (art(a), a) for a in info['attrs'])
        w.add(s + '.', 'declaration', True)
    # a concept keyed by another concept (foreign key), sometimes
    if rnd.random() < 0.5 and len(w.order) >= 2:
        a, b = rnd.sample(w.order, 2)
        fk = 'slot' if 'slot' not in w.concepts else 'place'
        w.concepts[fk] = dict(keys=[a, 'position'], attrs=[], dom=None, fk=a)
        w.order.append(fk)
        w.add('%s %s is identified by %s %s, and by a position.' % (art(fk).capitalize(), fk, art(a), a), 'declaration', True)


def domains(w):
    rnd = w.rnd
    for c in list(w.order):
        info = w.concepts[c]
        if info['fk']:
            continue
        r = rnd.random()
        if len(info['keys']) == 1 and not info['attrs'] and r < 0.45:
            lo = rnd.randint(0, 2)
            hi = lo + rnd.randint(0, 3)
            w.add('%s %s %s from %d to %d.' % (art(c).capitalize(), c, rnd.choice(['goes', 'ranges']), lo, hi), 'range', True)
            info['dom'] = ('range', lo, hi)
        elif len(info['keys']) == 1 and not info['attrs'] and r < 0.7:
            vals = rnd.sample(['red', 'green', 'blue', 'alpha', 'beta', '7', '9'], rnd.randint(1, 3))
            w.add('%s %s is one of %s.' % (art(c).capitalize(), c, ', '.join(vals)), 'enumeration', True)
            info['dom'] = ('enum', vals)
        else:
            for _ in range(rnd.randint(1, 3)):
                parts = []
                for k in info['keys']:
                    parts.append('with %s equal to %s' % (k, rnd.choice(['1', '2', '3', 'a1', 'b2'])))
                for a in info['attrs']:
                    parts.append('with %s equal to %d' % (a, rnd.randint(0, 9)))
                w.add('There is %s %s %s.' % (art(c), c, ', '.join(parts)), 'fact', False)
            info['dom'] = ('facts',)


def ent(w, c, label=None, with_attr=None):
    s = '%s %s' % (art(c), c)
    if label:
        s += ' ' + label
    if with_attr:
        s += ' with %s %s' % with_attr
    return s


def new_verb(w, subj, obj):
    rnd = w.rnd
    free = [v for v in VERBS if verb_text(v) not in w.verbs]
    if not free:
        return None
    v = rnd.choice(free)
    w.verbs[verb_text(v)] = (v, subj, obj)
    return v


def body_sentences(w, n):
    rnd = w.rnd
    cs = [c for c in w.order]
    for _ in range(n):
        t = rnd.random()
        labs = rnd.sample(LABELS, 3)
        if t < 0.22 and len(cs) >= 2:
            # choice sentence
            a, b = rnd.sample(cs, 2)
            v = new_verb(w, a, b)
            if not v:
                continue
            modal = rnd.choice(['can', 'must'])
            card = rnd.choice(CARD)
            if modal == 'must' and not card and rnd.random() < 0.5:
                card = 'exactly 1 '
            fe = ''
            others = [c for c in cs if c not in (a, b)]
            if others and rnd.random() < 0.3:
                fe = ' for each %s' % rnd.choice(others)
            lab = rnd.random() < 0.5
            w.add('%s %s%s %s %s %s%s%s.' % (rnd.choice(['Every', 'Any']), a, (' ' + labs[0]) if lab else '', modal, verb_text(v), card,
                                             ent(w, b, labs[1] if lab else None), fe), 'choice', True)
        elif t < 0.34 and len(cs) >= 2:
            a, b = rnd.sample(cs, 2)
            v = new_verb(w, a, b)
            if not v:
                continue
            w.add('Whenever there is %s, then %s %s %s %s%s.' % (ent(w, a, labs[0]), labs[0], rnd.choice(['can', 'must']), verb_text(v),
                                                                rnd.choice(CARD), ent(w, b)), 'whenever-then', True)
        elif t < 0.46 and w.verbs:
            # derived definition from an existing verb
            vt, (v, a, b) = rnd.choice(list(w.verbs.items()))
            newname = rnd.choice(['busy', 'marked', 'used', 'ready', 'full'])
            if newname in w.verbs:
                continue
            w.verbs[newname] = ((newname, None), a, None)
            w.add('%s %s is %s when %s %s %s %s %s.' % (art(a).capitalize(), a + ' ' + labs[0], newname, a, labs[0], verb_text(v, True), b, labs[1]),
                  'definition', True)
        elif t < 0.62 and w.verbs:
            vt, (v, a, b) = rnd.choice(list(w.verbs.items()))
            if b is None:
                w.add('It is %s that %s %s is %s.' % (rnd.choice(['prohibited', 'required']), a, labs[0], v[0]), 'constraint-unary', False)
                continue
            neg = rnd.choice(['', '', 'not ']) if v[0] in ('kept', 'joined', 'assigned', 'moved', 'linked') else rnd.choice(['', '', 'does not '])
            vt3 = verb_text(v, True)
            if neg == 'not ':
                vt3 = vt3.replace('is ', 'is not ', 1)
            elif neg:
                vt3 = neg + verb_text(v, False)
            extra = ''
            if rnd.random() < 0.4:
                c2 = rnd.choice(cs)
                extra = ', whenever there is %s' % ent(w, c2, labs[2])
            w.add('It is %s that %s %s %s %s %s%s.' % (rnd.choice(['prohibited', 'required']), a, labs[0], vt3, b, labs[1], extra), 'constraint-clause', False)
        elif t < 0.72:
            c = rnd.choice(cs)
            info = w.concepts[c]
            if info['attrs']:
                a = rnd.choice(info['attrs'])
                w.add('It is %s that the %s of the %s %s is %s %d.' % (rnd.choice(['prohibited', 'required']), a, c, labs[0], rnd.choice(CMP), rnd.randint(0, 9)),
                      'constraint-attribute', False)
            elif len(info['keys']) == 1:
                w.add('It is %s that %s is %s %d, whenever there is %s.' % (rnd.choice(['prohibited', 'required']), labs[0], rnd.choice(CMP), rnd.randint(0, 5), ent(w, c, labs[0])),
                      'constraint-comparison', False)
        elif t < 0.82 and w.verbs:
            vt, (v, a, b) = rnd.choice(list(w.verbs.items()))
            if b is None:
                continue
            op = rnd.choice(AGG[:1] * 3 + AGG)
            kb = w.concepts[b]['keys'][0]
            form = rnd.random()
            if form < 0.5:
                w.add('It is %s that the number of %s where %s %s %s %s is %s %d.' % (rnd.choice(['prohibited', 'required']), kb if not w.concepts[b]['fk'] else 'position',
                      a, labs[0], verb_text(v, True), ent(w, b), rnd.choice(CMP), rnd.randint(0, 3)), 'constraint-aggregate-passive', False)
            else:
                w.add('It is %s that the number of %s that %s %s is %s %d.' % (rnd.choice(['prohibited', 'required']), a, verb_text(v, False) if v[1] is None else 'are ' + v[0] + ' ' + v[1],
                      ent(w, b, labs[1]), rnd.choice(CMP), rnd.randint(0, 3)), 'constraint-aggregate-active', False)
        elif t < 0.9 and w.verbs:
            vt, (v, a, b) = rnd.choice(list(w.verbs.items()))
            if b is None:
                continue
            pr = rnd.choice(['with low priority', 'with medium priority', 'with high priority', 'with priority 4'])
            w.add('It is preferred %s, %s, that %s %s %s %s %s.' % (rnd.choice(['as little as possible', 'as much as possible']), pr, a, labs[0], verb_text(v, True), b, labs[1]),
                  'preference-clause', False)
        elif t < 0.95 and len(cs) >= 1:
            c = rnd.choice(cs)
            # no label: a variable here would occur only in the (possibly negated) main literal of the constraint
            w.add('It is %s that there is %s%s.' % (rnd.choice(['prohibited', 'required']), rnd.choice(['', 'not ']), ent(w, c)), 'constraint-there-is', False)
        else:
            w.add('// a comment between sentences', 'comment', False)


def generate(rnd, n_body=None):
    w = World(rnd)
    declarations(w)
    domains(w)
    body_sentences(w, n_body if n_body is not None else rnd.randint(2, 7))
    return w.sentences


def text_of(sentences):
    return '\n'.join(s['text'] for s in sentences) + '\n'
