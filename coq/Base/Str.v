(* Python str methods on ASCII as the code uses them. *)
Require Import Coq.Strings.String Coq.Strings.Ascii Coq.Lists.List Coq.Bool.Bool Coq.Arith.Arith.
Import ListNotations.
Open Scope string_scope.

Definition is_upper_c (c : ascii) : bool := let n := nat_of_ascii c in Nat.leb 65 n && Nat.leb n 90.
Definition is_lower_c (c : ascii) : bool := let n := nat_of_ascii c in Nat.leb 97 n && Nat.leb n 122.
Definition is_digit_c (c : ascii) : bool := let n := nat_of_ascii c in Nat.leb 48 n && Nat.leb n 57.
Definition is_alpha_c (c : ascii) : bool := is_upper_c c || is_lower_c c.
Definition upper_c (c : ascii) : ascii := if is_lower_c c then ascii_of_nat (nat_of_ascii c - 32) else c.
Definition lower_c (c : ascii) : ascii := if is_upper_c c then ascii_of_nat (nat_of_ascii c + 32) else c.

Fixpoint smap (f : ascii -> ascii) (s : string) : string :=
  match s with EmptyString => EmptyString | String c r => String (f c) (smap f r) end.
Fixpoint sfilter (f : ascii -> bool) (s : string) : string :=
  match s with EmptyString => EmptyString | String c r => if f c then String c (sfilter f r) else sfilter f r end.
Fixpoint sforall (f : ascii -> bool) (s : string) : bool :=
  match s with EmptyString => true | String c r => f c && sforall f r end.
Fixpoint sexists (f : ascii -> bool) (s : string) : bool :=
  match s with EmptyString => false | String c r => f c || sexists f r end.

Definition upper (s : string) : string := smap upper_c s.
Definition lower (s : string) : string := smap lower_c s.

(* str.isupper(): at least one cased character and no lower-case one *)
Definition isupper (s : string) : bool := sexists is_upper_c s && negb (sexists is_lower_c s).
(* str.isnumeric() / isdigit() on ASCII: non-empty, all digits *)
Definition isnumeric (s : string) : bool := match s with EmptyString => false | _ => sforall is_digit_c s end.
Definition isalpha (s : string) : bool := match s with EmptyString => false | _ => sforall is_alpha_c s end.

Definition is_vowel_c (c : ascii) : bool :=
  let u := upper_c c in
  (Ascii.eqb u "A" || Ascii.eqb u "E" || Ascii.eqb u "I" || Ascii.eqb u "O" || Ascii.eqb u "U")%char.

(* re.sub(r'[AEIOU]', '', name, flags=re.IGNORECASE).upper() *)
Definition strip_vowels_upper (s : string) : string := upper (sfilter (fun c => negb (is_vowel_c c)) s).

Fixpoint ends_with_char (s : string) (c : ascii) : bool :=
  match s with EmptyString => false | String x EmptyString => Ascii.eqb x c | String _ r => ends_with_char r c end.
Fixpoint drop_last (s : string) : string :=
  match s with EmptyString => EmptyString | String _ EmptyString => EmptyString | String x r => String x (drop_last r) end.
(* s.removesuffix('s') *)
Definition removesuffix_s (s : string) : string := if ends_with_char s "s"%char then drop_last s else s.

Fixpoint prefix_b (p s : string) : bool :=
  match p, s with
  | EmptyString, _ => true
  | String a p', String b s' => Ascii.eqb a b && prefix_b p' s'
  | _, _ => false end.
Fixpoint drop (n : nat) (s : string) : string :=
  match n, s with O, _ => s | S k, String _ r => drop k r | _, EmptyString => EmptyString end.
Definition removeprefix (p s : string) : string := if prefix_b p s then drop (String.length p) s else s.

Fixpoint substring_b (p s : string) : bool :=
  prefix_b p s || match s with EmptyString => false | String _ r => substring_b p r end.

Fixpoint join (sep : string) (l : list string) : string :=
  match l with [] => "" | [x] => x | x :: r => x ++ sep ++ join sep r end.

Definition nl : string := String (ascii_of_nat 10) "".
