"""T-gen: coq/Gen/ExcFlow.v -- raise/catch skeleton of the parser side of cnl2asp (Python ast).

For every function of the listed modules: a list of items in source order
  ERaise cls stamped | ECall name | ETry body handlers | ERethrow
(if/for/while/with bodies are flattened into the sequence: this is a may-analysis).  Calls are resolved by bare name
(self.f(), X.f(), f() all mean "some function named f of the analysed modules": an over-approximation).
A raise is *stamped* when it constructs CompilationError with a second argument / line= keyword (the line of the sentence).
Fail-closed: unknown statement kinds stop the translation."""
import ast
import os
import sys

HERE = os.path.dirname(os.path.abspath(__file__))
sys.path.insert(0, os.path.join(os.path.dirname(HERE), 'harness'))
from common import COQ, REPO, write_if_changed, coq_str  # noqa: E402

MODULES = ['parser/parser.py', 'parser/command.py', 'parser/proposition_builder.py', 'specification/signaturemanager.py',
           'specification/entity_component.py', 'specification/proposition.py', 'specification/attribute_component.py',
           'specification/operation_component.py', 'specification/name_component.py', 'specification/problem.py',
           'specification/specification.py', 'specification/relation_component.py', 'specification/aggregate_component.py',
           'specification/constant_component.py']


class Unsupported(Exception):
    pass


def coq_list(xs):
    return '[' + '; '.join(xs) + ']'


class Fn:
    def __init__(self, mod):
        self.mod = mod

    def expr_items(self, node):
        out = []
        if node is None:
            return out
        if isinstance(node, ast.Call):
            # a lambda written directly as an argument of a call is run by the callee while the statement executes: the items of its
            # body are counted at the call (a may-analysis: counting them is an over-approximation); any other lambda is unsupported
            for a in list(node.args) + [k.value for k in node.keywords]:
                if isinstance(a, ast.Lambda):
                    a._argument_of_call = True
        for child in ast.iter_child_nodes(node):
            out += self.expr_items(child)
        if isinstance(node, ast.Call):
            f = node.func
            name = f.attr if isinstance(f, ast.Attribute) else f.id if isinstance(f, ast.Name) else None
            if name == 'index' and isinstance(f, ast.Attribute):
                out.append('ERaise "ValueError" false')          # list.index / str.index
            elif name == 'int':
                out.append('ERaise "ValueError" false')
            elif name == 'strptime':
                out.append('ERaise "ValueError" false')
            elif name is not None:
                out.append('ECall %s' % coq_str(name))
        elif isinstance(node, ast.Subscript) and isinstance(node.value, ast.Name) and node.value.id == 'Operators':
            out.append('ERaise "KeyError" false')
        elif isinstance(node, (ast.Lambda,)) and not getattr(node, '_argument_of_call', False):
            raise Unsupported('%s: lambda at line %d' % (self.mod, node.lineno))
        return out

    def raise_item(self, st):
        if st.exc is None:
            return ['ERethrow']
        out = self.expr_items(st.exc)
        e = st.exc
        if isinstance(e, ast.Call):
            f = e.func
            cls = f.id if isinstance(f, ast.Name) else f.attr if isinstance(f, ast.Attribute) else None
            if cls is None:
                raise Unsupported('%s: raise of a computed class at line %d' % (self.mod, st.lineno))
            stamped = cls == 'CompilationError' and (len(e.args) >= 2 or any(k.arg == 'line' for k in e.keywords))
            # the constructor call itself is not a call into the analysed code
            out = [x for x in out if x != 'ECall %s' % coq_str(cls)]
            out.append('ERaise %s %s' % (coq_str(cls), 'true' if stamped else 'false'))
        elif isinstance(e, ast.Name):
            out.append('ERethrow')      # `raise e`
        else:
            raise Unsupported('%s: raise expression at line %d' % (self.mod, st.lineno))
        return out

    def block(self, body):
        items = []
        for st in body:
            if isinstance(st, (ast.Expr, ast.Assign, ast.AugAssign, ast.AnnAssign, ast.Return, ast.Delete, ast.Assert)):
                items += self.expr_items(st)
            elif isinstance(st, ast.Raise):
                items += self.raise_item(st)
            elif isinstance(st, (ast.If, ast.While)):
                items += self.expr_items(st.test) + self.block(st.body) + self.block(st.orelse)
            elif isinstance(st, ast.For):
                items += self.expr_items(st.iter) + self.block(st.body) + self.block(st.orelse)
            elif isinstance(st, ast.With):
                for it in st.items:
                    items += self.expr_items(it.context_expr)
                items += self.block(st.body)
            elif isinstance(st, ast.Try):
                hs = []
                for h in st.handlers:
                    if h.type is None:
                        classes = []
                    elif isinstance(h.type, ast.Name):
                        classes = [h.type.id]
                    elif isinstance(h.type, ast.Tuple) and all(isinstance(x, ast.Name) for x in h.type.elts):
                        classes = [x.id for x in h.type.elts]
                    else:
                        raise Unsupported('%s: handler type at line %d' % (self.mod, h.lineno))
                    hs.append('(%s, %s)' % (coq_list([coq_str(c) for c in classes]), coq_list(self.block(h.body))))
                items.append('ETry %s %s' % (coq_list(self.block(st.body)), coq_list(hs)))
                items += self.block(st.orelse) + self.block(st.finalbody)
            elif isinstance(st, (ast.Pass, ast.Break, ast.Continue, ast.Import, ast.ImportFrom, ast.Global, ast.Nonlocal)):
                pass
            elif isinstance(st, (ast.FunctionDef, ast.ClassDef)):
                pass      # nested definitions are collected separately
            else:
                raise Unsupported('%s: statement %s at line %d' % (self.mod, type(st).__name__, st.lineno))
        return items


def main():
    base = os.path.join(REPO, 'src', 'cnl2asp')
    funs = []          # (qualified, bare, items)
    callbacks = []
    for m in MODULES:
        tree = ast.parse(open(os.path.join(base, m)).read())
        g = Fn(m)

        def visit(node, cls):
            for ch in node.body:
                if isinstance(ch, ast.ClassDef):
                    visit(ch, ch.name)
                elif isinstance(ch, ast.FunctionDef):
                    q = '%s.%s' % (cls, ch.name) if cls else '%s:%s' % (m, ch.name)
                    funs.append((q, ch.name, g.block(ch.body)))
                    if cls == 'CNLTransformer' and not ch.name.startswith('_'):
                        callbacks.append(q)
                    visit(ch, cls)      # nested defs
        visit(tree, None)
    out = '(* GENERATED from /repo/src/cnl2asp by tools/translate/gen_excflow.py *)\n'
    out += 'Require Import Coq.Strings.String Coq.Lists.List.\nRequire Import Cnl2aspV.Api.ExcFlowSem.\nImport ListNotations.\nOpen Scope string_scope.\n\n'
    out += 'Definition functions : list fdef :=\n  [%s].\n\n' % ';\n   '.join(
        '{| f_qual := %s; f_name := %s; f_body := %s |}' % (coq_str(q), coq_str(b), coq_list(items)) for q, b, items in funs)
    out += 'Definition callbacks : list string := %s.\n' % coq_list([coq_str(c) for c in callbacks])
    write_if_changed(os.path.join(COQ, 'Gen', 'ExcFlow.v'), out)
    return 0


if __name__ == '__main__':
    try:
        sys.exit(main())
    except (Unsupported, SyntaxError, KeyError, AttributeError, FileNotFoundError) as e:
        print('TRANSLATOR-FAILED gen_excflow: %s: %s' % (type(e).__name__, e))
        sys.exit(2)
