"""C07 -- invented variables never capture or merge with the author's."""
import random
import re

import common
import impl
import stream
from common import Report, coq_str, coq_list, coq_bool

PID = 'C07'
PRE = 'Require Import Cnl2aspV.Cnl.Fresh Cnl2aspV.Cnl.FreshCases.'
VAR = re.compile(r'\b[A-Z][A-Z0-9_]*\b')
KEYWORDS = {'A', 'An', 'AM', 'PM', 'It', 'Every', 'Any', 'There', 'Whenever', 'The'}


def canon_rule(rule):
    """variables renamed by order of first occurrence (outside quoted strings)"""
    parts = re.split(r'("[^"]*")', rule)
    seen = {}
    out = []
    for p in parts:
        if p.startswith('"'):
            out.append(p)
            continue

        def rep(m):
            v = m.group(0)
            if v not in seen:
                seen[v] = 'V%d' % len(seen)
            return seen[v]
        out.append(re.sub(r'\b[A-Z][A-Za-z0-9_]*\b', rep, p))
    return ''.join(out)


def canon(prog):
    return [canon_rule(l) for l in prog.split('\n') if l.strip()]


def all_upper_tokens(text):
    """every all-upper-case token outside quoted strings (a superset of the author's variables: used as the reserved set)"""
    vs = set()
    for line in text.split('\n'):
        body = re.sub(r'"[^"]*"', '', line)
        for m in VAR.finditer(body):
            end = m.end()
            if end < len(body) and body[end:end + 1].islower():
                continue          # a capitalised word (Every, Whenever, ...)
            vs.add(m.group(0))
    return vs


def is_variable_occurrence(body, m):
    v = m.group(0)
    end = m.end()
    if end < len(body) and body[end:end + 1].islower():
        return False          # a capitalised word
    if v == 'A' and re.search(r'(^|[.:])\s*$', body[:m.start()]) and re.match(r' (?!is\b|are\b)[A-Za-z]', body[end:end + 6]):
        return False          # the article at the start of a sentence
    if v in ('AM', 'PM') and re.search(r'\d\s*$', body[:m.start()]):
        return False          # clock value
    if re.search(r'is a constant equal to\s*$', body[:m.start()]):
        return False          # the VALUE of a constant ('homeCountry is a constant equal to USA'): a string, not a variable
    return True


def author_vars(text):
    vs = []
    for line in text.split('\n'):
        body = re.sub(r'"[^"]*"', lambda q: ' ' * len(q.group(0)), line)
        for m in VAR.finditer(body):
            if is_variable_occurrence(body, m) and m.group(0) not in vs:
                vs.append(m.group(0))
    return vs


def program_vars(prog):
    vs = set()
    for l in prog.split('\n'):
        body = re.sub(r'"[^"]*"', '', l)
        vs |= set(re.findall(r'\b[A-Z][A-Za-z0-9_]*\b', body))
    return vs


def rename(text, mapping):
    out = []
    for line in text.split('\n'):
        body = re.sub(r'"[^"]*"', lambda q: ' ' * len(q.group(0)), line)     # same length: positions are those of `line`
        res = []
        last = 0
        for m in VAR.finditer(body):
            if is_variable_occurrence(body, m) and m.group(0) in mapping:
                res.append(line[last:m.start()])
                res.append(mapping[m.group(0)])
                last = m.end()
        res.append(line[last:])
        out.append(''.join(res))
    return '\n'.join(out)


def fresh_cases(rnd, tier):
    from cnl2asp.converter.asp_converter import ASPConverter
    from cnl2asp.parser.parser import CNLTransformer
    cases = []
    bases = ['node_id', 'color_id', 'shelf_code', 'count', 'sum', 'max', 'min', 'element', 'time_visit', 'box_serial1', 'a1_b1', 'x0', 'x9', 'x09', 'ND_D', 'aei', 'q7_w7']
    n = 1200 if tier == 'thorough' else 200
    for _ in range(n):
        name = rnd.choice(bases)
        stem = re.sub(r'[AEIOU]', '', name, flags=re.I).upper()
        taken = []
        for k in range(rnd.randint(0, 5)):
            r = rnd.random()
            if r < 0.5:
                taken.append(stem if k == 0 else re.sub(r'\d+$', '', stem) + str(rnd.randint(0, 12)))
            elif r < 0.7:
                taken.append(stem + str(rnd.randint(1, 3)))
            else:
                taken.append(rnd.choice(['X', 'Y', 'CNT', 'SM', 'ND_D', 'ND_D1', 'ND_D2', 'X1', 'X2', 'X10']))
        conv = ASPConverter()
        conv._created_fields = list(taken)
        try:
            out = str(conv.create_new_field_value(name))
            cases.append((False, taken, name, out))
        except RecursionError:
            pass
        tr = CNLTransformer()
        tr._defined_variables = list(taken)
        try:
            out = str(tr._new_field_value(name))
            cases.append((True, taken, name, out))
        except RecursionError:
            pass
    return cases


LATE_TRIGGER = re.compile(r'\bthe [a-z_ ]+ of the [a-z]+|\bis (before|after) \d|It is preferred')


def run(tier, seed):
    rep = Report(PID, tier, seed)
    rnd = random.Random(seed)
    proof = common.build_property(PID, extra=['Cnl/FreshCases.vo'])
    findings = {f['id']: f for f in common.load_findings(PID) if f.get('status') == 'known'}
    specs = stream.specs(tier, seed, n_quick=40, n_thorough=500)
    base = impl.compile_many([t for _, t, _ in specs])
    jobs = []
    for (name, text, _), b in zip(specs, base):
        if b[0] != 'ok':
            continue
        av = author_vars(text)
        if not av:
            continue
        reserved = all_upper_tokens(text)
        # names derived from a support predicate's random identifier are normalised by the harness (X_0_...): they are not names the
        # compiler would ever invent again, so they are not candidates for the adversarial renaming
        invented = sorted(v for v in program_vars(b[1]) if v not in reserved and not re.match(r'X_\d+(_|$)', v))
        # 1. benign injective renaming
        m1 = {v: 'Q%dZ' % i for i, v in enumerate(av)}
        jobs.append((name, text, b[1], 'benign', m1))
        # 2. adversarial: author variables renamed to names the compiler invents for this specification
        pool = [x for x in invented + ['CNT', 'SM', 'MX', 'MN'] + [x + '1' for x in invented[:3]] if x not in reserved]
        if name.startswith('regressions/'):
            for sv in av:
                for tv in pool:
                    jobs.append((name, text, b[1], 'adversarial', {sv: tv}))
        # 3. chains: several author variables renamed to an invented name and its numbered successors (D, D1, D2)
        chain_bases = [x for x in invented if not re.search(r'\d$', x)][:(len(invented) if name.startswith('regressions/') else 1)]
        for base_v in chain_bases:
            for start in range(len(av) if name.startswith('regressions/') else 1):
                src = av[start:start + 3]
                tgt = [base_v] + ['%s%d' % (base_v, i) for i in range(1, len(src))]
                m = dict(zip(src, tgt))
                if not (set(tgt) & (reserved - set(src))):
                    jobs.append((name, text, b[1], 'adversarial', m))
        for _ in range(4 if tier == 'thorough' else 2):
            if not pool:
                break
            k = rnd.randint(1, min(2, len(av)))
            src = rnd.sample(av, k)
            tgt = rnd.sample(pool, min(k, len(pool)))
            m = dict(zip(src, tgt))
            if len(set(m.values())) == len(m) and not (set(m.values()) & reserved):
                jobs.append((name, text, b[1], 'adversarial', m))
    res = impl.compile_many([rename(j[1], j[4]) for j in jobs])
    dist = {'benign': 0, 'adversarial': 0}
    for (name, text, bprog, kind, m), r in zip(jobs, res):
        rep.case((text, tuple(sorted(m.items()))))
        dist[kind] += 1
        rtext = rename(text, m)
        info = dict(text=text, renaming=m, renamed_text=rtext, program=bprog, renamed_program=r[1] if r[0] == 'ok' else r[:3])
        if r[0] != 'ok':
            rep.violation('a consistent renaming of the author\'s variables makes the specification uncompilable', info)
            continue
        if canon(r[1]) != canon(bprog):
            # known finding: the parser invents a name BEFORE the author's variable of the same name is seen in the sentence
            lines_changed = [i for i, (a, c) in enumerate(zip(canon(bprog), canon(r[1]))) if a != c]
            sentences = [l for l in text.split('\n') if any(s in l for s in m)]
            late = any(LATE_TRIGGER.search(s) for s in sentences)
            if kind == 'adversarial' and late and 'F-C07-late-author-variable' in findings:
                rep.known_finding('F-C07-late-author-variable', findings['F-C07-late-author-variable']['summary'])
            else:
                rep.violation('renaming the author\'s variables changes the program beyond a renaming (capture or merge)', info)
    if jobs:
        rep.sample(dict(renaming=jobs[0][4], text=jobs[0][1][-300:]))
        rep.sample(dict(renaming=jobs[-1][4], text=jobs[-1][1][-300:]))
    fc = fresh_cases(rnd, tier)
    fcases = ['{| fr_parser := %s; fr_taken := %s; fr_name := %s; fr_out := %s |}' % (coq_bool(p), coq_list([coq_str(t) for t in tk]), coq_str(n), coq_str(o)) for p, tk, n, o in fc]
    rep.evaluations += len(fcases)
    tie_broken = []
    if proof['ok'] or proof['extra_ok']:
        f = common.run_cases(PID, 'fresh', PRE, fcases, 'frcase_ok', shard=800)
        if f:
            tie_broken.append('fresh-name model differs from the implementation on %d cases, first: %r' % (len(f), fc[f[0]]))
    if not proof['ok']:
        tie_broken.append('theorem file does not build: %s' % proof['failed_at'])
    if proof['bad']:
        tie_broken.append('forbidden tokens: %r' % proof['bad'])
    if tie_broken and not rep.violations:
        rep.violation('proof obligation or correspondence no longer checks and no failing input was found: ' + ' | '.join(tie_broken),
                      dict(kind='broken-tie', theorem='Props/C07.v / fresh-name correspondence', details=tie_broken,
                           searched='%d renamings (%r)' % (len(jobs), dist)), no_input=True)
    elif tie_broken:
        rep.notes.extend(tie_broken)
    rep.cov.update(renamings=len(jobs), distribution=dist, fresh_name_cases=len(fcases))
    rep.assumptions += ['author variables are the all-upper-case tokens of the text outside quoted strings',
                        'a rule is canonicalised by renaming its variables in order of first occurrence']
    return rep.finish(proof, rule='corpus + wide generator x (one benign injective renaming + adversarial renamings of 1-2 author variables to names the compiler '
                                  'invents for that specification, CNT/SM/MX/MN, and suffixed variants); distinct by (text, renaming)')
