(* Aggregate constraints (C02) over a fixed vocabulary: rooms 1..n, shelves (id, weight), a freely chosen relation host(room, shelf).
   - structured syntax of the aggregate sentence forms;
   - the READING (specification): written on the sentence, without reference to the compile model;
   - the compile model: the rule the implementation emits (compared with the implementation modulo a canonical renaming of variables);
   - the semantics of that rule (first-order, with aggregate values from Asp/Agg.v). *)
Require Import Coq.Strings.String Coq.Strings.Ascii Coq.Lists.List Coq.Bool.Bool Coq.Arith.Arith Coq.ZArith.ZArith.
Require Import Cnl2aspV.Base.Util Cnl2aspV.Base.Str Cnl2aspV.Base.Digits Cnl2aspV.Gen.Operators Cnl2aspV.Gen.Tables Cnl2aspV.Gen.Terminals
               Cnl2aspV.Asp.CmpSem Cnl2aspV.Asp.Agg Cnl2aspV.Cnl.Comparison.
Import ListNotations.
Open Scope string_scope.
Open Scope Z_scope.

(* ------------------------------------------------------------------ syntax *)
Inductive col := KRoom | KShelf | KWeight.
Inductive aform := FEntity | FParamShelf | FParamRoom | FActive | FPassiveShelf | FPassiveWeight | FPassiveWeightEach.
(* g_side/g_label: the column held fixed by an outer label ("with room id R", "a shelf S", "a room R hosts");
   g_dlabel: label of the counted value (needed by a filter "where X is ... k") *)
Record aggr := { g_fn : aggfn; g_form : aform; g_side : option col; g_label : option string; g_dlabel : option string;
                 g_filter : option (string * Z) }.
Inductive acmp :=
| CPhrase (ph : string) (k : Z)
| CBetween (a b : Z)
| CAgg (ph : string) (g : aggr)
| CBetweenAgg (a : Z) (g : aggr)
| CBetweenAggs (g1 g2 : aggr).
Record aspec := { a_rooms : nat; a_shelves : list (Z * Z); a_required : bool; a_agg : aggr; a_cmp : acmp;
                  a_whenever : list (string * col); a_owhere : option (string * string * string) }.

Definition interp := list (Z * Z).                   (* the chosen host(room, shelf) instances *)
Definition holds_host (I : interp) (r s : Z) : bool := existsb (fun p => Z.eqb (fst p) r && Z.eqb (snd p) s) I.

Definition rooms (sp : aspec) : list Z := map Z.of_nat (seq 1 (a_rooms sp)).
Definition shelf_ids (sp : aspec) : list Z := map fst (a_shelves sp).
Definition candidates (sp : aspec) : list (Z * Z) := list_prod (rooms sp) (shelf_ids sp).

(* ------------------------------------------------------------------ the READING *)
(* what each comparison phrase names (hand-written) *)
Definition named_kind (ph : string) : option ckind :=
  if mem_string ph ["the same as"; "equal to"] then Some CEq
  else if String.eqb ph "different from" then Some CNe
  else if mem_string ph ["more than"; "greater than"] then Some CGt
  else if String.eqb ph "less than" then Some CLt
  else if mem_string ph ["greater than or equal to"; "at least"] then Some CGe
  else if mem_string ph ["less than or equal to"; "at most"; "not after"] then Some CLe
  else None.

(* a qualifying instance: a room, a shelf it hosts, and the shelf's weight *)
Definition triple := (Z * (Z * Z))%type.
Definition triples (sp : aspec) (I : interp) : list triple :=
  filter (fun t => holds_host I (fst t) (fst (snd t))) (list_prod (rooms sp) (a_shelves sp)).
Definition colval (c : col) (t : triple) : Z := match c with KRoom => fst t | KShelf => fst (snd t) | KWeight => snd (snd t) end.

(* what is counted / summed: the value first, then the "for each" parameter *)
Definition form_proj (f : aform) : list col :=
  match f with
  | FEntity => [KRoom; KShelf]                      (* the instance itself *)
  | FParamShelf | FPassiveShelf => [KShelf]
  | FParamRoom | FActive => [KRoom]
  | FPassiveWeight => [KWeight]
  | FPassiveWeightEach => [KWeight; KShelf]
  end.

Definition binding := list (string * Z).
Definition qualifies (b : binding) (g : aggr) (t : triple) : bool :=
  (match g_side g, g_label g with
   | Some c, Some l => match sassoc l b with Some v => Z.eqb (colval c t) v | None => false end
   | _, _ => true end)
  && (match g_filter g with
      | Some (ph, k) => match named_kind ph, form_proj (g_form g) with Some kd, c :: _ => ksem kd (colval c t) k | _, _ => false end
      | None => true end).
Definition agg_of (sp : aspec) (I : interp) (b : binding) (g : aggr) : ext :=
  agg_value (g_fn g) (map (fun t => map (fun c => colval c t) (form_proj (g_form g))) (filter (qualifies b g) (triples sp I))).

Definition passive (f : aform) : bool := match f with FPassiveShelf | FPassiveWeight | FPassiveWeightEach => true | _ => false end.
Definition aggs_of_cmp (c : acmp) : list aggr := match c with CAgg _ g | CBetweenAgg _ g => [g] | CBetweenAggs g1 g2 => [g1; g2] | _ => [] end.
Definition aggs (sp : aspec) : list aggr := a_agg sp :: aggs_of_cmp (a_cmp sp).
Definition has_label (l : string) (ls : list (string * col)) : bool := existsb (fun p => String.eqb (fst p) l) ls.
(* the variables fixed outside the aggregates: those of the whenever clauses, and the subject of a passive form *)
(* (of several aggregates under the same label the atom of the LAST one survives: _remove_duplicates keeps the last of equal atoms) *)
Fixpoint keep_last_label (l : list (string * col)) : list (string * col) :=
  match l with [] => [] | x :: r => if has_label (fst x) r then keep_last_label r else x :: keep_last_label r end.
Definition passive_labels (sp : aspec) : list (string * col) :=
  keep_last_label (flat_map (fun g => match g_label g with
                                      | Some l => if passive (g_form g) && negb (has_label l (a_whenever sp)) then [(l, KRoom)] else []
                                      | None => [] end) (aggs sp)).
Definition outer_labels (sp : aspec) : list (string * col) := (passive_labels sp ++ a_whenever sp)%list.

Definition dom_of (sp : aspec) (c : col) : list Z := match c with KRoom => rooms sp | KShelf => shelf_ids sp | KWeight => map snd (a_shelves sp) end.
Fixpoint bindings (sp : aspec) (ls : list (string * col)) : list binding :=
  match ls with
  | [] => [[]]
  | (l, c) :: r => flat_map (fun v => map (cons (l, v)) (bindings sp r)) (dom_of sp c)
  end.

Definition owhere_ok (sp : aspec) (b : binding) : bool :=
  match a_owhere sp with
  | None => true
  | Some (l1, ph, l2) => match named_kind ph, sassoc l1 b, sassoc l2 b with Some k, Some x, Some y => ksem k x y | _, _, _ => false end
  end.

Definition cmp_holds (sp : aspec) (I : interp) (b : binding) : bool :=
  let v := agg_of sp I b (a_agg sp) in
  match a_cmp sp with
  | CPhrase ph k => match named_kind ph with Some kd => eksem kd v (EFin k) | None => false end
  | CBetween lo hi => ext_leb (EFin lo) v && ext_leb v (EFin hi)
  | CAgg ph g => match named_kind ph with Some kd => eksem kd v (agg_of sp I b g) | None => false end
  | CBetweenAgg lo g => ext_leb (EFin lo) v && ext_leb v (agg_of sp I b g)
  | CBetweenAggs g1 g2 => ext_leb (agg_of sp I b g1) v && ext_leb v (agg_of sp I b g2)
  end.

(* required: the comparison holds for every binding of the outer variables; prohibited: it fails for every binding *)
Definition reading (sp : aspec) (I : interp) : bool :=
  forallb (fun b => if owhere_ok sp b then Bool.eqb (cmp_holds sp I b) (a_required sp) else true) (bindings sp (outer_labels sp)).

(* ------------------------------------------------------------------ the compile model *)
(* the emitted rule *)
Inductive aterm := TV (v : string) | TAnon.
Inductive cond := CHost (a b : aterm) | CShelf (a b : aterm) | CFilter (v : string) (o : operator) (k : Z).
Record aggt := { t_op : aggop; t_atom_tuple : bool; t_tuple : list aterm; t_conds : list cond }.
Inductive operand := OAgg (a : aggt) | ONum (z : Z) | OVar (v : string).
Inductive olit := ORoom (l : string) | OShelf (l : string) | OCmp (o : aspop operand) | OWhere (l1 : string) (o : operator) (l2 : string).
Definition crule := list olit.

Definition show_nat (n : nat) : string := show_Z (Z.of_nat n).
Definition fresh (i : nat) (tag : string) : string := "#" ++ show_nat i ++ tag.
Definition lab_or (o : option string) (d : string) : string := match o with Some l => l | None => d end.

(* the phrase each function is written with (render side) and the operator the grammar table gives it *)
Definition fn_phrase (f : aggfn) : string := match f with ACount => "the number" | ASum => "the total" | AMax => "the highest" | AMin => "the lowest" end.
Definition fn_op (f : aggfn) : option aggop := match sassoc (fn_phrase f) term_AGGREGATE_OPERATOR with Some (TAgg a) => Some a | _ => None end.

Definition filter_conds (g : aggr) (d : string) : list cond :=
  match g_filter g with
  | Some (ph, k) => match phrase_op ph with Some o => [CFilter d o k] | None => [] end
  | None => [] end.

Definition compile_aggr (i : nat) (g : aggr) : option aggt :=
  match fn_op (g_fn g) with
  | None => None
  | Some op =>
    let d := lab_or (g_dlabel g) (fresh i "d") in
    let side_is c := match g_side g with Some c' => match c, c' with KRoom, KRoom | KShelf, KShelf => true | _, _ => false end | None => false end in
    let fixed c dflt := if side_is c then match g_label g with Some l => TV l | None => dflt end else dflt in
    Some
    match g_form g with
    | FEntity => let a := fixed KRoom (TV (fresh i "a")) in let b := fixed KShelf (TV (fresh i "b")) in
                 {| t_op := op; t_atom_tuple := true; t_tuple := [a; b]; t_conds := [CHost a b] |}
    | FParamShelf => {| t_op := op; t_atom_tuple := false; t_tuple := [TV d]; t_conds := (CHost (fixed KRoom TAnon) (TV d) :: filter_conds g d) |}
    | FParamRoom => {| t_op := op; t_atom_tuple := false; t_tuple := [TV d]; t_conds := (CHost (TV d) (fixed KShelf TAnon) :: filter_conds g d) |}
    | FActive => let s := fixed KShelf (TV (fresh i "s")) in
                 {| t_op := op; t_atom_tuple := false; t_tuple := [TV d]; t_conds := (CHost (TV d) s :: CShelf s TAnon :: filter_conds g d) |}
    | FPassiveShelf => {| t_op := op; t_atom_tuple := false; t_tuple := [TV d];
                          t_conds := (CHost (fixed KRoom TAnon) (TV d) :: CShelf (TV d) TAnon :: filter_conds g d) |}
    | FPassiveWeight => let v := TV (fresh i "v") in
                        {| t_op := op; t_atom_tuple := false; t_tuple := [TV d];
                           t_conds := (CHost (fixed KRoom TAnon) v :: CShelf v (TV d) :: filter_conds g d) |}
    | FPassiveWeightEach => let v := TV (fresh i "v") in
                        {| t_op := op; t_atom_tuple := false; t_tuple := [TV d; v];
                           t_conds := (CHost (fixed KRoom TAnon) v :: CShelf v (TV d) :: filter_conds g d) |}
    end
  end.

Definition outer_atom (p : string * col) : olit := match snd p with KRoom => ORoom (fst p) | _ => OShelf (fst p) end.

Fixpoint all_some {A} (l : list (option A)) : option (list A) :=
  match l with [] => Some [] | Some x :: r => match all_some r with Some xs => Some (x :: xs) | None => None end | None :: _ => None end.

(* asp_converter.convert_operation with aggregate operands:
   - all operands aggregates (and not a negated between): one result variable per aggregate, then the pairwise comparisons
     (_convert_operation_of_list_of_aggregate);
   - otherwise, more than one aggregate: result variables, then ONE comparison over the values (_convert_operation_with_aggregate_values);
   - otherwise the plain conversion (Cnl/Comparison.v: convert_operation). *)
Definition is_agg (o : operand) : bool := match o with OAgg _ => true | _ => false end.
Fixpoint name_values (ops : list operand) (j : nat) : list olit * list operand :=
  match ops with
  | [] => ([], [])
  | OAgg a :: r => let '(ls, vs) := name_values r (S j) in
                   (OCmp {| ao_op := Op_EQUALITY; ao_operands := [OAgg a; OVar (fresh j "r")]; ao_negated := false |} :: ls, OVar (fresh j "r") :: vs)
  | o :: r => let '(ls, vs) := name_values r (S j) in (ls, o :: vs)
  end.
Fixpoint pairs (op : operator) (l : list operand) : list olit :=
  match l with [] => [] | x :: r => (map (fun y => OCmp {| ao_op := op; ao_operands := [x; y]; ao_negated := false |}) r ++ pairs op r)%list end.

Definition convert_cmp (c : opcomp operand) : option (list olit) :=
  let ops := oc_operands c in
  let neg_lt := oc_negated c && op_ltb (oc_op c) Op_CONJUNCTION in
  let nb := neg_lt && Nat.eqb (length ops) 3 && negb (is_arith (oc_op c)) in
  let op1 := if neg_lt && negb nb then neg_op (oc_op c) else Some (oc_op c) in
  if (forallb is_agg ops && negb nb) || Nat.ltb 1 (length (filter is_agg ops))
     || (nb && Nat.ltb 0 (length (filter is_agg ops)) && negb (match ops with _ :: o :: _ => is_agg o | _ => false end)) then
    match op1 with
    | None => None
    | Some op =>
      let '(assigns, vals) := name_values ops 1 in
      if forallb is_agg ops && negb nb then Some (assigns ++ pairs op vals)%list
      else Some (assigns ++ [OCmp {| ao_op := op; ao_operands := vals; ao_negated := nb |}])%list
    end
  else
    match convert_operation (match ops with _ :: o :: _ => is_agg o | _ => false end) c with
    | ConvOk l => Some (map OCmp l)
    | ConvKeyError => None end.

(* parser: comparison / between_comparison; a requirement negates the comparison *)
Definition compile_cmp (sp : aspec) : option (list olit) :=
  let req := a_required sp in
  match compile_aggr 1 (a_agg sp) with
  | None => None
  | Some t1 =>
    let simple ph (second : operand) :=
      match parse_simple ph (OAgg t1) second with Some c => convert_cmp (apply_polarity req c) | None => None end in
    let between (lo hi : operand) :=
      match parse_between (OAgg t1) lo hi with Some c => convert_cmp (apply_polarity req c) | None => None end in
    match a_cmp sp with
    | CPhrase ph k => simple ph (ONum k)
    | CBetween lo hi => between (ONum lo) (ONum hi)
    | CAgg ph g => match compile_aggr 2 g with Some t2 => simple ph (OAgg t2) | None => None end
    | CBetweenAgg lo g => match compile_aggr 2 g with Some t2 => between (ONum lo) (OAgg t2) | None => None end
    | CBetweenAggs g1 g2 => match compile_aggr 2 g1, compile_aggr 3 g2 with
                            | Some t2, Some t3 => between (OAgg t2) (OAgg t3)
                            | _, _ => None end
    end
  end.

Definition compile (sp : aspec) : option crule :=
  match compile_cmp sp with
  | None => None
  | Some lits =>
    let ow := match a_owhere sp with
              | Some (l1, ph, l2) => match phrase_op ph with Some o => Some [OWhere l1 o l2] | None => None end
              | None => Some [] end in
    match ow with
    | Some w => Some (map outer_atom (passive_labels sp) ++ lits ++ map outer_atom (a_whenever sp) ++ w)%list
    | None => None end
  end.

(* ------------------------------------------------------------------ printing, with variables renamed by first occurrence *)
Inductive piece := PT (s : string) | PV (v : string).
Definition p_term (t : aterm) : list piece := match t with TV v => [PV v] | TAnon => [PT "_"] end.
Fixpoint p_join (sep : string) (l : list (list piece)) : list piece :=
  match l with [] => [] | [x] => x | x :: r => (x ++ PT sep :: p_join sep r)%list end.
Definition p_cond (c : cond) : list piece :=
  match c with
  | CHost a b => (PT "host(" :: p_term a ++ PT "," :: p_term b ++ [PT ")"])%list
  | CShelf a b => (PT "shelf(" :: p_term a ++ PT "," :: p_term b ++ [PT ")"])%list
  | CFilter v o k => [PV v; PT (" " ++ match op_symbol o with Some s => s | None => "?" end ++ " " ++ show_Z k)]
  end.
Definition p_agg (a : aggt) : list piece :=
  (PT ("#" ++ match assoc aggop_eqb (t_op a) asp_aggregate_symbols with Some s => s | None => "?" end ++ "{") ::
   (if t_atom_tuple a then match t_tuple a with [x; y] => p_cond (CHost x y) | _ => [PT "?"] end else p_join "," (map p_term (t_tuple a))) ++
   PT ": " :: p_join ", " (map p_cond (t_conds a)) ++ [PT "}"])%list.
Definition p_operand (o : operand) : list piece := match o with OAgg a => p_agg a | ONum z => [PT (show_Z z)] | OVar v => [PV v] end.
Definition p_olit (l : olit) : list piece :=
  match l with
  | ORoom v => [PT "room("; PV v; PT ")"]
  | OShelf v => [PT "shelf("; PV v; PT ",_)"]
  | OCmp o => ((if ao_negated o then [PT "not "] else []) ++
               p_join (" " ++ match op_symbol (ao_op o) with Some s => s | None => "?" end ++ " ") (map p_operand (ao_operands o)))%list
  | OWhere l1 o l2 => [PV l1; PT (" " ++ match op_symbol o with Some s => s | None => "?" end ++ " "); PV l2]
  end.
Definition p_rule (r : crule) : list piece := (PT ":- " :: p_join ", " (map p_olit r) ++ [PT "."])%list.

Fixpoint canon (ps : list piece) (seen : list (string * string)) : string :=
  match ps with
  | [] => ""
  | PT s :: r => s ++ canon r seen
  | PV v :: r => match sassoc v seen with
                 | Some n => n ++ canon r seen
                 | None => let n := "V" ++ show_nat (length seen) in n ++ canon r ((v, n) :: seen)
                 end
  end.
Definition print_rule (r : crule) : string := canon (p_rule r) [].

(* ------------------------------------------------------------------ semantics of the emitted rule *)
(* keyword -> function (gringo) *)
Definition fn_of_symbol (s : string) : option aggfn :=
  if String.eqb s "count" then Some ACount else if String.eqb s "sum" then Some ASum
  else if String.eqb s "max" then Some AMax else if String.eqb s "min" then Some AMin else None.

Definition universe (sp : aspec) : list Z := (rooms sp ++ shelf_ids sp ++ map snd (a_shelves sp))%list.
Definition is_room (sp : aspec) (z : Z) : bool := existsb (Z.eqb z) (rooms sp).
Definition is_shelf (sp : aspec) (s w : Z) : bool := existsb (fun p => Z.eqb (fst p) s && Z.eqb (snd p) w) (a_shelves sp).
Definition is_shelf_id (sp : aspec) (s : Z) : bool := existsb (Z.eqb s) (shelf_ids sp).

Definition add_var (v : string) (l : list string) : list string := if mem_string v l then l else (l ++ [v])%list.
Definition term_vars (t : aterm) (acc : list string) : list string := match t with TV v => add_var v acc | TAnon => acc end.
Definition cond_vars (c : cond) (acc : list string) : list string :=
  match c with CHost a b | CShelf a b => term_vars b (term_vars a acc) | CFilter v _ _ => add_var v acc end.
Definition agg_vars (a : aggt) : list string := fold_left (fun acc c => cond_vars c acc) (t_conds a) (fold_left (fun acc t => term_vars t acc) (t_tuple a) []).

Fixpoint all_bindings (vars : list string) (U : list Z) : list binding :=
  match vars with [] => [[]] | v :: r => flat_map (fun x => map (cons (v, x)) (all_bindings r U)) U end.

(* an atom with anonymous positions holds when some value fits *)
Definition term_val (b : binding) (t : aterm) : option (option Z) :=     (* Some None: anonymous *)
  match t with TAnon => Some None | TV v => match sassoc v b with Some z => Some (Some z) | None => None end end.
Definition cond_true (sp : aspec) (I : interp) (b : binding) (c : cond) : bool :=
  match c with
  | CHost x y => match term_val b x, term_val b y with
                 | Some (Some r), Some (Some s) => holds_host I r s
                 | Some (Some r), Some None => existsb (fun p => Z.eqb (fst p) r) I
                 | Some None, Some (Some s) => existsb (fun p => Z.eqb (snd p) s) I
                 | Some None, Some None => negb (match I with [] => true | _ => false end)
                 | _, _ => false end
  | CShelf x y => match term_val b x, term_val b y with
                  | Some (Some s), Some (Some w) => is_shelf sp s w
                  | Some (Some s), Some None => is_shelf_id sp s
                  | Some None, Some (Some w) => existsb (fun p => Z.eqb (snd p) w) (a_shelves sp)
                  | Some None, Some None => negb (match a_shelves sp with [] => true | _ => false end)
                  | _, _ => false end
  | CFilter v o k => match sassoc v b, op_symbol o with
                     | Some z, Some sym => match kind_of_symbol sym with Some kd => ksem kd z k | None => false end
                     | _, _ => false end
  end.

Definition agg_eval (sp : aspec) (I : interp) (g : binding) (a : aggt) : option ext :=
  match assoc aggop_eqb (t_op a) asp_aggregate_symbols with
  | Some sym =>
    match fn_of_symbol sym with
    | Some f =>
      let locals := filter (fun v => match sassoc v g with Some _ => false | None => true end) (agg_vars a) in
      let sat := filter (fun l => forallb (cond_true sp I (l ++ g)%list) (t_conds a)) (all_bindings locals (universe sp)) in
      Some (agg_value f (map (fun l => map (fun t => match term_val (l ++ g)%list t with Some (Some z) => z | _ => 0 end) (t_tuple a)) sat))
    | None => None end
  | None => None end.

(* comparison literals are evaluated left to right; "AGG = V" with V not yet bound assigns *)
Definition ebinding := list (string * ext).
Definition operand_val (sp : aspec) (I : interp) (g : binding) (e : ebinding) (o : operand) : option ext :=
  match o with
  | OAgg a => agg_eval sp I g a
  | ONum z => Some (EFin z)
  | OVar v => match sassoc v e with Some x => Some x | None => match sassoc v g with Some z => Some (EFin z) | None => None end end
  end.
Fixpoint echain (k : ckind) (l : list ext) : bool :=
  match l with a :: ((b :: _) as r) => eksem k a b && echain k r | _ => true end.

(* the shape "X = V" (V a variable): an assignment when V is not bound yet *)
Definition is_assign (o : aspop operand) : option (operand * string) :=
  match ao_operands o, ao_op o with
  | [x; OVar v], Op_EQUALITY => Some (x, v)
  | _, _ => None end.

Definition cmp_general (sp : aspec) (I : interp) (g : binding) (e : ebinding) (o : aspop operand) : bool :=
  match all_some (map (operand_val sp I g e) (ao_operands o)), op_symbol (ao_op o) with
  | Some vals, Some sym => match kind_of_symbol sym with
                           | Some kd => xorb (ao_negated o) (echain kd vals)
                           | None => false end
  | _, _ => false end.

Fixpoint lits_true (sp : aspec) (I : interp) (g : binding) (e : ebinding) (ls : list olit) : bool :=
  match ls with
  | [] => true
  | ORoom v :: r => (match sassoc v g with Some z => is_room sp z | None => false end) && lits_true sp I g e r
  | OShelf v :: r => (match sassoc v g with Some z => is_shelf_id sp z | None => false end) && lits_true sp I g e r
  | OWhere l1 o l2 :: r =>
      (match sassoc l1 g, sassoc l2 g, op_symbol o with
       | Some x, Some y, Some sym => match kind_of_symbol sym with Some kd => ksem kd x y | None => false end
       | _, _, _ => false end) && lits_true sp I g e r
  | OCmp o :: r =>
      match is_assign o with
      | Some (x, v) =>
          match sassoc v e, sassoc v g with
          | None, None => match operand_val sp I g e x with Some val => lits_true sp I g ((v, val) :: e) r | None => false end
          | _, _ => cmp_general sp I g e o && lits_true sp I g e r
          end
      | None => cmp_general sp I g e o && lits_true sp I g e r
      end
  end.

Definition global_vars (r : crule) : list string :=
  fold_left (fun acc l => match l with ORoom v | OShelf v => add_var v acc | _ => acc end) r [].

(* the constraint is violated when some binding of its global variables makes every literal true *)
Definition rule_violated (sp : aspec) (I : interp) (r : crule) : bool :=
  existsb (fun g => lits_true sp I g [] r) (all_bindings (global_vars r) (universe sp)).
