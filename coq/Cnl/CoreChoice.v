(* Core fragment, a choice sentence without for-each ("Every c [X] can/must <verb> [exactly/at most/at least/between ...] a d [Y]."):
   the cardinality bounds of the ground choice rules hold in I exactly when every declared subject is related to a number of
   declared objects within the stated bounds (the reading). *)
Require Import Coq.Strings.String Coq.Lists.List Coq.Bool.Bool Coq.ZArith.ZArith Coq.Arith.Arith Coq.Sorting.Permutation Lia.
Require Import Cnl2aspV.Base.Util Cnl2aspV.Base.Str Cnl2aspV.Asp.Ground Cnl2aspV.Cnl.Core Cnl2aspV.Cnl.CoreProofs Cnl2aspV.Cnl.CoreDef.
Import ListNotations.
Open Scope string_scope.

Lemma filter_map_comm {A B} (f : A -> B) (p : B -> bool) l : filter p (map f l) = map f (filter (fun a => p (f a)) l).
Proof. induction l as [|a l IH]; cbn [map filter]; [reflexivity|]. destruct (p (f a)); cbn [map]; now rewrite IH. Qed.

(* counting over the universe the elements that also belong to a duplicate-free part of it = counting over that part *)
Lemma count_restrict (P : string -> bool) (U D : list string) :
  NoDup U -> NoDup D -> incl D U ->
  length (filter (fun y => P y && mem_string y D) U) = length (filter P D).
Proof.
  intros HU HD Hinc. apply Permutation_length. apply NoDup_Permutation.
  - now apply NoDup_filter.
  - now apply NoDup_filter.
  - intros y. rewrite !filter_In, andb_true_iff, mem_string_In. split.
    + intros (_ & Hp & Hd). auto.
    + intros (Hd & Hp). auto.
Qed.

Lemma filter_ext'' {A} (f g : A -> bool) l : (forall a, In a l -> f a = g a) -> filter f l = filter g l.
Proof.
  induction l as [|a l IH]; intros H; cbn [filter]; [reflexivity|]. rewrite (H a (or_introl eq_refl)), IH; [reflexivity|].
  intros x Hx. apply H. now right.
Qed.

Section OneChoice.
  Variables (s : spec) (U : list string) (I : interp) (c : choice).
  Let S := ch_subj c.
  Let O := ch_obj c.
  Let sv := var_of s S (ch_slabel c).
  Let ov := var_of s O (ch_olabel c).
  Hypothesis Hfe : ch_foreach c = None.
  Hypothesis Hne : sv <> ov.

  Let V (x y : string) : gatom := atom_text (verb_pred (ch_verb c)) [x; y].
  Definition within (n : nat) : bool :=
    (match fst (card_bounds (ch_card c)) with Some l => Nat.leb l n | None => true end) &&
    (match snd (card_bounds (ch_card c)) with Some u => Nat.leb n u | None => true end).

  Lemma choice_ground :
    flat_map (ground_rule U) (compile_sentence s (SChoice c)) =
    map (fun x => GChoice (fst (card_bounds (ch_card c))) (snd (card_bounds (ch_card c)))
                          (map (fun y => (V x y, [atom_text O [y]])) U) {| b_pos := [atom_text S [x]]; b_neg := [] |}) U.
  Proof.
    cbn [compile_sentence flat_map]. rewrite app_nil_r. unfold compile_choice. rewrite Hfe. fold S O sv ov.
    destruct (card_bounds (ch_card c)) as [lb ub]. cbn [fst snd map app]. cbn [ground_rule].
    assert (Hso : String.eqb sv ov = false) by now apply String.eqb_neq.
    assert (Hos : String.eqb ov sv = false) by (apply String.eqb_neq; congruence).
    assert (Hgv : vars_of_body [BPos (atom1 S sv)] = [sv]) by reflexivity.
    rewrite Hgv.
    assert (Hlv : filter (fun v => negb (mem_string v [sv]))
                    (vars_of_atom (atom1 O ov) (vars_of_atom {| na_pred := verb_pred (ch_verb c); na_args := [TVar sv; TVar ov] |} [])) = [ov]).
    { unfold vars_of_atom, atom1. cbn [na_args fold_left]. unfold add_var. cbn [mem_string app orb].
      rewrite ?Hos, ?Hso. cbn [orb app mem_string]. rewrite ?String.eqb_refl, ?Hos. cbn [orb filter mem_string negb].
      rewrite ?String.eqb_refl, ?Hos. cbn [orb negb]. reflexivity. }
    rewrite Hlv. cbn [all_substs].
    assert (E1 : forall l : list string, flat_map (fun x => map (fun sg : subst => (sv, x) :: sg) [[]]) l = map (fun x => [(sv, x)]) l).
    { induction l as [|a l' IH]; [reflexivity|]. cbn [flat_map]. rewrite IH. reflexivity. }
    assert (E2 : forall l : list string, flat_map (fun x => map (fun sg : subst => (ov, x) :: sg) [[]]) l = map (fun x => [(ov, x)]) l).
    { induction l as [|a l' IH]; [reflexivity|]. cbn [flat_map]. rewrite IH. reflexivity. }
    rewrite E1, E2. clear E1 E2.
    rewrite flat_map_map.
    transitivity (flat_map (fun x => [GChoice lb ub (map (fun y => (V x y, [atom_text O [y]])) U) {| b_pos := [atom_text S [x]]; b_neg := [] |}]) U);
      [|apply flat_map_singleton].
    apply flat_map_ext'. intros x.
    unfold ground_body. cbn [forallb flat_map app andb]. f_equal. f_equal.
    - rewrite ?map_map. apply map_ext. intros y. unfold V, atom_text, ground_atom, atom1. cbn [na_pred na_args map apply_term app].
      unfold sassoc. cbn [assoc]. rewrite ?String.eqb_refl, ?Hso, ?Hos. reflexivity.
    - unfold ground_atom, atom1, atom_text. cbn [na_pred na_args map apply_term]. unfold sassoc. cbn [assoc]. rewrite String.eqb_refl. reflexivity.
  Qed.

  Hypothesis HS : forall x, In x U -> holds I (atom_text S [x]) = mem_string x (dom_of s S).
  Hypothesis HO : forall y, In y U -> holds I (atom_text O [y]) = mem_string y (dom_of s O).
  Hypothesis HSU : incl (dom_of s S) U.
  Hypothesis HOU : incl (dom_of s O) U.
  Hypothesis HUnd : NoDup U.
  Hypothesis HOnd : NoDup (dom_of s O).

  Definition related (x : string) : nat := length (filter (fun y => holds I (V x y)) (dom_of s O)).

  Lemma count_is_related x : count_chosen I (map (fun y => (V x y, [atom_text O [y]])) U) = related x.
  Proof.
    unfold count_chosen, related. rewrite filter_map_comm, map_length. cbn [fst snd cond_true forallb].
    rewrite <- (count_restrict (fun y => holds I (V x y)) U (dom_of s O) HUnd HOnd HOU). f_equal.
    apply filter_ext''. intros y Hy. rewrite andb_true_r. now rewrite (HO y Hy).
  Qed.

  Theorem choice_bounds_correct :
    constraints_ok I (flat_map (ground_rule U) (compile_sentence s (SChoice c))) = r_sentence s I (SChoice c).
  Proof.
    rewrite choice_ground. unfold constraints_ok, r_sentence. cbn [r_sentence_ok]. rewrite Hfe. fold S O.
    destruct (card_bounds (ch_card c)) as [lb ub] eqn:Ecb. cbn [fst snd forallb]. rewrite andb_true_r.
    rewrite forallb_map'. apply eq_true_iff_eq. rewrite !forallb_forall. split.
    - intros H x0 Hx0. specialize (H x0 (HSU x0 Hx0)). cbn [bounds_ok] in H.
      unfold body_true in H. cbn [b_pos b_neg forallb] in H. rewrite !andb_true_r in H.
      rewrite (HS x0 (HSU x0 Hx0)) in H. apply mem_string_In in Hx0. rewrite Hx0 in H. cbn [negb orb] in H.
      rewrite count_is_related in H. exact H.
    - intros H x Hx. cbn [bounds_ok]. unfold body_true. cbn [b_pos b_neg forallb]. rewrite !andb_true_r.
      rewrite (HS x Hx). destruct (mem_string x (dom_of s S)) eqn:Em; [|reflexivity]. cbn [negb orb].
      rewrite count_is_related. apply mem_string_In in Em. exact (H x Em).
  Qed.
End OneChoice.
