"""Run the T-gen translators as subprocesses (fail-closed: a non-zero exit is a broken tie)."""
import os
from common import VERIF, PY, sh

SCRIPTS = {
    'tables': 'gen_tables.py',
    'excflow': 'gen_excflow.py',
    'effects': 'gen_effects.py',
    'main': 'gen_main.py',
    'inflect': 'gen_inflect.py',
}


def run(which):
    """-> (ok, output)"""
    outs = []
    ok = True
    for w in which:
        p = os.path.join(VERIF, 'tools', 'translate', SCRIPTS[w])
        if not os.path.exists(p):
            continue
        rc, out = sh([PY, p], env={'PYTHONHASHSEED': '0', 'PYTHONPATH': os.path.join(os.environ.get('VERIF_REPO', '/repo'), 'src')}, timeout=600)
        outs.append(out)
        if rc != 0:
            ok = False
    return ok, '\n'.join(outs)
