"""C04 -- preferences optimise the stated quantity, direction and priority."""
import random
import re

import common
import gen_pref
import impl
import solve
from common import Report, coq_str, coq_list, coq_z
from props.c02 import canonical

PID = 'C04'
PRE = ('Require Import Cnl2aspV.Asp.Agg Cnl2aspV.Cnl.Aggregate Cnl2aspV.Cnl.AggregateCases Cnl2aspV.Cnl.Preference Cnl2aspV.Cnl.PreferenceCases.\n'
       'Open Scope Z_scope.')


def finding_matches(f, spec):
    t = f.get('trigger', {})
    if 'any_dir' in t:
        return any(p['dir'] in t['any_dir'] for p in spec['prefs'])
    return False


def run(tier, seed):
    rep = Report(PID, tier, seed)
    rnd = random.Random(seed)
    import translate
    tie_ok, tout = translate.run(['tables'])
    proof = common.build_property(PID, extra=['Cnl/PreferenceCases.vo'])
    findings = [f for f in common.load_findings(PID) if f.get('status') == 'known']
    n = 1200 if tier == 'thorough' else 220
    specs, seen, tries = gen_pref.directed(), set(), 0
    while len(specs) < n and tries < 20 * n:
        tries += 1
        s = gen_pref.gen(rnd, big=(tier == 'thorough'))
        t = gen_pref.render(s)
        if t in seen:
            continue
        seen.add(t)
        specs.append(s)
    texts = [gen_pref.render(s) for s in specs]
    res = impl.compile_many(texts)
    cases, meta = [], []
    dist = dict(kind={}, dir={}, prio={}, n_prefs={}, card={})
    known_hits = {}
    for s, t, r in zip(specs, texts, res):
        rep.case(t)
        for p in s['prefs']:
            dist['kind'][p['kind']] = dist['kind'].get(p['kind'], 0) + 1
            dist['dir'][p['dir']] = dist['dir'].get(p['dir'], 0) + 1
            dist['prio'][str(p['prio'])] = dist['prio'].get(str(p['prio']), 0) + 1
        dist['n_prefs'][str(len(s['prefs']))] = dist['n_prefs'].get(str(len(s['prefs'])), 0) + 1
        dist['card'][s['card'][0]] = dist['card'].get(s['card'][0], 0) + 1
        kf = [f for f in findings if finding_matches(f, s)]
        if r[0] != 'ok':
            rep.violation('a preference sentence of a documented form is not compiled', dict(text=t, result=[str(x) for x in r[:3]]))
            continue
        wcs = [l for l in r[1].strip().split('\n') if l.startswith(':~')]
        try:
            opt = solve.optimal_sets(r[1])
        except Exception as e:
            rep.violation('clingo rejects the compiled program', dict(text=t, program=r[1], error=str(e)[:300]))
            continue
        ms = sorted(set(tuple(sorted(tuple(int(x) for x in re.match(r'host\((\d+),(\d+)\)', a).groups()) for a in m if a.startswith('host('))) for m, _ in opt))
        cases.append('{| pc_spec := %s; pc_out := %s; pc_optimal := %s |}' % (
            gen_pref.coq_spec(s), coq_list([coq_str(canonical(w)) for w in wcs]),
            coq_list([coq_list(['(%s, %s)' % (coq_z(a), coq_z(b)) for a, b in m]) for m in ms])))
        meta.append(dict(text=t, weak_constraints=wcs, optimal_answer_sets=[list(m) for m in ms[:4]], n_optimal=len(ms), costs=[list(c) for _, c in opt[:1]],
                         candidates=s['rooms'] * len(s['shelves']), known=[f['id'] for f in kf], spec=s))
        rep.evaluations += 2 ** (s['rooms'] * len(s['shelves']))
    rep.sample(meta[0]); rep.sample(meta[len(meta) // 2])
    tie_broken = []
    if not tie_ok:
        tie_broken.append('translator failed closed: ' + tout[-400:])
    kf_idx = []
    if proof['ok'] or proof['extra_ok']:
        kf_idx = common.run_cases(PID, 'corr', PRE, cases, 'pcorr_ok', shard=60)
        rf = common.run_cases(PID, 'read', PRE, cases, 'reading_opt_exact', shard=10)
        sf = common.run_cases(PID, 'wc', PRE, cases, 'wc_opt_exact', shard=10)
        nviol = 0
        for i in rf:
            if meta[i]['known']:
                known_hits.setdefault(meta[i]['known'][0], []).append([l for l in meta[i]['text'].strip().split('\n') if 'as much' in l][:1] or meta[i]['text'])
                continue
            nviol += 1
            if nviol <= 3:
                rep.violation('the optimal answer sets of the compiled program (clingo optN, optimality proven) are not exactly the interpretations in which the stated '
                              'quantities are lexicographically best by priority (exhaustive over all subsets of the candidate instances)', meta[i])
        if kf_idx:
            tie_broken.append('compile model differs from the implementation (modulo variable renaming) on %d specifications, first: %r' % (
                len(kf_idx), {k: meta[kf_idx[0]][k] for k in ('text', 'weak_constraints')}))
        only = [i for i in sf if i not in rf and i not in kf_idx]
        if only:
            tie_broken.append('the semantics given to the emitted weak constraints (Cnl/Preference.v) disagrees with clingo on %d specifications, first: %r' % (
                len(only), {k: meta[only[0]][k] for k in ('text', 'weak_constraints')}))
        # specifications that match a known finding must really fail (otherwise the finding is stale)
        stale = [f['id'] for f in findings if f['id'] not in known_hits and any(f['id'] in m['known'] for m in meta)]
        if stale:
            rep.notes.append('known findings that no generated specification reproduced in this run: %r' % stale)
    if not proof['ok']:
        tie_broken.append('theorem file does not build: %s | %s' % (proof['failed_at'], proof['log'][-300:]))
    if proof['bad']:
        tie_broken.append('forbidden tokens: %r' % proof['bad'])
    for f in findings:
        if f['id'] in known_hits:
            rep.known_finding(f['id'], '%s (%d generated specifications, e.g. %s)' % (f['summary'], len(known_hits[f['id']]), known_hits[f['id']][0]))
    if tie_broken and not rep.violations:
        rep.violation('proof obligation or correspondence no longer checks and no failing input was found: ' + ' | '.join(tie_broken),
                      dict(kind='broken-tie', theorem='Props/C04.v / compile-model correspondence', details=tie_broken,
                           first_differing_input=meta[kf_idx[0]] if kf_idx else None,
                           searched='%d specifications compared exhaustively over all subsets of their candidate instances' % len(cases)), no_input=True)
    elif tie_broken:
        rep.notes.extend(tie_broken)
    rep.cov.update(specifications=len(specs), compared=len(cases), distribution=dist)
    rep.assumptions += ['clingo 5.8.2 --opt-mode=optN reports exactly the optimal answer sets (optimality proven)',
                        'renaming variables by first occurrence preserves the meaning of a weak constraint']
    return rep.finish(proof, rule='random specifications: rooms 1..n, shelves (id, weight), host chosen per room within optional bounds, 1..3 preferences with distinct priorities '
                                  '(named or numeric) of the forms with-aggregate (global / per room), with-variable, with-clause, with-comparison x {is minimized, is maximized, '
                                  'as little as possible, as much as possible}; optimal answer sets compared exhaustively over all 2^(n*m) interpretations; distinct by text')
