(* C02 — aggregate sentences count, sum and bound what they say.
   Asp/Agg.v: values of #count/#sum/#max/#min over sets of tuples (with #inf/#sup); Cnl/Aggregate.v: the aggregate sentence forms,
   their READING, the compile model and the semantics of the emitted rule. *)
Require Import Coq.ZArith.ZArith Coq.Lists.List Coq.Bool.Bool.
Require Import Cnl2aspV.Asp.CmpSem Cnl2aspV.Asp.Agg Cnl2aspV.Asp.AggProofs.
Import ListNotations.

(* the count / sum / maximum / minimum is taken over the DISTINCT qualifying tuples: two enumerations of the same set of
   tuples (any order, any repetitions) give the same value, for all four functions and lists of any length *)
Theorem C02_value_over_distinct_tuples :
  forall (f : aggfn) (l l' : list tuple), (forall t, In t l <-> In t l') -> agg_value f l = agg_value f l'.
Proof. exact agg_value_set. Qed.
Print Assumptions C02_value_over_distinct_tuples.

(* the negated comparison symbol is the exact complement, also when the aggregate is #inf / #sup (empty maximum / minimum) *)
Theorem C02_negated_symbol_complement :
  forall (k : ckind) (a b : ext), eksem (kneg k) a b = negb (eksem k a b).
Proof. exact eksem_kneg. Qed.
Print Assumptions C02_negated_symbol_complement.

(* The comparison literals the compile model emits for an aggregate sentence (through the regenerated phrase / negation / symbol /
   between tables and the three aggregate paths of convert_operation) are true exactly when the comparison the sentence names
   holds (prohibited) / fails (required) - for EVERY value of the aggregates, including #inf and #sup, every threshold, every phrase
   of the grammar.  The aggregates are abstract here (any aggregate term, any value): what remains unproved for C02 is that the
   aggregate terms evaluate to the reading's count/sum/max/min (decided exhaustively per specification by the oracle): PARTIAL. *)
Require Import Coq.Strings.String.
Require Import Cnl2aspV.Cnl.Comparison Cnl2aspV.Cnl.Aggregate Cnl2aspV.Cnl.AggregateProofs.

Theorem C02_comparison_phrase_number_partial :
  forall sp I g t1 v1 ph k req lits rest,
  agg_eval sp I g t1 = Some v1 -> forallb outer_only rest = true ->
  match parse_simple ph (OAgg t1) (ONum k) with Some c => convert_cmp (apply_polarity req c) | None => None end = Some lits ->
  exists kd, named_kind ph = Some kd /\
             lits_true sp I g [] (lits ++ rest) = negb (Bool.eqb (eksem kd v1 (EFin k)) req) && lits_true sp I g [] rest.
Proof. exact cmp_phrase_number. Qed.
Print Assumptions C02_comparison_phrase_number_partial.

Theorem C02_comparison_between_numbers_partial :
  forall sp I g t1 v1 lo hi req lits rest,
  agg_eval sp I g t1 = Some v1 -> forallb outer_only rest = true ->
  match parse_between (OAgg t1) (ONum lo) (ONum hi) with Some c => convert_cmp (apply_polarity req c) | None => None end = Some lits ->
  lits_true sp I g [] (lits ++ rest) = negb (Bool.eqb (ext_leb (EFin lo) v1 && ext_leb v1 (EFin hi)) req) && lits_true sp I g [] rest.
Proof. exact cmp_between_numbers. Qed.
Print Assumptions C02_comparison_between_numbers_partial.

Theorem C02_comparison_phrase_aggregate_partial :
  forall sp I g t1 t2 v1 v2 ph req lits rest,
  fresh_free g -> agg_eval sp I g t1 = Some v1 -> agg_eval sp I g t2 = Some v2 -> forallb outer_only rest = true ->
  match parse_simple ph (OAgg t1) (OAgg t2) with Some c => convert_cmp (apply_polarity req c) | None => None end = Some lits ->
  exists kd, named_kind ph = Some kd /\
             lits_true sp I g [] (lits ++ rest) = negb (Bool.eqb (eksem kd v1 v2) req) && lits_true sp I g [] rest.
Proof. exact cmp_phrase_aggregate. Qed.
Print Assumptions C02_comparison_phrase_aggregate_partial.

Theorem C02_comparison_between_number_aggregate_partial :
  forall sp I g t1 t2 v1 v2 lo req lits rest,
  fresh_free g -> agg_eval sp I g t1 = Some v1 -> agg_eval sp I g t2 = Some v2 -> forallb outer_only rest = true ->
  match parse_between (OAgg t1) (ONum lo) (OAgg t2) with Some c => convert_cmp (apply_polarity req c) | None => None end = Some lits ->
  lits_true sp I g [] (lits ++ rest) = negb (Bool.eqb (ext_leb (EFin lo) v1 && ext_leb v1 v2) req) && lits_true sp I g [] rest.
Proof. exact cmp_between_number_aggregate. Qed.
Print Assumptions C02_comparison_between_number_aggregate_partial.

Theorem C02_comparison_between_aggregates_partial :
  forall sp I g t1 t2 t3 v1 v2 v3 req lits rest,
  fresh_free g -> agg_eval sp I g t1 = Some v1 -> agg_eval sp I g t2 = Some v2 -> agg_eval sp I g t3 = Some v3 -> forallb outer_only rest = true ->
  match parse_between (OAgg t1) (OAgg t2) (OAgg t3) with Some c => convert_cmp (apply_polarity req c) | None => None end = Some lits ->
  lits_true sp I g [] (lits ++ rest) = negb (Bool.eqb (ext_leb v2 v1 && ext_leb v1 v3) req) && lits_true sp I g [] rest.
Proof. exact cmp_between_aggregates. Qed.
Print Assumptions C02_comparison_between_aggregates_partial.

(* the hypotheses are satisfiable: "the number of shelf id of a host is more than 2", two rooms, two shelves, one hosted *)
Example C02_hypotheses_satisfiable :
  let sp := {| a_rooms := 2; a_shelves := [(1, 3); (2, 3)]%Z; a_required := false;
               a_agg := {| g_fn := ACount; g_form := FParamShelf; g_side := None; g_label := None; g_dlabel := None; g_filter := None |};
               a_cmp := CPhrase "more than" 2; a_whenever := []; a_owhere := None |} in
  exists t1 lits, compile_aggr 1 (a_agg sp) = Some t1 /\ agg_eval sp [(1, 2)%Z] [] t1 = Some (EFin 1) /\
                  match parse_simple "more than" (OAgg t1) (ONum 2) with Some c => convert_cmp (apply_polarity false c) | None => None end = Some lits.
Proof. cbn zeta. eexists. eexists. split; [vm_compute; reflexivity|]. split; vm_compute; reflexivity. Qed.

(* ---- the aggregate terms, and whole sentences without outer variables (Cnl/AggregateTermProofs.v) ---- *)
Require Import Cnl2aspV.Cnl.AggregateTermProofs.

(* for ALL SEVEN sentence forms with an outer label L ('shelf id of a host with room id L', 'room id of a host with shelf id L', 'room id
   that host a shelf L', 'shelf id / weight / weight, for each shelf id, where a room L hosts a shelf', 'host occurrences with room|shelf
   id L') and all four functions: under any binding of L, on any admissible interpretation, the emitted aggregate term evaluates to the
   count/sum/maximum/minimum over the DISTINCT qualifying tuples that the READING defines.  PARTIAL: not proved for filters ('where X is
   ... k' moved inside the braces) and author-named counted values (decided exhaustively per specification by the oracle). *)
Theorem C02_aggregate_term_value_partial :
  forall sp I b f l v form side,
  adm sp I -> hash_free b -> nohash l -> Util.sassoc l b = Some v ->
  In (form, side) [(FParamShelf, KRoom); (FParamRoom, KShelf); (FActive, KShelf); (FPassiveShelf, KRoom); (FPassiveWeightEach, KRoom); (FPassiveWeight, KRoom); (FEntity, KRoom); (FEntity, KShelf)] ->
  let g := {| g_fn := f; g_form := form; g_side := Some side; g_label := Some l; g_dlabel := None; g_filter := None |} in
  exists t, compile_aggr 1 g = Some t /\ agg_eval sp I b t = Some (agg_of sp I b g).
Proof. exact bound_aggregate_term_value. Qed.
Print Assumptions C02_aggregate_term_value_partial.

(* END TO END for sentences without outer variables ('the <fn> shelf id of a host' / 'room id of a host' / 'room id that host a shelf' /
   'host occurrences' compared with a number or a pair of numbers, required or prohibited, every phrase, every function, any rooms/shelves): the emitted
   constraint is violated by exactly the interpretations the READING excludes. *)
Theorem C02_unbound_sentence_correct_partial :
  forall sp I f form,
  adm sp I -> In form [FParamShelf; FParamRoom; FActive; FEntity] ->
  a_agg sp = {| g_fn := f; g_form := form; g_side := None; g_label := None; g_dlabel := None; g_filter := None |} ->
  a_whenever sp = [] -> a_owhere sp = None -> (match a_cmp sp with CPhrase _ _ | CBetween _ _ => True | _ => False end) ->
  forall r, compile sp = Some r -> rule_violated sp I r = negb (reading sp I).
Proof. exact unbound_aggregate_sentence_correct. Qed.
Print Assumptions C02_unbound_sentence_correct_partial.

(* END TO END with one outer variable: 'the <fn> shelf id of a host with room id L ..., whenever there is a room L' and the seven other
   shapes of C02_aggregate_term_value_partial (the passive forms with or without the whenever clause), compared with a number or a pair
   of numbers, required or prohibited: the emitted constraint is violated by exactly the interpretations the READING excludes
   (for each binding of L in its domain, as the reading quantifies). *)
Theorem C02_bound_sentence_correct_partial :
  forall sp I f l form side,
  adm sp I -> nohash l ->
  In (form, side) [(FParamShelf, KRoom); (FParamRoom, KShelf); (FActive, KShelf); (FPassiveShelf, KRoom); (FPassiveWeightEach, KRoom); (FPassiveWeight, KRoom); (FEntity, KRoom); (FEntity, KShelf)] ->
  a_agg sp = {| g_fn := f; g_form := form; g_side := Some side; g_label := Some l; g_dlabel := None; g_filter := None |} ->
  a_owhere sp = None -> (match a_cmp sp with CPhrase _ _ | CBetween _ _ => True | _ => False end) ->
  ((passive form = false /\ a_whenever sp = [(l, side)]) \/ (passive form = true /\ (a_whenever sp = [(l, KRoom)] \/ a_whenever sp = []))) ->
  forall r, compile sp = Some r -> rule_violated sp I r = negb (reading sp I).
Proof. exact bound_aggregate_sentence_correct. Qed.
Print Assumptions C02_bound_sentence_correct_partial.

(* the hypotheses are satisfiable, and the conclusion is not trivially true: a specification, its rule, and an interpretation it excludes *)
Example C02_bound_example :
  let sp := {| a_rooms := 2; a_shelves := [(1, 3); (2, 3)]%Z; a_required := false;
               a_agg := {| g_fn := ACount; g_form := FParamShelf; g_side := Some KRoom; g_label := Some "R"; g_dlabel := None; g_filter := None |};
               a_cmp := CPhrase "more than" 1; a_whenever := [("R", KRoom)]; a_owhere := None |} in
  exists r, compile sp = Some r /\ print_rule r = ":- #count{V0: host(V1,V0)} > 1, room(V1)." /\
            rule_violated sp [(1, 1); (1, 2)]%Z r = true /\ reading sp [(1, 1); (1, 2)]%Z = false /\ reading sp [(1, 1); (2, 2)]%Z = true.
Proof. cbn zeta. eexists. split; [vm_compute; reflexivity|]. repeat split; vm_compute; reflexivity. Qed.
