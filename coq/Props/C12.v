(* C12 — compilation is a pure function of the text and the options.
   Gen/Effects.v (regenerated from /repo on every run) lists the process-wide variables that are written anywhere, and for
   every function its direct reads / writes / calls (name-based call graph, with the reflective calls of Lark's transformer
   and the implicit __str__/__eq__ calls added).  Api/State.v computes the footprint of each public API method and Part 1
   proves the generic frame theorem.  The theorem below: ANY implementation of the four API methods that respects these
   footprints returns, after ANY history of API calls, what it returns in a fresh process; and repeating a call changes
   nothing.  The side condition (every variable read before being reset is an option no API method writes) is evaluated on the
   generated summary by vm_compute.  Not covered by the theorem: the interpreter's hash seed (decided by the multi-seed
   runs of the check), mutable default arguments (listed in Gen/Effects.v: mutable_defaults), uuid4. *)
Require Import Coq.Strings.String Coq.Lists.List Coq.Bool.Bool.
Require Import Cnl2aspV.Gen.Effects Cnl2aspV.Api.State Cnl2aspV.Api.StateProofs.
Import ListNotations.
Open Scope string_scope.

Theorem C12_footprints_pure : forallb api_pure api_methods = true /\ forallb reach_closed api_methods = true.
Proof. split; [exact all_api_pure | exact all_reach_closed]. Qed.
Print Assumptions C12_footprints_pure.

Theorem C12_history_independent :
  forall (V R : Type) (sem : string -> op V R),
    (forall a, In a api_methods ->
       respects V R (sem a) /\ o_reads (sem a) = api_reads a /\ o_resets (sem a) = api_resets_of a /\
       incl (o_writes (sem a)) (api_writes a)) ->
    forall (a : string) (h : list string) (g : gstate V),
      In a api_methods -> (forall b, In b h -> In b api_methods) ->
      fst (o_run (sem a) (run V R (map sem h) g)) = fst (o_run (sem a) g).
Proof. exact api_history_independent. Qed.
Print Assumptions C12_history_independent.

Theorem C12_idempotent :
  forall (V R : Type) (sem : string -> op V R),
    (forall a, In a api_methods ->
       respects V R (sem a) /\ o_reads (sem a) = api_reads a /\ o_resets (sem a) = api_resets_of a /\
       incl (o_writes (sem a)) (api_writes a)) ->
    forall (a : string) (g : gstate V), In a api_methods ->
      fst (o_run (sem a) (snd (o_run (sem a) g))) = fst (o_run (sem a) g).
Proof. exact api_idempotent. Qed.

(* non-vacuity: the footprints are not empty, and the only option field is the printing mode *)
Example C12_nonvacuous :
  option_fields = ["Utility.PRINT_WITH_FUNCTIONS"] /\ In "SignatureManager.signatures" (api_reads "check_syntax")
  /\ In "SignatureManager.signatures" (api_resets_of "check_syntax").
Proof. vm_compute. repeat split; auto. Qed.
