(* Model of the two fresh-variable generators:
   ASPConverter.create_new_field_value / get_trailing_number (asp_converter.py) and CNLTransformer._new_field_value (parser.py). *)
Require Import Coq.Strings.String Coq.Strings.Ascii Coq.Lists.List Coq.Bool.Bool Coq.Arith.Arith Coq.ZArith.ZArith.
Require Import Cnl2aspV.Base.Util Cnl2aspV.Base.Str Cnl2aspV.Base.Digits Cnl2aspV.Asp.Print.
Import ListNotations.
Open Scope string_scope.

(* re.search(r'\d+$', s): the maximal run of digits at the end, as a string (None if s does not end in a digit) *)
Fixpoint trailing_digits_rev (r : string) : string :=       (* r = s reversed *)
  match r with String c t => if is_digit_c c then String c (trailing_digits_rev t) else EmptyString | EmptyString => EmptyString end.
Definition trailing_digits (s : string) : string := srev (trailing_digits_rev (srev s)).

Definition z_of_digits (d : string) : Z := match digits_val d with Some z => z | None => 0%Z end.

(* one retry of create_new_field_value on a colliding candidate *)
Definition bump_converter (result : string) : string :=
  let d := trailing_digits result in
  match d with
  | EmptyString => result ++ "1"
  | _ => let n := z_of_digits d in
         if Z.eqb n 0 then result ++ "1"           (* `if trailing_number:` -- 0 is falsy *)
         else replace (show_Z n) (show_Z (n + 1)) result        (* str.replace: every occurrence of the digits of n *)
  end.

Fixpoint fresh_converter_fuel (fuel : nat) (taken : list string) (result : string) : option string :=
  if mem_string result taken
  then match fuel with O => None | S f => fresh_converter_fuel f taken (strip_vowels_upper (bump_converter result)) end
  else Some result.

Definition create_new_field_value (fuel : nat) (taken : list string) (name : string) : option string :=
  fresh_converter_fuel fuel taken (strip_vowels_upper name).

(* parser: the retry works on the NAME (digits found anywhere in it, stripped only from its end) *)
Fixpoint last_digit_run_rev (r acc : string) (in_run : bool) : string :=     (* re.findall(r'\d+', name)[-1], scanning the reversed name *)
  match r with
  | EmptyString => acc
  | String c t => if is_digit_c c then last_digit_run_rev t (String c acc) true
                  else if in_run then acc else last_digit_run_rev t acc false
  end.
Definition last_digit_run (s : string) : string := last_digit_run_rev (srev s) EmptyString false.
Fixpoint rstrip_digits_rev (r : string) : string := match r with String c t => if is_digit_c c then rstrip_digits_rev t else r | EmptyString => EmptyString end.
Definition rstrip_digits (s : string) : string := srev (rstrip_digits_rev (srev s)).

Definition bump_parser (name : string) : string :=
  match last_digit_run name with
  | EmptyString => name ++ "1"
  | d => rstrip_digits name ++ show_Z (z_of_digits d + 1)
  end.

Fixpoint new_field_value_fuel (fuel : nat) (taken : list string) (name : string) : option string :=
  let result := strip_vowels_upper name in
  if mem_string result taken
  then match fuel with O => None | S f => new_field_value_fuel f taken (bump_parser name) end
  else Some result.

(* ------------------------------------------------------------------ freshness *)
Theorem fresh_converter_not_taken fuel taken : forall result r,
  fresh_converter_fuel fuel taken result = Some r -> mem_string r taken = false.
Proof.
  induction fuel as [|f IH]; intros result r; cbn [fresh_converter_fuel]; destruct (mem_string result taken) eqn:E; intros H;
    try discriminate; try (injection H as <-; exact E). now apply (IH _ _ H).
Qed.

Theorem new_field_value_not_taken fuel taken : forall name r,
  new_field_value_fuel fuel taken name = Some r -> mem_string r taken = false.
Proof.
  induction fuel as [|f IH]; intros name r; cbn [new_field_value_fuel]; destruct (mem_string (strip_vowels_upper name) taken) eqn:E; intros H;
    try discriminate; try (injection H as <-; exact E). now apply (IH _ _ H).
Qed.

(* an invented name is never one the generator was told is taken: author variables recorded before the call and earlier inventions *)
Corollary invention_distinct_from_author fuel taken name r author :
  create_new_field_value fuel taken name = Some r -> In author taken -> r <> author.
Proof.
  intros H Hin ->. apply fresh_converter_not_taken in H. apply mem_string_In in Hin. congruence.
Qed.

(* successive inventions are pairwise distinct when each is added to the list (as the code does) *)
Corollary successive_inventions_distinct fuel taken n1 n2 r1 r2 :
  create_new_field_value fuel taken n1 = Some r1 ->
  create_new_field_value fuel (taken ++ [r1]) n2 = Some r2 -> r1 <> r2.
Proof.
  intros H1 H2 ->. apply fresh_converter_not_taken in H2.
  assert (In r2 (taken ++ [r2])) by (apply in_or_app; right; left; reflexivity).
  apply mem_string_In in H. congruence.
Qed.
