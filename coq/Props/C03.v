(* C03 — 'required' and 'prohibited' are exact complements for every comparison phrase.
   Only statements; every proof is `exact <lemma>` into Cnl/ComparisonProofs.v.
   The tables (phrase -> operator, operators_negation, operator -> symbol, between rewriting) are
   regenerated from /repo on every run (Gen/*.v), so these are re-proved against the current code. *)
Require Import Coq.Strings.String Coq.ZArith.ZArith Coq.Lists.List Coq.Bool.Bool.
Require Import Cnl2aspV.Gen.Operators Cnl2aspV.Gen.Tables Cnl2aspV.Gen.Terminals
               Cnl2aspV.Asp.CmpSem Cnl2aspV.Cnl.Comparison Cnl2aspV.Cnl.ComparisonProofs.
Import ListNotations.
Open Scope string_scope.

(* the generated phrase table is exactly the documented phrase list *)
Theorem C03_phrases_documented :
  forallb (fun p => Util.mem_string p documented_phrases) comparison_phrases = true /\
  forallb (fun p => Util.mem_string p comparison_phrases) documented_phrases = true.
Proof. exact phrases_are_documented. Qed.
Print Assumptions C03_phrases_documented.

(* operators_negation maps every comparison operator to its complement, on all integers *)
Theorem C03_negation_complement :
  forall o, In o comparison_ops ->
  exists o' k k', neg_op o = Some o' /\ kind_of_op o = Some k /\ kind_of_op o' = Some k' /\
    forall a b : Z, ksem k' a b = negb (ksem k a b).
Proof. exact negation_complement. Qed.
Print Assumptions C03_negation_complement.

(* P holds precisely when the ordinary integer comparison it names holds *)
Theorem C03_phrase_meaning :
  forall ph, In ph comparison_phrases -> forall a b : Z,
  exists v, compile_simple false ph a b = Some v /\ named_comparison ph a b = Some v.
Proof. exact phrase_meaning. Qed.
Print Assumptions C03_phrase_meaning.

(* 'required P' rejects exactly the instances 'prohibited P' accepts: all phrases but 'between' *)
Theorem C03_required_is_complement :
  forall ph, In ph comparison_phrases -> forall a b : Z,
  exists r p, compile_simple true ph a b = Some r /\ compile_simple false ph a b = Some p /\ r = negb p.
Proof. exact simple_complement. Qed.
Print Assumptions C03_required_is_complement.

Theorem C03_between_prohibited :
  forall x l u : Z, compile_between false false x l u = Some ((l <=? x)%Z && (x <=? u)%Z).
Proof. exact between_prohibited. Qed.
Print Assumptions C03_between_prohibited.

(* 'between': required is the exact complement of prohibited, for plain operands and for an aggregate in the middle *)
Theorem C03_between_required_is_complement :
  forall (agg : bool) (x l u : Z),
    compile_between true agg x l u = option_map negb (compile_between false agg x l u).
Proof. exact between_complement. Qed.
Print Assumptions C03_between_required_is_complement.

(* non-vacuity *)
Example C03_nonvacuous : In "greater than" comparison_phrases /\ compile_simple true "greater than" 3 2 = Some false
                         /\ compile_simple false "greater than" 3 2 = Some true.
Proof. vm_compute. repeat split. right; right; right; right; left; reflexivity. Qed.
