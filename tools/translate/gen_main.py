"""T-gen: coq/Gen/MainSkeleton.v from cnl2asp.py: main (Python ast).  Fail-closed on any statement shape not listed."""
import ast
import os
import sys

HERE = os.path.dirname(os.path.abspath(__file__))
sys.path.insert(0, os.path.join(os.path.dirname(HERE), 'harness'))
from common import COQ, REPO, write_if_changed, coq_str  # noqa: E402


class Unsupported(Exception):
    pass


TOTAL = {'print', 'str', 'list', 'ArgumentParser', 'add_argument', 'parse_args', 'splitlines', 'len', 'format'}
FS = {'open', 'seek', 'read', 'write', 'Cnl2asp'}
ASSUMED = {'get_context'}
THM = {'ParserError'}


class Gen:
    def __init__(self):
        self.n = 0
        self.sites = []

    def kind(self, name):
        if name in TOTAL:
            return 'KTotal'
        if name in FS:
            return 'KFs'
        if name in ASSUMED:
            return 'KAssumed'
        if name in THM:
            return 'KThm'
        return 'KApi'

    def site(self, name, kind, line):
        i = self.n
        self.n += 1
        self.sites.append((i, name, kind, line))
        return 'SCall %d %s %s' % (i, coq_str(name), kind)

    def calls(self, node):
        """sites of an expression, in evaluation order (arguments before the call)"""
        out = []
        if node is None:
            return out
        for child in ast.iter_child_nodes(node):
            out += self.calls(child)
        if isinstance(node, ast.Call):
            f = node.func
            name = f.attr if isinstance(f, ast.Attribute) else f.id if isinstance(f, ast.Name) else None
            if name is None:
                raise Unsupported('call of a computed function at line %d' % node.lineno)
            if name == 'open' and len(node.args) >= 2 and isinstance(node.args[1], ast.Constant) and 'w' in str(node.args[1].value):
                out.append('SOpenOut')
            elif (name == 'split' and isinstance(f, ast.Attribute) and len(node.args) == 1 and not node.keywords
                  and isinstance(node.args[0], ast.Constant) and isinstance(node.args[0].value, str) and node.args[0].value):
                # <text>.split('<non-empty literal>') cannot raise (the receiver is the text just read from the file)
                out.append(self.site(name, 'KTotal', node.lineno))
            else:
                out.append(self.site(name, self.kind(name), node.lineno))
        elif isinstance(node, ast.Subscript) and not isinstance(node.slice, ast.Constant):
            out.append(self.site('index:' + ast.unparse(node), 'KAssumed', node.lineno))
        elif isinstance(node, (ast.Lambda, ast.ListComp, ast.DictComp, ast.SetComp, ast.GeneratorExp, ast.Await, ast.Yield)):
            raise Unsupported('expression %s at line %d' % (type(node).__name__, node.lineno))
        return out

    def flag_of(self, test):
        if isinstance(test, ast.Attribute) and isinstance(test.value, ast.Name) and test.value.id == 'args':
            return test.attr
        return ast.unparse(test)

    def stmts(self, body):
        items = []
        for st in body:
            if isinstance(st, (ast.Assign, ast.Expr, ast.AugAssign, ast.AnnAssign)):
                items += self.calls(st)
            elif isinstance(st, (ast.Import, ast.ImportFrom)):
                items.append(self.site('import:' + ast.unparse(st).split(' import ')[0].replace('from ', ''), 'KApi', st.lineno))
            elif isinstance(st, ast.Return):
                items += self.calls(st.value)
                items.append('SReturn')
            elif isinstance(st, ast.Raise):
                items += self.calls(st.exc)
                items.append('SRaise')
            elif isinstance(st, ast.If):
                items += self.calls(st.test)
                items.append('SIf %s (%s) (%s)' % (coq_str(self.flag_of(st.test)), self.stmts(st.body), self.stmts(st.orelse)))
            elif isinstance(st, ast.Try):
                if st.finalbody or st.orelse:
                    raise Unsupported('try with finally/else at line %d' % st.lineno)
                hs = 'HNil'
                for h in reversed(st.handlers):
                    if h.type is None:
                        cls = 'BaseException'
                    elif isinstance(h.type, ast.Name):
                        cls = h.type.id
                    else:
                        raise Unsupported('handler type %s at line %d' % (ast.unparse(h.type), h.lineno))
                    hs = 'HCons %s (%s) (%s)' % (coq_str(cls), self.stmts(h.body), hs)
                items.append('STry (%s) (%s)' % (self.stmts(st.body), hs))
            elif isinstance(st, ast.Pass):
                pass
            else:
                raise Unsupported('statement %s at line %d' % (type(st).__name__, st.lineno))
        term = 'SNil'
        for it in reversed(items):
            term = 'SCons (%s) (%s)' % (it, term)
        return term


def main():
    src = open(os.path.join(REPO, 'src', 'cnl2asp', 'cnl2asp.py')).read()
    tree = ast.parse(src)
    fn = [n for n in tree.body if isinstance(n, ast.FunctionDef) and n.name == 'main']
    if len(fn) != 1:
        raise Unsupported('no unique top-level function main in cnl2asp.py')
    g = Gen()
    body = g.stmts(fn[0].body)
    out = '(* GENERATED from /repo/src/cnl2asp/cnl2asp.py (function main) by tools/translate/gen_main.py *)\n'
    out += 'Require Import Coq.Strings.String Coq.Lists.List.\nRequire Import Cnl2aspV.Api.ExcSem.\nImport ListNotations.\nOpen Scope string_scope.\n\n'
    out += 'Definition main_body : stmts :=\n  %s.\n\n' % body
    out += 'Definition main_sites : list (nat * string * site_kind * nat) :=\n  [%s].\n\n' % ';\n   '.join(
        '(%d, %s, %s, %d)' % (i, coq_str(n), k, ln) for i, n, k, ln in g.sites)

    def ids(pred):
        return '[%s]' % '; '.join(str(i) for i, n, k, ln in g.sites if pred(n))
    out += 'Definition compile_sites : list nat := %s.\n' % ids(lambda n: n == 'compile')
    out += 'Definition api_entry_sites : list nat := %s.\n' % ids(lambda n: n in ('compile', 'check_syntax', 'cnl_to_json', 'get_symbols'))
    write_if_changed(os.path.join(COQ, 'Gen', 'MainSkeleton.v'), out)
    return 0


if __name__ == '__main__':
    try:
        sys.exit(main())
    except (Unsupported, SyntaxError, KeyError, AttributeError) as e:
        print('TRANSLATOR-FAILED gen_main: %s: %s' % (type(e).__name__, e))
        sys.exit(2)
