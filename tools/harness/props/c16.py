"""C16 -- temporal concepts enumerate their range in chronological order."""
import random
import re

import common
import impl
import translate
from common import Report, coq_str, coq_bool, coq_z, coq_opt, coq_list

PID = 'C16'
PRE = 'Require Import Cnl2aspV.Time.Range Cnl2aspV.Time.C16Cases.'


# ---- independent calendar arithmetic (days-from-civil, not datetime)
def days_from_civil(y, m, d):
    y -= m <= 2
    era = (y if y >= 0 else y - 399) // 400
    yoe = y - era * 400
    doy = (153 * (m + (-3 if m > 2 else 9)) + 2) // 5 + d - 1
    doe = yoe * 365 + yoe // 4 - yoe // 100 + doy
    return era * 146097 + doe - 719468


def civil_from_days(z):
    z += 719468
    era = (z if z >= 0 else z - 146096) // 146097
    doe = z - era * 146097
    yoe = (doe - doe // 1460 + doe // 36524 - doe // 146096) // 365
    y = yoe + era * 400
    doy = doe - (365 * yoe + yoe // 4 - yoe // 100)
    mp = (5 * doy + 2) // 153
    d = doy - (153 * mp + 2) // 5 + 1
    m = mp + (3 if mp < 10 else -9)
    return (y + (m <= 2), m, d)


def fmt_time(m):
    h = m // 60
    return '%02d:%02d %s' % (12 if h % 12 == 0 else h % 12, m % 60, 'AM' if h < 12 else 'PM')


def fmt_day(n):
    y, m, d = civil_from_days(n)
    return '%02d/%02d/%04d' % (d, m, y)


def oracle_points(ty, A, B, L):
    """A, B positions (minutes / days-from-civil / ints) -> printed points"""
    pts = []
    p = A
    if ty == 'TStep':
        L = 1
    while p <= B:
        pts.append(p)
        p += L
    f = {'TTime': fmt_time, 'TDate': fmt_day, 'TStep': str}[ty]
    return [f(p) for p in pts]


def tvalue(ty, toks):
    if ty == 'TTime':
        return 'VTime %s %s %s' % tuple(coq_str(t) for t in toks)
    if ty == 'TDate':
        return 'VDate %s %s %s' % tuple(coq_str(t) for t in toks)
    return 'VNum %s' % coq_str(toks[0])


def key_term(k):
    return '(KInt %s)' % coq_z(k) if isinstance(k, int) else '(KStr %s)' % coq_str(k)


def impl_values(ty, a, b, L):
    from cnl2asp.parser.parser import CNLTransformer
    from cnl2asp.specification.entity_component import TemporalEntityComponent, EntityType
    et = {'TTime': EntityType.TIME, 'TDate': EntityType.DATE, 'TStep': EntityType.STEP}[ty]
    tr = CNLTransformer()
    av = tr.temporal_value(list(a))
    bv = tr.temporal_value(list(b))
    try:
        e = TemporalEntityComponent('t', '', av, bv, L, et)
        return list(e.values.items())
    except Exception:
        return None


def time_toks(m, style=0):
    h = m // 60
    h12 = 12 if h % 12 == 0 else h % 12
    ap = 'AM' if h < 12 else 'PM'
    if style == 1:
        return [str(h12), '%02d' % (m % 60), ap.lower()]
    return ['%02d' % h12, '%02d' % (m % 60), ap]


def date_toks(n, style=0):
    y, m, d = civil_from_days(n)
    if style == 1:
        return [str(d), str(m), '%04d' % y]
    return ['%02d' % d, '%02d' % m, '%04d' % y]


def gen_ranges(rnd, tier):
    out = []  # (ty, a_toks, b_toks, L or None, A, B)  positions for the oracle
    nt = 700 if tier == 'thorough' else 90
    grid = list(range(0, 1440, 5)) + [0, 1, 59, 60, 719, 720, 721, 779, 780, 1439]
    for _ in range(nt):
        A = rnd.choice(grid)
        B = rnd.choice([g for g in grid if g >= A])
        L = rnd.choice([None, 1, 5, 7, 10, 15, 25, 30, 45, 60, 90, 180]) if B - A > 200 else rnd.choice([None, 1, 2, 3, 5, 7, 10, 25])
        if L is None and B - A > 300:
            L = 30
        st = rnd.choice([0, 0, 0, 1])
        out.append(('TTime', time_toks(A, st), time_toks(B, st), L, A, B))
    anchors = [(1900, 2, 27), (2000, 2, 27), (2024, 2, 27), (2100, 2, 27), (2023, 12, 29), (1999, 12, 30), (2024, 1, 30),
               (2024, 4, 28), (1000, 1, 1), (9999, 11, 1), (2023, 2, 26), (1600, 2, 27), (2400, 2, 28)]
    nd = 500 if tier == 'thorough' else 70
    for _ in range(nd):
        y, m, d = rnd.choice(anchors)
        A = days_from_civil(y, m, d) + rnd.randint(0, 3)
        B = A + rnd.randint(0, 45)
        L = rnd.choice([None, 1, 2, 3, 7, 10, 30, 40])
        if days_from_civil(9999, 12, 31) - B < (L or 1) + 1:
            B = A + 5
        st = rnd.choice([0, 0, 1])
        out.append(('TDate', date_toks(A, st), date_toks(B, st), L, A, B))
    ns = 200 if tier == 'thorough' else 40
    for _ in range(ns):
        A = rnd.randint(0, 30)
        B = A + rnd.randint(0, 25)
        out.append(('TStep', [str(A)], [str(B)], None, A, B))
    return out


MALFORMED = [('TTime', ['13', '00', 'PM'], ['01', '00', 'PM'], None), ('TTime', ['00', '30', 'AM'], ['01', '00', 'AM'], None),
             ('TTime', ['07', '60', 'AM'], ['08', '00', 'AM'], None), ('TTime', ['07', '30', 'XM'], ['08', '00', 'AM'], None),
             ('TDate', ['31', '04', '2024'], ['05', '05', '2024'], None), ('TDate', ['29', '02', '2023'], ['05', '03', '2023'], None),
             ('TDate', ['01', '13', '2023'], ['05', '03', '2024'], None), ('TDate', ['01', '01', '0000'], ['05', '01', '0000'], None),
             ('TDate', ['00', '01', '2024'], ['05', '01', '2024'], None), ('TTime', ['007', '30', 'AM'], ['08', '00', 'AM'], None)]

NAMES = {'TTime': 'time', 'TDate': 'day', 'TStep': 'timeslot'}
UNIT = {'TTime': 'minutes', 'TDate': 'days', 'TStep': 'steps'}


def render_value(ty, toks):
    if ty == 'TTime':
        return '%s:%s %s' % tuple(toks)
    if ty == 'TDate':
        return '%s/%s/%s' % tuple(toks)
    return toks[0]


def render_spec(ty, a, b, L, word, ref):
    name = NAMES[ty]
    s = 'A %s is a temporal concept expressed in %s ranging from %s to %s' % (name, UNIT[ty], render_value(ty, a), render_value(ty, b))
    if L is not None:
        s += ' with a length of %d %s' % (L, UNIT[ty])
    s += '.\nA visit is identified by an id, and by a %s.\n' % name
    s += 'It is prohibited that a visit V is %s %s.' % (word, render_value(ty, ref))
    return s


def run(tier, seed):
    rep = Report(PID, tier, seed)
    rnd = random.Random(seed)
    tie_ok, tout = translate.run(['tables'])
    proof = common.build_property(PID, extra=['Time/C16Cases.vo'])
    ranges = gen_ranges(rnd, tier)

    fcases, fmeta = [], []
    for (ty, a, b, L, A, B) in ranges:
        iv = impl_values(ty, a, b, None if L is None else str(L))
        rep.case((ty, tuple(a), tuple(b), L))
        ivt = None if iv is None else coq_list(['(%s, %s)' % (key_term(k), coq_z(v)) for k, v in iv])
        fcases.append('{| f_ty := %s; f_a := %s; f_b := %s; f_len := %s; f_impl := %s |}'
                      % (ty, tvalue(ty, a), tvalue(ty, b), coq_opt(None if L is None else coq_str(str(L))), coq_opt(ivt)))
        fmeta.append(dict(type=ty, A=render_value(ty, a), B=render_value(ty, b), length=L, impl_values=iv))
        # oracle: independent arithmetic
        exp = oracle_points(ty, A, B, L or 1)
        got = None if iv is None else [str(k) for k, _ in iv]
        idx_ok = iv is not None and [v for _, v in iv] == list(range(len(iv)))
        if got != exp or not idx_ok:
            rep.violation('range %s..%s by %s enumerates %r, expected %r numbered from 0' % (fmeta[-1]['A'], fmeta[-1]['B'], L, iv, exp),
                          dict(kind='function-level', **fmeta[-1], expected=exp))
    for (ty, a, b, L) in MALFORMED:
        iv = impl_values(ty, a, b, L)
        rep.case(('malformed', ty, tuple(a), tuple(b)))
        ivt = None if iv is None else coq_list(['(%s, %s)' % (key_term(k), coq_z(v)) for k, v in iv])
        fcases.append('{| f_ty := %s; f_a := %s; f_b := %s; f_len := None; f_impl := %s |}' % (ty, tvalue(ty, a), tvalue(ty, b), coq_opt(ivt)))
        fmeta.append(dict(type=ty, A=render_value(ty, a), B=render_value(ty, b), length=L, impl_values=iv, malformed=True))

    # compile level
    ccases, cmeta = [], []
    ncomp = 260 if tier == 'thorough' else 45
    sub = [r for r in ranges if (r[5] - r[4]) // ((r[3] or 1) if r[0] != 'TStep' else 1) <= 40]
    rnd.shuffle(sub)
    for (ty, a, b, L, A, B) in sub[:ncomp]:
        pts = oracle_points(ty, A, B, L or 1)
        step = 1 if ty == 'TStep' else (L or 1)
        word = rnd.choice(['before', 'after'])
        mode = rnd.choice(['in', 'in', 'in', 'off-grid', 'outside'])
        if mode == 'in':
            j = rnd.randrange(len(pts))
            pos = A + j * step
        elif mode == 'off-grid' and step > 1 and B > A:
            pos = A + 1
            j = None
        else:
            pos = B + step + rnd.randint(0, 3)
            j = None
            if ty == 'TTime' and pos >= 1440:
                pos = max(0, A - 1)
                if pos == A:
                    continue
        ref = {'TTime': time_toks, 'TDate': date_toks, 'TStep': lambda p: [str(p)]}[ty](pos)
        text = render_spec(ty, a, b, L, word, ref)
        r = impl.compile_text(text)
        rep.case(('compile', ty, tuple(a), tuple(b), L, word, tuple(ref)))
        ok = r[0] == 'ok'
        out = r[1] if ok else r[2]
        ccases.append('{| c_name := %s; c_ty := %s; c_a := %s; c_b := %s; c_len := %s; c_word := %s; c_ref := %s; c_impl_ok := %s; c_impl := %s |}'
                      % (coq_str(NAMES[ty]), ty, tvalue(ty, a), tvalue(ty, b), coq_opt(None if L is None else coq_str(str(L))),
                         coq_str(word), tvalue(ty, ref), coq_bool(ok), coq_str(out)))
        cmeta.append(dict(text=text, impl=r[:3]))
        # oracle on the implementation's output: facts and constant
        if j is not None:
            if not ok:
                rep.violation('in-range reference value rejected', dict(text=text, result=r[:3]))
                continue
            facts = re.findall(r'^%s\((\d+),"([^"]*)"\)\.$' % NAMES[ty], out, re.M)
            if [(int(i), v) for i, v in facts] != list(enumerate(pts)):
                rep.violation('facts are not the chronological enumeration of the range', dict(text=text, impl=out, expected=pts))
            m = re.search(r':- visit\(_,(\w+)\), (\w+) ([<>]) (\d+)\.', out)
            if not m or m.group(1) != m.group(2) or int(m.group(4)) != j or m.group(3) != ('<' if word == 'before' else '>'):
                rep.violation("'is %s V' does not compare against the number of V" % word, dict(text=text, impl=out, expected_index=j))
        else:
            if ok:
                rep.violation('reference value outside the range accepted', dict(text=text, impl=out))
            elif 'line 3' not in out or render_value(ty, ref) not in out:
                rep.violation('out-of-range value rejected without naming it / its line', dict(text=text, message=out))
    rep.sample(fmeta[0]); rep.sample(fmeta[len(fmeta) // 2]); rep.sample(cmeta[0] if cmeta else None)

    tie_broken = []
    if not tie_ok:
        tie_broken.append('translator failed closed: ' + tout[-600:])
    if not proof['ok']:
        tie_broken.append('theorem file does not build: %s' % proof['failed_at'])
    else:
        ff = common.run_cases(PID, 'fn', PRE, fcases, 'fcase_ok')
        unsupported = common.run_cases(PID, 'fnsup', PRE, fcases, 'fcase_supported')
        cf = common.run_cases(PID, 'cmp', PRE, ccases, 'ccase_ok', shard=150)
        rep.cov['function_level_cases'] = len(fcases)
        rep.cov['function_level_outside_model_domain'] = len(unsupported)
        rep.cov['compile_level_cases'] = len(ccases)
        if ff:
            tie_broken.append('function-level correspondence differs on %d cases, first: %r' % (len(ff), fmeta[ff[0]]))
        if cf:
            tie_broken.append('compile-level correspondence differs on %d cases, first: %r' % (len(cf), cmeta[cf[0]]))
    if proof['bad']:
        tie_broken.append('forbidden tokens: %r' % proof['bad'])
    if tie_broken and not rep.violations:
        rep.violation('proof obligation or correspondence no longer checks and no failing input was found: ' + ' | '.join(tie_broken),
                      dict(kind='broken-tie', theorem='Props/C16.v', details=tie_broken,
                           searched='%d ranges at function level and %d compiled specifications against independent calendar arithmetic' % (len(fcases), len(ccases))),
                      no_input=True)
    elif tie_broken:
        rep.notes.extend(tie_broken)
    rep.cov['distribution'] = dict(time=sum(1 for r in ranges if r[0] == 'TTime'), date=sum(1 for r in ranges if r[0] == 'TDate'),
                                   step=sum(1 for r in ranges if r[0] == 'TStep'), malformed=len(MALFORMED))
    rep.assumptions += ['CPython datetime.strptime/strftime/timedelta (modelled by Time/Clock.v, Time/CalendarDef.v; validated by the function-level stream)',
                        'glibc strftime pads %Y only from year 1000: years below are outside the model (Unsupported)',
                        'length >= 1 (a length of 0 makes _compute_values loop forever; outside the property)']
    return rep.finish(proof, rule='ranges A<=B: times on a 5-minute grid + AM/PM/noon/midnight boundaries, dates around month/year ends and leap days '
                                  '(1600,1900,2000,2024,2100,2400), steps; lengths 1..180; reference values in/off/outside the range; distinct by (type,A,B,L[,word,ref])')
