(* Safety (in gringo's sense) of every rule the core-fragment compile model emits (C06, second half).
   A rule is safe when every variable of it occurs in a positive body atom, or is bound by 'V = constant'; for a choice rule
   the variables of the head element and of its condition may also be bound by the condition.  Cnl/Core.v: compile_sentence
   is tied byte-exactly to the implementation on every run, so this is a statement about the rules the implementation prints
   for the core fragment. *)
Require Import Coq.Strings.String Coq.Strings.Ascii Coq.Lists.List Coq.Bool.Bool Coq.Arith.Arith Coq.ZArith.ZArith.
Require Import Cnl2aspV.Base.Util Cnl2aspV.Base.Str Cnl2aspV.Base.Digits Cnl2aspV.Gen.Operators Cnl2aspV.Cnl.Comparison Cnl2aspV.Cnl.Core.
Import ListNotations.
Open Scope string_scope.

Definition term_vars (t : term) : list string := match t with TVar v => [v] | TConst _ => [] end.
Definition atom_vars (a : natom) : list string := flat_map term_vars (na_args a).
Definition lit_vars (l : blit) : list string :=
  match l with BPos a | BNeg a => atom_vars a | BCmp _ x y => (term_vars x ++ term_vars y)%list end.
(* the variables a literal binds: those of a positive atom; V of 'V = constant' *)
Definition lit_binds (l : blit) : list string :=
  match l with
  | BPos a => atom_vars a
  | BCmp sym (TVar v) (TConst _) => if String.eqb sym "=" then [v] else []
  | _ => [] end.
Definition body_vars (b : list blit) : list string := flat_map lit_vars b.
Definition body_binds (b : list blit) : list string := flat_map lit_binds b.

Definition subset_b (l m : list string) : bool := forallb (fun v => mem_string v m) l.

Definition safe_rule (r : nrule) : bool :=
  match r with
  | NFact a => match atom_vars a with [] => true | _ => false end
  | NRangeFact _ _ _ => true
  | NRule h b => subset_b (atom_vars h ++ body_vars b) (body_binds b)
  | NCons b => subset_b (body_vars b) (body_binds b)
  | NChoice _ _ h c b => subset_b (body_vars b) (body_binds b) && subset_b (atom_vars h ++ atom_vars c) (atom_vars c ++ body_binds b)
  end.

(* what the property asks of the author: the label a definition is about, and the operands of a 'where' comparison, are
   labels of the sentence's clauses *)
Definition labels_of (cls : list clause) : list string := flat_map (fun cl => [cl_slabel cl; cl_olabel cl]) cls.
Fixpoint author_ok (x : sentence) : bool :=
  match x with
  | SChoice _ => true
  | SDef _ label _ body => mem_string label (labels_of body)
  | SCons _ whenpart main wh =>
      match wh with None => true | Some w => mem_string (w_left w) (labels_of (whenpart ++ main)) && mem_string (w_right w) (labels_of (whenpart ++ main)) end
  | SOneOf _ _ y => author_ok y
  | SThere _ _ _ _ _ => true
  end.

(* ------------------------------------------------------------------ subset_b *)
Lemma subset_b_spec l m : subset_b l m = true <-> incl l m.
Proof.
  unfold subset_b, incl. rewrite forallb_forall. split; intros H v Hv; [apply mem_string_In|apply mem_string_In]; auto.
Qed.

(* ------------------------------------------------------------------ equal atoms have the same variables *)
Lemma term_eqb_eq a b : term_eqb a b = true -> a = b.
Proof. destruct a, b; cbn; try discriminate; intros H; apply String.eqb_eq in H; now subst. Qed.
Lemma terms_eqb_eq a : forall b, terms_eqb a b = true -> a = b.
Proof.
  induction a as [|x r IH]; intros [|y s]; cbn; try discriminate; [reflexivity|].
  intros H. apply andb_true_iff in H as [H1 H2]. apply term_eqb_eq in H1. apply IH in H2. now subst.
Qed.
Lemma natom_eqb_eq a b : natom_eqb a b = true -> a = b.
Proof.
  destruct a as [p xs], b as [q ys]. unfold natom_eqb; cbn. intros H. apply andb_true_iff in H as [H1 H2].
  apply String.eqb_eq in H1. apply terms_eqb_eq in H2. now subst.
Qed.
Lemma lit_same_atom_eq a b : lit_same_atom a b = true -> a = b.
Proof. destruct a, b; cbn; try discriminate; intros H; apply natom_eqb_eq in H; now subst. Qed.

(* removing duplicates removes no literal: every literal of the list is still there *)
Lemma dedup_keeps l : forall x, In x l -> In x (dedup_keep_last l).
Proof.
  induction l as [|y r IH]; intros x Hx; [destruct Hx|]. cbn [dedup_keep_last].
  destruct (existsb (lit_same_atom y) r) eqn:E.
  - destruct Hx as [<-|Hx]; [|auto].
    apply existsb_exists in E as [z [Hz Hyz]]. apply lit_same_atom_eq in Hyz. subst z. auto.
  - destruct Hx as [<-|Hx]; [left; reflexivity|right; auto].
Qed.
Lemma dedup_sub l : forall x, In x (dedup_keep_last l) -> In x l.
Proof.
  induction l as [|y r IH]; intros x Hx; [destruct Hx|]. cbn [dedup_keep_last] in Hx.
  destruct (existsb (lit_same_atom y) r); [right; auto|]. destruct Hx as [<-|Hx]; [left; reflexivity|right; auto].
Qed.

Lemma in_body_vars b v : In v (body_vars b) <-> exists l, In l b /\ In v (lit_vars l).
Proof. unfold body_vars. rewrite in_flat_map. tauto. Qed.
Lemma in_body_binds b v : In v (body_binds b) <-> exists l, In l b /\ In v (lit_binds l).
Proof. unfold body_binds. rewrite in_flat_map. tauto. Qed.

(* ------------------------------------------------------------------ the literals of clauses *)
Lemma atom1_vars p v : atom_vars (atom1 p v) = [v].
Proof. reflexivity. Qed.

(* every variable of the literals of a list of clauses is one of their labels, and every label is bound by a positive atom *)
Lemma clause_lits_vars flip cls v :
  In v (body_vars (flat_map (clause_lits flip) cls)) -> In v (labels_of cls).
Proof.
  rewrite in_body_vars. intros [l [Hl Hv]]. apply in_flat_map in Hl as [cl [Hcl Hl]].
  unfold labels_of. apply in_flat_map. exists cl. split; [exact Hcl|].
  unfold clause_lits in Hl. cbn [In] in Hl.
  destruct Hl as [<-|[<-|[<-|[]]]].
  - cbn in Hv. destruct Hv as [<-|[]]. left; reflexivity.
  - destruct (xorb (cl_neg cl) flip); cbn in Hv; destruct Hv as [<-|[<-|[]]]; cbn; auto.
  - cbn in Hv. destruct Hv as [<-|[]]. right; left; reflexivity.
Qed.
Lemma clause_lits_binds flip cls v :
  In v (labels_of cls) -> In v (body_binds (flat_map (clause_lits flip) cls)).
Proof.
  unfold labels_of. rewrite in_flat_map. intros [cl [Hcl Hv]]. apply in_body_binds.
  cbn [In] in Hv. destruct Hv as [<-|[<-|[]]].
  - exists (BPos (atom1 (cl_subj cl) (cl_slabel cl))). split; [|left; reflexivity].
    apply in_flat_map. exists cl. split; [exact Hcl|]. left; reflexivity.
  - exists (BPos (atom1 (cl_obj cl) (cl_olabel cl))). split; [|left; reflexivity].
    apply in_flat_map. exists cl. split; [exact Hcl|]. right; right; left; reflexivity.
Qed.

Lemma binds_dedup b v : In v (body_binds b) -> In v (body_binds (dedup_keep_last b)).
Proof. rewrite !in_body_binds. intros [l [Hl Hv]]. exists l. split; [now apply dedup_keeps|exact Hv]. Qed.
Lemma vars_dedup b v : In v (body_vars (dedup_keep_last b)) -> In v (body_vars b).
Proof. rewrite !in_body_vars. intros [l [Hl Hv]]. exists l. split; [now apply dedup_sub|exact Hv]. Qed.

Lemma body_vars_app a b : body_vars (a ++ b) = (body_vars a ++ body_vars b)%list.
Proof. unfold body_vars. now rewrite flat_map_app. Qed.
Lemma body_binds_app a b : body_binds (a ++ b) = (body_binds a ++ body_binds b)%list.
Proof. unfold body_binds. now rewrite flat_map_app. Qed.

Lemma where_lit_vars w v : In v (body_vars (where_lit w)) -> v = w_left w \/ v = w_right w.
Proof.
  unfold where_lit. destruct (phrase_op (w_phrase w)) as [op|]; [|intros []].
  destruct (op_symbol op) as [sym|]; [|intros []]. cbn. intros [<-|[<-|[]]]; auto.
Qed.

(* ------------------------------------------------------------------ 'L = v' keeps a rule safe *)
Lemma add_eq_safe l v r : safe_rule r = true -> safe_rule (add_eq l v r) = true.
Proof.
  destruct r as [a|p lo hi|lb ub h c b|h b|b]; cbn [add_eq]; try (intros H; exact H).
  - cbn [safe_rule]. intros H. apply andb_true_iff in H as [H1 H2]. apply andb_true_iff. split.
    + apply subset_b_spec. apply subset_b_spec in H1. intros x Hx. rewrite body_vars_app in Hx. rewrite body_binds_app.
      apply in_app_or in Hx as [Hx|Hx]; [apply in_or_app; left; auto|].
      cbn in Hx. destruct Hx as [<-|[]]. apply in_or_app. right. cbn. left; reflexivity.
    + apply subset_b_spec. apply subset_b_spec in H2. intros x Hx. apply H2 in Hx. rewrite body_binds_app.
      apply in_app_or in Hx as [Hx|Hx]; apply in_or_app; [left; exact Hx|right; apply in_or_app; left; exact Hx].
  - cbn [safe_rule]. intros H. apply subset_b_spec. apply subset_b_spec in H. intros x Hx. rewrite body_binds_app.
    apply in_app_or in Hx as [Hx|Hx]; [apply in_or_app; left; apply H; apply in_or_app; left; exact Hx|].
    rewrite body_vars_app in Hx. apply in_app_or in Hx as [Hx|Hx]; [apply in_or_app; left; apply H; apply in_or_app; right; exact Hx|].
    cbn in Hx. destruct Hx as [<-|[]]. apply in_or_app. right. cbn. left; reflexivity.
  - cbn [safe_rule]. intros H. apply subset_b_spec. apply subset_b_spec in H. intros x Hx. rewrite body_binds_app.
    rewrite body_vars_app in Hx. apply in_app_or in Hx as [Hx|Hx]; [apply in_or_app; left; auto|].
    cbn in Hx. destruct Hx as [<-|[]]. apply in_or_app. right. cbn. left; reflexivity.
Qed.

(* ------------------------------------------------------------------ every emitted rule of the core fragment is safe *)
Theorem core_sentence_safe (s : spec) (x : sentence) :
  author_ok x = true -> forallb safe_rule (compile_sentence s x) = true.
Proof.
  induction x as [c|subj label newpred body|required whenpart main wh|l vals y IH|required neg v sval oval]; intros Hok.
  - (* choice *)
    cbn [compile_sentence forallb]. rewrite andb_true_r. unfold compile_choice.
    destruct (card_bounds (ch_card c)) as [lb ub]. cbn [safe_rule].
    set (sv := var_of s (ch_subj c) (ch_slabel c)). set (ov := var_of s (ch_obj c) (ch_olabel c)).
    set (fe := match ch_foreach c with Some e => [(e, auto_var s e)] | None => [] end).
    apply andb_true_iff. split; apply subset_b_spec.
    + (* body: positive atoms only *)
      intros x Hx. apply in_body_vars in Hx as [lit [Hl Hv]]. apply in_body_binds. exists lit. split; [exact Hl|].
      apply in_app_or in Hl as [Hl|Hl].
      * apply in_map_iff in Hl as [p [<- _]]. exact Hv.
      * destruct Hl as [<-|[]]. exact Hv.
    + intros x Hx. cbn [na_args atom_vars] in Hx. unfold atom_vars in Hx. cbn [na_args] in Hx.
      rewrite flat_map_app in Hx. apply in_app_or in Hx as [Hx|Hx].
      * apply in_app_or in Hx as [Hx|Hx].
        -- (* a for-each variable: bound by its own body atom *)
           apply in_or_app. right. apply in_body_binds.
           apply in_flat_map in Hx as [t [Ht Hx]]. apply in_map_iff in Ht as [p [<- Hp]]. cbn in Hx. destruct Hx as [<-|[]].
           exists (BPos (atom1 (fst p) (snd p))). split; [|left; reflexivity].
           apply in_or_app. left. apply in_map_iff. exists p. split; [reflexivity|exact Hp].
        -- cbn in Hx. destruct Hx as [<-|[<-|[]]].
           ++ apply in_or_app. right. apply in_body_binds. exists (BPos (atom1 (ch_subj c) sv)). split; [|left; reflexivity].
              apply in_or_app. right. left; reflexivity.
           ++ apply in_or_app. left. left; reflexivity.
      * cbn in Hx. destruct Hx as [<-|[]]. apply in_or_app. left. left; reflexivity.
  - (* definition *)
    cbn [compile_sentence forallb]. rewrite andb_true_r. cbn [safe_rule]. cbn [author_ok] in Hok. apply mem_string_In in Hok.
    apply subset_b_spec. intros x Hx. apply binds_dedup. apply (clause_lits_binds false).
    apply in_app_or in Hx as [Hx|Hx].
    + cbn in Hx. destruct Hx as [<-|[]]. exact Hok.
    + apply vars_dedup in Hx. now apply clause_lits_vars in Hx.
  - (* constraint *)
    cbn [compile_sentence forallb]. rewrite andb_true_r. cbn [safe_rule]. cbn [author_ok] in Hok.
    set (lits := (flat_map (clause_lits false) whenpart ++ flat_map (clause_lits required) main)%list).
    assert (Hb : forall v, In v (labels_of (whenpart ++ main)) -> In v (body_binds (dedup_keep_last lits))).
    { intros v Hv. apply binds_dedup. unfold lits. rewrite body_binds_app. unfold labels_of in Hv. rewrite flat_map_app in Hv.
      apply in_app_or in Hv as [Hv|Hv]; apply in_or_app; [left|right]; now apply clause_lits_binds. }
    assert (Hv : forall v, In v (body_vars (dedup_keep_last lits)) -> In v (labels_of (whenpart ++ main))).
    { intros v Hv. apply vars_dedup in Hv. unfold lits in Hv. rewrite body_vars_app in Hv. unfold labels_of. rewrite flat_map_app.
      apply in_app_or in Hv as [Hv|Hv]; apply in_or_app; [left|right]; now apply clause_lits_vars in Hv. }
    apply subset_b_spec. intros x Hx. rewrite body_binds_app. apply in_or_app. left.
    rewrite body_vars_app in Hx. apply in_app_or in Hx as [Hx|Hx]; [auto|].
    destruct wh as [w|]; [|destruct Hx]. apply andb_true_iff in Hok as [Hl Hr].
    apply mem_string_In in Hl, Hr. apply where_lit_vars in Hx as [->| ->]; auto.
  - (* where L is one of *)
    cbn [compile_sentence]. cbn [author_ok] in Hok. specialize (IH Hok). apply forallb_forall. intros r Hr.
    apply in_flat_map in Hr as [r0 [Hr0 Hr]]. apply in_map_iff in Hr as [v [<- _]]. apply add_eq_safe.
    rewrite forallb_forall in IH. auto.
  - (* named instance: ground *)
    cbn [compile_sentence forallb]. rewrite andb_true_r. cbn [safe_rule].
    destruct (xorb required neg); reflexivity.
Qed.

(* the declarations are ground facts *)
Theorem core_concept_safe (c : concept) : forallb safe_rule (compile_concept c) = true.
Proof.
  unfold compile_concept. destruct (c_dom c) as [lo hi|vals]; [reflexivity|].
  apply forallb_forall. intros r Hr. apply in_map_iff in Hr as [v [<- _]]. reflexivity.
Qed.

Theorem core_program_safe (s : spec) :
  forallb author_ok (sentences s) = true -> forallb safe_rule (compile s) = true.
Proof.
  intros H. unfold compile. rewrite forallb_app. apply andb_true_iff. split; apply forallb_forall; intros r Hr;
    apply in_flat_map in Hr as [x [Hx Hr]].
  - pose proof (core_concept_safe x) as Hc. rewrite forallb_forall in Hc. auto.
  - rewrite forallb_forall in H. pose proof (core_sentence_safe s x (H x Hx)) as Hc. rewrite forallb_forall in Hc. auto.
Qed.
