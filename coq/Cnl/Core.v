(* The core fragment F0 of DESIGN 4.1: structured syntax, the compile model (observed output shapes, byte-exact on F0),
   grounding, and the READING (the specification, written without reference to the compile model). *)
Require Import Coq.Strings.String Coq.Strings.Ascii Coq.Lists.List Coq.Bool.Bool Coq.Arith.Arith Coq.ZArith.ZArith.
Require Import Cnl2aspV.Base.Util Cnl2aspV.Base.Str Cnl2aspV.Base.Digits Cnl2aspV.Gen.Operators Cnl2aspV.Gen.Tables Cnl2aspV.Gen.Terminals
               Cnl2aspV.Asp.CmpSem Cnl2aspV.Asp.Ground Cnl2aspV.Cnl.Comparison Cnl2aspV.Cnl.Names.
Import ListNotations.
Open Scope string_scope.

(* ------------------------------------------------------------------ syntax *)
Inductive dom := DRange (lo hi : Z) | DEnum (vals : list string).
Record concept := { c_name : string; c_key : string; c_dom : dom }.

Inductive card := CNone | CExactly (n : nat) | CAtMost (n : nat) | CAtLeast (n : nat) | CBetween (n m : nat).
Record verb := { v_word : string; v_copula : bool; v_prep : option string }.       (* "store" / "is kept in" *)

Record choice := { ch_subj : string; ch_slabel : option string; ch_verb : verb; ch_card : card;
                   ch_obj : string; ch_olabel : option string; ch_foreach : option string }.
Record clause := { cl_subj : string; cl_slabel : string; cl_neg : bool; cl_verb : verb; cl_obj : string; cl_olabel : string }.
Record wherec := { w_left : string; w_phrase : string; w_right : string }.

Inductive sentence :=
| SChoice (c : choice)                                                    (* Every c [X] can <verb> [card] a d [Y] [for each e]. *)
| SDef (subj label newpred : string) (body : list clause)                 (* A c X is <newpred> when cl1 [and also cl2 ...]. *)
| SCons (required : bool) (whenpart main : list clause) (wh : option wherec)   (* It is R that [when W then] M [, where X ph Y]. *)
| SOneOf (label : string) (vals : list Z) (x : sentence)                       (* <definition or constraint>, where L is one of v1, v2. *)
| SThere (required neg : bool) (v : verb) (sval oval : string).                (* It is R that there is [not] a <verb> with c k equal to a, with d k equal to b. *)

Record spec := { concepts : list concept; sentences : list sentence }.

(* ------------------------------------------------------------------ values and names *)
Definition term_of_token (t : string) : string := if isnumeric t then t else """" ++ t ++ """".
Fixpoint zrange (lo : Z) (n : nat) : list Z := match n with O => [] | S k => lo :: zrange (lo + 1) k end.
Definition dom_terms (d : dom) : list string :=
  match d with
  | DRange lo hi => map show_Z (zrange lo (Z.to_nat (hi - lo + 1)))
  | DEnum vals => map term_of_token vals
  end.

Definition verb_pred (v : verb) : string := verb_key false (v_word v) (v_prep v).

Definition find_concept (s : spec) (n : string) : option concept := find (fun c => String.eqb (c_name c) n) (concepts s).
Definition key_of (s : spec) (n : string) : string := match find_concept s n with Some c => c_key c | None => "id" end.
Definition auto_var (s : spec) (cname : string) : string := strip_vowels_upper (cname ++ "_" ++ key_of s cname).
Definition var_of (s : spec) (cname : string) (label : option string) : string :=
  match label with Some l => l | None => auto_var s cname end.

(* ------------------------------------------------------------------ non-ground rules *)
Inductive term := TVar (v : string) | TConst (c : string).
Record natom := { na_pred : string; na_args : list term }.
Inductive blit := BPos (a : natom) | BNeg (a : natom) | BCmp (sym : string) (l r : term).
Inductive nrule :=
| NFact (a : natom)
| NRangeFact (pred : string) (lo hi : Z)
| NChoice (lb ub : option nat) (head cond : natom) (body : list blit)
| NRule (head : natom) (body : list blit)
| NCons (body : list blit).

Definition atom1 (p v : string) : natom := {| na_pred := p; na_args := [TVar v] |}.

Definition card_bounds (c : card) : option nat * option nat :=
  match c with CNone => (None, None) | CExactly n => (Some n, Some n) | CAtMost n => (None, Some n)
             | CAtLeast n => (Some n, None) | CBetween n m => (Some n, Some m) end.

Definition compile_concept (c : concept) : list nrule :=
  match c_dom c with
  | DRange lo hi => [NRangeFact (c_name c) lo hi]
  | DEnum vals => map (fun v => NFact {| na_pred := c_name c; na_args := [TConst (term_of_token v)] |}) vals
  end.

Definition compile_choice (s : spec) (c : choice) : nrule :=
  let sv := var_of s (ch_subj c) (ch_slabel c) in
  let ov := var_of s (ch_obj c) (ch_olabel c) in
  let fe := match ch_foreach c with Some e => [(e, auto_var s e)] | None => [] end in
  let head := {| na_pred := verb_pred (ch_verb c); na_args := (map (fun p => TVar (snd p)) fe ++ [TVar sv; TVar ov])%list |} in
  let '(lb, ub) := card_bounds (ch_card c) in
  NChoice lb ub head (atom1 (ch_obj c) ov) (map (fun p => BPos (atom1 (fst p) (snd p))) fe ++ [BPos (atom1 (ch_subj c) sv)])%list.

Definition clause_lits (negate_verb : bool) (cl : clause) : list blit :=
  let va := {| na_pred := verb_pred (cl_verb cl); na_args := [TVar (cl_slabel cl); TVar (cl_olabel cl)] |} in
  [BPos (atom1 (cl_subj cl) (cl_slabel cl)); (if xorb (cl_neg cl) negate_verb then BNeg va else BPos va); BPos (atom1 (cl_obj cl) (cl_olabel cl))].

(* ASPAtom.__eq__ (name, attributes, negation flag); comparisons are never equal to anything *)
Definition term_eqb (a b : term) : bool :=
  match a, b with TVar x, TVar y => String.eqb x y | TConst x, TConst y => String.eqb x y | _, _ => false end.
Fixpoint terms_eqb (a b : list term) : bool :=
  match a, b with [], [] => true | x :: r, y :: s => term_eqb x y && terms_eqb r s | _, _ => false end.
Definition natom_eqb (a b : natom) : bool := String.eqb (na_pred a) (na_pred b) && terms_eqb (na_args a) (na_args b).
Definition lit_same_atom (a b : blit) : bool :=
  match a, b with
  | BPos x, BPos y | BNeg x, BNeg y => natom_eqb x y
  | _, _ => false end.
(* _remove_duplicates: of equal atoms the last one survives *)
Fixpoint dedup_keep_last (l : list blit) : list blit :=
  match l with [] => [] | x :: r => if existsb (lit_same_atom x) r then dedup_keep_last r else x :: dedup_keep_last r end.

Definition where_lit (w : wherec) : list blit :=
  match phrase_op (w_phrase w) with
  | Some op => match op_symbol op with Some sym => [BCmp sym (TVar (w_left w)) (TVar (w_right w))] | None => [] end
  | None => [] end.

(* "where L is one of v1, v2": one copy of the rule per value, with L = v appended to the body *)
Definition add_eq (l : string) (v : Z) (r : nrule) : nrule :=
  let lit := BCmp "=" (TVar l) (TConst (show_Z v)) in
  match r with
  | NRule h b => NRule h (b ++ [lit])%list
  | NCons b => NCons (b ++ [lit])%list
  | NChoice lb ub h c b => NChoice lb ub h c (b ++ [lit])%list
  | other => other end.

Fixpoint compile_sentence (s : spec) (x : sentence) : list nrule :=
  match x with
  | SChoice c => [compile_choice s c]
  | SDef subj label newpred body =>
      [NRule (atom1 newpred label) (dedup_keep_last (flat_map (clause_lits false) body))]
  | SCons required whenpart main wh =>
      [NCons (dedup_keep_last (flat_map (clause_lits false) whenpart ++ flat_map (clause_lits required) main)
              ++ match wh with Some w => where_lit w | None => [] end)%list]
  (* a later "and M is one of ..." clause is the outer constructor: each rule made so far is copied once per value *)
  | SOneOf l vals y => flat_map (fun r => map (fun v => add_eq l v r) vals) (compile_sentence s y)
  | SThere required neg v sval oval =>
      let a := {| na_pred := verb_pred v; na_args := [TConst (term_of_token sval); TConst (term_of_token oval)] |} in
      [NCons [if xorb required neg then BNeg a else BPos a]]
  end.

Definition compile (s : spec) : list nrule := (flat_map compile_concept (concepts s) ++ flat_map (compile_sentence s) (sentences s))%list.

(* ------------------------------------------------------------------ printing *)
Definition print_term (t : term) : string := match t with TVar v => v | TConst c => c end.
Definition print_natom (a : natom) : string := na_pred a ++ "(" ++ join "," (map print_term (na_args a)) ++ ")".
Definition print_lit (l : blit) : string :=
  match l with BPos a => print_natom a | BNeg a => "not " ++ print_natom a | BCmp sym l r => print_term l ++ " " ++ sym ++ " " ++ print_term r end.
Definition print_body (b : list blit) : string := join ", " (map print_lit b).
Definition show_nat (n : nat) : string := show_Z (Z.of_nat n).
Definition print_nrule (r : nrule) : string :=
  match r with
  | NFact a => print_natom a ++ "." ++ nl
  | NRangeFact p lo hi => p ++ "(" ++ show_Z lo ++ ".." ++ show_Z hi ++ ")." ++ nl
  | NChoice lb ub h c b =>
      (match lb with Some l => show_nat l ++ " <= " | None => "" end) ++ "{" ++ print_natom h ++ ": " ++ print_natom c ++ "}" ++
      (match ub with Some u => " <= " ++ show_nat u | None => "" end) ++ " :- " ++ print_body b ++ "." ++ nl
  | NRule h b => print_natom h ++ " :- " ++ print_body b ++ "." ++ nl
  | NCons b => ":- " ++ print_body b ++ "." ++ nl
  end.
Definition print_program (p : list nrule) : string := String.concat "" (map print_nrule p).

(* ------------------------------------------------------------------ grounding over the universe of domain values *)
Fixpoint nodup_str (l : list string) : list string :=
  match l with [] => [] | x :: r => if mem_string x r then nodup_str r else x :: nodup_str r end.
Definition universe (s : spec) : list string := nodup_str (flat_map (fun c => dom_terms (c_dom c)) (concepts s)).

Definition subst := list (string * string).
Definition apply_term (sg : subst) (t : term) : string := match t with TConst c => c | TVar v => match sassoc v sg with Some x => x | None => v end end.
Definition ground_atom (sg : subst) (a : natom) : gatom := na_pred a ++ "(" ++ join "," (map (apply_term sg) (na_args a)) ++ ")".

Definition add_var (v : string) (l : list string) : list string := if mem_string v l then l else (l ++ [v])%list.
Definition vars_of_atom (a : natom) (acc : list string) : list string :=
  fold_left (fun acc t => match t with TVar v => add_var v acc | TConst _ => acc end) (na_args a) acc.
Definition vars_of_lit (l : blit) (acc : list string) : list string :=
  match l with
  | BPos a | BNeg a => vars_of_atom a acc
  | BCmp _ x y => fold_left (fun acc t => match t with TVar v => add_var v acc | TConst _ => acc end) [x; y] acc end.
Definition vars_of_body (b : list blit) : list string := fold_left (fun acc l => vars_of_lit l acc) b [].

Fixpoint all_substs (vars : list string) (U : list string) : list subst :=
  match vars with
  | [] => [[]]
  | v :: r => flat_map (fun x => map (fun sg => (v, x) :: sg) (all_substs r U)) U
  end.

Definition int_of (t : string) : option Z :=
  match t with
  | String "-"%char r => match digits_val r with Some z => Some (- z)%Z | None => None end
  | _ => digits_val t end.
Definition cmp_holds (sym a b : string) : bool :=
  match int_of a, int_of b, kind_of_symbol sym with
  | Some x, Some y, Some k => ksem k x y
  | _, _, _ => false end.

Definition ground_body (sg : subst) (b : list blit) : option gbody :=
  if forallb (fun l => match l with BCmp sym x y => cmp_holds sym (apply_term sg x) (apply_term sg y) | _ => true end) b
  then Some {| b_pos := flat_map (fun l => match l with BPos a => [ground_atom sg a] | _ => [] end) b;
               b_neg := flat_map (fun l => match l with BNeg a => [ground_atom sg a] | _ => [] end) b |}
  else None.

Definition ground_rule (U : list string) (r : nrule) : list grule :=
  match r with
  | NFact a => [GRule (ground_atom [] a) {| b_pos := []; b_neg := [] |}]
  | NRangeFact p lo hi => map (fun z => GRule (p ++ "(" ++ show_Z z ++ ")") {| b_pos := []; b_neg := [] |}) (zrange lo (Z.to_nat (hi - lo + 1)))
  | NRule h b =>
      flat_map (fun sg => match ground_body sg b with Some gb => [GRule (ground_atom sg h) gb] | None => [] end)
               (all_substs (vars_of_atom h (vars_of_body b)) U)
  | NCons b =>
      flat_map (fun sg => match ground_body sg b with Some gb => [GConstraint gb] | None => [] end) (all_substs (vars_of_body b) U)
  | NChoice lb ub h c b =>
      let gv := vars_of_body b in
      let lv := filter (fun v => negb (mem_string v gv)) (vars_of_atom c (vars_of_atom h [])) in
      flat_map (fun sg => match ground_body sg b with
                          | Some gb => [GChoice lb ub (map (fun sl => (ground_atom (sl ++ sg)%list h, [ground_atom (sl ++ sg)%list c])) (all_substs lv U)) gb]
                          | None => [] end) (all_substs gv U)
  end.

Definition ground (s : spec) : list grule := flat_map (ground_rule (universe s)) (compile s).

(* ------------------------------------------------------------------ the READING *)
Definition dom_of (s : spec) (cname : string) : list string :=
  match find_concept s cname with Some c => dom_terms (c_dom c) | None => [] end.
Definition atom_text (p : string) (args : list string) : gatom := p ++ "(" ++ join "," args ++ ")".

(* (i) every concept has exactly its declared values *)
Definition r_domains (s : spec) (I : interp) : bool :=
  forallb (fun c => forallb (fun v => holds I (atom_text (c_name c) [v])) (dom_terms (c_dom c))) (concepts s).

(* typed bindings of the labels of a list of clauses *)
Definition clause_labels (cls : list clause) : list (string * string) :=      (* label -> concept *)
  fold_left (fun acc cl =>
               let acc1 := if existsb (fun p => String.eqb (fst p) (cl_slabel cl)) acc then acc else (acc ++ [(cl_slabel cl, cl_subj cl)])%list in
               if existsb (fun p => String.eqb (fst p) (cl_olabel cl)) acc1 then acc1 else (acc1 ++ [(cl_olabel cl, cl_obj cl)])%list) cls [].
Fixpoint typed_bindings (s : spec) (labels : list (string * string)) : list subst :=
  match labels with
  | [] => [[]]
  | (l, c) :: r => flat_map (fun x => map (fun sg => (l, x) :: sg) (typed_bindings s r)) (dom_of s c)
  end.
Definition lookup (sg : subst) (l : string) : string := match sassoc l sg with Some x => x | None => l end.

(* a clause 'c X [neg] verb d Y' under a binding of its labels *)
Definition clause_holds (I : interp) (sg : subst) (flip : bool) (cl : clause) : bool :=
  xorb (xorb (cl_neg cl) flip) (holds I (atom_text (verb_pred (cl_verb cl)) [lookup sg (cl_slabel cl); lookup sg (cl_olabel cl)])).
Definition where_holds (sg : subst) (w : option wherec) : bool :=
  match w with
  | None => true
  | Some w => match named_comparison (w_phrase w) 0 0, int_of (lookup sg (w_left w)), int_of (lookup sg (w_right w)) with
              | Some _, Some a, Some b => match named_comparison (w_phrase w) a b with Some r => r | None => false end
              | _, _, _ => false end
  end.

(* ok: an extra condition on the binding ("where L is one of ..."): the sentence speaks only of the bindings that meet it *)
Fixpoint r_sentence_ok (s : spec) (I : interp) (ok : subst -> bool) (x : sentence) : bool :=
  match x with
  | SChoice c =>
      (* every qualifying subject (and for-each object) picks a number of admissible objects within the bounds *)
      let '(lb, ub) := card_bounds (ch_card c) in
      let fes := match ch_foreach c with Some e => map (fun z => [z]) (dom_of s e) | None => [[]] end in
      forallb (fun fe => forallb (fun x0 =>
                 let n := length (filter (fun y => holds I (atom_text (verb_pred (ch_verb c)) (fe ++ [x0; y])%list)) (dom_of s (ch_obj c))) in
                 (match lb with Some l => Nat.leb l n | None => true end) && (match ub with Some u => Nat.leb n u | None => true end))
               (dom_of s (ch_subj c))) fes
  | SDef subj label newpred body =>
      (* the derived property holds exactly of the subjects for which some binding makes all conditions true *)
      forallb (fun x0 => Bool.eqb (holds I (atom_text newpred [x0]))
                                  (existsb (fun sg => ok sg && String.eqb (lookup sg label) x0 && forallb (clause_holds I sg false) body)
                                           (typed_bindings s (clause_labels body))))
              (dom_of s subj)
  | SCons required whenpart main wh =>
      (* prohibited: no binding makes everything true; required: no binding makes the when-part true and the main part false *)
      negb (existsb (fun sg => ok sg && forallb (clause_holds I sg false) whenpart && forallb (clause_holds I sg required) main && where_holds sg wh)
                    (typed_bindings s (clause_labels (whenpart ++ main))))
  | SOneOf l vals y =>
      r_sentence_ok s I (fun sg => ok sg && existsb (fun v => String.eqb (lookup sg l) (show_Z v)) vals) y
  | SThere required neg v sval oval =>
      (* required and positive, or prohibited and negated: the named instance holds; otherwise it does not *)
      Bool.eqb (holds I (atom_text (verb_pred v) [term_of_token sval; term_of_token oval])) (xorb required neg)
  end.
Definition r_sentence (s : spec) (I : interp) (x : sentence) : bool := r_sentence_ok s I (fun _ => true) x.

Fixpoint base_sentence (x : sentence) : sentence := match x with SOneOf _ _ y => base_sentence y | _ => x end.

(* which atoms may occur at all: concept values, admissible instances of chosen relations, derived properties of subjects *)
Definition admissible (s : spec) (a : gatom) : bool :=
  existsb (fun c => existsb (fun v => String.eqb a (atom_text (c_name c) [v])) (dom_terms (c_dom c))) (concepts s) ||
  existsb (fun x => match base_sentence x with
                    | SChoice c =>
                        let fes := match ch_foreach c with Some e => map (fun z => [z]) (dom_of s e) | None => [[]] end in
                        existsb (fun fe => existsb (fun x0 => existsb (fun y => String.eqb a (atom_text (verb_pred (ch_verb c)) (fe ++ [x0; y])%list))
                                                                     (dom_of s (ch_obj c))) (dom_of s (ch_subj c))) fes
                    | SDef subj _ newpred _ => existsb (fun x0 => String.eqb a (atom_text newpred [x0])) (dom_of s subj)
                    | SCons _ _ _ _ => false
                    | SOneOf _ _ _ => false
                    | SThere _ _ _ _ _ => false end) (sentences s).

Definition reading (s : spec) (I : interp) : bool :=
  r_domains s I && forallb (admissible s) I && forallb (r_sentence s I) (sentences s).
