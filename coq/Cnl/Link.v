(* Model of the automatic join of two atoms (asp_converter.py: _link_two_atoms, _link_atom_to_attribute;
   attribute_component.py: AttributeOrigin.__eq__, is_same_origin; asp_atom.py: get_attributes_list*, set_attributes_value,
   has_attribute; asp_attribute.py: __eq__). *)
Require Import Coq.Strings.String Coq.Strings.Ascii Coq.Lists.List Coq.Bool.Bool Coq.Arith.Arith.
Require Import Cnl2aspV.Base.Util Cnl2aspV.Base.Str Cnl2aspV.Asp.Syntax Cnl2aspV.Asp.Print Cnl2aspV.Cnl.Fresh.
Import ListNotations.
Open Scope string_scope.

(* AttributeOrigin.__eq__ : chains of equal length with pairwise equal names (NameComponent equality) *)
Fixpoint origin_eqb (o1 o2 : origin) : bool :=
  match o1, o2 with
  | [], [] => true
  | a :: r, b :: s => oname_eq a b && origin_eqb r s
  | _, _ => false end.

(* is_same_origin : equal, or one is the other without its first link *)
Definition same_origin (o1 o2 : origin) : bool :=
  match o1, o2 with
  | [], [] => true
  | [], _ | _, [] => false
  | _ :: t1, _ :: t2 => origin_eqb o1 o2 || origin_eqb t1 o2 || origin_eqb t2 o1
  end.

Definition is_null (a : attr) : bool := String.eqb (a_value a) "_".

(* ASPAtom.get_attributes_list(name) / (name, origin): positions *)
Fixpoint positions_by_name (name : string) (l : list attr) (i : nat) : list nat :=
  match l with [] => [] | a :: r => (if String.eqb (a_name a) name then [i] else []) ++ positions_by_name name r (S i) end.
Fixpoint positions_by_name_origin (name : string) (o : origin) (l : list attr) (i : nat) : list nat :=
  match l with
  | [] => []
  | a :: r => (if String.eqb (a_name a) name && same_origin (a_origin a) o then [i] else []) ++ positions_by_name_origin name o r (S i)
  end.

Definition set_value (a : attr) (v : string) : attr := {| a_name := a_name a; a_value := v; a_origin := a_origin a |}.
Fixpoint update_nth (n : nat) (f : attr -> attr) (l : list attr) : list attr :=
  match n, l with O, a :: r => f a :: r | S k, a :: r => a :: update_nth k f r | _, [] => [] end.

(* ASPAtom.set_attributes_value([ASPAttribute(name, v, origin)]): the first null attribute among those matching (name[, origin]) *)
Definition set_first_null (name v : string) (o : origin) (l : list attr) : list attr :=
  let cands := match o with [] => positions_by_name name l 0 | _ => positions_by_name_origin name o l 0 end in
  match find (fun i => match nth_error l i with Some a => is_null a | None => false end) cands with
  | Some i => update_nth i (fun a => set_value a v) l
  | None => l end.

Definition has_attribute (a : attr) (l : list attr) : bool := attr_in a l.       (* `a in self.attributes` : name and value *)

Record lstate := { ls_target : list attr;      (* attributes of the atom being completed ("atom_1" of _link_atom_to_attribute) *)
                   ls_other : list attr;       (* attributes of the atom owning `attribute` ("atom_2") *)
                   ls_linked : list attr; ls_taken : list string }.

(* _link_atom_to_attribute(target, other[k], other, linked) *)
Fixpoint link_loop (target_name : string) (k : nat) (cands : list nat) (st : lstate) : lstate :=
  match cands with
  | [] => st
  | i :: rest =>
    match nth_error (ls_target st) i, nth_error (ls_other st) k with
    | Some a1, Some attribute =>
      if (negb (is_null a1) && has_attribute a1 (ls_other st)) || (negb (is_null attribute) && has_attribute attribute (ls_target st))
      then link_loop target_name k rest st
      else if attr_in a1 (ls_linked st) then link_loop target_name k rest st
      else if same_origin (a_origin a1) (a_origin attribute) then
        (* a name is generated (and recorded) even when it ends up unused *)
        let base := target_name ++ "_" ++ a_name attribute in
        match create_new_field_value (length (ls_taken st) + 3) (ls_taken st) base with
        | None => st
        | Some fresh =>
          let taken' := (ls_taken st ++ [fresh])%list in
          if negb (is_null attribute) && negb (is_null a1)
          then link_loop target_name k rest {| ls_target := ls_target st; ls_other := ls_other st; ls_linked := ls_linked st; ls_taken := taken' |}
          else
            let v := if negb (is_null a1) then a_value a1 else if negb (is_null attribute) then a_value attribute else fresh in
            let target' := set_first_null (a_name attribute) v (a_origin attribute) (ls_target st) in
            let other' := update_nth k (fun a => set_value a v) (ls_other st) in
            {| ls_target := target'; ls_other := other';
               (* the list holds the OBJECTS: `attribute` now carries v, and a1 is whatever position i holds after the update *)
               ls_linked := (ls_linked st ++ [set_value attribute v; match nth_error target' i with Some x => x | None => a1 end])%list;
               ls_taken := taken' |}
        end
      else link_loop target_name k rest st
    | _, _ => st
    end
  end.

Definition link_attr (target_name : string) (k : nat) (st : lstate) : lstate :=
  match nth_error (ls_other st) k with
  | Some attribute => link_loop target_name k (positions_by_name (a_name attribute) (ls_target st) 0) st
  | None => st end.

(* an entity key as _link_two_atoms sees it *)
Record ekey := { k_name : string; k_origin : origin }.

Definition swap (st : lstate) : lstate :=
  {| ls_target := ls_other st; ls_other := ls_target st; ls_linked := ls_linked st; ls_taken := ls_taken st |}.

(* _link_two_atoms(entity_1, entity_2, atom_1, atom_2, linked): keys of 1 pushed into 2, then keys of 2 into 1 *)
Definition link_two (name1 name2 : string) (keys1 keys2 : list ekey) (attrs1 attrs2 : list attr) (linked : list attr) (taken : list string)
  : list attr * list attr * list string :=
  (* phase 1: target = atom_2, other = atom_1 *)
  let st0 := {| ls_target := attrs2; ls_other := attrs1; ls_linked := linked; ls_taken := taken |} in
  let st1 := fold_left (fun st key =>
                 fold_left (fun st k => link_attr name2 k st)
                           (positions_by_name_origin (k_name key) (k_origin key) (ls_other st) 0) st) keys1 st0 in
  (* phase 2: target = atom_1, other = atom_2; keys already linked are skipped *)
  let st2 := fold_left (fun st key =>
                 fold_left (fun st k => match nth_error (ls_other st) k with
                                        | Some a => if attr_in a (ls_linked st) then st else link_attr name1 k st
                                        | None => st end)
                           (positions_by_name_origin (k_name key) (k_origin key) (ls_other st) 0) st) keys2 (swap st1) in
  (ls_target st2, ls_other st2, ls_taken st2).
