Require Import Coq.Strings.String Coq.Lists.List Coq.Bool.Bool.
Require Import Cnl2aspV.Gen.Operators Cnl2aspV.Asp.Syntax Cnl2aspV.Asp.Print.
Import ListNotations.
Open Scope string_scope.

Record pcase := { pc_enc : encoding; pc_flat : string; pc_fn : string }.
Definition flat_ok (c : pcase) : bool := String.eqb (print_encoding false (pc_enc c)) (pc_flat c).
Definition fn_ok (c : pcase) : bool := String.eqb (print_encoding true (pc_enc c)) (pc_fn c).
