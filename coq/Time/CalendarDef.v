(* Proleptic Gregorian calendar: date <-> ordinal, the algorithm of CPython's datetime (_ymd2ord / _ord2ymd),
   and the text of '%d/%m/%Y'. *)
Require Import Coq.Strings.String Coq.Strings.Ascii Coq.ZArith.ZArith Coq.Lists.List Coq.Bool.Bool Lia.
Require Import Cnl2aspV.Base.Digits Cnl2aspV.Base.RangeCheck.
Import ListNotations.
Open Scope string_scope.
Open Scope Z_scope.

Definition is_leap (y : Z) : bool := (y mod 4 =? 0) && (negb (y mod 100 =? 0) || (y mod 400 =? 0)).
Definition days_before_year (year : Z) : Z := let y := year - 1 in y * 365 + y / 4 - y / 100 + y / 400.
Definition days_in_month_tab (m : Z) : Z :=
  if m =? 2 then 28 else if (m =? 4) || (m =? 6) || (m =? 9) || (m =? 11) then 30 else 31.
Definition days_in_month (y m : Z) : Z := if (m =? 2) && is_leap y then 29 else days_in_month_tab m.
Definition days_before_month_tab (m : Z) : Z :=
  match m with 1 => 0 | 2 => 31 | 3 => 59 | 4 => 90 | 5 => 120 | 6 => 151 | 7 => 181 | 8 => 212 | 9 => 243
             | 10 => 273 | 11 => 304 | 12 => 334 | _ => 0 end.
Definition b2z (b : bool) : Z := if b then 1 else 0.
Definition days_before_month (y m : Z) : Z := days_before_month_tab m + b2z ((2 <? m) && is_leap y).
Definition ord_of_ymd (y m d : Z) : Z := days_before_year y + days_before_month y m + d.

Definition DI400Y := 146097.  Definition DI100Y := 36524.  Definition DI4Y := 1461.
Definition max_ord := 3652059.   (* date(9999,12,31).toordinal() *)

(* _ord2ymd after its first divmod (n400 = 0): r = (n-1) mod DI400Y, years counted from 1 *)
Definition ymd_cycle (r : Z) : Z * Z * Z :=
  let n := r in
  let year := 1 in
  let n100 := n / DI100Y in let n := n mod DI100Y in
  let n4 := n / DI4Y in let n := n mod DI4Y in
  let n1 := n / 365 in let n := n mod 365 in
  let year := year + n100 * 100 + n4 * 4 + n1 in
  if (n1 =? 4) || (n100 =? 4) then (year - 1, 12, 31)
  else
    let leapyear := (n1 =? 3) && (negb (n4 =? 24) || (n100 =? 3)) in
    let month := Z.shiftr (n + 50) 5 in
    let preceding := days_before_month_tab month + b2z ((2 <? month) && leapyear) in
    if n <? preceding
    then let month' := month - 1 in
         let preceding' := preceding - (days_in_month_tab month' + b2z ((month' =? 2) && leapyear)) in
         (year, month', n - preceding' + 1)
    else (year, month, n - preceding + 1).

(* _ord2ymd: year = n400*400 + (year within the 400-year cycle) *)
Definition ymd_of_ord (n0 : Z) : Z * Z * Z :=
  let n := n0 - 1 in
  match ymd_cycle (n mod DI400Y) with (y, m, d) => (n / DI400Y * 400 + y, m, d) end.

Definition valid_md (y m d : Z) : bool := (1 <=? m) && (m <=? 12) && (1 <=? d) && (d <=? days_in_month y m).
Definition valid_ymd (y m d : Z) : bool := (1 <=? y) && (y <=? 9999) && valid_md y m d.

Definition cycle_ok (r : Z) : bool :=
  match ymd_cycle r with (y, m, d) =>
    (1 <=? y) && (y <=? 400) && valid_md y m d && (ord_of_ymd y m d =? r + 1)
    && (negb (r <=? 145730) || (y <=? 399)) && (negb (72683 <=? r) || (200 <=? y)) end.

Lemma cycle_check : range_check cycle_ok 0 146097 = true.
Proof. vm_compute. reflexivity. Qed.

(* '%d/%m/%Y' for years 1000..9999 (below 1000 glibc does not pad: outside the model, see Range.v) *)
Definition fmt_date (y m d : Z) : string := pad2 d ++ "/" ++ pad2 m ++ "/" ++ pad4 y.

(* strptime fields: %d = 3[01]|[12]\d|0[1-9]|[1-9] ; %m = 1[0-2]|0[1-9]|[1-9] ; %Y = \d\d\d\d *)
Definition parse_1or2 (s : string) (hi : Z) : option Z :=
  match digits_val s with
  | Some v => if (((String.length s =? 1)%nat || (String.length s =? 2)%nat) && (1 <=? v) && (v <=? hi))%bool then Some v else None
  | None => None end.
Definition parse_year (s : string) : option Z :=
  match digits_val s with Some v => if (String.length s =? 4)%nat then Some v else None | None => None end.

(* the three NUMBER tokens of `temporal_value` -> ordinal (datetime() rejects invalid days and year 0) *)
Definition parse_date_fields (d m y : string) : option Z :=
  match parse_1or2 d 31, parse_1or2 m 12, parse_year y with
  | Some dv, Some mv, Some yv => if valid_ymd yv mv dv then Some (ord_of_ymd yv mv dv) else None
  | _, _, _ => None end.

Definition parse_date (s : string) : option Z :=
  match s with
  | String d1 (String d2 (String "/" (String m1 (String m2 (String "/" y))))) =>
      parse_date_fields (String d1 (String d2 "")) (String m1 (String m2 "")) y
  | _ => None end.

Definition fmt_ord (n : Z) : string := match ymd_of_ord n with (y, m, d) => fmt_date y m d end.

Definition min_fmt_ord := 364878.  (* date(1000,1,1).toordinal() *)

