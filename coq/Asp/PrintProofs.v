Require Import Coq.Strings.String Coq.Strings.Ascii Coq.Lists.List Coq.Bool.Bool Coq.Arith.Arith Lia.
Require Import Cnl2aspV.Base.Util Cnl2aspV.Base.Str Cnl2aspV.Gen.Operators Cnl2aspV.Asp.Syntax Cnl2aspV.Asp.Print.
Import ListNotations.
Open Scope string_scope.

(* an attribute that is NOT wrapped in function-term mode: no origin, or an origin named like the atom itself *)
Definition own_attr (self : string) (a : attr) : bool :=
  match a_origin a with [] => true | o :: _ => oname_eq_str o self end.

Lemma nat_in_lt i visited : (forall j, In j visited -> j < i) -> nat_in i visited = false.
Proof.
  intros H. unfold nat_in. apply not_true_is_false. intros E. apply existsb_exists in E as (j & Hj & Ej).
  apply Nat.eqb_eq in Ej. subst. specialize (H _ Hj). lia.
Qed.

Lemma fn_loop_own nested self all : forall todo i visited,
  forallb (own_attr self) todo = true -> (forall j, In j visited -> j < i) ->
  fn_loop nested self all (index_from i todo) visited = map a_value todo.
Proof.
  induction todo as [|a r IH]; intros i visited Hown Hv; [reflexivity|].
  cbn [index_from fn_loop forallb map] in *. apply andb_true_iff in Hown as [Ha Hr].
  rewrite (nat_in_lt i visited Hv).
  assert (Hv' : forall j, In j (i :: visited) -> j < S i) by (intros j [<-|Hj]; [lia|specialize (Hv _ Hj); lia]).
  unfold own_attr in Ha. destruct (a_origin a) as [|o ro].
  - f_equal. apply IH; assumption.
  - rewrite Ha. cbn [negb]. f_equal. apply IH; assumption.
Qed.

(* C14, the unwrapped case: an atom none of whose attributes is inherited prints identically in both modes *)
Theorem fn_equals_flat_on_own_attributes a :
  forallb (own_attr (at_name a)) (at_attrs a) = true -> print_atom_fn a = print_atom_flat a.
Proof.
  intros H. unfold print_atom_fn, print_atom_flat. cbn [print_atom_fn_fuel].
  rewrite (fn_loop_own _ (at_name a) _ (at_attrs a) 0 [] H) by (intros j []).
  destruct (at_name a); reflexivity.
Qed.
