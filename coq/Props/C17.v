(* C17 — faulty specifications are rejected with the fault's name and line (static part).
   Gen/ExcFlow.v is the raise/catch skeleton of every function of the parser side, regenerated from /repo by
   tools/translate/gen_excflow.py on every run.  Over that finite skeleton (all functions, all raise sites) the theorem says:
   an exception can leave a transformer callback without the line of the sentence only along the rows of the hand-maintained
   list Api/ExcFlowAccepted.v.  Removing a handler, narrowing its classes, or adding an unguarded lookup adds a row and
   breaks the theorem.  The dynamic part (fault injection on the real compiler) is in tools/harness/props/c17.py. *)
Require Import Coq.Strings.String Coq.Lists.List Coq.Bool.Bool.
Require Import Cnl2aspV.Api.ExcFlowSem Cnl2aspV.Gen.ExcFlow Cnl2aspV.Api.ExcFlowAccepted Cnl2aspV.Api.ExcFlowProofs.
Import ListNotations.
Open Scope string_scope.

Theorem C17_analysis_is_a_fixpoint : table_eqb (step_table functions escape_table) escape_table = true.
Proof. exact table_is_fixpoint. Qed.

Theorem C17_lookup_failures_are_stamped :
  forall cb, In cb callbacks ->
  forall via cls, In (via, cls) (unstamped (escapes_of functions escape_table cb)) -> is_accepted cb via cls = true.
Proof. exact lookup_failures_are_stamped. Qed.
Print Assumptions C17_lookup_failures_are_stamped.

Theorem C17_accepted_rows_are_live : forallb row_is_live accepted_unstamped = true.
Proof. exact accepted_rows_live. Qed.

Theorem C17_core_lookups_stamped :
  stamped_example "CNLTransformer.simple_entity" "LabelNotFound" = true /\
  stamped_example "CNLTransformer.temporal_constraint" "KeyError" = true /\
  stamped_example "CNLTransformer.generic_element" "AttributeGenericError" = true /\
  stamped_example "CNLTransformer.parameter_entity_link" "AttributeNotFound" = true /\
  stamped_example "CNLTransformer.single_quantity_cardinality" "CompilationError" = true.
Proof. exact core_lookups_stamped. Qed.
