(* Sentence templates of the C03 correspondence stream: the text surrounding the comparison, per operand shape.
   (Observed output shapes, DESIGN.md appendix A; the comparison part is computed by Cnl/Comparison.v.) *)
Require Import Coq.Strings.String Coq.ZArith.ZArith Coq.Lists.List Coq.Bool.Bool.
Require Import Cnl2aspV.Base.Util Cnl2aspV.Cnl.Comparison Cnl2aspV.Asp.CmpSem.
Import ListNotations.
Open Scope string_scope.

Inductive shape := ShVarNum | ShVarVar | ShAttr | ShArith | ShAgg.

Definition agg_text := "#count{node(ND_D,ND_WGHT): node(ND_D,ND_WGHT)}".

(* printed left operand of the comparison for each shape; t is the printed right operand / threshold *)
Definition lhs_of (sh : shape) : string :=
  match sh with ShVarNum => "X" | ShVarVar => "X" | ShAttr => "ND_WGHT" | ShArith => "(X + Y)" | ShAgg => agg_text end.

Definition wrap (sh : shape) (cmp : string) : string :=
  match sh with
  | ShVarNum => ":- " ++ cmp ++ ", node(X,_)."
  | ShVarVar => ":- " ++ cmp ++ ", pair(X,Y)."
  | ShAttr => ":- node(X,ND_WGHT), " ++ cmp ++ "."
  | ShArith => ":- " ++ cmp ++ ", pair(X,Y)."
  | ShAgg => ":- " ++ cmp ++ "."
  end ++ String (Ascii.ascii_of_nat 10) "".

Definition is_agg (sh : shape) : bool := match sh with ShAgg => true | _ => false end.

Definition simple_program (sh : shape) (required : bool) (ph t : string) : option string :=
  option_map (wrap sh) (print_simple required ph (lhs_of sh) t).

Definition between_program (sh : shape) (required : bool) (l u : string) : option string :=
  option_map (wrap sh) (print_between required (is_agg sh) (lhs_of sh) l u).

(* correspondence cases *)
Inductive c03case :=
| CSimple (sh : shape) (required : bool) (ph t : string) (impl_out : string)
| CBetween (sh : shape) (required : bool) (l u : string) (impl_out : string).

Definition opt_str_eqb (o : option string) (s : string) : bool :=
  match o with Some x => String.eqb x s | None => false end.

Definition corr_ok (c : c03case) : bool :=
  match c with
  | CSimple sh r ph t out => opt_str_eqb (simple_program sh r ph t) out
  | CBetween sh r l u out => opt_str_eqb (between_program sh r l u) out
  end.

(* oracle cases: clingo's verdict (accepted = the constraint did not reject the instance) for value a, threshold(s) *)
Inductive c03obs :=
| OSimple (required : bool) (ph : string) (a b : Z) (accepted : bool)
| OBetween (required : bool) (x l u : Z) (accepted : bool).

Definition opt_bool_eqb (o : option bool) (b : bool) : bool :=
  match o with Some x => Bool.eqb x b | None => false end.

(* the PROPERTY as an executable oracle: prohibited accepts iff the named comparison is false, required iff true *)
Definition obs_ok (o : c03obs) : bool :=
  match o with
  | OSimple r ph a b acc => opt_bool_eqb (named_comparison ph a b) (if r then acc else negb acc)
  | OBetween r x l u acc => Bool.eqb ((l <=? x)%Z && (x <=? u)%Z) (if r then acc else negb acc)
  end.

(* does the MODEL predict clingo's verdict (validates model semantics, incl. the refuted between case) *)
Definition obs_model_ok (o : c03obs) : bool :=
  match o with
  | OSimple r ph a b acc => opt_bool_eqb (compile_simple r ph a b) (negb acc)
  | OBetween r x l u acc => opt_bool_eqb (compile_between r false x l u) (negb acc)
  end.
