"""Preference sentences (C04) over the vocabulary of gen_agg: rooms 1..n, shelves (id, weight), host(room, shelf) chosen per room
within optional bounds; 1..3 preferences of the three forms with distinct priorities.  Every random choice comes from the
random.Random passed in."""
from common import coq_str, coq_list, coq_opt, coq_z

FN_PHRASE = {'count': 'the number of', 'sum': 'the total of'}
DIRS = ['minimized', 'maximized', 'as_little', 'as_much']
PHRASES = ['equal to', 'different from', 'greater than', 'less than', 'at least', 'at most', 'more than']


def gen_pref(rnd, prio, allow_as_much):
    kind = rnd.choice(['agg_all', 'agg_room', 'var', 'var', 'clause', 'cmp'])
    if kind in ('agg_all', 'agg_room', 'var'):
        d = rnd.choice(['minimized', 'maximized'])
    else:
        d = rnd.choice(['minimized', 'maximized', 'as_little', 'as_little'] + (['as_much'] if allow_as_much else []))
    p = dict(kind=kind, dir=d, prio=prio)
    if kind == 'agg_all':
        p['fn'] = rnd.choice(['count', 'sum'])
        p['col'] = rnd.choice(['room', 'shelf'])
    elif kind == 'agg_room':
        p['fn'] = rnd.choice(['count', 'sum'])
    elif kind == 'var':
        p['col'] = rnd.choice(['room', 'shelf', 'weight', 'weight'])
    elif kind == 'cmp':
        p['col'] = rnd.choice(['room', 'shelf', 'weight', 'weight'])
        p['phrase'] = rnd.choice(PHRASES)
        p['k'] = rnd.randint(1, 4)
    p['only'] = None
    return p


def gen(rnd, big=False, as_much_share=0.12):
    n = rnd.randint(1, 2)
    m = rnd.randint(2, 3)
    if big and rnd.random() < 0.3:
        n, m = rnd.choice([(3, 2), (2, 4), (3, 3)])
    ids = sorted(rnd.sample(range(1, 5), m)) if rnd.random() < 0.5 else list(range(1, m + 1))
    wpool = rnd.choice([[3, 3, 5, 2], [1, 1, 1, 2], [2, 4, 2, 4], [0, 3, 3, 1], [1, 2, 3, 4]])
    shelves = [(i, rnd.choice(wpool)) for i in ids]
    card = rnd.choice([('none',), ('none',), ('exactly', 1), ('atmost', 1), ('atmost', 2), ('atleast', 1), ('between', 1, 2)])
    k = rnd.choice([1, 1, 2, 2, 3])
    if rnd.random() < 0.5:
        prios = rnd.sample(['low', 'medium', 'high'], min(k, 3))
    else:
        prios = rnd.sample(range(0, 6), k)
    allow = rnd.random() < as_much_share
    prefs = [gen_pref(rnd, pr, allow) for pr in prios]
    # ', where R is one of v1, v2': the preference speaks of those rooms only (forms that mention the room variable R)
    for p in prefs:
        if p['kind'] in ('agg_room', 'var', 'clause', 'cmp') and rnd.random() < 0.25:
            pool = list(range(1, n + 2))
            p['only'] = sorted(rnd.sample(pool, min(len(pool), rnd.choice([1, 2]))))
    # the author's variable names: plain letters, or legal names with digits / underscores (the model's names are irrelevant: both sides are
    # renamed by first occurrence)
    names = rnd.choice([('R', 'S', 'W'), ('R', 'S', 'W'), ('R1', 'S_2', 'W3'), ('X1', 'Y2', 'Z_3')])
    return dict(rooms=n, shelves=shelves, card=card, prefs=prefs, names=names)


def directed():
    """fixed specifications every run includes: two preferences on adjacent numeric levels whose optima conflict, the lower one (level 0
    included) restricted by ', where R is one of ...' (the copies made for the values must stay on the level the sentence names)"""
    out = []
    for lo, hi in ((0, 1), (1, 2), (0, 3)):
        for only in ([1, 2], [1]):
            for names in (('R', 'S', 'W'), ('X1', 'Y2', 'Z_3')):
                out.append(dict(rooms=2, shelves=[(1, 2), (4, 1)], card=('exactly', 1), names=names, prefs=[
                    dict(kind='var', dir='minimized', prio=hi, col='weight', only=None),
                    dict(kind='var', dir='minimized', prio=lo, col='shelf', only=only)]))
    return out


def render_pref(p, names=('R', 'S', 'W')):
    t = render_pref0(p)
    if p.get('only'):
        t = t[:-1] + ', where R is one of %s.' % ', '.join(str(v) for v in p['only'])
    if tuple(names) != ('R', 'S', 'W'):
        import re
        m = dict(zip(('R', 'S', 'W'), names))
        t = re.sub(r'(?<![A-Za-z0-9_])([RSW])(?![A-Za-z0-9_])', lambda x: m[x.group(1)], t)
    return t


def render_pref0(p):
    pr = 'with %s priority' % p['prio'] if isinstance(p['prio'], str) else 'with priority %d' % p['prio']
    stmt = {'as_little': ' as little as possible', 'as_much': ' as much as possible'}.get(p['dir'], '')
    op = {'minimized': ' is minimized', 'maximized': ' is maximized'}.get(p['dir'], '')
    head = 'It is preferred%s, %s, that ' % (stmt, pr)
    k = p['kind']
    colname = {'room': 'R', 'shelf': 'S', 'weight': 'W'}
    hostc = 'whenever there is a host with room id R, with shelf id S'
    shelfc = ', whenever there is a shelf with id S, with weight W'
    if k == 'agg_all':
        return head + '%s %s id of a host%s.' % (FN_PHRASE[p['fn']], p['col'], op)
    if k == 'agg_room':
        return head + '%s shelf id of a host with room id R%s, whenever there is a room R.' % (FN_PHRASE[p['fn']], op)
    if k == 'var':
        return head + hostc + (shelfc if p['col'] == 'weight' else '') + ', %s%s.' % (colname[p['col']], op)
    if k == 'clause':
        return head + 'there is a host with room id R, with shelf id S%s.' % op
    if k == 'cmp':
        return head + '%s is %s %d%s, %s%s.' % (colname[p['col']], p['phrase'], p['k'], op, hostc, shelfc if p['col'] == 'weight' else '')
    raise ValueError(k)


def render(spec):
    lines = ['A room is identified by an id.', 'A shelf is identified by an id, and has a weight.', 'A room goes from 1 to %d.' % spec['rooms']]
    for i, w in spec['shelves']:
        lines.append('There is a shelf with id %d, with weight %d.' % (i, w))
    c = spec['card']
    ct = {'none': 'a ', 'exactly': 'exactly %d ', 'atmost': 'at most %d ', 'atleast': 'at least %d ', 'between': 'between %d and %d '}[c[0]]
    ct = ct % tuple(c[1:]) if c[0] != 'none' else ct
    lines.append('Every room can host %sshelf.' % ct)
    for p in spec['prefs']:
        lines.append(render_pref(p, spec.get('names', ('R', 'S', 'W'))))
    return '\n'.join(lines) + '\n'


def c_pref(p):
    FN = {'count': 'ACount', 'sum': 'ASum'}
    COL = {'room': 'KRoom', 'shelf': 'KShelf', 'weight': 'KWeight'}
    k = p['kind']
    if k == 'agg_all':
        f = '(PAggAll %s %s)' % (FN[p['fn']], COL[p['col']])
    elif k == 'agg_room':
        f = '(PAggPerRoom %s)' % FN[p['fn']]
    elif k == 'var':
        f = '(PVar %s)' % COL[p['col']]
    elif k == 'clause':
        f = 'PClause'
    else:
        f = '(PCmp %s %s %s)' % (COL[p['col']], coq_str(p['phrase']), coq_z(p['k']))
    d = {'minimized': 'DMinimized', 'maximized': 'DMaximized', 'as_little': 'DAsLittle', 'as_much': 'DAsMuch'}[p['dir']]
    pr = {'low': 'PLow', 'medium': 'PMedium', 'high': 'PHigh'}[p['prio']] if isinstance(p['prio'], str) else '(PNum %s)' % coq_z(p['prio'])
    return '{| pf_form := %s; pf_dir := %s; pf_prio := %s; pf_only := %s |}' % (f, d, pr, coq_list([coq_z(v) for v in (p.get('only') or [])]))


def coq_spec(spec):
    c = spec['card']
    lb = {'exactly': c[1:2], 'atleast': c[1:2], 'between': c[1:2]}.get(c[0], ())
    ub = {'exactly': c[1:2], 'atmost': c[1:2], 'between': c[2:3]}.get(c[0], ())
    return '{| p_rooms := %d; p_shelves := %s; p_lb := %s; p_ub := %s; p_prefs := %s |}' % (
        spec['rooms'], coq_list(['(%s, %s)' % (coq_z(i), coq_z(w)) for i, w in spec['shelves']]),
        coq_opt('%d%%nat' % lb[0] if lb else None), coq_opt('%d%%nat' % ub[0] if ub else None), coq_list([c_pref(p) for p in spec['prefs']]))
