"""C11 -- temporal block headers route rules to the right program part only."""
import random
import re

import common
import gen_wide
import impl
import translate
from common import Report, coq_str, coq_list

PID = 'C11'
PRE = 'Require Import Cnl2aspV.Cnl.Blocks Cnl2aspV.Cnl.BlocksCases.'
HEADERS = {"The following propositions apply in the initial state:": 'initial',
           "The following propositions always apply except in the initial state:": 'dynamic',
           "The following propositions always apply:": 'always',
           "The following propositions apply in the final state:": 'final'}
TEMPORAL_DECL = "A moment is a temporal concept expressed in steps ranging from 1 to 2."


def headers_from_grammar():
    import grammar_reader as gr
    defs, _ = gr.read_definitions(impl.grammar_text())
    return gr.strings_of(defs, 'PROBLEM_IDENTIFIER')


def make_spec(rnd):
    sents = [s for s in gen_wide.generate(rnd) if s['kind'] != 'comment']
    decls = [s['text'] for s in sents if s['kind'] == 'declaration']
    rest = [s['text'] for s in sents if s['kind'] != 'declaration']
    lead = list(decls)
    if rnd.random() < 0.4:
        lead.insert(rnd.randrange(len(lead) + 1), TEMPORAL_DECL)
    # some domain definitions stay before the first header
    k = rnd.choice([0, 0, 1, 2])
    lead += rest[:k]
    rest = rest[k:]
    # constant definitions emit no rule of their own part: a block may start with one (or consist of one)
    for _ in range(rnd.choice([0, 0, 1, 2])):
        rest.insert(rnd.randrange(len(rest) + 1), rnd.choice(['maxload is a constant equal to 2.', 'limit is a constant.', 'depth is a constant equal to 7.']))
    rest = [x for i, x in enumerate(rest) if x not in rest[:i] or ' is a constant' not in x]
    nh = rnd.randint(0, 6)
    hs = list(HEADERS)
    blocks = []
    if nh == 0 or not rest:
        blocks = [(None, rest)] if rest else []
    else:
        cuts = sorted(rnd.sample(range(1, len(rest)), min(nh - 1, max(0, len(rest) - 1)))) if len(rest) > 1 else []
        parts = [rest[i:j] for i, j in zip([0] + cuts, cuts + [len(rest)])]
        for p in parts:
            blocks.append((rnd.choice(hs), p))
    return lead, blocks


def render(lead, blocks, with_headers=True):
    lines = list(lead)
    for h, ss in blocks:
        if h and with_headers:
            lines.append(h)
        lines += ss
    return '\n'.join(lines) + '\n'


def rule_lines(prog):
    return [l for l in prog.split('\n') if l.strip() and not l.startswith('#program')]


def run(tier, seed):
    rep = Report(PID, tier, seed)
    rnd = random.Random(seed)
    tie_ok, tout = translate.run(['tables'])
    proof = common.build_property(PID, extra=['Cnl/BlocksCases.vo'])
    try:
        gh = headers_from_grammar()
        if sorted(gh) != sorted(HEADERS):
            tie_ok = False
            tout += '\nheader texts of the grammar changed: %r' % gh
    except Exception as e:
        tie_ok = False
        tout += str(e)
    n = 120 if tier == 'thorough' else 24
    specs = [make_spec(rnd) for _ in range(n)]
    texts_h = [render(l, b, True) for l, b in specs]
    texts_p = [render(l, b, False) for l, b in specs]
    res_h = impl.compile_many(texts_h)
    res_p = impl.compile_many(texts_p)
    # per-sentence rules from prefix compilations of the header-free text
    prefix_jobs = []
    for si, (l, b) in enumerate(specs):
        allsent = list(l) + [s for _, ss in b for s in ss]
        for i in range(len(allsent) + 1):
            prefix_jobs.append((si, i, '\n'.join(allsent[:i]) + '\n'))
    pres = impl.compile_many([j[2] for j in prefix_jobs])
    pref = {}
    for (si, i, _), r in zip(prefix_jobs, pres):
        pref[(si, i)] = r
    cases, meta = [], []
    skipped = 0
    for si, ((l, b), rh, rp) in enumerate(zip(specs, res_h, res_p)):
        if rh[0] != 'ok' or rp[0] != 'ok':
            skipped += 1
            continue
        rep.case(texts_h[si])
        prog = rh[1]
        info = dict(text=texts_h[si], program=prog, header_free_program=rp[1])
        # ---- oracle 1: directives = headers, in order
        got = re.findall(r'^#program (\w+)\.$', prog, re.M)
        want = [HEADERS[h] for h, _ in b if h]
        if got != want:
            rep.violation('the part directives %r do not match the headers %r' % (got, want), info)
            continue
        # ---- oracle 2: deleting the headers changes nothing but the directives
        if rule_lines(prog) != rule_lines(rp[1]):
            rep.violation('the rules under headers differ from the rules of the header-free text', info)
            continue
        # ---- oracle 3: every sentence's rules are under its own header, leading ones under none
        allsent = list(l) + [s for _, ss in b for s in ss]
        ok = all(pref[(si, i)][0] == 'ok' for i in range(len(allsent) + 1))
        if not ok:
            skipped += 1
            continue
        per = []
        good = True
        for i in range(len(allsent)):
            a, c = pref[(si, i)][1], pref[(si, i + 1)][1]
            # '#const' lines are global and printed before every part (the model is ASPEncoding.__str__ without constants; that the
            # constants are the same with and without headers is oracle 2)
            la, lc = ([x for x in (z.split('\n')[:-1] if z.strip() else []) if not x.startswith('#const')] for z in (a, c))
            if lc[:len(la)] != la:
                good = False      # not a prefix (C10 decides that); no attribution possible
                break
            per.append([x + '\n' for x in lc[len(la):]])
        if not good:
            skipped += 1
            continue

        def sl(idx):
            return coq_list([coq_str(x) for x in per[idx]])
        pos = 0
        lead_t = []
        for _ in l:
            lead_t.append(sl(pos)); pos += 1
        blocks_t = []
        for h, ss in b:
            st = []
            for _ in ss:
                st.append(sl(pos)); pos += 1
            blocks_t.append('{| b_header := %s; b_sentences := %s |}' % ('None' if not h else '(Some %s)' % coq_str(h), coq_list(st)))
        no_const = '\n'.join(x for x in prog.split('\n') if not x.startswith('#const')).strip() + '\n'
        cases.append('{| bc_spec := {| leading := %s; blocks := %s |}; bc_out := %s |}' % (coq_list(lead_t), coq_list(blocks_t), coq_str(no_const)))
        meta.append(info)
    if meta:
        rep.sample(meta[0]); rep.sample(meta[-1])
    tie_broken = []
    if not tie_ok:
        tie_broken.append('translator / grammar facts: ' + tout[-500:])
    if proof['ok'] or proof['extra_ok']:
        f = common.run_cases(PID, 'blk', PRE, cases, 'bcase_ok', shard=40)
        for i in f[:2]:
            # the model composes the program from the rules each sentence produces on its own: a difference is a routing difference
            rep.violation('the program is not: the rules of the leading sentences under no directive, then the rules of each block under the directive of its header',
                          meta[i])
    if not proof['ok']:
        tie_broken.append('theorem file does not build: %s' % proof['failed_at'])
    if proof['bad']:
        tie_broken.append('forbidden tokens: %r' % proof['bad'])
    if tie_broken and not rep.violations:
        rep.violation('proof obligation or correspondence no longer checks and no failing input was found: ' + ' | '.join(tie_broken),
                      dict(kind='broken-tie', theorem='Props/C11.v / block-routing correspondence', details=tie_broken,
                           searched='%d block-structured specifications (0-6 headers, any order and repetition)' % len(specs)), no_input=True)
    elif tie_broken:
        rep.notes.extend(tie_broken)
    rep.cov.update(specifications=len(specs), compared_with_model=len(cases), skipped=skipped, prefix_compilations=len(prefix_jobs))
    rep.assumptions += ['the rules of a sentence do not depend on the header it stands under (checked: rules under headers == rules of the header-free text)',
                        'per-sentence rules are obtained from prefix compilations (C10)']
    return rep.finish(proof, rule='wide-generator specifications cut into 0-6 blocks with random headers (repetition allowed), declarations, optionally a temporal '
                                  'concept and domain definitions before the first header; distinct by text')
