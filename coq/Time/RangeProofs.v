Require Import Coq.Strings.String Coq.Strings.Ascii Coq.ZArith.ZArith Coq.Lists.List Coq.Bool.Bool Lia.
Require Import Cnl2aspV.Base.Util Cnl2aspV.Base.Str Cnl2aspV.Base.Digits Cnl2aspV.Time.Clock Cnl2aspV.Time.Calendar
               Cnl2aspV.Time.Range.
Require Import Cnl2aspV.Gen.Operators Cnl2aspV.Gen.Tables Cnl2aspV.Gen.Terminals Cnl2aspV.Asp.CmpSem.
Import ListNotations.
Open Scope string_scope.
Open Scope Z_scope.

Definition count (cur e L : Z) : nat := if cur <=? e then S (Z.to_nat ((e - cur) / L)) else O.

Lemma div_step x L : 0 < L -> L <= x -> x / L = (x - L) / L + 1.
Proof.
  intros HL Hx. replace x with ((x - L) + 1 * L) at 1 by lia. rewrite Z.div_add by lia. reflexivity.
Qed.

Lemma count_step cur e L : 0 < L -> cur <= e -> count cur e L = S (count (cur + L) e L).
Proof.
  intros HL Hle. unfold count.
  destruct (Z.leb_spec cur e); [|lia].
  destruct (Z.leb_spec (cur + L) e).
  - rewrite (div_step (e - cur) L) by lia. replace (e - cur - L) with (e - (cur + L)) by lia.
    assert (0 <= (e - (cur + L)) / L) by (apply Z.div_pos; lia).
    rewrite Z2Nat.inj_add by lia. simpl. f_equal. lia.
  - rewrite Z.div_small by lia. reflexivity.
Qed.

Lemma loop_spec ty e L : 0 < L -> forall k cur c fuel,
  count cur e L = k -> (k <= fuel)%nat ->
  loop fuel ty cur e L c = map (fun i => (fmt_pos ty (cur + Z.of_nat i * L), c + Z.of_nat i)) (seq 0 k).
Proof.
  intros HL. induction k as [|k IH]; intros cur c fuel Hc Hf.
  - unfold count in Hc. destruct (Z.leb_spec cur e) as [|Hgt]; [discriminate|].
    destruct fuel; simpl; [reflexivity|]. destruct (Z.leb_spec cur e); [lia|reflexivity].
  - assert (Hle : cur <= e) by (unfold count in Hc; destruct (Z.leb_spec cur e); [assumption|discriminate]).
    destruct fuel as [|f]; [lia|]. simpl loop. destruct (Z.leb_spec cur e); [|lia].
    rewrite (count_step cur e L HL Hle) in Hc. injection Hc as Hc.
    rewrite (IH (cur + L) (c + 1) f Hc ltac:(lia)).
    change (seq 0 (S k)) with (0%nat :: seq 1 k). rewrite <- seq_shift, map_cons, map_map.
    f_equal; [simpl; f_equal; [f_equal; lia|lia]|].
    apply map_ext. intros i. rewrite Nat2Z.inj_succ. f_equal; [f_equal|]; lia.
Qed.

Lemma compute_values_closed ty A B L : A <= B -> 0 < eff_len ty L -> compute_values ty A B L = closed_form ty A B L.
Proof.
  intros HAB HL. unfold compute_values, closed_form. cbv zeta. set (L' := eff_len ty L) in *.
  set (n := Z.to_nat ((B - A) / L')).
  assert (Hk : count (A + L') B L' = n).
  { unfold count, n. destruct (Z.leb_spec (A + L') B).
    - rewrite (div_step (B - A) L') by lia. replace (B - A - L') with (B - (A + L')) by lia.
      assert (0 <= (B - (A + L')) / L') by (apply Z.div_pos; lia). rewrite Z2Nat.inj_add by lia. simpl. lia.
    - rewrite Z.div_small by lia. reflexivity. }
  rewrite (loop_spec ty B L' HL n (A + L') 1 (steps_needed A B L') Hk) by (unfold steps_needed; fold n; lia).
  change (seq 0 (S n)) with (0%nat :: seq 1 n). rewrite <- seq_shift, map_cons, map_map.
  f_equal; [simpl; f_equal; f_equal; lia|].
  apply map_ext. intros i. rewrite Nat2Z.inj_succ. f_equal; [f_equal|]; lia.
Qed.

Lemma tkey_eqb_eq a b : tkey_eqb a b = true <-> a = b.
Proof.
  destruct a, b; simpl; try (split; [discriminate|congruence]).
  - rewrite String.eqb_eq. split; congruence.
  - rewrite Z.eqb_eq. split; congruence.
Qed.

(* positions inside the range are in the domain where fmt_pos is injective *)
Definition pos_ok (ty : ttype) (p : Z) : Prop :=
  match ty with TTime => 0 <= p < 1440 | TDate => min_fmt_ord <= p <= max_ord | TStep => True end.

Lemma KStr_inj a b : KStr a = KStr b -> a = b.  Proof. congruence. Qed.
Lemma KInt_inj a b : KInt a = KInt b -> a = b.  Proof. congruence. Qed.

Lemma fmt_pos_injective ty p q : pos_ok ty p -> pos_ok ty q -> fmt_pos ty p = fmt_pos ty q -> p = q.
Proof.
  destruct ty; unfold pos_ok, fmt_pos; intros Hp Hq E.
  - apply KStr_inj in E. now apply fmt_time_injective.
  - apply KStr_inj in E. now apply fmt_ord_injective.
  - now apply KInt_inj in E.
Qed.

Lemma range_pos_ok ty A B L i : A <= B -> 0 < eff_len ty L -> in_domain ty A B L -> 0 <= i <= (B - A) / eff_len ty L ->
  pos_ok ty (A + i * eff_len ty L).
Proof.
  intros HAB HL HD Hi. set (L' := eff_len ty L) in *.
  assert (i * L' <= B - A).
  { pose proof (Z.mul_div_le (B - A) L' HL). assert (i * L' <= (B - A) / L' * L') by (apply Z.mul_le_mono_nonneg_r; lia). lia. }
  assert (0 <= i * L') by (apply Z.mul_nonneg_nonneg; lia).
  destruct ty; simpl in *; try exact I; unfold min_fmt_ord, max_ord in *; lia.
Qed.

(* assoc over a list built by map from an index list *)
Lemma assoc_map_first {I} (key : I -> tkey) (val : I -> Z) (l : list I) k v :
  assoc tkey_eqb k (map (fun i => (key i, val i)) l) = Some v -> exists i, In i l /\ key i = k /\ val i = v.
Proof.
  induction l as [|x r IH]; simpl; [discriminate|].
  destruct (tkey_eqb k (key x)) eqn:E.
  - intros H. injection H as <-. apply tkey_eqb_eq in E. exists x. auto.
  - intros H. destruct (IH H) as (i & Hi & Hk & Hv). exists i. auto.
Qed.

Lemma assoc_map_inj {I} (key : I -> tkey) (val : I -> Z) (l : list I) j :
  In j l -> (forall i, In i l -> key i = key j -> i = j) ->
  assoc tkey_eqb (key j) (map (fun i => (key i, val i)) l) = Some (val j).
Proof.
  induction l as [|x r IH]; simpl; [tauto|]. intros Hin Hinj.
  destruct (tkey_eqb (key j) (key x)) eqn:E.
  - apply tkey_eqb_eq in E. rewrite (Hinj x (or_introl eq_refl) (eq_sym E)). reflexivity.
  - destruct Hin as [->|Hin]; [rewrite (proj2 (tkey_eqb_eq _ _) eq_refl) in E; discriminate|].
    apply IH; [assumption|]. intros i Hi. apply Hinj. now right.
Qed.

Section Lookup.
  Variables (ty : ttype) (A B L : Z).
  Hypothesis HAB : A <= B.
  Hypothesis HL : 0 < eff_len ty L.
  Hypothesis HD : in_domain ty A B L.
  Let L' := eff_len ty L.
  Let n := Z.to_nat ((B - A) / L').
  Let vals := compute_values ty A B L.

  Lemma n_bound i : (i <= n)%nat -> 0 <= Z.of_nat i <= (B - A) / L'.
  Proof. unfold n. intros Hi. assert (0 <= (B - A) / L') by (apply Z.div_pos; unfold L'; lia). lia. Qed.

  Lemma keys_injective i j : (i <= n)%nat -> (j <= n)%nat ->
    fmt_pos ty (A + Z.of_nat i * L') = fmt_pos ty (A + Z.of_nat j * L') -> i = j.
  Proof.
    intros Hi Hj E.
    assert (P1 : pos_ok ty (A + Z.of_nat i * L')) by (apply (range_pos_ok ty A B L); auto using n_bound).
    assert (P2 : pos_ok ty (A + Z.of_nat j * L')) by (apply (range_pos_ok ty A B L); auto using n_bound).
    apply (fmt_pos_injective ty _ _ P1 P2) in E.
    assert (Z.of_nat i * L' = Z.of_nat j * L') by lia.
    apply Z.mul_cancel_r in H; [lia|unfold L'; lia].
  Qed.

  Lemma lookup_in_range i : (i <= n)%nat -> value_id vals (fmt_pos ty (A + Z.of_nat i * L')) = Some (Z.of_nat i).
  Proof.
    intros Hi. unfold vals, value_id. rewrite compute_values_closed by assumption. unfold closed_form. cbv zeta.
    fold L' n.
    apply (assoc_map_inj (fun i => fmt_pos ty (A + Z.of_nat i * L')) (fun i => Z.of_nat i)).
    - apply in_seq. lia.
    - intros i' Hi' E. apply in_seq in Hi'. apply keys_injective in E; lia.
  Qed.

  Lemma lookup_some k v : value_id vals k = Some v ->
    exists i, (i <= n)%nat /\ v = Z.of_nat i /\ k = fmt_pos ty (A + Z.of_nat i * L').
  Proof.
    unfold vals, value_id. rewrite compute_values_closed by assumption. unfold closed_form. cbv zeta. fold L' n.
    intros H. apply (assoc_map_first (fun i => fmt_pos ty (A + Z.of_nat i * L')) (fun i => Z.of_nat i)) in H.
    destruct H as (i & Hi & Hk & Hv). apply in_seq in Hi. exists i. repeat split; [lia|congruence|congruence].
  Qed.

  (* facts: one per point, numbered consecutively from 0, chronological *)
  Lemma values_length : length vals = S n.
  Proof. unfold vals. rewrite compute_values_closed by assumption. unfold closed_form. cbv zeta. now rewrite map_length, seq_length. Qed.

  Lemma values_nth i : (i <= n)%nat -> nth_error vals i = Some (fmt_pos ty (A + Z.of_nat i * L'), Z.of_nat i).
  Proof.
    intros Hi. unfold vals. rewrite compute_values_closed by assumption. unfold closed_form. cbv zeta. fold L' n.
    rewrite nth_error_map. rewrite (nth_error_nth' _ 0%nat) by (rewrite seq_length; lia).
    rewrite seq_nth by lia. reflexivity.
  Qed.

  Lemma last_point_within : A + Z.of_nat n * L' <= B /\ B < A + (Z.of_nat n + 1) * L'.
  Proof.
    unfold n. assert (0 <= (B - A) / L') by (apply Z.div_pos; unfold L'; lia). rewrite Z2Nat.id by lia.
    pose proof (Z.mul_div_le (B - A) L' HL) as H1. pose proof (Z.mul_succ_div_gt (B - A) L' HL) as H2. lia.
  Qed.
End Lookup.

(* ordering: the emitted literal compares indices, which order exactly like the points *)
Lemma ordering_before i j : ordering_holds "before" i j = Some (i <? j).
Proof. vm_compute ordering_symbol. unfold ordering_holds. vm_compute ordering_symbol. reflexivity. Qed.
Lemma ordering_after i j : ordering_holds "after" i j = Some (j <? i).
Proof. unfold ordering_holds. vm_compute ordering_symbol. reflexivity. Qed.

Lemma index_order_is_time_order A L i j : 0 < L -> (i < j <-> A + i * L < A + j * L).
Proof. intros HL. split; intros H; [apply Z.add_lt_mono_l, Z.mul_lt_mono_pos_r; assumption|]. apply Z.add_lt_mono_l in H. now apply Z.mul_lt_mono_pos_r in H. Qed.

Lemma out_of_range_rejected name vals var word v :
  value_id vals (ref_key v) = None -> exists msg, temporal_constraint name vals var word v = Err msg.
Proof. intros H. unfold temporal_constraint. rewrite H. eauto. Qed.

Lemma in_range_accepted name vals var word v j : (word = "before" \/ word = "after") ->
  value_id vals (ref_key v) = Some j -> exists lit, temporal_constraint name vals var word v = Ok lit.
Proof. intros [->| ->] H; unfold temporal_constraint; rewrite H; vm_compute ordering_symbol; eauto. Qed.
