Require Import Coq.Strings.String Coq.Lists.List Coq.Bool.Bool Coq.Arith.Arith Coq.ZArith.ZArith.
Require Import Cnl2aspV.Base.Util Cnl2aspV.Asp.Agg Cnl2aspV.Cnl.Aggregate.
Import ListNotations.
Open Scope string_scope.

(* a_out: the constraint the IMPLEMENTATION emitted, variables renamed by first occurrence (done by the harness);
   a_models: the answer sets clingo computes for the implementation's program, projected on host/2 *)
Record acase := { ac_spec : aspec; ac_out : string; ac_models : list interp }.

Definition corr_ok (c : acase) : bool :=
  match compile (ac_spec c) with Some r => String.eqb (print_rule r) (ac_out c) | None => false end.

Definition pair_in (p : Z * Z) (I : interp) : bool := holds_host I (fst p) (snd p).
Definition interp_eqb (a b : interp) : bool := forallb (fun p => pair_in p b) a && forallb (fun p => pair_in p a) b.
Fixpoint powerset (l : list (Z * Z)) : list interp :=
  match l with [] => [[]] | x :: r => let p := powerset r in (p ++ map (cons x) p)%list end.

(* exhaustive over every subset of the candidate instances: reading = clingo *)
Definition reading_exact (c : acase) : bool :=
  forallb (fun J => Bool.eqb (reading (ac_spec c) J) (existsb (interp_eqb J) (ac_models c))) (powerset (candidates (ac_spec c))).
(* ... and the semantics given to the emitted rule = clingo (validates Cnl/Aggregate.v: rule_violated) *)
Definition rule_exact (c : acase) : bool :=
  match compile (ac_spec c) with
  | Some r => forallb (fun J => Bool.eqb (negb (rule_violated (ac_spec c) J r)) (existsb (interp_eqb J) (ac_models c))) (powerset (candidates (ac_spec c)))
  | None => false end.
