"""Aggregate sentences (C02): a fixed two-concept, one-relation vocabulary with a numeric attribute whose values may repeat,
one aggregate constraint in every sentence form, and the Coq term of each specification (Cnl/Aggregate.v).
Every random choice comes from the random.Random passed in."""
from common import coq_str, coq_list, coq_opt, coq_bool, coq_z

FN_PHRASE = {'count': 'the number of', 'sum': 'the total of', 'max': 'the highest', 'min': 'the lowest'}
FORMS = ['entity', 'param_shelf', 'param_room', 'active', 'passive_shelf', 'passive_weight', 'passive_weight_each']
# form -> type of the OUTER label it can carry ('room' / 'shelf'); entity carries either
FIXED = {'param_shelf': 'room', 'param_room': 'shelf', 'active': 'shelf', 'passive_shelf': 'room', 'passive_weight': 'room', 'passive_weight_each': 'room'}
PHRASES = ['the same as', 'different from', 'equal to', 'more than', 'greater than', 'less than', 'greater than or equal to',
           'less than or equal to', 'at least', 'at most', 'not after']
ROOM_LABELS = ['R', 'Q']
SHELF_LABELS = ['S', 'T']


def gen_aggr(rnd, idx, force_bound=None, used=None):
    form = rnd.choice(FORMS)
    fn = 'count' if form == 'entity' else rnd.choice(['count', 'sum', 'max', 'min'])
    if form == 'entity':
        side = rnd.choice(['room', 'shelf', None])
    else:
        side = FIXED[form]
    must = form.startswith('passive')
    bound = must or (side is not None and (rnd.random() < 0.7 if force_bound is None else force_bound))
    label = None
    if bound:
        pool = ROOM_LABELS if side == 'room' else SHELF_LABELS
        # reuse the first aggregate's label of the same type half of the time
        prev = [l for l in (used or []) if l in pool]
        label = prev[0] if prev and rnd.random() < 0.5 else pool[idx]
    flt = None
    dlabel = None
    if form != 'entity' and rnd.random() < 0.4:
        # the author's name for the counted value; sometimes one the compiler would invent itself (D, D1, WGHT ...)
        dlabel = ['X', 'Y'][idx] if rnd.random() < 0.6 else [['D', 'WGHT', 'HST_D1'], ['D1', 'WGHT1', 'D2']][idx][rnd.randrange(3)]
        if rnd.random() < 0.75:
            flt = (rnd.choice(['greater than', 'less than', 'different from', 'at least', 'at most']), rnd.randint(1, 3))
    return dict(fn=fn, form=form, side=side if bound else None, label=label, dlabel=dlabel, filter=flt)


def gen(rnd, big=False):
    n = rnd.randint(1, 2)
    m = rnd.randint(1, 3 if n == 2 or big else 3)
    if big and rnd.random() < 0.3:
        n, m = rnd.choice([(3, 2), (2, 4), (4, 2), (3, 3)])
    ids = rnd.sample(range(1, 5), m) if rnd.random() < 0.5 else list(range(1, m + 1))
    wpool = rnd.choice([[3, 3, 5, 2], [1, 1, 1, 2], [2, 4, 2, 4], [0, 3, 3, 1]])
    shelves = [(i, rnd.choice(wpool)) for i in sorted(ids)]
    a1 = gen_aggr(rnd, 0)
    kind = rnd.choice(['phrase'] * 5 + ['between'] * 2 + ['agg'] * 2 + ['between_agg'] + (['between_aggs'] if rnd.random() < 0.6 else ['agg']))
    hi = {'count': n * m + 1, 'sum': 9, 'max': 6, 'min': 6}[a1['fn']]
    if kind == 'phrase':
        cmp_ = ('phrase', rnd.choice(PHRASES), rnd.randint(0, hi))
    elif kind == 'between':
        lo = rnd.randint(0, hi)
        cmp_ = ('between', lo, rnd.randint(max(0, lo - 1), hi))
    elif kind == 'agg':
        cmp_ = ('agg', rnd.choice(PHRASES), gen_aggr(rnd, 1, used=[a1['label']]))
    elif kind == 'between_agg':
        cmp_ = ('between_agg', rnd.randint(0, 2), gen_aggr(rnd, 1, used=[a1['label']]))
    else:
        g1 = gen_aggr(rnd, 1, used=[a1['label']])
        g2 = gen_aggr(rnd, 0, used=[a1['label'], g1['label']])
        if g2['label'] and g2['label'] != a1['label'] and g2['label'] != g1['label'] and g2['label'] in (ROOM_LABELS + SHELF_LABELS):
            # a third distinct label of the same pool would collide with index 0: give it its own name
            g2['label'] = {'R': 'P', 'S': 'U'}.get(g2['label'], g2['label'])
        if g2['dlabel']:
            g2['dlabel'] = 'Z'
        cmp_ = ('between_aggs', g1, g2)
    aggs = [a1] + [x for x in cmp_[1:] if isinstance(x, dict)]
    labels = []
    for a in aggs:
        if a['label'] and a['label'] not in [l for l, _ in labels]:
            labels.append((a['label'], a['side']))
    # whenever clauses: mandatory for labelled non-passive forms; optional for passive subjects
    whenever = []
    for l, side in labels:
        needs = any(a['label'] == l and not a['form'].startswith('passive') for a in aggs)
        if needs or rnd.random() < 0.6:
            whenever.append((l, side))
    owhere = None
    if len(whenever) == 2 and whenever[0][1] == whenever[1][1] and rnd.random() < 0.5:
        owhere = (whenever[0][0], rnd.choice(['less than', 'different from', 'at most']), whenever[1][0])
    return dict(rooms=n, shelves=shelves, required=rnd.random() < 0.5, agg=a1, cmp=cmp_, whenever=whenever, owhere=owhere)


# ------------------------------------------------------------------ rendering
def render_aggr(a):
    p = FN_PHRASE[a['fn']]
    d = (' ' + a['dlabel']) if a['dlabel'] else ''
    f = a['form']
    if f == 'entity':
        if a['label']:
            return '%s host occurrences with %s id %s' % (p, a['side'], a['label'])
        return '%s host occurrences' % p
    if f == 'param_shelf':
        return '%s shelf id%s of a host' % (p, d) + (' with room id %s' % a['label'] if a['label'] else '')
    if f == 'param_room':
        return '%s room id%s of a host' % (p, d) + (' with shelf id %s' % a['label'] if a['label'] else '')
    if f == 'active':
        return '%s room id%s that host a shelf' % (p, d) + (' %s' % a['label'] if a['label'] else '')
    if f == 'passive_shelf':
        return '%s shelf id%s where a room %s hosts a shelf' % (p, d, a['label'])
    if f == 'passive_weight':
        return '%s weight%s where a room %s hosts a shelf' % (p, d, a['label'])
    if f == 'passive_weight_each':
        return '%s weight%s, for each shelf id, where a room %s hosts a shelf' % (p, d, a['label'])
    raise ValueError(f)


def header(spec):
    lines = ['A room is identified by an id.', 'A shelf is identified by an id, and has a weight.',
             'A room goes from 1 to %d.' % spec['rooms']]
    for i, w in spec['shelves']:
        lines.append('There is a shelf with id %d, with weight %d.' % (i, w))
    lines.append('Every room can host a shelf.')
    return lines


def render_sentence(spec):
    c = spec['cmp']
    t = 'It is %s that %s is ' % ('required' if spec['required'] else 'prohibited', render_aggr(spec['agg']))
    if c[0] == 'phrase':
        t += '%s %d' % (c[1], c[2])
    elif c[0] == 'between':
        t += 'between %d and %d' % (c[1], c[2])
    elif c[0] == 'agg':
        t += '%s %s' % (c[1], render_aggr(c[2]))
    elif c[0] == 'between_agg':
        t += 'between %d and %s' % (c[1], render_aggr(c[2]))
    else:
        t += 'between %s and %s' % (render_aggr(c[1]), render_aggr(c[2]))
    for l, side in spec['whenever']:
        t += ', whenever there is a %s %s' % (side, l)
    wh = []
    for a in [spec['agg']] + [x for x in c[1:] if isinstance(x, dict)]:
        if a['filter']:
            wh.append('%s is %s %d' % (a['dlabel'], a['filter'][0], a['filter'][1]))
    if spec['owhere']:
        wh.append('%s is %s %s' % spec['owhere'])
    if wh:
        t += ', where ' + ' and '.join(wh)
    return t + '.'


def render(spec):
    return '\n'.join(header(spec) + [render_sentence(spec)]) + '\n'


# ------------------------------------------------------------------ Coq terms
def c_aggr(a):
    fn = {'count': 'ACount', 'sum': 'ASum', 'max': 'AMax', 'min': 'AMin'}[a['fn']]
    form = {'entity': 'FEntity', 'param_shelf': 'FParamShelf', 'param_room': 'FParamRoom', 'active': 'FActive', 'passive_shelf': 'FPassiveShelf',
            'passive_weight': 'FPassiveWeight', 'passive_weight_each': 'FPassiveWeightEach'}[a['form']]
    side = 'None' if a['side'] is None else '(Some %s)' % {'room': 'KRoom', 'shelf': 'KShelf'}[a['side']]
    flt = 'None' if not a['filter'] else '(Some (%s, %s))' % (coq_str(a['filter'][0]), coq_z(a['filter'][1]))
    return '{| g_fn := %s; g_form := %s; g_side := %s; g_label := %s; g_dlabel := %s; g_filter := %s |}' % (
        fn, form, side, coq_opt(None if not a['label'] else coq_str(a['label'])), coq_opt(None if not a['dlabel'] else coq_str(a['dlabel'])), flt)


def coq_spec(spec):
    c = spec['cmp']
    if c[0] == 'phrase':
        ct = '(CPhrase %s %s)' % (coq_str(c[1]), coq_z(c[2]))
    elif c[0] == 'between':
        ct = '(CBetween %s %s)' % (coq_z(c[1]), coq_z(c[2]))
    elif c[0] == 'agg':
        ct = '(CAgg %s %s)' % (coq_str(c[1]), c_aggr(c[2]))
    elif c[0] == 'between_agg':
        ct = '(CBetweenAgg %s %s)' % (coq_z(c[1]), c_aggr(c[2]))
    else:
        ct = '(CBetweenAggs %s %s)' % (c_aggr(c[1]), c_aggr(c[2]))
    wh = coq_list(['(%s, %s)' % (coq_str(l), 'KRoom' if s == 'room' else 'KShelf') for l, s in spec['whenever']])
    ow = 'None' if not spec['owhere'] else '(Some (%s, %s, %s))' % tuple(coq_str(x) for x in spec['owhere'])
    return ('{| a_rooms := %d; a_shelves := %s; a_required := %s; a_agg := %s; a_cmp := %s; a_whenever := %s; a_owhere := %s |}' % (
        spec['rooms'], coq_list(['(%s, %s)' % (coq_z(i), coq_z(w)) for i, w in spec['shelves']]), coq_bool(spec['required']), c_aggr(spec['agg']), ct, wh, ow))
