"""C12 -- compilation is a pure function of the text and the options."""
import json
import os
import random
import subprocess
from concurrent.futures import ThreadPoolExecutor

import common
import corpus
import gen_wide
import translate
from common import Report

PID = 'C12'
WORKER = os.path.join(common.VERIF, 'tools', 'harness', 'c12_worker.py')
APIS = ['compile', 'compile_nolink', 'get_symbols', 'check_syntax', 'cnl_to_json']
REJECTED = ['A node goes from 1 to 3.\n$', 'A node is identified', 'A node goes from 1 to 3.\nThere is a colour with id 2.\n',
            'A node is identified by an id, and has a weight.\nIt is prohibited that the total of phantom of a node is greater than 2.\n',
            # uses a concept that only an EARLIER text of the history declares: must stay rejected
            'It is prohibited that there is a node with id 2, with weight W, where W is greater than 10.\n']
# accepted texts that leave traces in shared objects (a pronoun subject initialises the parser's shared placeholder entity);
# kept here and not in corpus/regressions because their output is not meaningful ASP for the other properties' models
PROBES = ['A node is identified by an id.\nThey go to a node.\n']
_TRUCK = 'A truck is identified by an id, and has a load.\nIt is prohibited that L is greater than maxLoad, whenever there is a truck with id T, with load L.\n'
PAIRS = [('maxLoad is a constant equal to 10.\n' + _TRUCK, _TRUCK),
         ('A node is identified by an id, and has a weight.\nA node goes from 1 to 3.\n', REJECTED[-1])]
# a text whose acceptance and export depend on automatic linking ('with shift equal to vacation' on the relation work_in)
NEEDS_LINK = ('A shift is identified by an id.\nA nurse goes from 1 to 3.\nA day goes from 1 to 7.\nEvery nurse can work in exactly 1 shift for each day.\n'
              'It is prohibited that the number of days with shift equal to vacation where a nurse works in is different from 2.\n')
DECLARES_NODE = 'A node is identified by an id, and has a weight.\nA node goes from 1 to 3.\n'


def run_worker(job, seed):
    env = dict(os.environ, PYTHONHASHSEED=str(seed))
    env.pop('PYTHONPATH', None)
    p = subprocess.run([common.PY, WORKER], input=json.dumps(job), stdout=subprocess.PIPE, stderr=subprocess.PIPE, text=True, timeout=900, env=env)
    if p.returncode != 0:
        return ['worker-crash', p.stderr[-800:]]
    try:
        return json.loads(p.stdout.strip().split('\n')[-1])
    except Exception:
        return ['worker-output', p.stdout[-400:]]


def run(tier, seed):
    rep = Report(PID, tier, seed)
    rnd = random.Random(seed)
    tie_ok, tout = translate.run(['effects'])
    proof = common.build_property(PID)
    accepted = [gen_wide.text_of(gen_wide.generate(rnd)) for _ in range(12 if tier == 'quick' else 60)]
    loaded = corpus.load()
    accepted += [t for _, t in loaded if len(t) < 2500][:(8 if tier == 'quick' else 40)]
    regress = [t for n, t in loaded if n.startswith('regressions/')] + PROBES
    accepted += [t for t in regress if t not in accepted] + [DECLARES_NODE]
    nh = 40 if tier == 'quick' else 400
    seeds = [0, 1, 2, 3] if tier == 'quick' else [0, 1, 2, 3, 4, 5, 31337, 424242]
    jobs = []
    for i in range(nh):
        length = rnd.randint(0, 6)
        calls = []
        for _ in range(length):
            calls.append([rnd.choice(APIS), rnd.choice(accepted) if rnd.random() < 0.65 else rnd.choice(REJECTED)])
        last = [rnd.choice(APIS), rnd.choice(accepted) if rnd.random() < 0.8 else rnd.choice(REJECTED)]
        if rnd.random() < 0.25 and calls:
            last = list(calls[rnd.randrange(len(calls))])      # repeat an earlier call (idempotence)
        wf = rnd.random() < 0.3
        jobs.append(dict(with_functions=wf, calls=calls + [last], last=last, construct_first=rnd.random() < 0.4))
    # directed histories: every regression text and the state-dependent rejected text, observed (a) after all the other regression texts
    # in a random order (two orders in the thorough tier: a later text can mask what an earlier one left behind), reached through compile
    # or through the observed call itself, and (b) directly after a few single predecessors
    pool = regress + [DECLARES_NODE]
    for t in regress + [REJECTED[-1]]:
        long_api = rnd.choice(['compile', 'cnl_to_json'])
        for api in (['compile', 'cnl_to_json'] if tier == 'quick' else APIS):
            others = [h for h in pool if h != t]
            last = [api, t]
            if tier == 'quick' and api != long_api:
                vias = ()                      # quick tier: the long history of a text through one of the two observed calls only
            else:
                vias = ('compile', api) if tier != 'quick' else (rnd.choice(['compile', api]),)
            for via in vias:
                order = list(others)
                rnd.shuffle(order)
                if tier == 'quick':
                    order = order[:20]          # quick tier: twenty predecessors (every text is a predecessor of many others across the run)
                jobs.append(dict(with_functions=False, calls=[[via, h] for h in order] + [last], last=last, construct_first=rnd.random() < 0.5))
            for h in rnd.sample(others, min(len(others), 2 if tier == 'quick' else 4)):
                jobs.append(dict(with_functions=False, calls=[[rnd.choice(['compile', api]), h], last], last=last, construct_first=rnd.random() < 0.5))
    # pairs of texts of which one declares what the other only mentions: each observed after the other, through every call
    for a, b in PAIRS:
        for api in APIS:
            for first, second in ((a, b), (b, a)):
                last = [api, second]
                jobs.append(dict(with_functions=False, calls=[[api, first], last], last=last, construct_first=False))
                jobs.append(dict(with_functions=False, calls=[[api, second], [api, first], last], last=last, construct_first=True))
    # an option must not outlive a REJECTED call: every rejected text through compile without auto-linking, then each call on a text that needs linking
    for rej in REJECTED + ['A nurse is identified by an id.\nIt is prohibited that a nurse N works in ward W, whenever there is a ward W.\n']:
        for api in APIS:
            last = [api, NEEDS_LINK]
            jobs.append(dict(with_functions=False, calls=[['compile_nolink', rej], last], last=last, construct_first=False))
    tasks = []
    for j in jobs:
        tasks.append((dict(with_functions=j['with_functions'], calls=j['calls'], construct_first=j['construct_first']), seeds[0]))       # with history
        for s in seeds:
            tasks.append((dict(with_functions=j['with_functions'], calls=[j['last']]), s))           # fresh process, each hash seed
    # identical tasks (the same single call in a fresh process under the same seed) are run once
    uniq = {}
    for t in tasks:
        uniq.setdefault(json.dumps(t, sort_keys=True), t)
    keys = list(uniq)
    with ThreadPoolExecutor(max_workers=16) as ex:
        done = dict(zip(keys, ex.map(lambda k_: run_worker(*uniq[k_]), keys)))
    results = [done[json.dumps(t, sort_keys=True)] for t in tasks]
    k = 0
    dist = {}
    for j in jobs:
        with_hist = results[k]
        fresh = results[k + 1:k + 1 + len(seeds)]
        k += 1 + len(seeds)
        rep.case((json.dumps(j['calls']), j['with_functions']))
        dist[j['last'][0]] = dist.get(j['last'][0], 0) + 1
        info = dict(history=[[a, t[:200]] for a, t in j['calls'][:-1]], observed_call=[j['last'][0], j['last'][1]], with_functions=j['with_functions'],
                    all_objects_constructed_before_the_first_call=j['construct_first'])
        if any(r and r[0].startswith('worker') for r in [with_hist] + fresh):
            rep.notes.append('worker problem: %r' % ([with_hist] + fresh)[:2])
            continue
        if with_hist != fresh[0]:
            rep.violation('the result of %s depends on the calls made before it in the same process' % j['last'][0],
                          dict(info, after_history=with_hist, fresh_process=fresh[0]))
        elif any(f != fresh[0] for f in fresh[1:]):
            bad = [s for s, f in zip(seeds, fresh) if f != fresh[0]]
            rep.violation('the result of %s depends on PYTHONHASHSEED' % j['last'][0],
                          dict(info, seeds=[seeds[0]] + bad, results=[fresh[0]] + [f for f in fresh if f != fresh[0]][:1]))
    rep.sample(dict(history_length=len(jobs[0]['calls']) - 1, observed_call=jobs[0]['last'][0], text=jobs[0]['last'][1][:300]))
    rep.sample(dict(history=[a for a, _ in jobs[1]['calls'][:-1]], observed_call=jobs[1]['last'][0]))
    tie_broken = []
    if not tie_ok:
        tie_broken.append('translator failed closed: ' + tout[-600:])
    if not proof['ok']:
        tie_broken.append('theorem file does not build (an API method now reads a process-wide variable it does not reset, or a proof broke): %s | %s'
                          % (proof['failed_at'], proof['log'][-300:]))
    if proof['bad']:
        tie_broken.append('forbidden tokens: %r' % proof['bad'])
    if tie_broken and not rep.violations:
        rep.violation('proof obligation no longer checks and no failing input was found: ' + ' | '.join(tie_broken),
                      dict(kind='broken-tie', theorem='Props/C12.v: C12_footprints_pure over Gen/Effects.v', details=tie_broken,
                           searched='%d histories (length 0..6) against fresh processes under hash seeds %r' % (len(jobs), seeds)), no_input=True)
    elif tie_broken:
        rep.notes.extend(tie_broken)
    rep.cov.update(histories=len(jobs), subprocess_runs=len(tasks), hash_seeds=seeds, observed_calls=dist)
    rep.assumptions += ['effect summary of tools/translate/gen_effects.py: class-level / module-level variables that are assigned or mutated by name; '
                        'object state reachable only through instances (created afresh by each API call) is not process-wide',
                        'hash-seed independence is decided by the multi-seed runs only (the model cannot exhibit set iteration order)',
                        'mutable default arguments listed in Gen/Effects.v (mutable_defaults) are covered by the dynamic runs only']
    return rep.finish(proof, rule='random histories of 0..6 API calls (compile, compile without auto-linking, get_symbols, check_syntax, cnl_to_json; accepted inputs and '
                                  'inputs rejected by lexer / parser / transformer / converter; function-term printing on or off) followed by one observed call, run in one '
                                  'process and compared with the same call in a fresh process under each hash seed; distinct by (history, option)')
