(* Explanations of facts of declared concepts (no subject, no verb, no objects): closed form of the sentence and injectivity --
   distinct atoms of one concept give distinct sentences (C15). *)
Require Import Coq.Strings.String Coq.Strings.Ascii Coq.Lists.List Coq.Bool.Bool Coq.Arith.Arith Lia.
Require Import Cnl2aspV.Base.Util Cnl2aspV.Base.Str Cnl2aspV.Asp.Syntax Cnl2aspV.Asp.Print Cnl2aspV.Cnl.Link Cnl2aspV.Explain.Explain.
Import ListNotations.
Open Scope string_scope.

(* ------------------------------------------------------------------ strings: append *)
Lemma app_nil_r_s (s : string) : s ++ "" = s.
Proof. induction s as [|c r IH]; cbn; [reflexivity|now rewrite IH]. Qed.
Lemma app_assoc_s (a b c : string) : (a ++ b) ++ c = a ++ (b ++ c).
Proof. induction a as [|x r IH]; cbn; [reflexivity|now rewrite IH]. Qed.
Lemma app_inv_head_s (p x y : string) : p ++ x = p ++ y -> x = y.
Proof. induction p as [|c r IH]; cbn; [auto|]. intros H. injection H as H. auto. Qed.
Lemma length_app_s (a b : string) : String.length (a ++ b) = String.length a + String.length b.
Proof. induction a as [|c r IH]; cbn; [reflexivity|now rewrite IH]. Qed.
Lemma app_inv_tail_s (t x : string) : forall y, x ++ t = y ++ t -> x = y.
Proof.
  induction x as [|c r IH]; intros [|d s] H; cbn in H.
  - reflexivity.
  - exfalso. apply (f_equal String.length) in H. cbn in H. rewrite length_app_s in H. lia.
  - exfalso. apply (f_equal String.length) in H. cbn in H. rewrite length_app_s in H. lia.
  - injection H as -> H. f_equal. auto.
Qed.

(* ------------------------------------------------------------------ strings: reversal and strip *)
Lemma srev_acc_app s : forall acc, srev_acc s acc = srev_acc s "" ++ acc.
Proof.
  induction s as [|c r IH]; intros acc; cbn; [reflexivity|].
  rewrite (IH (String c acc)), (IH (String c "")), app_assoc_s. reflexivity.
Qed.
Lemma srev_cons c r : srev (String c r) = srev r ++ String c "".
Proof. unfold srev. cbn. apply srev_acc_app. Qed.
Lemma srev_app a b : srev (a ++ b) = srev b ++ srev a.
Proof.
  induction a as [|c r IH]; cbn [append]; [now rewrite app_nil_r_s|].
  rewrite !srev_cons, IH, app_assoc_s. reflexivity.
Qed.
Lemma srev_invol s : srev (srev s) = s.
Proof. induction s as [|c r IH]; [reflexivity|]. rewrite srev_cons, srev_app, IH. reflexivity. Qed.

Definition all_space (s : string) : bool := sforall is_space_c s.
Definition first_ok (m : string) : bool := match m with String c _ => negb (is_space_c c) | EmptyString => true end.
Definition last_ok (m : string) : bool := first_ok (srev m).

Lemma lstrip_spaces_app a m : all_space a = true -> lstrip (a ++ m) = lstrip m.
Proof.
  induction a as [|c r IH]; cbn; [reflexivity|]. intros H. apply andb_true_iff in H as [Hc Hr]. now rewrite Hc, IH.
Qed.
Lemma lstrip_first_ok m : first_ok m = true -> lstrip m = m.
Proof. destruct m as [|c r]; cbn; [reflexivity|]. intros H. apply negb_true_iff in H. now rewrite H. Qed.
Lemma lstrip_all_space b : all_space b = true -> lstrip b = "".
Proof. intros H. rewrite <- (app_nil_r_s b). rewrite lstrip_spaces_app; [reflexivity|exact H]. Qed.
Lemma all_space_app a b : all_space (a ++ b) = all_space a && all_space b.
Proof. unfold all_space. induction a as [|c r IH]; cbn; [reflexivity|]. now rewrite IH, andb_assoc. Qed.
Lemma all_space_srev b : all_space b = true -> all_space (srev b) = true.
Proof.
  induction b as [|c r IH]; [reflexivity|]. cbn [all_space sforall]. unfold all_space in *. cbn [sforall]. intros H.
  apply andb_true_iff in H as [Hc Hr]. rewrite srev_cons. fold (all_space (srev r ++ String c "")). rewrite all_space_app.
  unfold all_space at 1. rewrite (IH Hr). cbn. now rewrite Hc.
Qed.

(* Python's str.strip(): white space around a core that neither starts nor ends with white space is removed, nothing else *)
Theorem strip_spec a m b :
  all_space a = true -> all_space b = true -> first_ok m = true -> last_ok m = true -> strip (a ++ m ++ b) = m.
Proof.
  intros Ha Hb Hf Hl. unfold strip. rewrite (lstrip_spaces_app a _ Ha).
  destruct m as [|c r].
  - cbn [append]. rewrite (lstrip_all_space b Hb). reflexivity.
  - rewrite lstrip_first_ok; [|exact Hf]. unfold rstrip. rewrite srev_app.
    rewrite (lstrip_spaces_app _ _ (all_space_srev b Hb)). rewrite lstrip_first_ok; [|exact Hl]. apply srev_invol.
Qed.

Lemma first_ok_app m t : m <> "" -> first_ok (m ++ t) = first_ok m.
Proof. destruct m; [congruence|reflexivity]. Qed.
Lemma last_ok_app m t : t <> "" -> last_ok (m ++ t) = last_ok t.
Proof.
  intros Ht. unfold last_ok. rewrite srev_app. apply first_ok_app. intros E. apply Ht.
  rewrite <- (srev_invol t), E. reflexivity.
Qed.

(* ------------------------------------------------------------------ values *)
Lemma value_ok_last v : value_ok v = true -> last_ok v = true.
Proof.
  intros H. assert (Hs : sforall value_c (srev v) = true).
  { destruct v as [|c r]; [discriminate|]. cbn [value_ok] in H. revert H. generalize (String c r). intros s.
    induction s as [|d t IH]; [reflexivity|]. cbn [sforall]. intros H. apply andb_true_iff in H as [Hd Ht]. rewrite srev_cons.
    specialize (IH Ht). revert IH. generalize (srev t). intros u. induction u as [|e w IHw]; cbn; [now rewrite Hd|].
    intros Hu. apply andb_true_iff in Hu as [He Hw]. now rewrite He, IHw. }
  unfold last_ok. destruct (srev v) as [|c r]; [reflexivity|]. cbn in Hs. apply andb_true_iff in Hs as [Hc _].
  unfold value_c in Hc. apply andb_true_iff in Hc as [Hc _]. exact Hc.
Qed.
Lemma value_ok_nonempty v : value_ok v = true -> v <> "".
Proof. destruct v; [discriminate|congruence]. Qed.

(* two comma-free values followed by the same kind of continuation *)
Lemma value_split v : forall w r r', sforall value_c v = true -> sforall value_c w = true ->
  v ++ String "," r = w ++ String "," r' -> v = w /\ r = r'.
Proof.
  induction v as [|c t IH]; intros [|d u] r r' Hv Hw H; cbn in H.
  - injection H as ->. auto.
  - injection H as <- _. cbn in Hw. unfold value_c in Hw at 1. rewrite Ascii.eqb_refl in Hw. cbn in Hw. rewrite andb_false_r in Hw. discriminate.
  - injection H as -> _. cbn in Hv. unfold value_c in Hv at 1. rewrite Ascii.eqb_refl in Hv. cbn in Hv. rewrite andb_false_r in Hv. discriminate.
  - injection H as -> H. cbn in Hv, Hw. apply andb_true_iff in Hv as [_ Hv]. apply andb_true_iff in Hw as [_ Hw].
    destruct (IH u r r' Hv Hw H) as [-> ->]. auto.
Qed.
Lemma value_ok_chars v : value_ok v = true -> sforall value_c v = true.
Proof. destruct v; [discriminate|auto]. Qed.

(* ------------------------------------------------------------------ the sentence of a fact *)
Lemma entity_printer_body name attrs :
  entity_printer name attrs = strip (replace_underscore name ++ " " ++ fact_body name attrs).
Proof.
  unfold entity_printer, fact_body, item_prefix. destruct attrs as [|a [|b r]]; try reflexivity.
  - rewrite (map_ext (fun a0 : xattr => "with " ++ strip (removeprefix name (xattr_str a0)) ++ " equal to " ++ x_value a0)
                      (fun a0 : xattr => ("with " ++ strip (removeprefix name (xattr_str a0)) ++ " equal to ") ++ x_value a0)); [reflexivity|].
    intros x. now rewrite !app_assoc_s.
Qed.

Lemma join_ends sep : forall l : list string, l <> [] -> exists pre, join sep l = pre ++ last l "".
Proof.
  induction l as [|x [|y r] IH]; intros Hne; [congruence|exists ""; reflexivity|].
  destruct IH as [pre E]; [discriminate|]. exists (x ++ sep ++ pre).
  change (join sep (x :: y :: r)) with (x ++ sep ++ join sep (y :: r)). rewrite E.
  change (last (x :: y :: r) "") with (last (y :: r) ""). now rewrite !app_assoc_s.
Qed.
Lemma last_map_in {A} (f : A -> string) : forall l : list A, l <> [] -> exists z, In z l /\ last (map f l) "" = f z.
Proof.
  induction l as [|x [|y r] IH]; intros Hne; [congruence|exists x; split; [now left|reflexivity]|].
  destruct IH as [z [Hz E]]; [discriminate|]. exists z. split; [now right|]. exact E.
Qed.
Lemma join_last_value name attrs : attrs <> [] -> Forall (fun a => value_ok (x_value a) = true) attrs ->
  exists pre v, fact_body name attrs = pre ++ v /\ value_ok v = true.
Proof.
  intros Hne Hall. rewrite Forall_forall in Hall. destruct attrs as [|a [|b r]]; [congruence| |].
  - exists "", (x_value a). split; [reflexivity|]. apply Hall. now left.
  - unfold fact_body. set (f := fun a0 => item_prefix name a0 ++ x_value a0). set (l := a :: b :: r) in *.
    destruct (join_ends ", " (map f l)) as [pre E]; [discriminate|].
    destruct (last_map_in f l Hne) as [z [Hz Ez]]. exists (pre ++ item_prefix name z), (x_value z). split; [|now apply Hall].
    rewrite E, Ez. unfold f. now rewrite !app_assoc_s.
Qed.

(* closed form: 'There is <concept> <value>.' / 'There is <concept> with <attribute> equal to <value>, with ...' *)
Theorem fact_sentence_closed_form e args :
  name_ok (on_name (xe_name e)) = true ->
  xe_all (parse_symbol e args) <> [] ->
  Forall (fun a => value_ok (x_value a) = true) (xe_all (parse_symbol e args)) ->
  sentence_of (fact_sig e) args =
  Sentence ("There is " ++ replace_underscore (on_name (xe_name e)) ++ " " ++
            fact_body (on_name (xe_name e)) (xe_all (parse_symbol e args)) ++ ".").
Proof.
  intros Hn Hne Hall. unfold sentence_of, raw_sentence, fact_sig. cbn [sg_subjects sg_entity sg_verb sg_objects].
  cbn [convert_attribute_to_entity]. cbn [fold_left]. rewrite String.eqb_refl.
  set (atom := parse_symbol e args) in *.
  assert (Ename : xe_name atom = xe_name e).
  { unfold atom, parse_symbol. destruct (set_values (xe_keys e) args) as [k rest]. destruct (set_values (xe_attrs e) rest). reflexivity. }
  rewrite Ename. set (name := on_name (xe_name e)) in *.
  destruct (join_last_value name (xe_all atom) Hne Hall) as [pre [v [Eb Hv]]].
  set (X := replace_underscore name ++ " " ++ fact_body name (xe_all atom)).
  assert (Hname_ne : replace_underscore name <> "") by (destruct name; [discriminate|cbn; congruence]).
  assert (HfX : first_ok X = true).
  { unfold X. rewrite first_ok_app; [|exact Hname_ne]. destruct name as [|c r]; [discriminate|]. cbn in Hn |- *.
    apply andb_true_iff in Hn as [Hs Hu]. apply negb_true_iff in Hu. rewrite Hu. exact Hs. }
  assert (HlX : last_ok X = true).
  { unfold X. rewrite Eb. rewrite <- !app_assoc_s. rewrite last_ok_app; [|now apply value_ok_nonempty]. now apply value_ok_last. }
  rewrite entity_printer_body. fold X.
  assert (EX : strip X = X).
  { pose proof (strip_spec "" X "" eq_refl eq_refl HfX HlX) as H. cbn [append] in H. now rewrite app_nil_r_s in H. }
  rewrite EX.
  assert (ER : strip ("There" ++ " " ++ "is " ++ X ++ " " ++ "") = "There is " ++ X).
  { change ("There" ++ " " ++ "is " ++ X ++ " " ++ "") with ("" ++ ("There is " ++ X) ++ " ").
    apply strip_spec; try reflexivity.
    rewrite last_ok_app; [exact HlX|]. unfold X. intros E. apply (f_equal String.length) in E. rewrite length_app_s in E.
    destruct (replace_underscore name); [congruence|cbn in E; lia]. }
  rewrite ER. cbn [append cap_first]. unfold upper_c. cbn. unfold X. now rewrite !app_assoc_s.
Qed.

(* ------------------------------------------------------------------ injectivity *)
Definition same_shape (a b : xattr) : Prop := x_name a = x_name b /\ x_origin a = x_origin b.

Lemma join_cons2 sep (x y : string) l : join sep (x :: y :: l) = x ++ sep ++ join sep (y :: l).
Proof. reflexivity. Qed.

Lemma items_injective name : forall l1 l2 t,
  Forall2 same_shape l1 l2 ->
  Forall (fun a => value_ok (x_value a) = true) l1 -> Forall (fun a => value_ok (x_value a) = true) l2 ->
  join ", " (map (fun a => item_prefix name a ++ x_value a) l1) ++ t = join ", " (map (fun a => item_prefix name a ++ x_value a) l2) ++ t ->
  map x_value l1 = map x_value l2.
Proof.
  set (f := fun a => item_prefix name a ++ x_value a).
  induction l1 as [|a r IH]; intros l2 t HF H1 H2 E; inversion HF as [|? b ? s [Hn Ho] HF']; subst; [reflexivity|].
  inversion H1 as [|? ? Ha Hr]; subst. inversion H2 as [|? ? Hb Hs]; subst.
  assert (Ep : item_prefix name a = item_prefix name b).
  { unfold item_prefix, xattr_str. now rewrite Hn, Ho. }
  destruct r as [|a' r']; inversion HF' as [|? b' ? s' Hab HF'']; subst.
  - change (f a ++ t = f b ++ t) in E. unfold f in E. rewrite Ep, !app_assoc_s in E. apply app_inv_head_s in E.
    apply app_inv_tail_s in E. cbn [map]. now rewrite E.
  - change (map f (a :: a' :: r')) with (f a :: f a' :: map f r') in E.
    change (map f (b :: b' :: s')) with (f b :: f b' :: map f s') in E.
    rewrite !join_cons2 in E.
    assert (Efa : f a = item_prefix name b ++ x_value a) by (unfold f; now rewrite Ep).
    assert (Efb : f b = item_prefix name b ++ x_value b) by reflexivity.
    rewrite Efa, Efb in E. rewrite !app_assoc_s in E. apply app_inv_head_s in E.
    change (", " ++ ?x) with (String "," (String " " x)) in E.
    apply value_split in E; [|now apply value_ok_chars|now apply value_ok_chars].
    destruct E as [Ev E]. injection E as E.
    change (map x_value (a :: a' :: r')) with (x_value a :: map x_value (a' :: r')).
    change (map x_value (b :: b' :: s')) with (x_value b :: map x_value (b' :: s')).
    rewrite Ev. f_equal. apply (IH (b' :: s') t HF' Hr Hs). exact E.
Qed.

Lemma set_values_shape l : forall args, Forall2 same_shape l (fst (set_values l args)).
Proof.
  induction l as [|a r IH]; intros args; cbn; [constructor|]. destruct args as [|v vs]; cbn.
  - constructor; [split; reflexivity|]. clear IH. induction r; constructor; [split; reflexivity|auto].
  - specialize (IH vs). destruct (set_values r vs) as [r' rest]. cbn. constructor; [split; reflexivity|exact IH].
Qed.
Lemma parse_symbol_shape e args : Forall2 same_shape (xe_all e) (xe_all (parse_symbol e args)).
Proof.
  unfold parse_symbol, xe_all. pose proof (set_values_shape (xe_keys e) args) as Hk.
  destruct (set_values (xe_keys e) args) as [k rest]. pose proof (set_values_shape (xe_attrs e) rest) as Ha.
  destruct (set_values (xe_attrs e) rest) as [a rest']. cbn in *. now apply Forall2_app.
Qed.
Lemma same_shape_sym_trans l : forall m n, Forall2 same_shape l m -> Forall2 same_shape l n -> Forall2 same_shape m n.
Proof.
  induction l as [|a r IH]; intros m n Hm Hn; inversion Hm; inversion Hn; subst; constructor; [|auto].
  unfold same_shape in *. intuition congruence.
Qed.

(* distinct atoms of a declared concept give distinct sentences: equal sentences force equal (unquoted) argument values *)
Theorem fact_sentences_injective e args1 args2 :
  name_ok (on_name (xe_name e)) = true ->
  xe_all e <> [] ->
  Forall (fun a => value_ok (x_value a) = true) (xe_all (parse_symbol e args1)) ->
  Forall (fun a => value_ok (x_value a) = true) (xe_all (parse_symbol e args2)) ->
  sentence_of (fact_sig e) args1 = sentence_of (fact_sig e) args2 ->
  map x_value (xe_all (parse_symbol e args1)) = map x_value (xe_all (parse_symbol e args2)).
Proof.
  intros Hn Hne H1 H2 E.
  pose proof (parse_symbol_shape e args1) as S1. pose proof (parse_symbol_shape e args2) as S2.
  assert (Hne1 : xe_all (parse_symbol e args1) <> []) by (intros Z; rewrite Z in S1; inversion S1; congruence).
  assert (Hne2 : xe_all (parse_symbol e args2) <> []) by (intros Z; rewrite Z in S2; inversion S2; congruence).
  rewrite (fact_sentence_closed_form e args1 Hn Hne1 H1), (fact_sentence_closed_form e args2 Hn Hne2 H2) in E.
  injection E as E. apply app_inv_head_s in E. injection E as E.
  pose proof (same_shape_sym_trans _ _ _ S1 S2) as S12.
  remember (xe_all (parse_symbol e args1)) as l1 eqn:El1. remember (xe_all (parse_symbol e args2)) as l2 eqn:El2.
  clear El1 El2 S1 S2 Hne2. unfold fact_body in E.
  destruct S12 as [|a1 a2 r1 r2 Hs S12]; [congruence|].
  destruct S12 as [|b1 b2 r1 r2 Hs' S12].
  - apply app_inv_tail_s in E. cbn. now rewrite E.
  - apply (items_injective (on_name (xe_name e)) (a1 :: b1 :: r1) (a2 :: b2 :: r2) "."); auto.
Qed.

(* the values are the (unquoted) arguments of the atom, position by position *)
Lemma set_values_values l : forall args, length l <= length args ->
  map x_value (fst (set_values l args)) = map unquote (firstn (length l) args) /\ snd (set_values l args) = skipn (length l) args.
Proof.
  induction l as [|a r IH]; intros args Hlen; cbn [length firstn skipn map]; [split; reflexivity|].
  destruct args as [|v vs]; [cbn in Hlen; lia|]. cbn in Hlen. cbn [set_values]. specialize (IH vs ltac:(lia)).
  destruct (set_values r vs) as [r' rest]. cbn in *. destruct IH as [-> ->]. split; reflexivity.
Qed.
Theorem parsed_values e args : length args = length (xe_all e) ->
  map x_value (xe_all (parse_symbol e args)) = map unquote args.
Proof.
  intros Hlen. unfold xe_all in *. rewrite app_length in Hlen. unfold parse_symbol.
  pose proof (set_values_values (xe_keys e) args ltac:(lia)) as Hk. destruct (set_values (xe_keys e) args) as [k rest].
  cbn in Hk. destruct Hk as [Hk ->].
  pose proof (set_values_values (xe_attrs e) (skipn (length (xe_keys e)) args)) as Ha.
  rewrite skipn_length in Ha. specialize (Ha ltac:(lia)).
  destruct (set_values (xe_attrs e) (skipn (length (xe_keys e)) args)) as [a rest']. cbn in Ha. destruct Ha as [Ha _].
  cbn. rewrite map_app, Hk, Ha. rewrite <- map_app. f_equal.
  rewrite <- (firstn_skipn (length (xe_keys e)) args) at 3. f_equal.
  rewrite firstn_all2; [reflexivity|]. rewrite skipn_length. lia.
Qed.
