(* How many of the generated core-fragment specifications fall in the scope of C01_answer_sets_are_the_models_partial
   (a decidable rendering of `covered`, `no_definition` and `separated`). *)
Require Import Coq.Strings.String Coq.Lists.List Coq.Bool.Bool Coq.ZArith.ZArith.
Require Import Cnl2aspV.Base.Util Cnl2aspV.Cnl.Comparison Cnl2aspV.Cnl.Core Cnl2aspV.Cnl.CoreCases Cnl2aspV.Cnl.CoreProgram Cnl2aspV.Cnl.CoreStable.
Import ListNotations.

Definition declaredb (s : spec) (n : string) : bool := mem_string n (concept_names s).
Fixpoint nodupb (l : list string) : bool := match l with [] => true | x :: r => negb (mem_string x r) && nodupb r end.
Definition is_label (cl : clause) (l : string) : bool := String.eqb l (cl_slabel cl) || String.eqb l (cl_olabel cl).
Definition coveredb (s : spec) (x : sentence) : bool :=
  match x with
  | SThere _ _ _ _ _ => true
  | SCons _ [] [cl] wh =>
      negb (String.eqb (cl_slabel cl) (cl_olabel cl)) && declaredb s (cl_subj cl) && declaredb s (cl_obj cl) &&
      match wh with None => true | Some w => mem_string (w_phrase w) comparison_phrases && is_label cl (w_left w) && is_label cl (w_right w) end
  | SChoice c =>
      let sv := var_of s (ch_subj c) (ch_slabel c) in let ov := var_of s (ch_obj c) (ch_olabel c) in
      declaredb s (ch_subj c) && declaredb s (ch_obj c) && nodupb (dom_of s (ch_obj c)) && negb (String.eqb sv ov) &&
      match ch_foreach c with None => true
                         | Some e => declaredb s e && negb (String.eqb (auto_var s e) sv) && negb (String.eqb (auto_var s e) ov) end
  | SOneOf l vals (SCons _ [] [cl] None) =>
      let smallb := fun z => (Z.ltb (- 10 ^ 20) z && Z.ltb z (10 ^ 20))%Z in
      String.eqb l (cl_slabel cl) && negb (String.eqb (cl_slabel cl) (cl_olabel cl)) && declaredb s (cl_subj cl) && declaredb s (cl_obj cl) &&
      forallb smallb vals &&
      match find_concept s (cl_subj cl) with Some c => match c_dom c with DRange lo hi => smallb lo && smallb hi | DEnum _ => false end | None => false end
  | _ => false
  end.
Definition kcase_in_scope (c : kcase) : bool :=
  let s := k_spec c in forallb (coveredb s) (sentences s) && separated s (universe s).

(* scope of the theorem WITH single-clause derived definitions (Cnl/CoreStableDef.v) *)
Require Import Cnl2aspV.Cnl.CoreStableDef Cnl2aspV.Cnl.CoreExact.
Definition def1b (s : spec) (x : sentence) : bool :=
  match x with
  | SDef subj label p [cl] =>
      String.eqb subj (cl_subj cl) && String.eqb label (cl_slabel cl) && negb (String.eqb (cl_slabel cl) (cl_olabel cl)) &&
      declaredb s subj && declaredb s (cl_obj cl)
  | _ => false end.
Definition kcase_in_scope_defs (c : kcase) : bool :=
  let s := k_spec c in
  forallb (fun x => coveredb s x || def1b s x) (sentences s) && separated_d s (universe s) &&
  nodupb (flat_map def_pred (sentences s)) && forallb no_paren (flat_map def_pred (sentences s)) &&
  nodupb (concept_names s) && forallb no_paren (concept_names s).
