Require Import Coq.Strings.String Coq.Lists.List Coq.Bool.Bool Coq.Arith.Arith Coq.ZArith.ZArith.
Require Import Cnl2aspV.Base.Util Cnl2aspV.Asp.Agg Cnl2aspV.Cnl.Aggregate Cnl2aspV.Cnl.AggregateCases Cnl2aspV.Cnl.Preference.
Import ListNotations.
Open Scope string_scope.

(* pc_out: the weak constraints the IMPLEMENTATION emitted, each with variables renamed by first occurrence;
   pc_optimal: the answer sets clingo reports optimal (optN, optimality proven), projected on host/2 *)
Record pcase := { pc_spec : pspec; pc_out : list string; pc_optimal : list interp }.

Fixpoint strs_eqb (a b : list string) : bool :=
  match a, b with [], [] => true | x :: r, y :: s => String.eqb x y && strs_eqb r s | _, _ => false end.
Definition modelled (c : pcase) : bool := forallb (fun p => match pf_only p with [] => true | _ => false end) (p_prefs (pc_spec c)).
Definition pcorr_ok (c : pcase) : bool :=
  if negb (modelled c) then true else
  match compile_prefs (pc_spec c) with Some ws => strs_eqb (map print_wc ws) (pc_out c) | None => false end.

Definition space (c : pcase) : list interp := powerset (candidates (world (pc_spec c))).
Fixpoint vec_lt (a b : list Z) : bool :=
  match a, b with x :: r, y :: s => if Z.ltb x y then true else if Z.ltb y x then false else vec_lt r s | _, _ => false end.
Lemma lex_better_vec sp J I ps : lex_better sp J I ps = vec_lt (map (directed sp J) ps) (map (directed sp I) ps).
Proof. induction ps as [|p r IH]; cbn; [reflexivity|]. now rewrite IH. Qed.
Lemma cost_better_vec sp ws J I lv : cost_better sp ws J I lv = vec_lt (map (level_cost sp J ws) lv) (map (level_cost sp I ws) lv).
Proof. induction lv as [|p r IH]; cbn; [reflexivity|]. now rewrite IH. Qed.

(* the comparisons below tabulate (hard, vector) once per interpretation; by the two lemmas above this is optimal_in / wc_optimal_in *)
Definition opt_table_exact (tab : list (interp * (bool * list Z))) (reported : list interp) : bool :=
  forallb (fun e => Bool.eqb (fst (snd e) && forallb (fun e' => negb (fst (snd e') && vec_lt (snd (snd e')) (snd (snd e)))) tab)
                             (existsb (interp_eqb (fst e)) reported)) tab.
(* exhaustive: an interpretation is optimal by the READING iff clingo reports it optimal *)
Definition reading_opt_exact (c : pcase) : bool :=
  let s := pc_spec c in let ps := by_priority (p_prefs s) in
  opt_table_exact (map (fun J => (J, (hard s J, map (directed s J) ps))) (space c)) (pc_optimal c).
(* the semantics given to the emitted weak constraints agrees with clingo *)
Definition wc_opt_exact (c : pcase) : bool :=
  if negb (modelled c) then true else
  match compile_prefs (pc_spec c) with
  | Some ws => let s := pc_spec c in let lv := levels_desc ws in
               opt_table_exact (map (fun J => (J, (hard s J, map (level_cost s J ws) lv))) (space c)) (pc_optimal c)
  | None => false end.

Lemma forallb_map' {A B} (f : A -> B) (g : B -> bool) l : forallb g (map f l) = forallb (fun x => g (f x)) l.
Proof. induction l as [|x r IH]; cbn; [reflexivity|]. now rewrite IH. Qed.
Lemma forallb_ext' {A} (f g : A -> bool) l : (forall x, f x = g x) -> forallb f l = forallb g l.
Proof. intros H. induction l as [|x r IH]; cbn; [reflexivity|]. now rewrite H, IH. Qed.
Lemma opt_table_reading sp sps reported :
  opt_table_exact (map (fun J => (J, (hard sp J, map (directed sp J) (by_priority (p_prefs sp))))) sps) reported =
  forallb (fun J => Bool.eqb (optimal_in sp sps J) (existsb (interp_eqb J) reported)) sps.
Proof.
  unfold opt_table_exact, optimal_in. rewrite forallb_map'. apply forallb_ext'. intros J. cbn [fst snd].
  f_equal. f_equal. rewrite forallb_map'. apply forallb_ext'. intros K. cbn [fst snd]. now rewrite lex_better_vec.
Qed.
