"""T-gen: regenerate coq/Gen/Operators.v, Tables.v, Terminals.v from /repo (reflection + tabulation by execution)."""
import os
import sys

HERE = os.path.dirname(os.path.abspath(__file__))
sys.path.insert(0, os.path.join(os.path.dirname(HERE), 'harness'))
sys.path.insert(0, HERE)
from common import COQ, write_if_changed, coq_str  # noqa: E402
import impl  # noqa: E402  (puts /repo/src on sys.path)
import grammar_reader as gr  # noqa: E402

import lark  # noqa: E402
from cnl2asp.specification.operation_component import Operators  # noqa: E402
from cnl2asp.specification.aggregate_component import AggregateOperation  # noqa: E402
from cnl2asp.specification.entity_component import EntityType  # noqa: E402
from cnl2asp.specification.proposition import PREFERENCE_PROPOSITION_TYPE, PROPOSITION_TYPE  # noqa: E402
from cnl2asp.specification.attribute_component import ValueComponent  # noqa: E402
from cnl2asp.ASP_elements.asp_operation import ASPOperation, ASPTemporalOperation  # noqa: E402
from cnl2asp.ASP_elements.asp_aggregate import ASPAggregate  # noqa: E402
from cnl2asp.converter import asp_converter  # noqa: E402
from cnl2asp.parser.parser import CNLTransformer, QUANTITY_OPERATOR  # noqa: E402
from cnl2asp.parser.proposition_builder import PreferencePropositionBuilder  # noqa: E402

HDR = '(* GENERATED from /repo by tools/translate/gen_tables.py -- do not edit, not committed *)\n' \
      'Require Import Coq.Strings.String Coq.ZArith.ZArith Coq.Lists.List.\nImport ListNotations.\nOpen Scope string_scope.\n\n'


def enum_v(tyname, enum, prefix):
    members = list(enum)
    names = [prefix + m.name for m in members]
    s = 'Inductive %s : Set :=\n' % tyname + ''.join('  | %s\n' % n for n in names) + '.\n\n'
    s += 'Definition %s_all : list %s := [%s].\n\n' % (tyname, tyname, '; '.join(names))
    s += 'Definition %s_value (o : %s) : Z :=\n  match o with\n' % (tyname, tyname)
    for m, n in zip(members, names):
        assert isinstance(m.value, int), 'enum value is not an int: %r' % (m,)
        s += '  | %s => %d\n' % (n, m.value)
    s += '  end%Z.\n\n'
    s += 'Definition %s_name (o : %s) : string :=\n  match o with\n' % (tyname, tyname)
    for m, n in zip(members, names):
        s += '  | %s => %s\n' % (n, coq_str(m.name))
    s += '  end.\n\n'
    s += 'Definition %s_eqb (a b : %s) : bool := Z.eqb (%s_value a) (%s_value b).\n\n' % (tyname, tyname, tyname, tyname)
    return s


def gen_operators():
    s = HDR
    s += enum_v('operator', Operators, 'Op_')
    # the code compares members with < and <= (functools.total_ordering over .value): check it really is the value order
    ms = list(Operators)
    for a in ms:
        for b in ms:
            assert (a < b) == (a.value < b.value) and (a <= b) == (a.value <= b.value) and (a >= b) == (a.value >= b.value), \
                'Operators ordering is not the order of .value any more (%s,%s)' % (a, b)
    s += 'Definition op_ltb (a b : operator) : bool := Z.ltb (operator_value a) (operator_value b).\n'
    s += 'Definition op_leb (a b : operator) : bool := Z.leb (operator_value a) (operator_value b).\n\n'
    s += enum_v('aggop', AggregateOperation, 'Agg_')
    s += enum_v('etype', EntityType, 'Ety_')
    s += enum_v('preftype', PREFERENCE_PROPOSITION_TYPE, 'Pref_')
    s += enum_v('proptype', PROPOSITION_TYPE, 'Prop_')
    s += enum_v('quantop', QUANTITY_OPERATOR, 'Q_')
    return s


def opname(o):
    return 'Op_' + o.name


def dict_v(name, d, keyfmt, valfmt, kty, vty):
    s = 'Definition %s : list (%s * %s) :=\n  [' % (name, kty, vty)
    s += ';\n   '.join('(%s, %s)' % (keyfmt(k), valfmt(v)) for k, v in d.items())
    s += '].\n\n'
    return s


def gen_tables():
    s = HDR + 'Require Import %s.Gen.Operators.\n\n' % 'Cnl2aspV'
    for k, v in asp_converter.operators_negation.items():
        assert isinstance(k, Operators) and isinstance(v, Operators)
    s += dict_v('operators_negation', asp_converter.operators_negation, opname, opname, 'operator', 'operator')
    s += dict_v('asp_operators', ASPOperation.operators, opname, coq_str, 'operator', 'string')
    s += dict_v('asp_temporal_operators', ASPTemporalOperation.asp_temporal_operators, opname, coq_str, 'operator', 'string')
    s += dict_v('asp_aggregate_symbols', ASPAggregate.symbols, lambda o: 'Agg_' + o.name, coq_str, 'aggop', 'string')
    # is_arithmetic_operator(op)  (asp_converter.py), tabulated over the whole enum
    s += 'Definition is_arithmetic_operator_tab : list (operator * bool) :=\n  [' + ';\n   '.join(
        '(%s, %s)' % (opname(o), 'true' if asp_converter.is_arithmetic_operator(o) else 'false') for o in Operators) + '].\n\n'
    # OperationComponent.__init__/between_operator: operator and operand order of `x is between l and u`
    from cnl2asp.specification.operation_component import OperationComponent
    oc = OperationComponent(Operators.BETWEEN, ValueComponent('x0'), [ValueComponent('x1'), ValueComponent('x2')])
    order = [int(str(o)[1:]) for o in oc.operands]
    assert sorted(order) == [0, 1, 2] and oc.negated is False
    s += 'Definition between_rewrite : operator * list nat := (%s, [%s]).\n\n' % (opname(oc.operation), '; '.join(map(str, order)))
    from cnl2asp.utility.utility import Utility
    s += 'Definition locked_keywords : list string := [%s].\n\n' % '; '.join(coq_str(k) for k in Utility.LOCKED_KEYWORDS)
    s += 'Definition null_value : string := %s.\nDefinition asp_null_value : string := %s.\nDefinition default_attribute : string := %s.\n' % (
        coq_str(Utility.NULL_VALUE), coq_str(Utility.ASP_NULL_VALUE), coq_str(Utility.DEFAULT_ATTRIBUTE))
    return s


def tval(v):
    if v is None:
        return 'TNone'
    if isinstance(v, bool):
        return 'TBool %s' % ('true' if v else 'false')
    if isinstance(v, Operators):
        return 'TOp %s' % opname(v)
    if isinstance(v, AggregateOperation):
        return 'TAgg Agg_%s' % v.name
    if isinstance(v, EntityType):
        return 'TEty Ety_%s' % v.name
    if isinstance(v, QUANTITY_OPERATOR):
        return 'TQuant Q_%s' % v.name
    if isinstance(v, PREFERENCE_PROPOSITION_TYPE):
        return 'TPref Pref_%s' % v.name
    if isinstance(v, int):
        return 'TInt (%d)%%Z' % v
    if isinstance(v, str):  # includes ValueComponent and lark.Token
        return 'TStr %s' % coq_str(str(v))
    raise gr.Unsupported('terminal callback returned unsupported value %r' % (v,))


TERMINALS = ['COMPARISON_OPERATOR', 'AGGREGATE_OPERATOR', 'QUANTITY_OPERATOR', 'TELINGO_DUAL_OPERATOR',
             'TELINGO_CONSTANT', 'ORDERING_OPERATOR', 'TEMPORAL_TYPE', 'SHIFT_OPERATOR', 'ARITHMETIC_OPERATOR',
             'CNL_MINIMIZED', 'CNL_MAXIMIZED', 'VERB_NEGATION', 'TELINGO_TEMPORAL_OPERATOR',
             'TELINGO_ENTITY_TEMPORAL_OPERATOR', 'ASSIGNMENT_VERB', 'COPULA']


def gen_terminals():
    defs, _ = gr.read_definitions(impl.grammar_text())
    s = HDR + 'Require Import Cnl2aspV.Gen.Operators.\n\n'
    s += 'Inductive tval : Set := TNone | TBool (b : bool) | TOp (o : operator) | TAgg (a : aggop) | TEty (e : etype)\n' \
         '  | TQuant (q : quantop) | TPref (p : preftype) | TInt (z : Z) | TStr (s : string).\n\n'
    for t in TERMINALS:
        alts = gr.strings_of(defs, t)
        rows = []
        for a in alts:
            tr = CNLTransformer()
            cb = getattr(tr, t, None)
            if cb is None:
                v = a  # lark leaves the token in place when there is no callback
            else:
                v = cb(lark.Token(t, a))
            rows.append('(%s, %s)' % (coq_str(a), tval(v)))
        s += 'Definition term_%s : list (string * tval) :=\n  [%s].\n\n' % (t, ';\n   '.join(rows))
    # PROBLEM_IDENTIFIER: side effect on the current Problem's name
    rows = []
    for a in gr.strings_of(defs, 'PROBLEM_IDENTIFIER'):
        tr = CNLTransformer()
        tr.PROBLEM_IDENTIFIER(lark.Token('PROBLEM_IDENTIFIER', a))
        rows.append('(%s, %s)' % (coq_str(a), tval(tr._problem.name)))
    s += 'Definition term_PROBLEM_IDENTIFIER : list (string * tval) :=\n  [%s].\n\n' % ';\n   '.join(rows)
    # PRIORITY_LEVEL: side effect add_level on the preference proposition being built
    rows = []
    for a in gr.strings_of(defs, 'PRIORITY_LEVEL'):
        tr = CNLTransformer()
        tr._proposition = PreferencePropositionBuilder()
        tr.PRIORITY_LEVEL(lark.Token('PRIORITY_LEVEL', a))
        rows.append('(%s, %s)' % (coq_str(a), tval(tr._proposition._original_rule.level)))
    s += 'Definition term_PRIORITY_LEVEL : list (string * tval) :=\n  [%s].\n\n' % ';\n   '.join(rows)
    # priority_level_number(n): level = int(n), tabulated on 0..12 and checked to be the identity on a wider sample
    for n in list(range(0, 40)) + [100, 12345]:
        tr = CNLTransformer()
        tr._proposition = PreferencePropositionBuilder()
        tr.priority_level_number([str(n)])
        assert tr._proposition._original_rule.level == n, 'priority_level_number is not int() any more'
    s += 'Definition priority_level_number_is_identity : bool := true.\n\n'
    # direction phrases: what optimization_statement / optimization_operator do with what the phrase callbacks deliver
    rows = []
    for phrase, cbname, via in [('as much as possible', 'cnl_as_much_as_possible', 'optimization_statement'),
                                ('as little as possible', 'cnl_as_little_as_possible', 'optimization_statement'),
                                ('is maximized', 'CNL_MAXIMIZED', 'optimization_operator'),
                                ('is minimized', 'CNL_MINIMIZED', 'optimization_operator')]:
        tr = CNLTransformer()
        tr._proposition = PreferencePropositionBuilder()
        default = tr._proposition._original_rule.type
        if via == 'optimization_statement':
            child = getattr(tr, cbname)([])
            tr.optimization_statement([child])      # Lark passes the list of children
        else:
            child = getattr(tr, cbname)(lark.Token(cbname, phrase.split()[-1]))
            tr.optimization_operator([child])
        rows.append('(%s, %s)' % (coq_str(phrase), tval(tr._proposition._original_rule.type)))
    s += 'Definition direction_of_phrase : list (string * tval) :=\n  [%s].\n' % ';\n   '.join(rows)
    s += 'Definition default_direction : tval := %s.\n\n' % tval(default)
    # which synonym alternatives never reach a callback: Lark filters out terminals whose name starts with '_' (no keep_all_tokens),
    # and rule callbacks that return Discard.  Record, per terminal, the rules that keep all tokens ('!' prefix) and mention it.
    import re as _re
    bang_rules = [ln.split(':')[0].strip().lstrip('!').split('.')[0] for ln in impl.grammar_text().splitlines() if ln.startswith('!')]
    s += 'Definition keep_all_token_rules : list string := [%s].\n' % '; '.join(coq_str(r) for r in bang_rules)
    # callbacks that read the children of those rules by position: tabulate which child indices quantified_choice_proposition uses
    import inspect
    src = inspect.getsource(CNLTransformer.quantified_choice_proposition)
    used = sorted(set(int(i) for i in _re.findall(r'elem\[(\d+)\]', src)))
    s += 'Definition quantified_choice_children_used : list nat := [%s].\n' % '; '.join(map(str, used))
    for cb in ['cnl_goes_from', 'cnl_whenever_there_is', 'cnl_is_one_of']:
        r = getattr(CNLTransformer(), cb)([])
        s += 'Definition discards_%s : bool := %s.\n' % (cb, 'true' if r is lark.Discard else 'false')
    # header strings and other grammar facts used by C09/C11
    for t in ['_QUANTIFIER', '_CNL_HOLD', '_CNL_INDEFINITE_ARTICLE', '_CNL_GOES', '_CNL_RANGES', 'PARAMETER_PREPOSITION',
              'VERB_PREPOSITION', 'COMPLEX_CONCEPT_TYPE']:
        alts = gr.enumerate_terminal(defs, t)
        s += 'Definition gram_%s : list (string * bool) := [%s].\n' % (
            t.strip('_'), '; '.join('(%s, %s)' % (coq_str(a), 'true' if ci else 'false') for a, ci in alts))
    return s


def main():
    out = {}
    out['Gen/Operators.v'] = gen_operators()
    out['Gen/Tables.v'] = gen_tables()
    out['Gen/Terminals.v'] = gen_terminals()
    for k, v in out.items():
        write_if_changed(os.path.join(COQ, k), v)
    return 0


if __name__ == '__main__':
    try:
        sys.exit(main())
    except (gr.Unsupported, AssertionError, AttributeError, KeyError, TypeError) as e:
        print('TRANSLATOR-FAILED gen_tables: %s: %s' % (type(e).__name__, e))
        sys.exit(2)
