(* C10: compilation as a left fold over sentences.
   The state carried from one sentence to the next is exactly (signature table, constants, temporal concepts already converted):
   the instance attributes of the transformer and of the converter that their reset methods do NOT re-create
   (Gen/Effects.v: instance_state).  Parametric in the state, the sentence type and the step function. *)
Require Import Coq.Strings.String Coq.Lists.List Coq.Bool.Bool Coq.Arith.Arith.
Require Import Cnl2aspV.Base.Util Cnl2aspV.Gen.Effects.
Import ListNotations.
Open Scope string_scope.

Section Fold.
  Variables (St Sn R : Type).                (* carried state, sentences, rules *)
  Variable step : St -> Sn -> St * list R.

  Fixpoint compile_from (st : St) (l : list Sn) : St * list R :=
    match l with
    | [] => (st, [])
    | x :: r => let '(st1, rs) := step st x in let '(st2, rs') := compile_from st1 r in (st2, (rs ++ rs')%list)
    end.

  Lemma compile_app st l1 l2 :
    compile_from st (l1 ++ l2) =
    let '(st1, r1) := compile_from st l1 in let '(st2, r2) := compile_from st1 l2 in (st2, (r1 ++ r2)%list).
  Proof.
    revert st. induction l1 as [|x r IH]; intros st; cbn [app compile_from].
    - destruct (compile_from st l2); reflexivity.
    - destruct (step st x) as [st1 rs]. rewrite IH. destruct (compile_from st1 r) as [st2 r1].
      destruct (compile_from st2 l2) as [st3 r2]. now rewrite app_assoc.
  Qed.

  (* the rules of a prefix are a prefix of the rules of the whole *)
  Theorem prefix st l1 l2 : exists tail, snd (compile_from st (l1 ++ l2)) = (snd (compile_from st l1) ++ tail)%list.
  Proof.
    rewrite compile_app. destruct (compile_from st l1) as [st1 r1]. destruct (compile_from st1 l2) as [st2 r2].
    exists r2. reflexivity.
  Qed.

  (* rules appear in the order of their sentences: the output is the concatenation of the per-sentence blocks *)
  Fixpoint blocks_from (st : St) (l : list Sn) : list (list R) :=
    match l with [] => [] | x :: r => snd (step st x) :: blocks_from (fst (step st x)) r end.

  Theorem order st l : snd (compile_from st l) = concat (blocks_from st l).
  Proof.
    revert st. induction l as [|x r IH]; intros st; cbn [compile_from blocks_from concat]; [reflexivity|].
    destruct (step st x) as [st1 rs] eqn:E. cbn [fst snd]. specialize (IH st1).
    destruct (compile_from st1 r) as [st2 rs']. cbn [snd] in *. now rewrite IH.
  Qed.

  (* removing a sentence that leaves the carried state unchanged removes exactly its block and changes no other *)
  Theorem remove st l1 x l2 :
    fst (step (fst (compile_from st l1)) x) = fst (compile_from st l1) ->
    snd (compile_from st (l1 ++ l2)) =
      (snd (compile_from st l1) ++ snd (compile_from (fst (compile_from st l1)) l2))%list /\
    snd (compile_from st (l1 ++ x :: l2)) =
      (snd (compile_from st l1) ++ snd (step (fst (compile_from st l1)) x) ++ snd (compile_from (fst (compile_from st l1)) l2))%list.
  Proof.
    intros H. rewrite !compile_app. destruct (compile_from st l1) as [st1 r1]. cbn [fst snd] in *. split.
    - destruct (compile_from st1 l2) as [st2 r2]. reflexivity.
    - cbn [compile_from]. destruct (step st1 x) as [st1' rs]. cbn [fst snd] in *. subst st1'.
      destruct (compile_from st1 l2) as [st2 r2]. reflexivity.
  Qed.
End Fold.

(* ------------------------------------------------------------------ nothing else survives a sentence (generated facts) *)
Definition carried (cls : string) : list string :=
  (* _sentence_variables: the author's variables of each sentence, read off the parse tree before the transformation starts; every
     sentence consumes exactly its own entry (in _clear), so nothing one sentence computes reaches another through it *)
  if String.eqb cls "CNLTransformer" then ["_specification"; "_problem"; "_sentence_variables"]
  else if String.eqb cls "ASPConverter" then ["_asp_encoding"; "_program"; "_converted_complex_entities"] else [].

Definition class_ok (row : string * list string * list string * list string) : bool :=
  match row with (cls, init, everywhere, resets) =>
    (* every attribute the class ever assigns is created in __init__ ... *)
    forallb (fun a => mem_string a init) everywhere &&
    (* ... and is either carried on purpose or re-created by the reset method *)
    forallb (fun a => mem_string a (carried cls) || mem_string a resets) init
  end.

Definition no_leak : bool :=
  forallb class_ok instance_state && forallb (fun p => snd p) sentence_callbacks_clear && convert_problem_clears_per_proposition
  && Nat.eqb (length instance_state) 2 && Nat.eqb (length sentence_callbacks_clear) 3.
