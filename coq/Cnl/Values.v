(* Model of ASPConverter.convert_value / ASPEncoding.is_constant (asp_converter.py, asp_encoding.py). *)
Require Import Coq.Strings.String Coq.Strings.Ascii Coq.Lists.List Coq.Bool.Bool Coq.Arith.Arith.
Require Import Cnl2aspV.Base.Util Cnl2aspV.Base.Str Cnl2aspV.Asp.Lex Cnl2aspV.Gen.Tables.
Import ListNotations.
Open Scope string_scope.

Definition telingo_constants : list string := ["&true"; "&initial"; "&false"; "&final"].
Definition is_constant (consts : list string) (v : string) : bool := mem_string v telingo_constants || mem_string v consts.

Definition convert_value (consts : list string) (v : string) : string :=
  match v with
  | EmptyString => v
  | _ => if negb (is_constant consts v) && negb (String.eqb v null_value) && negb (isnumeric v) && negb (isupper v)
         then """" ++ v ++ """" else v
  end.

(* which class the result falls in, for a value token *)
Definition classify (consts : list string) (v : string) : leaf_class :=
  if is_constant consts v then LConstant
  else if String.eqb v null_value then LAnonymous
  else if isnumeric v then LInteger
  else if isupper v then LVariable else LString.

Lemma sforall_impl (f g : ascii -> bool) s : (forall c, f c = true -> g c = true) -> sforall f s = true -> sforall g s = true.
Proof. intros H. induction s as [|c r IH]; cbn; [auto|]. intros E. apply andb_true_iff in E as [E1 E2]. now rewrite (H _ E1), IH. Qed.

Lemma word_plain c : is_word_c c = true -> plain_string_c c = true.
Proof.
  unfold is_word_c, plain_string_c, is_alpha_c, is_upper_c, is_lower_c, is_digit_c.
  destruct c as [b0 b1 b2 b3 b4 b5 b6 b7]. destruct b0, b1, b2, b3, b4, b5, b6, b7; vm_compute; congruence.
Qed.

Lemma upper_first_of_isupper c r : is_alpha_c c = true -> isupper (String c r) = true -> is_upper_c c = true.
Proof.
  unfold isupper. cbn [sexists]. intros Ha H. apply andb_true_iff in H as [_ H]. apply negb_true_iff in H.
  apply orb_false_iff in H as [Hl _]. unfold is_alpha_c in Ha. now rewrite Hl, orb_false_r in Ha.
Qed.

(* a value token: word characters, starting with a letter unless it is a number or the placeholder *)
Definition token_ok (v : string) : bool :=
  word v && (match v with String c _ => is_alpha_c c | EmptyString => false end || isnumeric v || String.eqb v "_").

Theorem values_lex_ok consts v :
  token_ok v = true -> forallb is_identifier consts = true -> null_value = "_" ->
  leaf_ok (classify consts v) v (convert_value consts v) = true.
Proof.
  intros Ht Hc Hnull. unfold token_ok in Ht. apply andb_true_iff in Ht as [Hw Hs].
  destruct v as [|c r]; [discriminate|]. cbn [word] in Hw.
  unfold convert_value, classify.
  destruct (is_constant consts (String c r)) eqn:Ec.
  - cbn [negb andb leaf_ok]. unfold is_constant in Ec. apply orb_true_iff in Ec as [Et|Ec].
    + (* a telingo constant starts with '&', which is not a word character *)
      exfalso. cbn [sforall] in Hw. apply andb_true_iff in Hw as [Hc0 _].
      unfold telingo_constants in Et. cbn [mem_string] in Et.
      repeat (apply orb_true_iff in Et as [Et|Et]; [apply String.eqb_eq in Et; injection Et as -> _; vm_compute in Hc0; discriminate|]).
      discriminate.
    + apply mem_string_In in Ec. now apply (forallb_In _ _ Hc) in Ec.
  - cbn [negb andb]. rewrite Hnull. destruct (String.eqb (String c r) "_") eqn:En.
    + cbn [negb andb leaf_ok]. unfold is_anonymous. exact En.
    + cbn [negb andb]. destruct (isnumeric (String c r)) eqn:Enum.
      * cbn [negb andb leaf_ok]. exact Enum.
      * cbn [negb andb]. destruct (isupper (String c r)) eqn:Eup.
        -- cbn [negb leaf_ok]. rewrite !orb_false_r in Hs.
           cbn [is_variable]. cbn [sforall] in Hw. apply andb_true_iff in Hw as [_ Hr].
           now rewrite (upper_first_of_isupper c r Hs Eup), Hr.
        -- cbn [negb leaf_ok]. unfold is_quoted_of. rewrite String.eqb_refl. cbn [andb].
           apply (sforall_impl is_word_c plain_string_c _ word_plain Hw).
Qed.
