"""./check replay <file>: show the recorded violation, re-run its input on the implementation when it is a text, and then re-run
the property's check with the recorded seed and tier: exit 1 if the same violation is reported again on the tree under test
(VERIF_REPO, default /repo), exit 0 if it is not."""
import importlib
import json
import impl


def main(path):
    r = json.load(open(path))
    pid, what = r.get('property'), r.get('what') or ''
    print('property:', pid, '|', what)
    text = r.get('text')
    if isinstance(text, str) and text:
        print('--- input'); print(text); print('--- implementation now gives')
        try:
            print(impl.compile_text(text))
        except Exception as e:          # the replay of a rejected input shows the rejection
            print('%s: %s' % (type(e).__name__, str(e)[:400]))
    else:
        print(json.dumps({k: v for k, v in r.items() if k not in ('log_tail',)}, indent=1)[:3000])
    if not pid:
        return 0
    print('--- re-running ./check %s --tier %s with seed %s' % (pid, r.get('tier', 'quick'), r.get('seed')))
    mod = importlib.import_module('props.%s' % pid.lower())
    rc = mod.run(r.get('tier', 'quick'), int(r.get('seed', 20261001)))
    if rc == 0:
        print('REPLAY: not reproduced (the check passes)')
        return 0
    import os
    import common
    again = []
    for f in sorted(os.listdir(common.REPLAYS)):
        if f.startswith(pid + '_'):
            try:
                again.append(json.load(open(os.path.join(common.REPLAYS, f))).get('what') or '')
            except Exception:
                pass
    same = [w for w in again if w[:60] == what[:60]]
    print('REPLAY: %s' % ('reproduced' if same else 'the check fails, with other violations: %r' % [w[:100] for w in again[:3]]))
    return 1
