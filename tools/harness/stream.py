"""The shared input stream of the wide-generator properties: corpus (examples, test inputs, regressions) + wide generator."""
import random
import corpus
import gen_wide
import impl


def specs(tier, seed, n_quick=150, n_thorough=2500):
    rnd = random.Random(seed)
    out = [(name, text, None) for name, text in corpus.load()]
    n = n_thorough if tier == 'thorough' else n_quick
    for i in range(n):
        sents = gen_wide.generate(rnd)
        out.append(('wide#%d' % i, gen_wide.text_of(sents), sents))
    return out


def build_objects(text):
    """-> (enc, flat_text, fn_text) or raises"""
    from cnl2asp.utility.utility import Utility
    enc = impl.compile_objects(text)
    Utility.PRINT_WITH_FUNCTIONS = False
    flat = str(enc)
    Utility.PRINT_WITH_FUNCTIONS = True
    try:
        fn = str(enc)
    finally:
        Utility.PRINT_WITH_FUNCTIONS = False
    return enc, flat, fn


def _obj_job(text):
    import serialize
    try:
        enc, flat, fn = build_objects(text)
    except Exception as e:   # rejected input
        return ('rejected', type(e).__name__, str(e)[:300])
    mapping = {}

    def norm(s):
        def rep(m):
            k = m.group(0)
            if k not in mapping:
                mapping[k] = 'x_%d' % len(mapping)
            return mapping[k]
        return impl.UUID_RE.sub(rep, s)
    flat_n = norm(flat)
    try:
        ser = serialize.Ser(norm)
        term = ser.encoding(enc)
    except serialize.Unserialisable as e:
        return ('unserialisable', str(e), flat_n)
    fn_n = norm(fn)
    if not all(ord(c) < 128 for c in flat_n + fn_n + term):
        return ('non-ascii', '', flat_n)
    return ('ok', term, flat_n, fn_n, ser.stats)


def objects_many(texts, workers=14):
    import multiprocessing as mp
    if len(texts) < 24:
        return [_obj_job(t) for t in texts]
    impl.compile_text('A warmupconcept is identified by an id.')
    with mp.get_context('fork').Pool(workers) as pool:
        return pool.map(_obj_job, texts, chunksize=8)
