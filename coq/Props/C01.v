(* C01 — the compiled program has exactly the models the specification describes.  (work in progress: see the level note)
   Asp/Ground.v: ground programs of the emitted class and their stable models; hierarchical_stable is the characterisation
   used for the core fragment.  Cnl/Core.v: the core fragment F0, its compile model (byte-exact on F0), grounding, and the reading. *)
Require Import Coq.Strings.String Coq.Lists.List Coq.Bool.Bool.
Require Import Coq.ZArith.ZArith.
Require Import Cnl2aspV.Asp.Ground Cnl2aspV.Cnl.Core Cnl2aspV.Cnl.CoreProofs.
Import ListNotations.

(* for hierarchical ground programs (no predicate depends on itself): I is a stable model iff it satisfies the constraints and
   cardinality bounds, is closed under the rules and every atom of it is supported *)
Theorem C01_hierarchical_stable :
  forall (lvl : gatom -> nat) (P : list grule) (I : interp), hierarchical lvl P -> (stable P I <-> scb P I = true).
Proof. exact hierarchical_stable. Qed.
Print Assumptions C01_hierarchical_stable.

(* Core fragment, named-instance constraints ("It is required/prohibited that there is [not] a <relation> with c k equal to a,
   with d k equal to b"): the ground constraint the sentence compiles to (compile model of Cnl/Core.v, byte-exact against the
   implementation on every run) holds in exactly the interpretations the sentence admits -- for every universe of values,
   every relation, every pair of values and every interpretation.  The requirement of a negated clause is the single-clause
   branch of constraint_proposition (the clause itself is negated, not the members of a list). *)
Theorem C01_named_instance_constraint_partial :
  forall (s : spec) (U : list string) (required neg : bool) (v : verb) (a b : string) (I : interp),
    constraints_ok I (flat_map (ground_rule U) (compile_sentence s (SThere required neg v a b))) =
    Bool.eqb (holds I (atom_text (verb_pred v) [term_of_token a; term_of_token b])) (xorb required neg).
Proof. exact there_sentence_correct. Qed.
Print Assumptions C01_named_instance_constraint_partial.

(* "where L is one of v1..vn" after k rules gives k*n rules (a second clause multiplies: the cartesian product) *)
Theorem C01_one_of_multiplies :
  forall (s : spec) (l : string) (vals : list Z) (y : sentence),
    length (compile_sentence s (SOneOf l vals y)) = length (compile_sentence s y) * length vals.
Proof. exact one_of_count. Qed.
Print Assumptions C01_one_of_multiplies.
