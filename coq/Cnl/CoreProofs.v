(* Theorems about the core-fragment compile model of Cnl/Core.v. *)
Require Import Coq.Strings.String Coq.Lists.List Coq.Bool.Bool Coq.ZArith.ZArith.
Require Import Cnl2aspV.Base.Util Cnl2aspV.Asp.Ground Cnl2aspV.Cnl.Core.
Import ListNotations.
Open Scope string_scope.

(* the constraints of a list of ground rules hold in I *)
Definition constraints_ok (I : interp) (G : list grule) : bool := forallb (bounds_ok I) G.

(* "It is required/prohibited that there is [not] a <relation> with ...": the one ground constraint the sentence compiles to is
   satisfied exactly by the interpretations the sentence admits, whatever the universe of values *)
Theorem there_sentence_correct (s : spec) (U : list string) (required neg : bool) (v : verb) (sval oval : string) (I : interp) :
  constraints_ok I (flat_map (ground_rule U) (compile_sentence s (SThere required neg v sval oval))) =
  r_sentence s I (SThere required neg v sval oval).
Proof.
  unfold r_sentence, constraints_ok. cbn [compile_sentence r_sentence_ok flat_map app].
  unfold atom_text.
  generalize (verb_pred v) as p, (term_of_token sval) as x, (term_of_token oval) as y. intros p x y.
  destruct (xorb required neg); cbn; unfold ground_atom, body_true; cbn;
    destruct (holds I _); reflexivity.
Qed.

(* each polarity spelled out: the named instance is in the interpretation or not *)
Corollary there_required_positive s U v a b I :
  constraints_ok I (flat_map (ground_rule U) (compile_sentence s (SThere true false v a b))) =
  holds I (atom_text (verb_pred v) [term_of_token a; term_of_token b]).
Proof. rewrite there_sentence_correct. unfold r_sentence. cbn [r_sentence_ok xorb]. now destruct (holds I _). Qed.

Corollary there_required_negated s U v a b I :
  constraints_ok I (flat_map (ground_rule U) (compile_sentence s (SThere true true v a b))) =
  negb (holds I (atom_text (verb_pred v) [term_of_token a; term_of_token b])).
Proof. rewrite there_sentence_correct. unfold r_sentence. cbn [r_sentence_ok xorb]. now destruct (holds I _). Qed.

Corollary there_prohibited_positive s U v a b I :
  constraints_ok I (flat_map (ground_rule U) (compile_sentence s (SThere false false v a b))) =
  negb (holds I (atom_text (verb_pred v) [term_of_token a; term_of_token b])).
Proof. rewrite there_sentence_correct. unfold r_sentence. cbn [r_sentence_ok xorb]. now destruct (holds I _). Qed.

(* a second "is one of" clause multiplies the rules: one copy per rule made so far and value, in that order *)
Theorem one_of_count s l vals y :
  length (compile_sentence s (SOneOf l vals y)) = length (compile_sentence s y) * length vals.
Proof.
  cbn [compile_sentence]. induction (compile_sentence s y) as [|r rs IH]; cbn [flat_map length]; [reflexivity|].
  now rewrite app_length, map_length, IH.
Qed.

(* ------------------------------------------------------------------ one quantified clause *)
Lemma forallb_flat_map {A B} (f : A -> list B) (p : B -> bool) l :
  forallb p (flat_map f l) = forallb (fun a => forallb p (f a)) l.
Proof. induction l as [|a l IH]; cbn [flat_map forallb]; [reflexivity|]. now rewrite forallb_app, IH. Qed.
Lemma forallb_map' {A B} (f : A -> B) (p : B -> bool) l : forallb p (map f l) = forallb (fun a => p (f a)) l.
Proof. induction l as [|a l IH]; cbn [map forallb]; [reflexivity|]. now rewrite IH. Qed.
Lemma existsb_flat_map {A B} (f : A -> list B) (p : B -> bool) l :
  existsb p (flat_map f l) = existsb (fun a => existsb p (f a)) l.
Proof. induction l as [|a l IH]; cbn [flat_map existsb]; [reflexivity|]. now rewrite existsb_app, IH. Qed.
Lemma existsb_map' {A B} (f : A -> B) (p : B -> bool) l : existsb p (map f l) = existsb (fun a => p (f a)) l.
Proof. induction l as [|a l IH]; cbn [map existsb]; [reflexivity|]. now rewrite IH. Qed.

Lemma forallb_ext' {A} (f g : A -> bool) l : (forall a, f a = g a) -> forallb f l = forallb g l.
Proof. intros H. induction l as [|a l IH]; cbn [forallb]; [reflexivity|]. now rewrite H, IH. Qed.

Lemma existsb_ext' {A} (f g : A -> bool) l : (forall a, f a = g a) -> existsb f l = existsb g l.
Proof. intros H. induction l as [|a l IH]; cbn [existsb]; [reflexivity|]. now rewrite H, IH. Qed.

Section OneClause.
  Variables (s : spec) (U : list string) (I : interp) (cl : clause) (required : bool).
  Let sl := cl_slabel cl.
  Let ol := cl_olabel cl.
  Let S := cl_subj cl.
  Let O := cl_obj cl.
  Hypothesis Hne : sl <> ol.

  Definition verb_lit_true (x y : string) : bool :=
    xorb (xorb (cl_neg cl) required) (holds I (atom_text (verb_pred (cl_verb cl)) [x; y])).

  Lemma one_clause_compiled :
    constraints_ok I (flat_map (ground_rule U) (compile_sentence s (SCons required [] [cl] None))) =
    forallb (fun x => forallb (fun y => negb (holds I (atom_text S [x]) && verb_lit_true x y && holds I (atom_text O [y]))) U) U.
  Proof.
    unfold constraints_ok. cbn [compile_sentence flat_map app clause_lits].
    rewrite !app_nil_r.
    fold sl ol S O.
    assert (Hso : String.eqb sl ol = false) by now apply String.eqb_neq.
    assert (Hos : String.eqb ol sl = false) by (apply String.eqb_neq; congruence).
    set (va := {| na_pred := verb_pred (cl_verb cl); na_args := [TVar sl; TVar ol] |}).
    assert (Hd : dedup_keep_last [BPos (atom1 S sl); if xorb (cl_neg cl) required then BNeg va else BPos va; BPos (atom1 O ol)] =
                 [BPos (atom1 S sl); if xorb (cl_neg cl) required then BNeg va else BPos va; BPos (atom1 O ol)]).
    { destruct (xorb (cl_neg cl) required); subst va; unfold atom1;
        cbn [dedup_keep_last existsb lit_same_atom]; unfold natom_eqb; cbn [na_pred na_args terms_eqb term_eqb];
        rewrite ?Hso, ?andb_false_r; cbn [orb andb]; rewrite ?andb_false_r; reflexivity. }
    rewrite Hd. clear Hd.
    cbn [ground_rule].
    assert (Hv : vars_of_body [BPos (atom1 S sl); if xorb (cl_neg cl) required then BNeg va else BPos va; BPos (atom1 O ol)] = [sl; ol]).
    { unfold vars_of_body, atom1. destruct (xorb (cl_neg cl) required); subst va;
        cbn [fold_left vars_of_lit vars_of_atom na_args atom1 add_var mem_string];
        unfold add_var; repeat (progress (cbn [mem_string app orb]; rewrite ?String.eqb_refl, ?Hos, ?Hso)); reflexivity. }
    rewrite Hv. clear Hv.
    cbn [all_substs].
    rewrite forallb_flat_map, forallb_flat_map.
    apply forallb_ext'. intros x.
    rewrite forallb_map', forallb_flat_map.
    apply forallb_ext'. intros y.
    cbn [map forallb]. rewrite andb_true_r.
    unfold verb_lit_true, atom_text.
    destruct (xorb (cl_neg cl) required); subst va; unfold ground_body, atom1;
      cbn [forallb flat_map app bounds_ok body_true b_pos b_neg andb]; unfold ground_atom; cbn [na_pred na_args map apply_term];
      unfold sassoc; cbn [assoc]; rewrite ?String.eqb_refl, ?Hos; cbn [xorb];
      unfold body_true; cbn [b_pos b_neg forallb];
      repeat match goal with |- context [holds I ?a] => destruct (holds I a) end; reflexivity.
  Qed.

  Lemma one_clause_reading :
    r_sentence s I (SCons required [] [cl] None) =
    negb (existsb (fun x => existsb (fun y => verb_lit_true x y) (dom_of s O)) (dom_of s S)).
  Proof.
    unfold r_sentence. cbn [r_sentence_ok app forallb]. f_equal.
    assert (Hso : String.eqb sl ol = false) by now apply String.eqb_neq.
    assert (Hos : String.eqb ol sl = false) by (apply String.eqb_neq; congruence).
    assert (Hl : clause_labels [cl] = [(sl, S); (ol, O)]).
    { unfold clause_labels. cbn [fold_left existsb app fst]. fold sl ol S O. rewrite Hso. cbn [orb]. reflexivity. }
    rewrite Hl. cbn [typed_bindings].
    rewrite existsb_flat_map. apply existsb_ext'. intros x.
    rewrite existsb_map', existsb_flat_map. apply existsb_ext'. intros y.
    cbn [map existsb]. rewrite orb_false_r.
    unfold where_holds, clause_holds, verb_lit_true, lookup, sassoc. fold sl ol. cbn [assoc].
    rewrite ?String.eqb_refl, ?Hos. cbn [andb]. rewrite !andb_true_r. reflexivity.
  Qed.

  (* the interpretation holds exactly the declared values of the two concepts, all of them in the universe *)
  Hypothesis HS : forall x, In x U -> holds I (atom_text S [x]) = mem_string x (dom_of s S).
  Hypothesis HO : forall y, In y U -> holds I (atom_text O [y]) = mem_string y (dom_of s O).
  Hypothesis HSU : incl (dom_of s S) U.
  Hypothesis HOU : incl (dom_of s O) U.

  Theorem one_clause_constraint_correct :
    constraints_ok I (flat_map (ground_rule U) (compile_sentence s (SCons required [] [cl] None))) =
    r_sentence s I (SCons required [] [cl] None).
  Proof.
    rewrite one_clause_compiled, one_clause_reading.
    apply Bool.eq_true_iff_eq. rewrite negb_true_iff, forallb_forall. split.
    - intros H. apply not_true_iff_false. intros E. apply existsb_exists in E as (x & Hx & E). apply existsb_exists in E as (y & Hy & E).
      specialize (H x (HSU x Hx)). rewrite forallb_forall in H. specialize (H y (HOU y Hy)).
      rewrite HS, HO in H by auto. rewrite E in H.
      apply mem_string_In in Hx, Hy. rewrite Hx, Hy in H. discriminate H.
    - intros H x Hx. apply forallb_forall. intros y Hy. apply negb_true_iff. apply not_true_iff_false. intros E.
      apply andb_true_iff in E as (E & E3). apply andb_true_iff in E as (E1 & E2).
      rewrite HS in E1 by assumption. rewrite HO in E3 by assumption. apply mem_string_In in E1, E3.
      apply not_true_iff_false in H. apply H. apply existsb_exists. exists x. split; [assumption|]. apply existsb_exists. exists y. now split.
  Qed.
End OneClause.
