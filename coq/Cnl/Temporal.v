(* CNL temporal conditions: syntax, rendering, the model of the parser callbacks that build them
   (parser.py: telingo_operation, prefixed_telingo_operation, hold_condition, telingo_operand, TELINGO_DUAL_OPERATOR,
   TELINGO_CONSTANT, entity), of their conversion (asp_converter.convert_operation for operators >= CONJUNCTION,
   ASPTemporalOperation.__init__), and their READING (the specification: LTL with past over finite traces). *)
Require Import Coq.Strings.String Coq.Strings.Ascii Coq.Lists.List Coq.Bool.Bool Coq.Arith.Arith.
Require Import Cnl2aspV.Base.Util Cnl2aspV.Base.Str Cnl2aspV.Gen.Operators Cnl2aspV.Gen.Tables Cnl2aspV.Gen.Terminals
               Cnl2aspV.Tel.Sem Cnl2aspV.Tel.Syntax.
Import ListNotations.
Open Scope string_scope.

(* ------------------------------------------------------------------ syntax *)
Inductive tword := WAlways | WEventually | WBefore | WSinceBefore | WAfter | WSinceAfter.
Definition tword_text (w : tword) : string :=
  match w with WAlways => "always" | WEventually => "eventually" | WBefore => "before" | WSinceBefore => "since before"
             | WAfter => "after" | WSinceAfter => "since after" end.
Definition tword_eqb (a b : tword) : bool := String.eqb (tword_text a) (tword_text b).

Inductive eprefix := ENone | EPreviously | ESubsequently | EInitially | EFinally.
Definition eprefix_text (p : eprefix) : string :=
  match p with ENone => "" | EPreviously => "previously " | ESubsequently => "subsequently "
             | EInitially => "initially " | EFinally => "finally " end.

Inductive tatom :=
| TEnt (pre : eprefix) (concept value : string)      (* "<prefix> a <concept> with id <value>" *)
| TCon (phrase : string).                            (* one of the four TELINGO_CONSTANT phrases *)

Inductive toperand := OLeaf (a : tatom) | ODual (a : tatom) (d : string) (r : toperand).

Record thold := { h_neg : bool; h_word : tword; h_hold_first : bool }.

(* one telingo_operation; the optional tail "DUAL telingo_operation" is the last argument *)
Inductive tformula :=
| TFLast (prefixed neg : bool) (t1 : option tword) (opd : toperand) (hold : option thold)
| TFCons (prefixed neg : bool) (t1 : option tword) (opd : toperand) (hold : option thold) (d : string) (rest : tformula).

(* ------------------------------------------------------------------ rendering (CNL text) *)
Definition render_atom (a : tatom) : string :=
  match a with TEnt pre c v => eprefix_text pre ++ "a " ++ c ++ " with id " ++ v | TCon ph => ph end.
Fixpoint render_operand (o : toperand) : string :=
  match o with OLeaf a => render_atom a | ODual a d r => render_atom a ++ " " ++ d ++ " " ++ render_operand r end.
Definition render_hold (h : option thold) : string :=
  match h with
  | None => ""
  | Some h => " that " ++ (if h_neg h then "do not " else "") ++
              (if h_hold_first h then "holds " ++ tword_text (h_word h) else tword_text (h_word h) ++ " holds")
  end.
Definition render_level (prefixed neg : bool) (t1 : option tword) (opd : toperand) (hold : option thold) : string :=
  let t := match t1 with Some w => tword_text w ++ " " | None => "" end in
  (if prefixed then t else "") ++ "there is " ++ (if neg then "not " else "") ++ (if prefixed then "" else t) ++
  render_operand opd ++ render_hold hold.
Fixpoint render_formula (f : tformula) : string :=
  match f with
  | TFLast p n t o h => render_level p n t o h
  | TFCons p n t o h d r => render_level p n t o h ++ " " ++ d ++ " " ++ render_formula r
  end.

(* ------------------------------------------------------------------ what the parser builds *)
Inductive ocomp :=
| OEnt (pre : eprefix) (atom : string) (negated : bool)
| OVal (c : string)
| OOp1 (op : operator) (negated : bool) (x : ocomp)
| OOp2 (op : operator) (negated : bool) (x y : ocomp).

Inductive cres (A : Type) := COk (a : A) | CErr (why : string).
Arguments COk {A}. Arguments CErr {A}.

Definition dual_op (d : string) : option operator :=
  match sassoc d term_TELINGO_DUAL_OPERATOR with Some (TOp o) => Some o | _ => None end.
Definition const_value (ph : string) : option string :=
  match sassoc ph term_TELINGO_CONSTANT with Some (TStr s) => Some s | _ => None end.
(* Operators[name]  (KeyError when absent) *)
Definition op_by_name (n : string) : option operator :=
  find (fun o => String.eqb (operator_name o) n) operator_all.

Definition atom_text (c v : string) : string := c ++ "(" ++ v ++ ")".

Definition build_atom (a : tatom) : cres ocomp :=
  match a with
  | TEnt pre c v => COk (OEnt pre (atom_text c v) false)
  | TCon ph => match const_value ph with Some s => COk (OVal s) | None => CErr "constant" end
  end.

(* telingo_operand *)
Fixpoint build_operand (o : toperand) : cres ocomp :=
  match o with
  | OLeaf a => build_atom a
  | ODual a d r =>
      match build_atom a, dual_op d, build_operand r with
      | COk x, Some op, COk y => COk (OOp2 op false x y)
      | _, None, _ => CErr "dual"
      | CErr e, _, _ => CErr e
      | _, _, CErr e => CErr e
      end
  end.

Definition strip_since (w : tword) : string := removeprefix "since " (tword_text w).

(* the operator name computed from the two temporal words (telingo_operation) *)
Definition combined_name (t1 : tword) (h : tword) : string :=
  let rel := strip_since t1 in let opr := strip_since h in
  if String.eqb opr "before" || String.eqb opr "after" then rel ++ "_" ++ opr else opr ++ "_" ++ rel.

Definition set_negated (o : ocomp) : ocomp :=
  match o with OEnt p a _ => OEnt p a true | OVal c => OVal c | OOp1 op _ x => OOp1 op true x | OOp2 op _ x y => OOp2 op true x y end.

(* telingo_operation for one level; `rest` is the already built tail *)
Definition build_level (neg : bool) (t1 : option tword) (operand : ocomp) (hold : option thold)
                       (tail : option (operator * ocomp)) : cres ocomp :=
  let operand1 := match hold with Some h => if h_neg h then OOp1 Op_NEGATION false operand else operand | None => operand end in
  let operation :=
    match t1, hold with
    | Some t, Some h => match op_by_name (upper (combined_name t (h_word h))) with
                        | Some op => COk (OOp1 op false operand1) | None => CErr "KeyError" end
    | Some t, None => match op_by_name (upper (tword_text t)) with
                      | Some op => COk (OOp1 op false operand1) | None => CErr "KeyError" end
    | None, _ => COk operand1
    end in
  match operation with
  | CErr e => CErr e
  | COk op0 =>
    let op1 := match tail with Some (d, r) => OOp2 d false op0 r | None => op0 end in
    let since_past := match hold with
                      | Some h => tword_eqb (h_word h) WSinceBefore || match t1 with Some t => tword_eqb t WSinceBefore | None => false end
                      | None => false end in
    let since_future := match hold with
                        | Some h => tword_eqb (h_word h) WSinceAfter || match t1 with Some t => tword_eqb t WSinceAfter | None => false end
                        | None => false end in
    let op2 := if since_past then OOp1 Op_PREVIOUS false op1 else if since_future then OOp1 Op_NEXT false op1 else op1 in
    COk (if neg then set_negated op2 else op2)
  end.

Fixpoint build_formula (f : tformula) : cres ocomp :=
  match f with
  | TFLast _ n t o h => match build_operand o with COk x => build_level n t x h None | CErr e => CErr e end
  | TFCons _ n t o h d r =>
      match build_operand o, dual_op d, build_formula r with
      | COk x, Some dop, COk y => build_level n t x h (Some (dop, y))
      | CErr e, _, _ => CErr e
      | _, None, _ => CErr "dual"
      | _, _, CErr e => CErr e
      end
  end.

(* ------------------------------------------------------------------ conversion (asp_converter / ASPTemporalOperation.__init__) *)
Definition prime_of (p : eprefix) : aprime :=
  match p with ENone => PPlain | EPreviously => PBefore | ESubsequently => PAfter | EInitially => PInitial | EFinally => PFinal end.

(* ASPTemporalOperation.__init__: a nested negated formula becomes a NEGATION operation; the flag of the top-level
   operation is kept by ASPTemporalFormula *)
Fixpoint to_tform_args (o : ocomp) : tform :=
  match o with
  | OEnt p a n => FAtom n (prime_of p) a
  | OVal c => FConst c
  | OOp1 op n x => let b := FUn op (to_tform_args x) in if n then FUn Op_NEGATION b else b
  | OOp2 op n x y => let b := FBin op (to_tform_args x) (to_tform_args y) in if n then FUn Op_NEGATION b else b
  end.

Definition to_tform (o : ocomp) : tform :=
  match o with
  | OOp1 op _ x => FUn op (to_tform_args x)
  | OOp2 op _ x y => FBin op (to_tform_args x) (to_tform_args y)
  | _ => to_tform_args o end.

(* what ends up in the rule body *)
Inductive body_item :=
| BTel (negated : bool) (f : tform)          (* [not] &tel { f } *)
| BAtom (negated : bool) (pr : aprime) (a : string)
| BValue (c : string).

Definition convert_top (o : ocomp) : option body_item :=
  match o with
  | OEnt p a n => Some (BAtom n (prime_of p) a)
  | OVal c => Some (BValue c)
  | OOp1 _ n _ | OOp2 _ n _ _ => Some (BTel n (to_tform o))
  end.

Definition compile_condition (f : tformula) : cres body_item :=
  match build_formula f with
  | COk o => match convert_top o with Some b => COk b | None => CErr "arity" end
  | CErr e => CErr e end.

(* constraint_proposition: 'required' calls negate() on the component.
   EntityComponent.negate and OperationComponent.negate both toggle. *)
Definition negate_for_requirement (o : ocomp) : ocomp :=
  match o with OEnt p a n => OEnt p a (negb n) | OVal c => OVal c | OOp1 op n x => OOp1 op (negb n) x | OOp2 op n x y => OOp2 op (negb n) x y end.

Definition compile_constraint (required : bool) (f : tformula) : cres body_item :=
  match build_formula f with
  | COk o => match convert_top (if required then negate_for_requirement o else o) with Some b => COk b | None => CErr "arity" end
  | CErr e => CErr e end.

(* ------------------------------------------------------------------ printing of the rule *)
Definition print_body_item (in_rule_with_head : bool) (b : body_item) : string :=
  match b with
  | BTel n f => (if in_rule_with_head && negb n then "not not " else "") ++ print_tel n f
  | BAtom n pr a => (if n then "not " else "") ++ print_atom' pr a
  | BValue c => c
  end.

(* ------------------------------------------------------------------ truth of the body at a state (what telingo computes) *)
Definition body_sat (tr : trace) (b : body_item) : option sig :=
  match b with
  | BTel n f => match tsat tr f with Some Sg => Some (if n then s_not Sg else Sg) | None => None end
  | BAtom n PPlain a => Some (if n then s_not (atom_at tr a) else atom_at tr a)
  | _ => None
  end.

(* ------------------------------------------------------------------ the three recorded defects, as predicates on the
   compiled formula (KNOWN_FINDINGS.json: F-C05-nested-initially, F-C05-primes-in-formula, F-C05-negated-entity-in-formula) *)
Fixpoint has_prime (f : tform) : bool :=
  match f with
  | FAtom _ pr _ => match pr with PBefore | PAfter => true | _ => false end
  | FConst _ => false | FUn _ g => has_prime g | FBin _ g h => has_prime g || has_prime h end.
Fixpoint has_neg_atom (f : tform) : bool :=
  match f with FAtom n _ _ => n | FConst _ => false | FUn _ g => has_neg_atom g | FBin _ g h => has_neg_atom g || has_neg_atom h end.
Fixpoint has_init (f : tform) : bool :=
  match f with
  | FAtom _ pr _ => match pr with PInitial | PFinal => true | _ => false end
  | FConst _ => false | FUn _ g => has_init g | FBin _ g h => has_init g || has_init h end.
(* initially/finally atoms that do NOT get the << / >> rewriting *)
Definition operand_inner_init (f : tform) : bool :=
  match f with
  | FAtom _ _ _ | FConst _ => false
  | FBin _ (FAtom _ _ _) h => has_init h
  | _ => has_init f end.
Definition inner_init (f : tform) : bool :=
  match f with
  | FUn _ g => operand_inner_init g
  | FBin _ g h => operand_inner_init g || operand_inner_init h
  | _ => false end.
Definition tform_clean (f : tform) : bool := negb (has_prime f) && negb (has_neg_atom f) && negb (inner_init f).

Definition body_clean (b : body_item) : bool :=
  match b with BTel _ f => tform_clean f | BAtom _ PPlain _ => true | _ => false end.

(* ------------------------------------------------------------------ the READING *)
Definition r_atom (tr : trace) (a : tatom) : option sig :=
  let lam := length tr in
  match a with
  | TEnt pre c v =>
      let A := atom_at tr (atom_text c v) in
      Some match pre with ENone => A | EPreviously => s_prev A | ESubsequently => s_next lam A
                        | EInitially => s_at_first A | EFinally => s_at_last lam A end
  | TCon ph =>
      if String.eqb ph "it is the initial state" then Some s_initial
      else if String.eqb ph "it is the final state" then Some (s_final lam)
      else if String.eqb ph "the true constant" then Some s_true
      else if String.eqb ph "the false constant" then Some s_false else None
  end.

(* the connective's NAME fixes operator and operand order *)
Definition r_dual (lam : nat) (d : string) (F G : sig) : option sig :=
  if String.eqb d "and" then Some (s_and F G)
  else if String.eqb d "or" then Some (s_or F G)
  else if String.eqb d "implies" || String.eqb d "imply" then Some (s_impl F G)
  else if String.eqb d "equivalent to" then Some (s_equiv F G)
  else if String.eqb d "since" then Some (s_since F G)
  else if String.eqb d "trigger" || String.eqb d "triggers" then Some (s_trigger F G)
  else if String.eqb d "until" then Some (s_until lam F G)
  else if String.eqb d "releases" then Some (s_release lam F G)
  else if String.eqb d "precede" then Some (s_precede F G)
  else if String.eqb d "follow" then Some (s_follow lam F G)
  else None.

Fixpoint r_operand (tr : trace) (o : toperand) : option sig :=
  match o with
  | OLeaf a => r_atom tr a
  | ODual a d r => match r_atom tr a, r_operand tr r with
                   | Some F, Some G => r_dual (length tr) d F G | _, _ => None end
  end.

Inductive direction := DPast | DFuture.
Definition word_direction (w : tword) : option (direction * bool (* 'since': strict, excludes the present *)) :=
  match w with WBefore => Some (DPast, false) | WSinceBefore => Some (DPast, true)
             | WAfter => Some (DFuture, false) | WSinceAfter => Some (DFuture, true) | _ => None end.
Definition word_quantifier (w : tword) : option bool (* true = always *) :=
  match w with WAlways => Some true | WEventually => Some false | _ => None end.

Definition r_quantified (lam : nat) (dir : direction) (always : bool) (F : sig) : sig :=
  match dir, always with
  | DPast, true => s_alw_before F | DPast, false => s_ev_before F
  | DFuture, true => s_alw_after lam F | DFuture, false => s_ev_after lam F end.
Definition r_shift (lam : nat) (dir : direction) (F : sig) : sig :=
  match dir with DPast => s_prev F | DFuture => s_next lam F end.

(* one level: Od = reading of the operand chain, tail = reading of "DUAL <rest>" *)
Definition r_level (lam : nat) (neg : bool) (t1 : option tword) (hold : option thold) (Od : sig)
                   (tail : option (string * sig)) : option sig :=
  let Od1 := match hold with Some h => if h_neg h then s_not Od else Od | None => Od end in
  (* (core, strict shift to apply to the whole operation) *)
  let core : option (sig * option direction) :=
    match t1, hold with
    | None, None => Some (Od1, None)
    | None, Some h =>      (* "that do not always/eventually hold(s)": the documented negation form (examples/telingo/operators) *)
        match h_neg h, word_quantifier (h_word h) with true, Some _ => Some (Od1, None) | _, _ => None end
    | Some t, None => match word_direction t with
                      | Some (dir, false) => Some (r_shift lam dir Od1, None) | _ => None end
    | Some t, Some h =>
        match word_direction t, word_quantifier (h_word h), word_quantifier t, word_direction (h_word h) with
        | Some (dir, strict), Some q, _, _ => Some (r_quantified lam dir q Od1, if strict then Some dir else None)
        | _, _, Some q, Some (dir, strict) => Some (r_quantified lam dir q Od1, if strict then Some dir else None)
        | _, _, _, _ => None end
    end in
  match core with
  | None => None
  | Some (C, shift) =>
      let withtail := match tail with
                      | Some (d, R) => r_dual lam d C R
                      | None => Some C end in
      match withtail with
      | None => None
      | Some W => let Sg := match shift with Some dir => r_shift lam dir W | None => W end in
                  Some (if neg then s_not Sg else Sg)
      end
  end.

Fixpoint treading (tr : trace) (f : tformula) : option sig :=
  match f with
  | TFLast _ n t o h => match r_operand tr o with Some Od => r_level (length tr) n t h Od None | None => None end
  | TFCons _ n t o h d r =>
      match r_operand tr o, treading tr r with
      | Some Od, Some R => r_level (length tr) n t h Od (Some (d, R)) | _, _ => None end
  end.
