(* C06 — every compiled program is accepted by the solver it targets.
   Proved here: (1) the leaves: convert_value maps every value token to a lexically valid gringo term of the expected class
   (integer, variable, anonymous, declared constant, quoted string), for all tokens and constant tables;
   (2) the printer: Asp/Print.v reproduces the implementation's text for every element tree of the stream (correspondence),
   so "syntactically valid" is a statement about trees of Asp/Syntax.v.  Acceptance of the whole text by clingo/telingo and
   safety (grounding) are decided per program by the oracle;
   (3) safety on the core fragment: every rule the compile model of Cnl/Core.v emits (tied byte-exactly to the implementation
   on every run, here and in C01) is safe in gringo's sense, for every specification whose definitions and 'where' clauses use
   labels of their own clauses (C06_core_fragment_safe).  Outside the core fragment safety is decided per program: partial. *)
Require Import Coq.Strings.String Coq.Lists.List Coq.Bool.Bool Coq.ZArith.ZArith.
Require Import Cnl2aspV.Base.Str Cnl2aspV.Asp.Lex Cnl2aspV.Cnl.Values Cnl2aspV.Cnl.Core Cnl2aspV.Cnl.CoreSafe.
Import ListNotations.
Open Scope string_scope.

Theorem C06_values_lex_ok :
  forall (consts : list string) (v : string),
    token_ok v = true -> forallb is_identifier consts = true ->
    leaf_ok (classify consts v) v (convert_value consts v) = true.
Proof. intros consts v Ht Hc. exact (values_lex_ok consts v Ht Hc eq_refl). Qed.
Print Assumptions C06_values_lex_ok.

Example C06_values_examples :
  convert_value ["k"] "k" = "k" /\ convert_value [] "ann" = """ann""" /\ convert_value [] "X1" = "X1"
  /\ convert_value [] "12" = "12" /\ convert_value [] "_" = "_" /\ convert_value [] "aB" = """aB""".
Proof. vm_compute. repeat split. Qed.

(* Safety, core fragment F0 (DESIGN 4.1): whenever the label a definition is about and the operands of a 'where' comparison
   are labels of the sentence's own clauses (the property's hypothesis "every variable the author wrote occurs in a positive
   concept occurrence of its sentence"), every rule of the compiled program is safe: each of its variables occurs in a
   positive body atom or in 'V = constant', or -- for the element of a choice -- in the element's condition.  For every
   specification, every number of sentences, clauses and 'is one of' values. *)
Theorem C06_core_fragment_safe :
  forall s : spec, forallb author_ok (sentences s) = true -> forallb safe_rule (compile s) = true.
Proof. exact core_program_safe. Qed.
Print Assumptions C06_core_fragment_safe.

(* the hypothesis is met by a specification with every sentence kind, and it is needed: a 'where' operand that is no label of
   the sentence gives an unsafe rule *)
Example C06_core_safe_example :
  let v := {| v_word := "host"; v_copula := false; v_prep := None |} in
  let cl := {| cl_subj := "room"; cl_slabel := "R"; cl_neg := true; cl_verb := v; cl_obj := "shelf"; cl_olabel := "S" |} in
  let cs := [{| c_name := "room"; c_key := "id"; c_dom := DRange 1 2 |}; {| c_name := "shelf"; c_key := "id"; c_dom := DEnum ["a"; "b"] |}] in
  let good := {| concepts := cs;
                 sentences := [SChoice {| ch_subj := "room"; ch_slabel := None; ch_verb := v; ch_card := CAtMost 1; ch_obj := "shelf";
                                          ch_olabel := Some "S"; ch_foreach := None |};
                               SDef "room" "R" "empty" [cl];
                               SOneOf "R" [1; 2]%Z (SCons true [] [cl] (Some {| w_left := "R"; w_phrase := "different from"; w_right := "S" |}));
                               SThere false true v "1" "a"] |} in
  let bad := {| concepts := cs; sentences := [SCons false [] [cl] (Some {| w_left := "R"; w_phrase := "different from"; w_right := "Q" |})] |} in
  forallb author_ok (sentences good) = true /\ length (compile good) = 8 /\
  forallb author_ok (sentences bad) = false /\ forallb safe_rule (compile bad) = false.
Proof. vm_compute. repeat split. Qed.
