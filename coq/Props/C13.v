(* C13 — the reported symbol table matches the predicates actually emitted (symbol-table side).
   Cnl/Symbols.v models get_symbols/__convert_signature/__convert_attribute/Symbol.get_arity and the argument list
   convert_entity gives an atom; it is tied to /repo by comparing, for every signature of every specification of the stream,
   the model's Symbol with the implementation's.  That every emitted atom is built from its signature (single arity,
   every predicate reported) is decided per program by the oracle (clingo.ast over both printing modes); it becomes a
   theorem with the compile model (C01/C10 cone). *)
Require Import Coq.Strings.String Coq.Lists.List Coq.Bool.Bool.
Require Import Cnl2aspV.Asp.Syntax Cnl2aspV.Cnl.Symbols.
Import ListNotations.

Theorem C13_flat_arity : forall e : entity, flat_arity (convert_signature e) = length (atom_arguments e).
Proof. exact flat_arity_is_atom_arity. Qed.
Print Assumptions C13_flat_arity.

Theorem C13_keys_reported : forall e : entity,
  s_keys (convert_signature e) = firstn (length (get_keys e)) (s_attributes (convert_signature e)).
Proof. exact keys_are_reported. Qed.
Print Assumptions C13_keys_reported.

Theorem C13_positions : forall e i a, nth_error (atom_arguments e) i = Some a ->
  nth_error (s_attributes (convert_signature e)) i = Some (convert_attribute (en_name e) a).
Proof. exact reported_position. Qed.
Print Assumptions C13_positions.

Example C13_shift_example :
  let slot := {| on_name := "slot"; on_forms := ["slot"; "slots"; "slot"]%string |} in
  let shift := {| on_name := "shift"; on_forms := ["shift"; "shifts"; "shift"]%string |} in
  let e := {| en_name := "shift"; en_keys := [ {| ea_name := "id"; ea_origin := [shift] |} ];
              en_attrs := [ {| ea_name := "id"; ea_origin := [slot] |} ] |} in
  flat_arity (convert_signature e) = 2 /\ fn_arity (convert_signature e) = 2.
Proof. vm_compute. split; reflexivity. Qed.
