(* C01 -- the compiled program has exactly the models the specification describes.
   Asp/Ground.v: ground programs of the emitted class and their stable models (reduct); C01_hierarchical_stable is the
   characterisation used throughout.  Cnl/Core.v: the core fragment F0, its compile model (byte-exact against the implementation on
   every run), grounding, and the reading.  Per-sentence end-to-end theorems (named instances, single-clause constraints with
   'where' / 'is one of', choices with every cardinality phrase and for-each, single-clause definitions), their composition for
   whole specifications (bounds, closedness, supportedness, hierarchy), and at the end of the file the property's statement on that
   sub-fragment: C01_answer_sets_are_the_models_[with_definitions_]every_interpretation_partial.  Not covered: multi-clause
   bodies, chained definitions, 'is one of' on definitions and choices (decided per specification by the exhaustive comparison). *)
Require Import Coq.Strings.String Coq.Lists.List Coq.Bool.Bool.
Require Import Coq.ZArith.ZArith Lia.
Require Import Cnl2aspV.Asp.Ground Cnl2aspV.Cnl.Core Cnl2aspV.Cnl.CoreProofs Cnl2aspV.Cnl.CoreOneOf Cnl2aspV.Cnl.CoreDef Cnl2aspV.Cnl.CoreChoice Cnl2aspV.Cnl.CoreChoiceEach Cnl2aspV.Cnl.CoreWhere Cnl2aspV.Cnl.Comparison Cnl2aspV.Cnl.CoreProgram Cnl2aspV.Cnl.CoreSupport Cnl2aspV.Cnl.CoreStable Cnl2aspV.Cnl.CoreExact Cnl2aspV.Cnl.CoreStableDef.
Import ListNotations.

(* for hierarchical ground programs (no predicate depends on itself): I is a stable model iff it satisfies the constraints and
   cardinality bounds, is closed under the rules and every atom of it is supported *)
Theorem C01_hierarchical_stable :
  forall (lvl : gatom -> nat) (P : list grule) (I : interp), hierarchical lvl P -> (stable P I <-> scb P I = true).
Proof. exact hierarchical_stable. Qed.
Print Assumptions C01_hierarchical_stable.

(* Core fragment, named-instance constraints ("It is required/prohibited that there is [not] a <relation> with c k equal to a,
   with d k equal to b"): the ground constraint the sentence compiles to (compile model of Cnl/Core.v, byte-exact against the
   implementation on every run) holds in exactly the interpretations the sentence admits -- for every universe of values,
   every relation, every pair of values and every interpretation.  The requirement of a negated clause is the single-clause
   branch of constraint_proposition (the clause itself is negated, not the members of a list). *)
Theorem C01_named_instance_constraint_partial :
  forall (s : spec) (U : list string) (required neg : bool) (v : verb) (a b : string) (I : interp),
    constraints_ok I (flat_map (ground_rule U) (compile_sentence s (SThere required neg v a b))) =
    Bool.eqb (holds I (atom_text (verb_pred v) [term_of_token a; term_of_token b])) (xorb required neg).
Proof. exact there_sentence_correct. Qed.
Print Assumptions C01_named_instance_constraint_partial.

(* "where L is one of v1..vn" after k rules gives k*n rules (a second clause multiplies: the cartesian product) *)
Theorem C01_one_of_multiplies :
  forall (s : spec) (l : string) (vals : list Z) (y : sentence),
    length (compile_sentence s (SOneOf l vals y)) = length (compile_sentence s y) * length vals.
Proof. exact one_of_count. Qed.
Print Assumptions C01_one_of_multiplies.

(* Core fragment, a constraint over one quantified clause ("It is required/prohibited that c X [does not] <verb> d Y."): the
   ground constraints of the compiled rule hold in exactly the interpretations the sentence admits (prohibited: no pair of a
   c and a d is related [unrelated]; required: every pair is) -- for every specification, relation, polarity of the clause and
   of the sentence, universe and interpretation, provided the two labels differ, the interpretation holds exactly the declared
   values of the two concepts (what the concept facts enforce) and those values belong to the universe.  Partial: one clause,
   no 'where'. *)
Theorem C01_single_clause_constraint_partial :
  forall (s : spec) (U : list string) (I : interp) (cl : clause) (required : bool),
    cl_slabel cl <> cl_olabel cl ->
    (forall x, In x U -> holds I (atom_text (cl_subj cl) [x]) = Util.mem_string x (dom_of s (cl_subj cl))) ->
    (forall y, In y U -> holds I (atom_text (cl_obj cl) [y]) = Util.mem_string y (dom_of s (cl_obj cl))) ->
    incl (dom_of s (cl_subj cl)) U -> incl (dom_of s (cl_obj cl)) U ->
    constraints_ok I (flat_map (ground_rule U) (compile_sentence s (SCons required [] [cl] None))) =
    r_sentence s I (SCons required [] [cl] None).
Proof. exact one_clause_constraint_correct. Qed.
Print Assumptions C01_single_clause_constraint_partial.

(* the hypotheses are satisfiable: rooms 1..2, shelf 1, room 1 hosts shelf 1 *)
Example C01_single_clause_example :
  let s := {| concepts := [{| c_name := "room"; c_key := "id"; c_dom := DRange 1 2 |}; {| c_name := "shelf"; c_key := "id"; c_dom := DRange 1 1 |}];
              sentences := [] |} in
  let cl := {| cl_subj := "room"; cl_slabel := "R"; cl_neg := false; cl_verb := {| v_word := "host"; v_copula := false; v_prep := None |};
               cl_obj := "shelf"; cl_olabel := "S" |} in
  let U := ["1"; "2"]%string in
  let I := ["room(1)"; "room(2)"; "shelf(1)"; "host(1,1)"]%string in
  cl_slabel cl <> cl_olabel cl /\
  (forall x, In x U -> holds I (atom_text (cl_subj cl) [x]) = Util.mem_string x (dom_of s (cl_subj cl))) /\
  (forall y, In y U -> holds I (atom_text (cl_obj cl) [y]) = Util.mem_string y (dom_of s (cl_obj cl))) /\
  incl (dom_of s (cl_subj cl)) U /\ incl (dom_of s (cl_obj cl)) U /\
  r_sentence s I (SCons false [] [cl] None) = false /\ r_sentence s I (SCons true [] [cl] None) = false.
Proof.
  cbv zeta. repeat split; try (intros x [<-|[<-|[]]]; vm_compute; reflexivity); try discriminate;
    try (intros x Hx; vm_compute in Hx; vm_compute; tauto); vm_compute; reflexivity.
Qed.

(* ... and the same constraint restricted by "where X is one of v1, ..., vn" on its subject label: the copies of the rule (one
   per value, with "X = v" appended) hold in I iff no pair whose subject is one of the listed values violates the sentence.
   Extra hypotheses: the subject concept has integer values, and they and the listed values have fewer than 20 digits (the
   printer of the model is exact there: show_Z / int_of round trip, Base/DigitsRoundtrip.v). *)
Theorem C01_single_clause_one_of_partial :
  forall (s : spec) (U : list string) (I : interp) (cl : clause) (required : bool) (vals : list Z),
    cl_slabel cl <> cl_olabel cl ->
    (forall x, In x U -> holds I (atom_text (cl_subj cl) [x]) = Util.mem_string x (dom_of s (cl_subj cl))) ->
    (forall y, In y U -> holds I (atom_text (cl_obj cl) [y]) = Util.mem_string y (dom_of s (cl_obj cl))) ->
    incl (dom_of s (cl_subj cl)) U -> incl (dom_of s (cl_obj cl)) U ->
    (forall x, In x (dom_of s (cl_subj cl)) -> exists z, small z /\ x = Digits.show_Z z) ->
    (forall v, In v vals -> small v) ->
    constraints_ok I (flat_map (ground_rule U) (compile_sentence s (SOneOf (cl_slabel cl) vals (SCons required [] [cl] None)))) =
    r_sentence s I (SOneOf (cl_slabel cl) vals (SCons required [] [cl] None)).
Proof. exact one_clause_one_of_correct. Qed.
Print Assumptions C01_single_clause_one_of_partial.

(* the additional hypotheses are satisfiable: rooms 1..2 are printed integers, the listed values are small *)
Example C01_one_of_example :
  let s := {| concepts := [{| c_name := "room"; c_key := "id"; c_dom := DRange 1 2 |}; {| c_name := "shelf"; c_key := "id"; c_dom := DRange 1 1 |}];
              sentences := [] |} in
  (forall x, In x (dom_of s "room") -> exists z, small z /\ x = Digits.show_Z z) /\ (forall v, In v [1; 3]%Z -> small v).
Proof.
  cbv zeta. split.
  - intros x Hx. vm_compute in Hx. destruct Hx as [<-|[<-|[]]]; [exists 1%Z|exists 2%Z]; (split; [unfold small; lia|reflexivity]).
  - intros v [<-|[<-|[]]]; unfold small; lia.
Qed.

(* Core fragment, a derived definition over one quantified clause ("A c X is <p> when c X [does not] <verb> d Y."): the ground
   instances of the compiled rule are closed in I and support every p-atom of a declared subject in I exactly when the reading
   holds -- p holds of precisely the subjects for which some declared object makes the clause true (for a negated clause: some
   object the subject is NOT related to).  Together with C01_hierarchical_stable (closed + supported + constraints = stable for
   hierarchical programs) this is the definition's share of "the answer sets are the models of the reading".  For every
   specification, relation, polarity, universe and interpretation, under the hypotheses of C01_single_clause_constraint_partial.
   Partial: one clause, the definition is about the clause's subject. *)
Theorem C01_single_clause_definition_partial :
  forall (s : spec) (U : list string) (I : interp) (cl : clause) (newpred : string),
    cl_slabel cl <> cl_olabel cl ->
    (forall x, In x U -> holds I (atom_text (cl_subj cl) [x]) = Util.mem_string x (dom_of s (cl_subj cl))) ->
    (forall y, In y U -> holds I (atom_text (cl_obj cl) [y]) = Util.mem_string y (dom_of s (cl_obj cl))) ->
    incl (dom_of s (cl_subj cl)) U -> incl (dom_of s (cl_obj cl)) U ->
    let x := SDef (cl_subj cl) (cl_slabel cl) newpred [cl] in
    let G := flat_map (ground_rule U) (compile_sentence s x) in
    closedb I G && forallb (fun x0 => negb (holds I (atom_text newpred [x0])) || supported_atom I G (atom_text newpred [x0])) (dom_of s (cl_subj cl))
    = r_sentence s I x.
Proof. exact one_clause_definition_correct. Qed.
Print Assumptions C01_single_clause_definition_partial.

(* closedb / supported_atom are the notions of Asp/Ground.v *)
Theorem C01_closedb_is_closed : forall I G, closedb I G = true <-> closed G I.
Proof. exact closedb_spec. Qed.
Theorem C01_supported_atom_is_supported : forall I G a, supported_atom I G a = true <-> exists r, In r G /\ supports I a r.
Proof. exact supported_atom_spec. Qed.

(* non-vacuity: rooms 1..2, shelf 1, room 1 hosts shelf 1; 'A room R is busy when room R host shelf S.' holds with busy(1) only,
   and fails when busy(2) is added (unsupported) or busy(1) is missing (not closed) *)
Example C01_definition_example :
  let s := {| concepts := [{| c_name := "room"; c_key := "id"; c_dom := DRange 1 2 |}; {| c_name := "shelf"; c_key := "id"; c_dom := DRange 1 1 |}];
              sentences := [] |} in
  let cl := {| cl_subj := "room"; cl_slabel := "R"; cl_neg := false; cl_verb := {| v_word := "host"; v_copula := false; v_prep := None |};
               cl_obj := "shelf"; cl_olabel := "S" |} in
  let x := SDef "room" "R" "busy" [cl] in
  let base := ["room(1)"; "room(2)"; "shelf(1)"; "host(1,1)"]%string in
  r_sentence s (("busy(1)" :: base)%string) x = true /\ r_sentence s base x = false /\ r_sentence s (("busy(1)" :: "busy(2)" :: base)%string) x = false /\
  print_program (compile_sentence s x) = ("busy(R) :- room(R), host(R,S), shelf(S)." ++ Str.nl)%string.
Proof. vm_compute. repeat split. Qed.

(* Core fragment, a choice sentence without for-each ("Every c [X] can <verb> [exactly n / at most n / at least n / between n
   and m] a d [Y]."): the cardinality bounds of the ground choice rules hold in I exactly when every declared subject is related
   to a number of declared objects within the stated bounds -- for every specification, every cardinality phrase, relation,
   universe and interpretation, provided the two variables differ, the interpretation holds exactly the declared values of the
   two concepts, and the universe and the object domain list no value twice (counting is by distinct objects).  Partial: no
   for-each; that the chosen atoms are supported by these rules is C01_hierarchical_stable's supportedness. *)
Theorem C01_choice_bounds_partial :
  forall (s : spec) (U : list string) (I : interp) (c : choice),
    ch_foreach c = None ->
    var_of s (ch_subj c) (ch_slabel c) <> var_of s (ch_obj c) (ch_olabel c) ->
    (forall x, In x U -> holds I (atom_text (ch_subj c) [x]) = Util.mem_string x (dom_of s (ch_subj c))) ->
    (forall y, In y U -> holds I (atom_text (ch_obj c) [y]) = Util.mem_string y (dom_of s (ch_obj c))) ->
    incl (dom_of s (ch_subj c)) U -> incl (dom_of s (ch_obj c)) U ->
    NoDup U -> NoDup (dom_of s (ch_obj c)) ->
    constraints_ok I (flat_map (ground_rule U) (compile_sentence s (SChoice c))) = r_sentence s I (SChoice c).
Proof. exact choice_bounds_correct. Qed.
Print Assumptions C01_choice_bounds_partial.

(* non-vacuity: rooms 1..2, shelves 1..2, 'Every room can host exactly 1 shelf.': admitted with one shelf per room, rejected with
   two shelves in room 1 or none in room 2 *)
Example C01_choice_example :
  let s := {| concepts := [{| c_name := "room"; c_key := "id"; c_dom := DRange 1 2 |}; {| c_name := "shelf"; c_key := "id"; c_dom := DRange 1 2 |}];
              sentences := [] |} in
  let c := {| ch_subj := "room"; ch_slabel := None; ch_verb := {| v_word := "host"; v_copula := false; v_prep := None |}; ch_card := CExactly 1;
              ch_obj := "shelf"; ch_olabel := None; ch_foreach := None |} in
  let base := ["room(1)"; "room(2)"; "shelf(1)"; "shelf(2)"]%string in
  var_of s (ch_subj c) (ch_slabel c) <> var_of s (ch_obj c) (ch_olabel c) /\
  r_sentence s (("host(1,1)" :: "host(2,1)" :: base)%string) (SChoice c) = true /\
  r_sentence s (("host(1,1)" :: "host(1,2)" :: "host(2,1)" :: base)%string) (SChoice c) = false /\
  r_sentence s (("host(1,1)" :: base)%string) (SChoice c) = false /\
  print_program (compile_sentence s (SChoice c)) = ("1 <= {host(RM_D,SHLF_D): shelf(SHLF_D)} <= 1 :- room(RM_D)." ++ Str.nl)%string.
Proof. vm_compute. repeat split. discriminate. Qed.

(* ... and WITH for-each ("Every c can <verb> [cardinality] a d for each e."): the bounds hold in I exactly when for every
   declared e and every declared subject the number of distinct declared objects related to the subject FOR THAT e is within
   the stated bounds (three pairwise different variables). *)
Theorem C01_choice_for_each_bounds_partial :
  forall (s : spec) (U : list string) (I : interp) (c : choice) (e : string),
    ch_foreach c = Some e ->
    var_of s (ch_subj c) (ch_slabel c) <> var_of s (ch_obj c) (ch_olabel c) ->
    auto_var s e <> var_of s (ch_subj c) (ch_slabel c) -> auto_var s e <> var_of s (ch_obj c) (ch_olabel c) ->
    (forall z, In z U -> holds I (atom_text e [z]) = Util.mem_string z (dom_of s e)) ->
    (forall x, In x U -> holds I (atom_text (ch_subj c) [x]) = Util.mem_string x (dom_of s (ch_subj c))) ->
    (forall y, In y U -> holds I (atom_text (ch_obj c) [y]) = Util.mem_string y (dom_of s (ch_obj c))) ->
    incl (dom_of s e) U -> incl (dom_of s (ch_subj c)) U -> incl (dom_of s (ch_obj c)) U ->
    NoDup U -> NoDup (dom_of s (ch_obj c)) ->
    constraints_ok I (flat_map (ground_rule U) (compile_sentence s (SChoice c))) = r_sentence s I (SChoice c).
Proof. exact each_choice_bounds_correct. Qed.
Print Assumptions C01_choice_for_each_bounds_partial.

Example C01_choice_for_each_example :
  let s := {| concepts := [{| c_name := "room"; c_key := "id"; c_dom := DRange 1 1 |}; {| c_name := "shelf"; c_key := "id"; c_dom := DRange 1 2 |};
                           {| c_name := "day"; c_key := "id"; c_dom := DRange 1 2 |}]; sentences := [] |} in
  let c := {| ch_subj := "room"; ch_slabel := None; ch_verb := {| v_word := "host"; v_copula := false; v_prep := None |}; ch_card := CExactly 1;
              ch_obj := "shelf"; ch_olabel := None; ch_foreach := Some "day" |} in
  let base := ["room(1)"; "shelf(1)"; "shelf(2)"; "day(1)"; "day(2)"]%string in
  auto_var s "day" <> var_of s (ch_subj c) (ch_slabel c) /\ auto_var s "day" <> var_of s (ch_obj c) (ch_olabel c) /\
  r_sentence s (("host(1,1,1)" :: "host(2,1,2)" :: base)%string) (SChoice c) = true /\
  r_sentence s (("host(1,1,1)" :: "host(1,1,2)" :: "host(2,1,2)" :: base)%string) (SChoice c) = false /\
  print_program (compile_sentence s (SChoice c)) = ("1 <= {host(DY_D,RM_D,SHLF_D): shelf(SHLF_D)} <= 1 :- day(DY_D), room(RM_D)." ++ Str.nl)%string.
Proof. vm_compute. repeat split; discriminate. Qed.

(* ... and the single-clause constraint restricted by a comparison of its labels ("..., where X is different from Y" and every
   other comparison phrase of the language, either label on either side): the ground constraints of the compiled rule (instances
   whose comparison is false are not emitted) hold in I exactly when no pair of declared values that meets the comparison
   violates the sentence.  Values that are not integers meet no comparison, on both sides. *)
Theorem C01_single_clause_where_partial :
  forall (s : spec) (U : list string) (I : interp) (cl : clause) (required : bool) (w : wherec),
    cl_slabel cl <> cl_olabel cl ->
    In (w_phrase w) comparison_phrases ->
    (w_left w = cl_slabel cl \/ w_left w = cl_olabel cl) -> (w_right w = cl_slabel cl \/ w_right w = cl_olabel cl) ->
    (forall x, In x U -> holds I (atom_text (cl_subj cl) [x]) = Util.mem_string x (dom_of s (cl_subj cl))) ->
    (forall y, In y U -> holds I (atom_text (cl_obj cl) [y]) = Util.mem_string y (dom_of s (cl_obj cl))) ->
    incl (dom_of s (cl_subj cl)) U -> incl (dom_of s (cl_obj cl)) U ->
    constraints_ok I (flat_map (ground_rule U) (compile_sentence s (SCons required [] [cl] (Some w)))) =
    r_sentence s I (SCons required [] [cl] (Some w)).
Proof. exact one_clause_where_correct. Qed.
Print Assumptions C01_single_clause_where_partial.

(* non-vacuity: nodes 1..2 linked to nodes; 'It is prohibited that node X link node Y, where X is greater than Y.' admits
   link(1,2) and rejects link(2,1) *)
Example C01_where_example :
  let s := {| concepts := [{| c_name := "node"; c_key := "id"; c_dom := DRange 1 2 |}]; sentences := [] |} in
  let cl := {| cl_subj := "node"; cl_slabel := "X"; cl_neg := false; cl_verb := {| v_word := "link"; v_copula := false; v_prep := None |};
               cl_obj := "node"; cl_olabel := "Y" |} in
  let w := {| w_left := "X"; w_phrase := "greater than"; w_right := "Y" |} in
  let x := SCons false [] [cl] (Some w) in
  let base := ["node(1)"; "node(2)"]%string in
  In (w_phrase w) comparison_phrases /\
  r_sentence s (("link(1,2)" :: base)%string) x = true /\ r_sentence s (("link(2,1)" :: base)%string) x = false /\
  print_program (compile_sentence s x) = (":- node(X), link(X,Y), node(Y), X > Y." ++ Str.nl)%string.
Proof. vm_compute. repeat split. tauto. Qed.

(* WHOLE specifications of the core fragment, any number of concepts and sentences, over the specification's own universe: the
   constraint-and-bounds part of stability of the ground program (every ground constraint and every cardinality bound of
   Asp/Ground.v: bounds_ok) holds in I exactly when I meets the reading of every constraint and choice sentence -- for the
   sentence kinds with an end-to-end theorem (named instances, single-clause constraints with or without a 'where' comparison,
   choice sentences with or without for-each; derived definitions may be present, they contribute no constraint), and every
   interpretation that holds exactly the declared values of the declared concepts.  With C01_hierarchical_stable
   (stable = bounds + closed + supported) and C01_single_clause_definition_partial (closed + supported for a definition) what is
   left of the full statement is supportedness of the chosen atoms and the concept facts.  Partial. *)
Theorem C01_program_constraints_and_bounds_partial :
  forall (s : spec) (I : interp),
    (forall n, declared s n -> forall x, In x (universe s) -> holds I (atom_text n [x]) = Util.mem_string x (dom_of s n)) ->
    (forall x, In x (sentences s) -> covered s x) ->
    forallb (bounds_ok I) (ground s) = forallb (r_bounds s I) (sentences s).
Proof.
  intros s I Hdom Hcov. unfold ground.
  exact (program_bounds s (universe s) I Hdom (universe_incl s) (universe_NoDup s) Hcov).
Qed.
Print Assumptions C01_program_constraints_and_bounds_partial.

(* non-vacuity: a specification with a choice, a definition, a constraint with 'where' and a named-instance requirement is
   covered, and an interpretation meeting the hypothesis is admitted by both sides *)
Example C01_program_example :
  let host := {| v_word := "host"; v_copula := false; v_prep := None |} in
  let cl := {| cl_subj := "room"; cl_slabel := "R"; cl_neg := false; cl_verb := host; cl_obj := "shelf"; cl_olabel := "S" |} in
  let s := {| concepts := [{| c_name := "room"; c_key := "id"; c_dom := DRange 1 2 |}; {| c_name := "shelf"; c_key := "id"; c_dom := DRange 1 2 |}];
              sentences := [SChoice {| ch_subj := "room"; ch_slabel := None; ch_verb := host; ch_card := CAtMost 1; ch_obj := "shelf";
                                       ch_olabel := None; ch_foreach := None |};
                            SDef "room" "R" "busy" [cl];
                            SCons false [] [cl] (Some {| w_left := "R"; w_phrase := "greater than"; w_right := "S" |});
                            SThere true false host "1" "2"] |} in
  let I := ["room(1)"; "room(2)"; "shelf(1)"; "shelf(2)"; "host(1,2)"; "busy(1)"]%string in
  (forall x, In x (sentences s) -> covered s x) /\
  forallb (fun n => forallb (fun x => Bool.eqb (holds I (atom_text n [x])) (Util.mem_string x (dom_of s n))) (universe s)) (concept_names s) = true /\
  forallb (bounds_ok I) (ground s) = true /\ forallb (r_bounds s I) (sentences s) = true /\
  forallb (r_bounds s ("host(2,1)" :: I)%string) (sentences s) = false.
Proof.
  cbv zeta. split; [|vm_compute; repeat split].
  intros x [<-|[<-|[<-|[<-|[]]]]]; cbn [covered]; unfold declared, concept_names; cbn [map concepts c_name In];
    repeat split; try discriminate; try (vm_compute; tauto); auto.
  vm_compute. repeat constructor; cbn; intuition discriminate.
Qed.

(* ... and the closedness part, with no hypothesis at all: the ground program of ANY core-fragment specification is closed in I
   exactly when I holds every declared value of every concept and the rule instances of every sentence are closed in I; without
   derived definitions that is: exactly when I holds every declared value (the first clause of the reading, r_domains).  So for
   specifications of named-instance, single-clause and choice sentences two of the three conjuncts of C01_hierarchical_stable
   (bounds, closed) are proved equal to the reading's clauses; the third (every atom of I is supported, i.e. I holds nothing but
   declared values and admissible chosen atoms) is decided per specification by the exhaustive comparison. *)
Theorem C01_program_closed_partial :
  forall (s : spec) (U : list string) (I : interp),
    closedb I (flat_map (ground_rule U) (compile s)) =
    r_domains s I && forallb (fun x => closedb I (flat_map (ground_rule U) (compile_sentence s x))) (sentences s).
Proof. exact program_closed. Qed.
Print Assumptions C01_program_closed_partial.

Theorem C01_program_closed_without_definitions :
  forall (s : spec) (I : interp),
    (forall x, In x (sentences s) -> no_definition x) ->
    (closed (ground s) I <-> r_domains s I = true).
Proof.
  intros s I H. rewrite <- closedb_spec. unfold ground. now rewrite (program_closed_no_definitions s (universe s) I H).
Qed.
Print Assumptions C01_program_closed_without_definitions.

(* ... the supportedness part: every atom of I is supported by the ground program exactly when it is a declared value or an
   admissible instance of a chosen relation (the second clause of the reading), for every atom ... *)
Theorem C01_program_supported_partial :
  forall (s : spec) (U : list string) (I : interp),
    (forall n, declared s n -> forall x, In x U -> holds I (atom_text n [x]) = Util.mem_string x (dom_of s n)) ->
    (forall n, incl (dom_of s n) U) ->
    (forall x, In x (sentences s) -> covered s x /\ no_definition x) ->
    forall a, supported_atom I (flat_map (ground_rule U) (compile s)) a = admissible s a.
Proof. exact program_supported. Qed.
Print Assumptions C01_program_supported_partial.

(* ... and all together: THE PROPERTY for specifications of concepts, choice sentences (every cardinality phrase, with or without
   for-each), single-clause constraints (both polarities, with or without a 'where' comparison, or restricted by 'where X is one
   of v1, ..., vn' on integer-valued subjects) and named-instance constraints, any number of each: an interpretation is an answer set of the ground compiled program -- stable in the sense of the reduct,
   Asp/Ground.v -- if and only if it is a model of the reading.  Hypotheses: the sentences are of the covered kinds with their
   side conditions (different variables, comparison phrases of the language, operands among the labels, duplicate-free object
   domains); no instance of a chosen relation over the universe has the text of a concept atom (`separated`, decidable: it is
   what makes the program hierarchical, proved here); and I holds exactly the declared values of the declared concepts
   (both sides force that for an I made of well-formed atoms; it is assumed here, which is why this is still `_partial`,
   together with: derived definitions, multi-clause bodies and 'is one of' on anything but a single-clause constraint are outside `covered`).  The ground program is the
   grounding of the compile model that is tied byte-exactly to the implementation on every run; grounding itself is the
   model's (Cnl/Core.v: ground_rule), validated against clingo on every generated specification. *)
Theorem C01_answer_sets_are_the_models_partial :
  forall (s : spec) (I : interp),
    separated s (universe s) = true ->
    (forall x, In x (sentences s) -> covered s x /\ no_definition x) ->
    (forall n, declared s n -> forall x, In x (universe s) -> holds I (atom_text n [x]) = Util.mem_string x (dom_of s n)) ->
    (stable (ground s) I <-> reading s I = true).
Proof. intros s I Hsep Hcov Hdom. exact (stable_iff_reading s Hsep Hcov I Hdom). Qed.
Print Assumptions C01_answer_sets_are_the_models_partial.

(* non-vacuity: two choice sentences (one with for-each), a constraint with 'where', a named-instance requirement; the
   specification is separated and covered, an interpretation meets the hypothesis and is a model; dropping the required instance
   or adding an inadmissible atom is no model *)
Example C01_answer_sets_example :
  let host := {| v_word := "host"; v_copula := false; v_prep := None |} in
  let stock := {| v_word := "stock"; v_copula := false; v_prep := None |} in
  let cl := {| cl_subj := "room"; cl_slabel := "R"; cl_neg := false; cl_verb := host; cl_obj := "shelf"; cl_olabel := "S" |} in
  let s := {| concepts := [{| c_name := "room"; c_key := "id"; c_dom := DRange 1 2 |}; {| c_name := "shelf"; c_key := "id"; c_dom := DRange 1 2 |};
                           {| c_name := "day"; c_key := "id"; c_dom := DEnum ["mon"] |}];
              sentences := [SChoice {| ch_subj := "room"; ch_slabel := None; ch_verb := host; ch_card := CAtMost 1; ch_obj := "shelf";
                                       ch_olabel := None; ch_foreach := None |};
                            SChoice {| ch_subj := "room"; ch_slabel := None; ch_verb := stock; ch_card := CNone; ch_obj := "shelf";
                                       ch_olabel := None; ch_foreach := Some "day" |};
                            SCons false [] [cl] (Some {| w_left := "R"; w_phrase := "greater than"; w_right := "S" |});
                            SThere true false host "1" "2"] |} in
  let D := ["room(1)"; "room(2)"; "shelf(1)"; "shelf(2)"; "day(""mon"")"]%string in
  let I := ("host(1,2)" :: "stock(""mon"",2,1)" :: D)%string in
  separated s (universe s) = true /\
  (forall x, In x (sentences s) -> covered s x /\ no_definition x) /\
  forallb (fun n => forallb (fun x => Bool.eqb (holds I (atom_text n [x])) (Util.mem_string x (dom_of s n))) (universe s)) (concept_names s) = true /\
  reading s I = true /\ reading s D = false /\ reading s ("host(2,1)" :: I)%string = false /\ reading s ("ghost(1)" :: I)%string = false.
Proof.
  cbv zeta. split; [vm_compute; reflexivity|]. split; [|vm_compute; repeat split].
  intros x [<-|[<-|[<-|[<-|[]]]]]; (split; [|exact Logic.I]); cbn [covered]; unfold declared, concept_names; cbn [map concepts c_name In ch_foreach];
    repeat split; try discriminate; try (vm_compute; tauto); auto;
    try (vm_compute; repeat constructor; cbn; intuition discriminate).
Qed.

(* ... and for EVERY interpretation: when the concept names are pairwise different and contain no '(', the hypothesis on the
   concept atoms of I follows from either side (from stability: closedness and supportedness of the ground program; from the
   reading: its first two clauses; both by the injectivity of the atom text in name and argument), so the answer sets of the
   ground compiled program ARE the models of the reading.  This is the property's statement, for all specifications of the
   sub-fragment and all interpretations; `_partial` only because the sub-fragment is not all of F0 (derived definitions in the
   program, multi-clause bodies, 'is one of' on definitions and choices) and because grounding is the model's. *)
Theorem C01_answer_sets_are_the_models_every_interpretation_partial :
  forall (s : spec) (I : interp),
    names_ok s ->
    separated s (universe s) = true ->
    (forall x, In x (sentences s) -> covered s x /\ no_definition x) ->
    (stable (ground s) I <-> reading s I = true).
Proof. intros s I Hn Hsep Hcov. exact (stable_iff_reading_all s I Hn Hsep Hcov). Qed.
Print Assumptions C01_answer_sets_are_the_models_every_interpretation_partial.

Example C01_names_ok_example :
  names_ok {| concepts := [{| c_name := "room"; c_key := "id"; c_dom := DRange 1 2 |}; {| c_name := "shelf"; c_key := "id"; c_dom := DRange 1 2 |};
                           {| c_name := "day"; c_key := "id"; c_dom := DEnum ["mon"] |}]; sentences := [] |}.
Proof.
  split.
  - vm_compute. repeat constructor; cbn; intuition discriminate.
  - intros n Hn. vm_compute in Hn. destruct Hn as [<-|[<-|[<-|[]]]]; reflexivity.
Qed.

(* ... and WITH derived definitions over one quantified clause in the program ("A c X is <p> when c X [does not] <verb> d Y", any
   number of them, each with its own predicate): three levels (concept atoms, chosen atoms, derived atoms), the same statement.
   Hypotheses: every sentence is of a covered kind or such a definition; `separated_d` (decidable: chosen instances are no concept
   atoms, derived atoms over the universe are neither concept atoms nor chosen instances, the relation atoms in a definition's
   body are no derived atoms -- so definitions do not chain); the predicates of the definitions are pairwise different and contain
   no '('; and I holds exactly the declared concept values (not yet removed for this larger fragment).  Partial: that hypothesis,
   multi-clause bodies, chained definitions, 'is one of' on definitions and choices. *)
Theorem C01_answer_sets_are_the_models_with_definitions_partial :
  forall (s : spec) (I : interp),
    (forall x, In x (sentences s) -> ok_sentence s x) ->
    separated_d s (universe s) = true ->
    preds_ok s ->
    (forall n, declared s n -> forall x, In x (universe s) -> holds I (atom_text n [x]) = Util.mem_string x (dom_of s n)) ->
    (stable (ground s) I <-> reading s I = true).
Proof. intros s I Hok Hsep Hp Hdom. exact (stable_iff_reading_defs s Hok Hsep I Hp Hdom). Qed.
Print Assumptions C01_answer_sets_are_the_models_with_definitions_partial.

(* non-vacuity: a choice, a definition over the chosen relation (negated clause: 'free' rooms host not every shelf), a constraint;
   the hypotheses hold, an interpretation with the right derived atoms is a model, one with a missing or an extra derived atom is not *)
Example C01_definitions_example :
  let host := {| v_word := "host"; v_copula := false; v_prep := None |} in
  let cl := {| cl_subj := "room"; cl_slabel := "R"; cl_neg := false; cl_verb := host; cl_obj := "shelf"; cl_olabel := "S" |} in
  let s := {| concepts := [{| c_name := "room"; c_key := "id"; c_dom := DRange 1 2 |}; {| c_name := "shelf"; c_key := "id"; c_dom := DRange 1 2 |}];
              sentences := [SChoice {| ch_subj := "room"; ch_slabel := None; ch_verb := host; ch_card := CAtMost 1; ch_obj := "shelf";
                                       ch_olabel := None; ch_foreach := None |};
                            SDef "room" "R" "busy" [cl];
                            SCons false [] [cl] (Some {| w_left := "R"; w_phrase := "greater than"; w_right := "S" |})] |} in
  let D := ["room(1)"; "room(2)"; "shelf(1)"; "shelf(2)"]%string in
  (forall x, In x (sentences s) -> ok_sentence s x) /\ separated_d s (universe s) = true /\ preds_ok s /\
  reading s ("host(1,2)" :: "busy(1)" :: D)%string = true /\ reading s ("host(1,2)" :: D)%string = false /\
  reading s ("host(1,2)" :: "busy(1)" :: "busy(2)" :: D)%string = false.
Proof.
  cbv zeta. split; [|split; [vm_compute; reflexivity|split; [|vm_compute; repeat split]]].
  - intros x [<-|[<-|[<-|[]]]].
    + left. split; [|exact Logic.I]. cbn [covered]. unfold declared, concept_names. cbn [map concepts c_name In ch_foreach].
      repeat split; try discriminate; auto. vm_compute. repeat constructor; cbn; intuition discriminate.
    + right. cbn [def1]. unfold declared, concept_names. cbn. repeat split; try discriminate; auto.
    + left. split; [|exact Logic.I]. cbn [covered]. unfold declared, concept_names. cbn [map concepts c_name In].
      repeat split; try discriminate; auto. vm_compute. tauto.
  - split.
    + vm_compute. repeat constructor. cbn. tauto.
    + intros p Hp. vm_compute in Hp. destruct Hp as [<-|[]]. reflexivity.
Qed.

(* ... and, with pairwise different concept names without '(', for EVERY interpretation: the answer sets of the ground compiled
   program of a specification of concepts, choice sentences, single-clause / named-instance constraints and single-clause derived
   definitions are the models of the reading. *)
Theorem C01_answer_sets_are_the_models_with_definitions_every_interpretation_partial :
  forall (s : spec) (I : interp),
    names_ok s -> preds_ok s ->
    (forall x, In x (sentences s) -> ok_sentence s x) ->
    separated_d s (universe s) = true ->
    (stable (ground s) I <-> reading s I = true).
Proof. intros s I Hn Hp Hok Hsep. exact (stable_iff_reading_defs_all s I Hn Hok Hsep Hp). Qed.
Print Assumptions C01_answer_sets_are_the_models_with_definitions_every_interpretation_partial.
