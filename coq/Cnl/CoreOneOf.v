(* "where L is one of v1, ..., vn" on a constraint over one quantified clause: end-to-end correctness. *)
Require Import Coq.Strings.String Coq.Strings.Ascii Coq.Lists.List Coq.Bool.Bool Coq.ZArith.ZArith Lia.
Require Import Cnl2aspV.Base.Util Cnl2aspV.Base.Str Cnl2aspV.Base.Digits Cnl2aspV.Base.DigitsRoundtrip Cnl2aspV.Asp.CmpSem.
Require Import Cnl2aspV.Asp.Ground Cnl2aspV.Cnl.Core Cnl2aspV.Cnl.CoreProofs.
Import ListNotations.
Open Scope string_scope.

Definition small (z : Z) : Prop := (- 10 ^ 20 < z < 10 ^ 20)%Z.

Lemma digits_val_minus r : digits_val (String "-"%char r) = None.
Proof. reflexivity. Qed.

Lemma int_of_digits t z : digits_val t = Some z -> int_of t = Some z.
Proof.
  intros H. destruct t as [|c r]; [discriminate H|].
  destruct c as [[] [] [] [] [] [] [] []]; try exact H.
  rewrite digits_val_minus in H. discriminate H.
Qed.

Lemma int_of_show z : small z -> int_of (show_Z z) = Some z.
Proof.
  intros Hz. unfold small in Hz. unfold show_Z. destruct (z <? 0)%Z eqn:E.
  - apply Z.ltb_lt in E. cbn [int_of]. rewrite digits_val_show by lia. f_equal. lia.
  - apply Z.ltb_ge in E. apply int_of_digits. apply digits_val_show. lia.
Qed.

Lemma show_Z_inj a b : small a -> small b -> show_Z a = show_Z b -> a = b.
Proof. intros Ha Hb E. apply int_of_show in Ha, Hb. rewrite E in Ha. congruence. Qed.

Lemma eq_holds_show a b : small a -> small b -> cmp_holds "=" (show_Z a) (show_Z b) = String.eqb (show_Z a) (show_Z b).
Proof.
  intros Ha Hb. unfold cmp_holds. rewrite (int_of_show a Ha), (int_of_show b Hb). cbn.
  destruct (Z.eqb_spec a b) as [->|N].
  - now rewrite String.eqb_refl.
  - symmetry. apply String.eqb_neq. intros E. apply N. now apply show_Z_inj.
Qed.

Section OneClauseOneOf.
  Variables (s : spec) (U : list string) (I : interp) (cl : clause) (required : bool) (vals : list Z).
  Let sl := cl_slabel cl.
  Let ol := cl_olabel cl.
  Let S := cl_subj cl.
  Let O := cl_obj cl.
  Hypothesis Hne : sl <> ol.

  Let lit (x y : string) : bool := verb_lit_true I cl required x y.

  (* one copy of the rule: the instances whose subject value equals v *)
  Lemma one_copy_compiled v :
    forallb (bounds_ok I) (ground_rule U (add_eq sl v (NCons (dedup_keep_last (flat_map (clause_lits required) [cl]))))) =
    forallb (fun x => forallb (fun y => negb (cmp_holds "=" x (show_Z v) && (holds I (atom_text S [x]) && lit x y && holds I (atom_text O [y])))) U) U.
  Proof.
    cbn [flat_map app clause_lits]. rewrite ?app_nil_r. fold sl ol S O.
    assert (Hso : String.eqb sl ol = false) by now apply String.eqb_neq.
    assert (Hos : String.eqb ol sl = false) by (apply String.eqb_neq; congruence).
    set (va := {| na_pred := verb_pred (cl_verb cl); na_args := [TVar sl; TVar ol] |}).
    assert (Hd : dedup_keep_last [BPos (atom1 S sl); if xorb (cl_neg cl) required then BNeg va else BPos va; BPos (atom1 O ol)] =
                 [BPos (atom1 S sl); if xorb (cl_neg cl) required then BNeg va else BPos va; BPos (atom1 O ol)]).
    { destruct (xorb (cl_neg cl) required); subst va; unfold atom1;
        cbn [dedup_keep_last existsb lit_same_atom]; unfold natom_eqb; cbn [na_pred na_args terms_eqb term_eqb];
        rewrite ?Hso, ?andb_false_r; cbn [orb andb]; rewrite ?andb_false_r; reflexivity. }
    rewrite Hd. clear Hd. cbn [add_eq app ground_rule].
    assert (Hv : vars_of_body [BPos (atom1 S sl); if xorb (cl_neg cl) required then BNeg va else BPos va; BPos (atom1 O ol);
                               BCmp "=" (TVar sl) (TConst (show_Z v))] = [sl; ol]).
    { unfold vars_of_body, atom1. destruct (xorb (cl_neg cl) required); subst va;
        cbn [fold_left vars_of_lit vars_of_atom na_args];
        unfold add_var; repeat (progress (cbn [mem_string app orb]; rewrite ?String.eqb_refl, ?Hos, ?Hso)); reflexivity. }
    rewrite Hv. clear Hv. cbn [all_substs].
    rewrite forallb_flat_map, forallb_flat_map. apply forallb_ext'. intros x.
    rewrite forallb_map', forallb_flat_map. apply forallb_ext'. intros y.
    cbn [map forallb]. rewrite andb_true_r.
    unfold lit, verb_lit_true, atom_text.
    destruct (xorb (cl_neg cl) required); subst va; unfold ground_body, atom1;
      cbn [forallb apply_term]; unfold sassoc; cbn [assoc]; rewrite ?String.eqb_refl, ?Hos; rewrite ?andb_true_r;
      destruct (cmp_holds "=" x (show_Z v)); cbn [forallb andb negb]; try reflexivity;
      cbn [flat_map app bounds_ok body_true b_pos b_neg andb]; unfold ground_atom; cbn [na_pred na_args map apply_term];
      unfold sassoc; cbn [assoc]; rewrite ?String.eqb_refl, ?Hos; cbn [xorb];
      unfold body_true; cbn [b_pos b_neg forallb];
      repeat match goal with |- context [holds I ?a] => destruct (holds I a) end; reflexivity.
  Qed.

  Lemma one_of_reading :
    r_sentence s I (SOneOf sl vals (SCons required [] [cl] None)) =
    negb (existsb (fun x => existsb (fun y => existsb (fun v => String.eqb x (show_Z v)) vals && lit x y) (dom_of s O)) (dom_of s S)).
  Proof.
    unfold r_sentence. cbn [r_sentence_ok app forallb]. f_equal.
    assert (Hso : String.eqb sl ol = false) by now apply String.eqb_neq.
    assert (Hos : String.eqb ol sl = false) by (apply String.eqb_neq; congruence).
    assert (Hl : clause_labels [cl] = [(sl, S); (ol, O)]).
    { unfold clause_labels. cbn [fold_left existsb app fst]. fold sl ol S O. rewrite Hso. cbn [orb]. reflexivity. }
    rewrite Hl. cbn [typed_bindings].
    rewrite existsb_flat_map. apply existsb_ext'. intros x.
    rewrite existsb_map', existsb_flat_map. apply existsb_ext'. intros y.
    cbn [map existsb]. rewrite orb_false_r.
    unfold where_holds, clause_holds, lit, verb_lit_true, lookup, sassoc. fold sl ol. cbn [assoc].
    rewrite ?String.eqb_refl, ?Hos. cbn [andb]. rewrite !andb_true_r. reflexivity.
  Qed.

  Hypothesis HS : forall x, In x U -> holds I (atom_text S [x]) = mem_string x (dom_of s S).
  Hypothesis HO : forall y, In y U -> holds I (atom_text O [y]) = mem_string y (dom_of s O).
  Hypothesis HSU : incl (dom_of s S) U.
  Hypothesis HOU : incl (dom_of s O) U.
  (* the subject concept has integer values, and they and the listed values are printed completely (fewer than 20 digits) *)
  Hypothesis Hdom : forall x, In x (dom_of s S) -> exists z, small z /\ x = show_Z z.
  Hypothesis Hvals : forall v, In v vals -> small v.

  Theorem one_clause_one_of_correct :
    constraints_ok I (flat_map (ground_rule U) (compile_sentence s (SOneOf sl vals (SCons required [] [cl] None)))) =
    r_sentence s I (SOneOf sl vals (SCons required [] [cl] None)).
  Proof.
    rewrite one_of_reading. unfold constraints_ok.
    cbn [compile_sentence flat_map app]. rewrite ?app_nil_r.
    rewrite forallb_flat_map, forallb_map'.
    rewrite (forallb_ext' _ (fun v => forallb (fun x => forallb (fun y => negb (cmp_holds "=" x (show_Z v) &&
               (holds I (atom_text S [x]) && lit x y && holds I (atom_text O [y])))) U) U) vals)
      by (intros v; rewrite <- one_copy_compiled; cbn [flat_map]; rewrite app_nil_r; reflexivity).
    apply Bool.eq_true_iff_eq. rewrite negb_true_iff, forallb_forall. split.
    - intros H. apply not_true_iff_false. intros E. apply existsb_exists in E as (x & Hx & E). apply existsb_exists in E as (y & Hy & E).
      apply andb_true_iff in E as (Ev & El). apply existsb_exists in Ev as (v & Hv & Ev). apply String.eqb_eq in Ev.
      specialize (H v Hv). rewrite forallb_forall in H. specialize (H x (HSU x Hx)). rewrite forallb_forall in H. specialize (H y (HOU y Hy)).
      rewrite HS, HO in H by auto. rewrite El in H.
      destruct (Hdom x Hx) as (z & Hz & ->). rewrite eq_holds_show in H by auto. rewrite Ev, String.eqb_refl in H.
      apply mem_string_In in Hx, Hy. rewrite <- Ev in H. rewrite Hx, Hy in H. discriminate H.
    - intros H v Hv. apply forallb_forall. intros x Hx. apply forallb_forall. intros y Hy. apply negb_true_iff. apply not_true_iff_false. intros E.
      apply andb_true_iff in E as (Ec & E). apply andb_true_iff in E as (E & E3). apply andb_true_iff in E as (E1 & E2).
      rewrite HS in E1 by assumption. rewrite HO in E3 by assumption. apply mem_string_In in E1, E3.
      destruct (Hdom x E1) as (z & Hz & ->). rewrite eq_holds_show in Ec by auto.
      apply not_true_iff_false in H. apply H. apply existsb_exists. exists (show_Z z). split; [assumption|]. apply existsb_exists. exists y. split; [assumption|].
      apply andb_true_iff. split; [|assumption]. apply existsb_exists. exists v. now split.
  Qed.
End OneClauseOneOf.
