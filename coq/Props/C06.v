(* C06 — every compiled program is accepted by the solver it targets.
   Proved here: (1) the leaves: convert_value maps every value token to a lexically valid gringo term of the expected class
   (integer, variable, anonymous, declared constant, quoted string), for all tokens and constant tables;
   (2) the printer: Asp/Print.v reproduces the implementation's text for every element tree of the stream (correspondence),
   so "syntactically valid" is a statement about trees of Asp/Syntax.v.  Acceptance of the whole text by clingo/telingo and
   safety (grounding) are decided per program by the oracle; the compile-level theorems (lex_ok / safe for the fragment)
   are added with the compile model: partial. *)
Require Import Coq.Strings.String Coq.Lists.List Coq.Bool.Bool.
Require Import Cnl2aspV.Base.Str Cnl2aspV.Asp.Lex Cnl2aspV.Cnl.Values.
Import ListNotations.
Open Scope string_scope.

Theorem C06_values_lex_ok :
  forall (consts : list string) (v : string),
    token_ok v = true -> forallb is_identifier consts = true ->
    leaf_ok (classify consts v) v (convert_value consts v) = true.
Proof. intros consts v Ht Hc. exact (values_lex_ok consts v Ht Hc eq_refl). Qed.
Print Assumptions C06_values_lex_ok.

Example C06_values_examples :
  convert_value ["k"] "k" = "k" /\ convert_value [] "ann" = """ann""" /\ convert_value [] "X1" = "X1"
  /\ convert_value [] "12" = "12" /\ convert_value [] "_" = "_" /\ convert_value [] "aB" = """aB""".
Proof. vm_compute. repeat split. Qed.
