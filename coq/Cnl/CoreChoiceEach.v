(* Core fragment, a choice sentence WITH for-each ("Every c can <verb> [cardinality] a d for each e."): the cardinality bounds of
   the ground choice rules hold in I exactly when, for every declared e and every declared subject, the number of declared
   objects the subject is related to FOR THAT e lies within the stated bounds. *)
Require Import Coq.Strings.String Coq.Lists.List Coq.Bool.Bool Coq.ZArith.ZArith Coq.Arith.Arith.
Require Import Cnl2aspV.Base.Util Cnl2aspV.Base.Str Cnl2aspV.Asp.Ground Cnl2aspV.Cnl.Core Cnl2aspV.Cnl.CoreProofs Cnl2aspV.Cnl.CoreDef
               Cnl2aspV.Cnl.CoreChoice.
Import ListNotations.
Open Scope string_scope.

Section EachChoice.
  Variables (s : spec) (U : list string) (I : interp) (c : choice) (e : string).
  Let S := ch_subj c.
  Let O := ch_obj c.
  Let sv := var_of s S (ch_slabel c).
  Let ov := var_of s O (ch_olabel c).
  Let ev := auto_var s e.
  Hypothesis Hfe : ch_foreach c = Some e.
  Hypothesis Hso : sv <> ov.
  Hypothesis Hes : ev <> sv.
  Hypothesis Heo : ev <> ov.

  Let V (z x y : string) : gatom := atom_text (verb_pred (ch_verb c)) [z; x; y].

  Lemma each_ground :
    flat_map (ground_rule U) (compile_sentence s (SChoice c)) =
    flat_map (fun z => map (fun x => GChoice (fst (card_bounds (ch_card c))) (snd (card_bounds (ch_card c)))
                                             (map (fun y => (V z x y, [atom_text O [y]])) U)
                                             {| b_pos := [atom_text e [z]; atom_text S [x]]; b_neg := [] |}) U) U.
  Proof.
    cbn [compile_sentence flat_map]. rewrite app_nil_r. unfold compile_choice. rewrite Hfe. fold S O sv ov ev.
    destruct (card_bounds (ch_card c)) as [lb ub]. cbn [fst snd map app]. cbn [ground_rule].
    assert (E_so : String.eqb sv ov = false) by now apply String.eqb_neq.
    assert (E_os : String.eqb ov sv = false) by (apply String.eqb_neq; congruence).
    assert (E_es : String.eqb ev sv = false) by now apply String.eqb_neq.
    assert (E_se : String.eqb sv ev = false) by (apply String.eqb_neq; congruence).
    assert (E_eo : String.eqb ev ov = false) by now apply String.eqb_neq.
    assert (E_oe : String.eqb ov ev = false) by (apply String.eqb_neq; congruence).
    assert (Hgv : vars_of_body [BPos (atom1 e ev); BPos (atom1 S sv)] = [ev; sv]).
    { unfold vars_of_body, atom1. cbn [fold_left vars_of_lit vars_of_atom na_args]. unfold add_var. cbn [mem_string app orb].
      rewrite ?E_se, ?E_es. reflexivity. }
    rewrite Hgv.
    assert (Hlv : filter (fun v => negb (mem_string v [ev; sv]))
                    (vars_of_atom (atom1 O ov) (vars_of_atom {| na_pred := verb_pred (ch_verb c); na_args := [TVar ev; TVar sv; TVar ov] |} [])) = [ov]).
    { unfold vars_of_atom, atom1. cbn [na_args fold_left]. unfold add_var.
      repeat (progress (cbn [mem_string app orb filter negb]; rewrite ?String.eqb_refl, ?E_so, ?E_os, ?E_es, ?E_se, ?E_eo, ?E_oe)). reflexivity. }
    rewrite Hlv. cbn [all_substs].
    assert (E2 : forall l : list string, flat_map (fun x => map (fun sg : subst => (ov, x) :: sg) [[]]) l = map (fun x => [(ov, x)]) l).
    { induction l as [|a l' IH]; [reflexivity|]. cbn [flat_map]. rewrite IH. reflexivity. }
    assert (E1 : forall l : list string, flat_map (fun x => map (fun sg : subst => (sv, x) :: sg) [[]]) l = map (fun x => [(sv, x)]) l).
    { induction l as [|a l' IH]; [reflexivity|]. cbn [flat_map]. rewrite IH. reflexivity. }
    rewrite E1, E2. clear E1 E2.
    rewrite flat_map_flat_map. apply flat_map_ext'. intros z.
    rewrite flat_map_map, flat_map_map.
    transitivity (flat_map (fun x => [GChoice lb ub (map (fun y => (V z x y, [atom_text O [y]])) U)
                                              {| b_pos := [atom_text e [z]; atom_text S [x]]; b_neg := [] |}]) U);
      [|apply flat_map_singleton].
    apply flat_map_ext'. intros x.
    unfold ground_body. cbn [forallb flat_map app andb]. f_equal. f_equal.
    - rewrite ?map_map. apply map_ext. intros y. unfold V, atom_text, ground_atom, atom1. cbn [na_pred na_args map apply_term app].
      unfold sassoc. cbn [assoc]. rewrite ?String.eqb_refl, ?E_so, ?E_os, ?E_es, ?E_se, ?E_eo, ?E_oe. reflexivity.
    - unfold ground_atom, atom1, atom_text. cbn [na_pred na_args map apply_term]. unfold sassoc. cbn [assoc].
      rewrite ?String.eqb_refl, ?E_se. reflexivity.
  Qed.

  Hypothesis HE : forall z, In z U -> holds I (atom_text e [z]) = mem_string z (dom_of s e).
  Hypothesis HS : forall x, In x U -> holds I (atom_text S [x]) = mem_string x (dom_of s S).
  Hypothesis HO : forall y, In y U -> holds I (atom_text O [y]) = mem_string y (dom_of s O).
  Hypothesis HEU : incl (dom_of s e) U.
  Hypothesis HSU : incl (dom_of s S) U.
  Hypothesis HOU : incl (dom_of s O) U.
  Hypothesis HUnd : NoDup U.
  Hypothesis HOnd : NoDup (dom_of s O).

  Lemma each_count z x :
    count_chosen I (map (fun y => (V z x y, [atom_text O [y]])) U) = length (filter (fun y => holds I (V z x y)) (dom_of s O)).
  Proof.
    unfold count_chosen. rewrite filter_map_comm, map_length. cbn [fst snd cond_true forallb].
    rewrite <- (count_restrict (fun y => holds I (V z x y)) U (dom_of s O) HUnd HOnd HOU). f_equal.
    apply filter_ext''. intros y Hy. rewrite andb_true_r. now rewrite (HO y Hy).
  Qed.

  Theorem each_choice_bounds_correct :
    constraints_ok I (flat_map (ground_rule U) (compile_sentence s (SChoice c))) = r_sentence s I (SChoice c).
  Proof.
    rewrite each_ground. unfold constraints_ok, r_sentence. cbn [r_sentence_ok]. rewrite Hfe. fold S O.
    destruct (card_bounds (ch_card c)) as [lb ub] eqn:Ecb. cbn [fst snd].
    rewrite forallb_flat_map, forallb_map'. apply eq_true_iff_eq. rewrite !forallb_forall. split.
    - intros H z0 Hz0. apply forallb_forall. intros x0 Hx0.
      specialize (H z0 (HEU z0 Hz0)). rewrite forallb_map', forallb_forall in H. specialize (H x0 (HSU x0 Hx0)).
      cbn [bounds_ok] in H. unfold body_true in H. cbn [b_pos b_neg forallb] in H. rewrite !andb_true_r in H.
      rewrite (HE z0 (HEU z0 Hz0)), (HS x0 (HSU x0 Hx0)) in H. apply mem_string_In in Hx0, Hz0. rewrite Hx0, Hz0 in H. cbn [negb orb andb] in H.
      rewrite each_count in H. cbn [app]. exact H.
    - intros H z Hz. rewrite forallb_map'. apply forallb_forall. intros x Hx.
      cbn [bounds_ok]. unfold body_true. cbn [b_pos b_neg forallb]. rewrite !andb_true_r.
      rewrite (HE z Hz), (HS x Hx). destruct (mem_string z (dom_of s e)) eqn:Ez; [|reflexivity].
      destruct (mem_string x (dom_of s S)) eqn:Ex; [|reflexivity]. cbn [negb orb andb].
      rewrite each_count. apply mem_string_In in Ez, Ex. specialize (H z Ez). rewrite forallb_forall in H. exact (H x Ex).
  Qed.
End EachChoice.
