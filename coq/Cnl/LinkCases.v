Require Import Coq.Strings.String Coq.Lists.List Coq.Bool.Bool.
Require Import Cnl2aspV.Asp.Syntax Cnl2aspV.Cnl.Link.
Import ListNotations.
Record lcase := { lc_n1 : string; lc_n2 : string; lc_k1 : list ekey; lc_k2 : list ekey; lc_a1 : list attr; lc_a2 : list attr;
                  lc_taken : list string; lc_out1 : list string; lc_out2 : list string }.
Fixpoint strs_eqb (a b : list string) : bool :=
  match a, b with [], [] => true | x :: r, y :: s => String.eqb x y && strs_eqb r s | _, _ => false end.
Definition lcase_ok (c : lcase) : bool :=
  match link_two (lc_n1 c) (lc_n2 c) (lc_k1 c) (lc_k2 c) (lc_a1 c) (lc_a2 c) [] (lc_taken c) with
  | (t, o, _) => (* after the final swap: target = atom_1, other = atom_2 *)
      strs_eqb (map a_value t) (lc_out1 c) && strs_eqb (map a_value o) (lc_out2 c) end.
