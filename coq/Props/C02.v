(* C02 — aggregate sentences count, sum and bound what they say.
   Asp/Agg.v: values of #count/#sum/#max/#min over sets of tuples (with #inf/#sup); Cnl/Aggregate.v: the aggregate sentence forms,
   their READING, the compile model and the semantics of the emitted rule. *)
Require Import Coq.ZArith.ZArith Coq.Lists.List Coq.Bool.Bool.
Require Import Cnl2aspV.Asp.CmpSem Cnl2aspV.Asp.Agg Cnl2aspV.Asp.AggProofs.
Import ListNotations.

(* the count / sum / maximum / minimum is taken over the DISTINCT qualifying tuples: two enumerations of the same set of
   tuples (any order, any repetitions) give the same value, for all four functions and lists of any length *)
Theorem C02_value_over_distinct_tuples :
  forall (f : aggfn) (l l' : list tuple), (forall t, In t l <-> In t l') -> agg_value f l = agg_value f l'.
Proof. exact agg_value_set. Qed.
Print Assumptions C02_value_over_distinct_tuples.

(* the negated comparison symbol is the exact complement, also when the aggregate is #inf / #sup (empty maximum / minimum) *)
Theorem C02_negated_symbol_complement :
  forall (k : ckind) (a b : ext), eksem (kneg k) a b = negb (eksem k a b).
Proof. exact eksem_kneg. Qed.
Print Assumptions C02_negated_symbol_complement.

(* The comparison literals the compile model emits for an aggregate sentence (through the regenerated phrase / negation / symbol /
   between tables and the three aggregate paths of convert_operation) are true exactly when the comparison the sentence names
   holds (prohibited) / fails (required) - for EVERY value of the aggregates, including #inf and #sup, every threshold, every phrase
   of the grammar.  The aggregates are abstract here (any aggregate term, any value): what remains unproved for C02 is that the
   aggregate terms evaluate to the reading's count/sum/max/min (decided exhaustively per specification by the oracle): PARTIAL. *)
Require Import Coq.Strings.String.
Require Import Cnl2aspV.Cnl.Comparison Cnl2aspV.Cnl.Aggregate Cnl2aspV.Cnl.AggregateProofs.

Theorem C02_comparison_phrase_number_partial :
  forall sp I g t1 v1 ph k req lits rest,
  agg_eval sp I g t1 = Some v1 -> forallb outer_only rest = true ->
  match parse_simple ph (OAgg t1) (ONum k) with Some c => convert_cmp (apply_polarity req c) | None => None end = Some lits ->
  exists kd, named_kind ph = Some kd /\
             lits_true sp I g [] (lits ++ rest) = negb (Bool.eqb (eksem kd v1 (EFin k)) req) && lits_true sp I g [] rest.
Proof. exact cmp_phrase_number. Qed.
Print Assumptions C02_comparison_phrase_number_partial.

Theorem C02_comparison_between_numbers_partial :
  forall sp I g t1 v1 lo hi req lits rest,
  agg_eval sp I g t1 = Some v1 -> forallb outer_only rest = true ->
  match parse_between (OAgg t1) (ONum lo) (ONum hi) with Some c => convert_cmp (apply_polarity req c) | None => None end = Some lits ->
  lits_true sp I g [] (lits ++ rest) = negb (Bool.eqb (ext_leb (EFin lo) v1 && ext_leb v1 (EFin hi)) req) && lits_true sp I g [] rest.
Proof. exact cmp_between_numbers. Qed.
Print Assumptions C02_comparison_between_numbers_partial.

Theorem C02_comparison_phrase_aggregate_partial :
  forall sp I g t1 t2 v1 v2 ph req lits rest,
  fresh_free g -> agg_eval sp I g t1 = Some v1 -> agg_eval sp I g t2 = Some v2 -> forallb outer_only rest = true ->
  match parse_simple ph (OAgg t1) (OAgg t2) with Some c => convert_cmp (apply_polarity req c) | None => None end = Some lits ->
  exists kd, named_kind ph = Some kd /\
             lits_true sp I g [] (lits ++ rest) = negb (Bool.eqb (eksem kd v1 v2) req) && lits_true sp I g [] rest.
Proof. exact cmp_phrase_aggregate. Qed.
Print Assumptions C02_comparison_phrase_aggregate_partial.

Theorem C02_comparison_between_number_aggregate_partial :
  forall sp I g t1 t2 v1 v2 lo req lits rest,
  fresh_free g -> agg_eval sp I g t1 = Some v1 -> agg_eval sp I g t2 = Some v2 -> forallb outer_only rest = true ->
  match parse_between (OAgg t1) (ONum lo) (OAgg t2) with Some c => convert_cmp (apply_polarity req c) | None => None end = Some lits ->
  lits_true sp I g [] (lits ++ rest) = negb (Bool.eqb (ext_leb (EFin lo) v1 && ext_leb v1 v2) req) && lits_true sp I g [] rest.
Proof. exact cmp_between_number_aggregate. Qed.
Print Assumptions C02_comparison_between_number_aggregate_partial.

Theorem C02_comparison_between_aggregates_partial :
  forall sp I g t1 t2 t3 v1 v2 v3 req lits rest,
  fresh_free g -> agg_eval sp I g t1 = Some v1 -> agg_eval sp I g t2 = Some v2 -> agg_eval sp I g t3 = Some v3 -> forallb outer_only rest = true ->
  match parse_between (OAgg t1) (OAgg t2) (OAgg t3) with Some c => convert_cmp (apply_polarity req c) | None => None end = Some lits ->
  lits_true sp I g [] (lits ++ rest) = negb (Bool.eqb (ext_leb v2 v1 && ext_leb v1 v3) req) && lits_true sp I g [] rest.
Proof. exact cmp_between_aggregates. Qed.
Print Assumptions C02_comparison_between_aggregates_partial.

(* the hypotheses are satisfiable: "the number of shelf id of a host is more than 2", two rooms, two shelves, one hosted *)
Example C02_hypotheses_satisfiable :
  let sp := {| a_rooms := 2; a_shelves := [(1, 3); (2, 3)]%Z; a_required := false;
               a_agg := {| g_fn := ACount; g_form := FParamShelf; g_side := None; g_label := None; g_dlabel := None; g_filter := None |};
               a_cmp := CPhrase "more than" 2; a_whenever := []; a_owhere := None |} in
  exists t1 lits, compile_aggr 1 (a_agg sp) = Some t1 /\ agg_eval sp [(1, 2)%Z] [] t1 = Some (EFin 1) /\
                  match parse_simple "more than" (OAgg t1) (ONum 2) with Some c => convert_cmp (apply_polarity false c) | None => None end = Some lits.
Proof. cbn zeta. eexists. eexists. split; [vm_compute; reflexivity|]. split; vm_compute; reflexivity. Qed.
