(* C05 — temporal connectives mean what they say on every trace.
   Statements only (proofs: Cnl/TemporalProofs.v).  Unbounded in formula depth and trace length.
   compile_* is the model of parser.telingo_operation/... + asp_converter.convert_operation (tied to /repo by exact-text
   correspondence on every run); tsat/body_sat is what telingo computes for the printed formula (validated against telingo
   on all traces up to length 3/4); treading is the specification: the phrase structure read as LTL with past.
   The dual-operator, constant and symbol tables and the Operators enum are regenerated from /repo. *)
Require Import Coq.Strings.String Coq.Lists.List Coq.Bool.Bool.
Require Import Cnl2aspV.Tel.Sem Cnl2aspV.Tel.Syntax Cnl2aspV.Cnl.Temporal Cnl2aspV.Cnl.TemporalProofs.
Import ListNotations.
Open Scope string_scope.

(* 'Whenever <condition>, then ...': the body of the compiled rule is true at a state exactly when the condition is.
   Hypotheses: the reading is defined (the sentence is expressible), the compiled formula is free of the three recorded
   printing defects (body_clean), and the sentence is not 'there is not <constant>' alone (negation_guard). *)
Theorem C05_formula_correct_partial :
  forall (f : tformula) (tr : trace) (R : sig) (b : body_item),
    negation_guard f = true -> treading tr f = Some R -> compile_condition f = COk b -> body_clean b = true ->
    body_sat tr b = Some R.
Proof. exact condition_correct. Qed.
Print Assumptions C05_formula_correct_partial.

(* constraints: prohibited rejects the states where the condition holds, required those where it does not *)
Theorem C05_constraint_correct_partial :
  forall (required : bool) (f : tformula) (tr : trace) (R : sig) (b : body_item),
    negation_guard f = true -> treading tr f = Some R -> compile_constraint required f = COk b -> body_clean b = true ->
    exists Sg, body_sat tr b = Some Sg /\ forall k, Sg k = (if required then negb (R k) else R k).
Proof. exact constraint_correct. Qed.
Print Assumptions C05_constraint_correct_partial.

(* every connective: name -> operator (generated table) -> symbol (generated table) -> the meaning the name states *)
Theorem C05_connectives :
  forall lam d dop F G W, dual_op d = Some dop -> r_dual lam d F G = Some W ->
    exists s, tsym dop = Some s /\ sem_bin lam s F G = Some W.
Proof. exact dual_agree. Qed.
Print Assumptions C05_connectives.

(* the FULL statement (without body_clean) is false of the faithful model: recorded findings *)
Theorem C05_nested_initially_refuted :
  exists tr k b R Sg, treading tr f_nested_init = Some R /\ compile_condition f_nested_init = COk b /\
                      body_sat tr b = Some Sg /\ Sg k <> R k.
Proof. exact nested_initially_refuted. Qed.
Theorem C05_primes_refuted :
  exists b, compile_condition f_prime = COk b /\ (forall tr, treading tr f_prime <> None) /\ (forall tr, body_sat tr b = None).
Proof. exact primes_refuted. Qed.
Theorem C05_negated_entity_unclean :
  exists b, compile_condition f_neg_entity = COk b /\ body_clean b = false /\
            print_body_item true b = "not not &tel {p(1) | not q(2)}".
Proof. exact negated_entity_unclean. Qed.

(* non-vacuity *)
Theorem C05_example_supported :
  negation_guard f_example = true /\ (forall tr, treading tr f_example <> None) /\
  exists b, compile_condition f_example = COk b /\ body_clean b = true /\ print_body_item true b = "not not &tel {<* p(1)}".
Proof. exact example_supported. Qed.
