(* Preferences (C04) over the vocabulary of Cnl/Aggregate.v: rooms 1..n, shelves (id, weight), chosen relation host(room, shelf),
   optionally bounded per room.
   - structured syntax of the preference forms (with aggregate, with variable, with clause / comparison), directions, priorities;
   - the READING: which interpretations are optimal (lexicographic, by priority, on the stated quantities);
   - the compile model: the weak constraints the implementation emits (compared modulo a canonical renaming of variables);
   - the semantics of those weak constraints (gringo: sets of (weight, level, tuple); clasp: lexicographic by level). *)
Require Import Coq.Strings.String Coq.Strings.Ascii Coq.Lists.List Coq.Bool.Bool Coq.Arith.Arith Coq.ZArith.ZArith.
Require Import Cnl2aspV.Base.Util Cnl2aspV.Base.Str Cnl2aspV.Base.Digits Cnl2aspV.Gen.Operators Cnl2aspV.Gen.Tables Cnl2aspV.Gen.Terminals
               Cnl2aspV.Asp.CmpSem Cnl2aspV.Asp.Agg Cnl2aspV.Cnl.Comparison Cnl2aspV.Cnl.Aggregate.
Import ListNotations.
Open Scope string_scope.
Open Scope Z_scope.

(* ------------------------------------------------------------------ syntax *)
Inductive pdir := DMinimized | DMaximized | DAsLittle | DAsMuch.
Inductive pprio := PLow | PMedium | PHigh | PNum (n : Z).
Inductive pform :=
| PAggAll (f : aggfn) (c : col)       (* the <f> <c> id of a host                                               is minimized *)
| PAggPerRoom (f : aggfn)             (* the <f> shelf id of a host with room id R ..., whenever there is a room R           *)
| PVar (c : col)                      (* whenever there is a host with room id R, with shelf id S [, ... weight W], X is minimized *)
| PClause                             (* there is a host with room id R, with shelf id S                                      *)
| PCmp (c : col) (ph : string) (k : Z).   (* X is <ph> k, whenever there is a host ... [whenever there is a shelf ... weight W]  *)
(* pf_only: ", where R is one of v1, v2" - the preference speaks of those rooms only ([] = no such clause) *)
Record pref := { pf_form : pform; pf_dir : pdir; pf_prio : pprio; pf_only : list Z }.
Record pspec := { p_rooms : nat; p_shelves : list (Z * Z); p_lb : option nat; p_ub : option nat; p_prefs : list pref }.

Definition world (sp : pspec) : aspec :=
  {| a_rooms := p_rooms sp; a_shelves := p_shelves sp; a_required := false;
     a_agg := {| g_fn := ACount; g_form := FEntity; g_side := None; g_label := None; g_dlabel := None; g_filter := None |};
     a_cmp := CBetween 0 0; a_whenever := []; a_owhere := None |}.

(* ------------------------------------------------------------------ the READING *)
(* the hard part: every room hosts a number of shelves within the stated bounds *)
Definition hard (sp : pspec) (I : interp) : bool :=
  forallb (fun p => existsb (Z.eqb (fst p)) (rooms (world sp)) && existsb (Z.eqb (snd p)) (shelf_ids (world sp))) I &&
  forallb (fun r => let n := length (filter (fun s => holds_host I r s) (shelf_ids (world sp))) in
                    (match p_lb sp with Some l => Nat.leb l n | None => true end) && (match p_ub sp with Some u => Nat.leb n u | None => true end))
          (rooms (world sp)).

Definition fin (e : ext) : Z := match e with EFin z => z | _ => 0 end.
Definition uses_weight (f : pform) : bool := match f with PVar KWeight | PCmp KWeight _ _ => true | _ => false end.

(* the stated quantity *)
Definition restrict (p : pref) (T : list triple) : list triple :=
  match pf_only p with [] => T | vs => filter (fun t => existsb (Z.eqb (colval KRoom t)) vs) T end.
Definition quantity (sp : pspec) (I : interp) (p : pref) : Z :=
  let T := restrict p (triples (world sp) I) in
  match pf_form p with
  | PAggAll f c => fin (agg_value f (map (fun t => [colval c t]) T))
  | PAggPerRoom f => fold_right Z.add 0 (map (fun r => fin (agg_value f (map (fun t => [colval KShelf t]) (filter (fun t => Z.eqb (colval KRoom t) r) T)))) (rooms (world sp)))
  | PVar c => fold_right Z.add 0 (map (colval c) T)
  | PClause => Z.of_nat (length T)
  | PCmp c ph k => match named_kind ph with Some kd => Z.of_nat (length (filter (fun t => ksem kd (colval c t) k) T)) | None => 0 end
  end.

Definition wants_max (d : pdir) : bool := match d with DMaximized | DAsMuch => true | _ => false end.
Definition directed (sp : pspec) (I : interp) (p : pref) : Z := if wants_max (pf_dir p) then - quantity sp I p else quantity sp I p.

(* high > medium > low; larger number > smaller *)
Definition rank (p : pprio) : Z := match p with PLow => 1 | PMedium => 2 | PHigh => 3 | PNum n => n end.

Fixpoint insert_desc (p : pref) (l : list pref) : list pref :=
  match l with [] => [p] | q :: r => if Z.leb (rank (pf_prio q)) (rank (pf_prio p)) then p :: l else q :: insert_desc p r end.
Definition by_priority (l : list pref) : list pref := fold_right insert_desc [] l.

(* J is strictly better than I: at the most important preference where they differ, J's directed quantity is smaller *)
Fixpoint lex_better (sp : pspec) (J I : interp) (ps : list pref) : bool :=
  match ps with
  | [] => false
  | p :: r => let a := directed sp J p in let b := directed sp I p in
              if Z.ltb a b then true else if Z.ltb b a then false else lex_better sp J I r
  end.

Definition optimal_in (sp : pspec) (space : list interp) (I : interp) : bool :=
  hard sp I && forallb (fun J => negb (hard sp J && lex_better sp J I (by_priority (p_prefs sp)))) space.

(* ------------------------------------------------------------------ the compile model *)
Inductive wlit := WHost (r s : string) | WShelf (s w : string) | WRoom (r : string) | WAgg (a : aggt) (v : string) | WCmp (v : string) (o : operator) (k : Z).
Inductive wweight := WOne | WVarW (v : string).
Record wc := { w_body : list wlit; w_neg : bool; w_weight : wweight; w_level : Z; w_tuple : list string }.

Definition prio_level (p : pprio) : option Z :=
  match p with
  | PNum n => if priority_level_number_is_identity then Some n else None
  | PLow => match sassoc "low" term_PRIORITY_LEVEL with Some (TInt z) => Some z | _ => None end
  | PMedium => match sassoc "medium" term_PRIORITY_LEVEL with Some (TInt z) => Some z | _ => None end
  | PHigh => match sassoc "high" term_PRIORITY_LEVEL with Some (TInt z) => Some z | _ => None end
  end.
Definition dir_phrase (d : pdir) : string :=
  match d with DMinimized => "is minimized" | DMaximized => "is maximized" | DAsLittle => "as little as possible" | DAsMuch => "as much as possible" end.
(* convert_preference_proposition: the weight is negated for MAXIMIZATION *)
Definition dir_neg (d : pdir) : option bool :=
  match sassoc (dir_phrase d) direction_of_phrase with
  | Some (TPref Pref_MAXIMIZATION) => Some true
  | Some (TPref Pref_MINIMIZATION) => Some false
  | _ => None end.

Definition col_var (c : col) : string := match c with KRoom => "R" | KShelf => "S" | KWeight => "W" end.
Definition host_body (with_weight : bool) : list wlit := (WHost "R" "S" :: if with_weight then [WShelf "S" "W"] else [])%list.
Definition host_tuple (with_weight : bool) : list string := ("R" :: "S" :: if with_weight then ["W"] else [])%list.

(* (sentences with a "where R is one of" clause are not covered by the compile model: they are decided by the oracle against the reading) *)
Definition compile_pref (p : pref) : option wc :=
  match pf_only p with _ :: _ => None | [] =>
  match prio_level (pf_prio p), dir_neg (pf_dir p) with
  | Some lvl, Some ng =>
    match pf_form p with
    | PAggAll f c =>
        match fn_op f with
        | Some op => let cnd := match c with KRoom => CHost (TV "#d") TAnon | _ => CHost TAnon (TV "#d") end in
                     Some {| w_body := [WAgg {| t_op := op; t_atom_tuple := false; t_tuple := [TV "#d"]; t_conds := [cnd] |} "#r"];
                             w_neg := ng; w_weight := WVarW "#r"; w_level := lvl; w_tuple := [] |}
        | None => None end
    | PAggPerRoom f =>
        match fn_op f with
        | Some op => Some {| w_body := [WRoom "R"; WAgg {| t_op := op; t_atom_tuple := false; t_tuple := [TV "#d"]; t_conds := [CHost (TV "R") (TV "#d")] |} "#r"];
                             w_neg := ng; w_weight := WVarW "#r"; w_level := lvl; w_tuple := ["R"] |}
        | None => None end
    | PVar c => let ww := match c with KWeight => true | _ => false end in
                Some {| w_body := host_body ww; w_neg := ng; w_weight := WVarW (col_var c); w_level := lvl; w_tuple := host_tuple ww |}
    | PClause => Some {| w_body := host_body false; w_neg := ng; w_weight := WOne; w_level := lvl; w_tuple := host_tuple false |}
    | PCmp c ph k => let ww := match c with KWeight => true | _ => false end in
                     match phrase_op ph with
                     | Some o => Some {| w_body := (WCmp (col_var c) o k :: host_body ww); w_neg := ng; w_weight := WOne; w_level := lvl; w_tuple := host_tuple ww |}
                     | None => None end
    end
  | _, _ => None end end.

Definition compile_prefs (sp : pspec) : option (list wc) := all_some (map compile_pref (p_prefs sp)).

(* printing (variables renamed by first occurrence, per weak constraint) *)
Definition p_wlit (l : wlit) : list piece :=
  match l with
  | WHost r s => [PT "host("; PV r; PT ","; PV s; PT ")"]
  | WShelf s w => [PT "shelf("; PV s; PT ","; PV w; PT ")"]
  | WRoom r => [PT "room("; PV r; PT ")"]
  | WAgg a v => (p_agg a ++ [PT " = "; PV v])%list
  | WCmp v o k => [PV v; PT (" " ++ match op_symbol o with Some s => s | None => "?" end ++ " " ++ show_Z k)]
  end.
Definition p_wc (w : wc) : list piece :=
  (PT ":~ " :: p_join ", " (map p_wlit (w_body w)) ++ PT ". [" ::
   (match w_weight w with
    | WOne => [PT ((if w_neg w then "-" else "") ++ "1")]
    | WVarW v => [PT (if w_neg w then "-" else ""); PV v] end) ++
   PT ("@" ++ show_Z (w_level w)) :: flat_map (fun v => [PT ","; PV v]) (w_tuple w) ++ [PT "]"])%list.
Definition print_wc (w : wc) : string := canon (p_wc w) [].

(* ------------------------------------------------------------------ semantics of the emitted weak constraints *)
Definition wl_vars (l : wlit) (acc : list string) : list string :=
  match l with
  | WHost r s => add_var s (add_var r acc) | WShelf s w => add_var w (add_var s acc) | WRoom r => add_var r acc
  | _ => acc end.
Definition wc_globals (w : wc) : list string := fold_left (fun acc l => wl_vars l acc) (w_body w) [].

Fixpoint wbody_true (sp : pspec) (I : interp) (g : binding) (e : list (string * ext)) (ls : list wlit) : option (list (string * ext)) :=
  match ls with
  | [] => Some e
  | WHost r s :: rest => match sassoc r g, sassoc s g with
                         | Some x, Some y => if holds_host I x y then wbody_true sp I g e rest else None
                         | _, _ => None end
  | WShelf s w :: rest => match sassoc s g, sassoc w g with
                          | Some x, Some y => if is_shelf (world sp) x y then wbody_true sp I g e rest else None
                          | _, _ => None end
  | WRoom r :: rest => match sassoc r g with Some x => if is_room (world sp) x then wbody_true sp I g e rest else None | None => None end
  | WAgg a v :: rest => match agg_eval (world sp) I g a with Some val => wbody_true sp I g ((v, val) :: e) rest | None => None end
  | WCmp v o k :: rest => match sassoc v g, op_symbol o with
                          | Some x, Some sym => match kind_of_symbol sym with
                                                | Some kd => if ksem kd x k then wbody_true sp I g e rest else None
                                                | None => None end
                          | _, _ => None end
  end.

(* the set of (weight, tuple) elements one weak constraint contributes; non-integer weights (#inf, #sup) contribute nothing *)
Definition wc_elements (sp : pspec) (I : interp) (w : wc) : list (list Z) :=
  flat_map (fun g => match wbody_true sp I g [] (w_body w) with
                     | Some e =>
                         let wt := match w_weight w with
                                   | WOne => Some 1
                                   | WVarW v => match sassoc v e with Some (EFin z) => Some z | Some _ => None
                                                                 | None => sassoc v g end end in
                         match wt with
                         | Some z => [((if w_neg w then - z else z) :: map (fun v => match sassoc v g with Some x => x | None => 0 end) (w_tuple w))%list]
                         | None => [] end
                     | None => [] end)
           (all_bindings (wc_globals w) (universe (world sp))).

(* cost at a level: the sum of the weights of the DISTINCT (weight, tuple) elements of all weak constraints at that level *)
Definition level_cost (sp : pspec) (I : interp) (ws : list wc) (lvl : Z) : Z :=
  fold_right Z.add 0 (map (hd 0) (nodup tuple_eq_dec (flat_map (wc_elements sp I) (filter (fun w => Z.eqb (w_level w) lvl) ws)))).

Fixpoint insert_z_desc (z : Z) (l : list Z) : list Z :=
  match l with [] => [z] | y :: r => if Z.eqb y z then l else if Z.ltb y z then z :: l else y :: insert_z_desc z r end.
Definition levels_desc (ws : list wc) : list Z := fold_right insert_z_desc [] (map w_level ws).

Fixpoint cost_better (sp : pspec) (ws : list wc) (J I : interp) (lv : list Z) : bool :=
  match lv with
  | [] => false
  | l :: r => let a := level_cost sp J ws l in let b := level_cost sp I ws l in
              if Z.ltb a b then true else if Z.ltb b a then false else cost_better sp ws J I r
  end.
Definition wc_optimal_in (sp : pspec) (ws : list wc) (space : list interp) (I : interp) : bool :=
  hard sp I && forallb (fun J => negb (hard sp J && cost_better sp ws J I (levels_desc ws))) space.
