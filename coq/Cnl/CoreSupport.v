(* Core fragment, WHOLE specifications without derived definitions: every atom of I is supported by the ground program exactly
   when I holds nothing but declared values and admissible instances of the chosen relations (the second clause of the reading). *)
Require Import Coq.Strings.String Coq.Lists.List Coq.Bool.Bool Coq.ZArith.ZArith.
Require Import Cnl2aspV.Base.Util Cnl2aspV.Asp.Ground Cnl2aspV.Cnl.Comparison Cnl2aspV.Cnl.Core Cnl2aspV.Cnl.CoreProofs Cnl2aspV.Cnl.CoreDef
               Cnl2aspV.Cnl.CoreChoice Cnl2aspV.Cnl.CoreChoiceEach Cnl2aspV.Cnl.CoreWhere Cnl2aspV.Cnl.CoreProgram.
Import ListNotations.
Open Scope string_scope.

Lemma supported_atom_app I A B a : supported_atom I (A ++ B) a = supported_atom I A a || supported_atom I B a.
Proof. unfold supported_atom. apply existsb_app. Qed.
Lemma supported_atom_flat_map {T} I (f : T -> list grule) l a :
  supported_atom I (flat_map f l) a = existsb (fun x => supported_atom I (f x) a) l.
Proof. unfold supported_atom. apply existsb_flat_map. Qed.

Lemma existsb_ext_in {A} (f g : A -> bool) l : (forall a, In a l -> f a = g a) -> existsb f l = existsb g l.
Proof.
  induction l as [|a l IH]; intros H; cbn [existsb]; [reflexivity|]. rewrite (H a (or_introl eq_refl)), IH; [reflexivity|].
  intros x Hx. apply H. now right.
Qed.

(* quantifying over the universe restricted to a part of it = quantifying over the part *)
Lemma existsb_restrict (P : string -> bool) (U D : list string) :
  incl D U -> existsb (fun x => mem_string x D && P x) U = existsb P D.
Proof.
  intros Hinc. apply eq_true_iff_eq. rewrite !existsb_exists. split.
  - intros (x & _ & E). apply andb_true_iff in E as (Hd & Hp). apply mem_string_In in Hd. eauto.
  - intros (x & Hd & Hp). exists x. split; [auto|]. apply andb_true_iff. split; [now apply mem_string_In|exact Hp].
Qed.

Lemma concept_supported U I c a :
  supported_atom I (flat_map (ground_rule U) (compile_concept c)) a =
  existsb (fun v => String.eqb a (atom_text (c_name c) [v])) (dom_terms (c_dom c)).
Proof.
  unfold compile_concept, dom_terms, supported_atom. destruct (c_dom c) as [lo hi|vals].
  - cbn [flat_map ground_rule]. rewrite app_nil_r, !existsb_map'. apply existsb_ext'. intros z.
    cbn [supportsb]. unfold Ground.body_true. cbn [b_pos b_neg forallb andb]. rewrite andb_true_r. apply String.eqb_sym.
  - rewrite flat_map_map, existsb_flat_map, existsb_map'. apply existsb_ext'. intros v.
    cbn [ground_rule existsb supportsb]. unfold Ground.body_true. cbn [b_pos b_neg forallb andb]. rewrite andb_true_r, orb_false_r. apply String.eqb_sym.
Qed.

(* constraints support nothing *)
Definition only_constraints (G : list grule) : Prop := forall r, In r G -> match r with GConstraint _ => True | _ => False end.
Lemma only_constraints_support I G a : only_constraints G -> supported_atom I G a = false.
Proof.
  intros H. unfold supported_atom. apply not_true_iff_false. intros E. apply existsb_exists in E as (r & Hr & E).
  specialize (H r Hr). destruct r; try destruct H. discriminate E.
Qed.
Lemma cons_only_constraints s U required whenpart main wh : only_constraints (flat_map (ground_rule U) (compile_sentence s (SCons required whenpart main wh))).
Proof.
  intros r Hr. cbn [compile_sentence flat_map] in Hr. rewrite app_nil_r in Hr. cbn [ground_rule] in Hr.
  apply in_flat_map in Hr as (sg & _ & Hr). destruct (ground_body sg _); [|destruct Hr]. destruct Hr as [<-|[]]. exact Logic.I.
Qed.
Lemma there_only_constraints s U required neg v x y : only_constraints (flat_map (ground_rule U) (compile_sentence s (SThere required neg v x y))).
Proof.
  intros r Hr. cbn [compile_sentence flat_map] in Hr. rewrite app_nil_r in Hr. cbn [ground_rule] in Hr.
  apply in_flat_map in Hr as (sg & _ & Hr). destruct (ground_body sg _); [|destruct Hr]. destruct Hr as [<-|[]]. exact Logic.I.
Qed.

(* the share of one sentence in `admissible` *)
Definition adm_sentence (s : spec) (x : sentence) (a : gatom) : bool :=
  match base_sentence x with
  | SChoice c =>
      let fes := match ch_foreach c with Some e => map (fun z => [z]) (dom_of s e) | None => [[]] end in
      existsb (fun fe => existsb (fun x0 => existsb (fun y => String.eqb a (atom_text (verb_pred (ch_verb c)) (fe ++ [x0; y])%list))
                                                    (dom_of s (ch_obj c))) (dom_of s (ch_subj c))) fes
  | SDef subj _ newpred _ => existsb (fun x0 => String.eqb a (atom_text newpred [x0])) (dom_of s subj)
  | _ => false end.
Lemma admissible_split s a :
  admissible s a = existsb (fun c => existsb (fun v => String.eqb a (atom_text (c_name c) [v])) (dom_terms (c_dom c))) (concepts s)
                   || existsb (fun x => adm_sentence s x a) (sentences s).
Proof.
  unfold admissible. apply (f_equal2 orb); [reflexivity|]. apply existsb_ext'. intros x. unfold adm_sentence. destruct (base_sentence x); reflexivity.
Qed.

Section Support.
  Variables (s : spec) (U : list string) (I : interp).
  Hypothesis Hdom : forall n, declared s n -> forall x, In x U -> holds I (atom_text n [x]) = mem_string x (dom_of s n).
  Hypothesis Hincl : forall n, incl (dom_of s n) U.

  Lemma choice_supported c a :
    declared s (ch_subj c) -> declared s (ch_obj c) -> ch_foreach c = None ->
    var_of s (ch_subj c) (ch_slabel c) <> var_of s (ch_obj c) (ch_olabel c) ->
    supported_atom I (flat_map (ground_rule U) (compile_sentence s (SChoice c))) a = adm_sentence s (SChoice c) a.
  Proof.
    intros Hds Hdo Hfe Hne. rewrite (choice_ground s U c Hfe Hne). unfold adm_sentence. cbn [base_sentence]. rewrite Hfe.
    cbn [existsb]. rewrite orb_false_r. unfold supported_atom. rewrite existsb_map'.
    rewrite <- (existsb_restrict _ U (dom_of s (ch_subj c)) (Hincl _)).
    apply existsb_ext_in. intros x Hx. cbn [supportsb]. unfold Ground.body_true. cbn [b_pos b_neg forallb]. rewrite !andb_true_r.
    rewrite (Hdom _ Hds x Hx). f_equal. rewrite existsb_map'.
    rewrite <- (existsb_restrict _ U (dom_of s (ch_obj c)) (Hincl _)).
    apply existsb_ext_in. intros y Hy. cbn [fst snd cond_true forallb]. rewrite andb_true_r, (Hdom _ Hdo y Hy).
    rewrite andb_comm. f_equal. cbn [app]. apply String.eqb_sym.
  Qed.

  Lemma each_supported c e a :
    declared s (ch_subj c) -> declared s (ch_obj c) -> declared s e -> ch_foreach c = Some e ->
    var_of s (ch_subj c) (ch_slabel c) <> var_of s (ch_obj c) (ch_olabel c) ->
    auto_var s e <> var_of s (ch_subj c) (ch_slabel c) -> auto_var s e <> var_of s (ch_obj c) (ch_olabel c) ->
    supported_atom I (flat_map (ground_rule U) (compile_sentence s (SChoice c))) a = adm_sentence s (SChoice c) a.
  Proof.
    intros Hds Hdo Hde Hfe Hne Hes Heo. rewrite (each_ground s U c e Hfe Hne Hes Heo). unfold adm_sentence. cbn [base_sentence]. rewrite Hfe.
    rewrite existsb_map'. unfold supported_atom. rewrite existsb_flat_map.
    rewrite <- (existsb_restrict _ U (dom_of s e) (Hincl _)).
    apply existsb_ext_in. intros z Hz. rewrite existsb_map'.
    transitivity (mem_string z (dom_of s e) &&
                  existsb (fun x => mem_string x (dom_of s (ch_subj c)) &&
                                    existsb (fun y => String.eqb a (atom_text (verb_pred (ch_verb c)) ([z] ++ [x; y])%list)) (dom_of s (ch_obj c))) U).
    - destruct (mem_string z (dom_of s e)) eqn:Ez; cbn [andb].
      + apply existsb_ext_in. intros x Hx. cbn [supportsb]. unfold Ground.body_true. cbn [b_pos b_neg forallb]. rewrite !andb_true_r.
        rewrite (Hdom _ Hde z Hz), Ez, (Hdom _ Hds x Hx). cbn [andb]. f_equal. rewrite existsb_map'.
        rewrite <- (existsb_restrict _ U (dom_of s (ch_obj c)) (Hincl _)).
        apply existsb_ext_in. intros y Hy. cbn [fst snd cond_true forallb]. rewrite andb_true_r, (Hdom _ Hdo y Hy).
        rewrite andb_comm. f_equal. cbn [app]. apply String.eqb_sym.
      + apply not_true_iff_false. intros E. apply existsb_exists in E as (x & Hx & E). cbn [supportsb] in E. unfold Ground.body_true in E.
        cbn [b_pos b_neg forallb] in E. rewrite (Hdom _ Hde z Hz), Ez in E. discriminate E.
    - f_equal. apply existsb_restrict, Hincl.
  Qed.

  (* a covered sentence that is no definition *)
  Lemma sentence_supported x a : covered s x -> no_definition x ->
    supported_atom I (flat_map (ground_rule U) (compile_sentence s x)) a = adm_sentence s x a.
  Proof.
    intros Hc Hn. destruct x as [c|? ? ? ?|required whenpart main wh|l vals y|required neg v sv ov]; try destruct Hn.
    - cbn [covered] in Hc. destruct Hc as (Hds & Hdo & _ & Hne & Hfe). destruct (ch_foreach c) as [e|] eqn:Efe.
      + destruct Hfe as (Hde & Hes & Heo). now apply (each_supported c e).
      + now apply choice_supported.
    - unfold adm_sentence. cbn [base_sentence]. apply only_constraints_support, cons_only_constraints.
    - destruct y as [?|? ? ? ?|rq wp mn wh|? ? ?|? ? ? ? ?]; try destruct Hn. unfold adm_sentence. cbn [base_sentence].
      apply only_constraints_support. intros r Hr. destruct (oneof_rules_are_constraints s U l vals rq wp mn wh r Hr) as (b & ->). exact Logic.I.
    - unfold adm_sentence. cbn [base_sentence]. apply only_constraints_support, there_only_constraints.
  Qed.

  Theorem program_supported :
    (forall x, In x (sentences s) -> covered s x /\ no_definition x) ->
    forall a, supported_atom I (flat_map (ground_rule U) (compile s)) a = admissible s a.
  Proof.
    intros Hcov a. unfold compile. rewrite flat_map_app, supported_atom_app, admissible_split. f_equal.
    - rewrite flat_map_flat_map, supported_atom_flat_map. apply existsb_ext'. intros c. apply concept_supported.
    - rewrite flat_map_flat_map, supported_atom_flat_map. apply existsb_ext_in. intros x Hx. destruct (Hcov x Hx). now apply sentence_supported.
  Qed.
End Support.

(* ------------------------------------------------------------------ bounds + closed + supported = the reading *)
Lemma r_bounds_no_def s I x : no_definition x -> r_bounds s I x = r_sentence s I x.
Proof. destruct x; cbn; intros H; try reflexivity; destruct H. Qed.

Theorem program_scb (s : spec) (I : interp) :
  (forall n, declared s n -> forall x, In x (universe s) -> holds I (atom_text n [x]) = mem_string x (dom_of s n)) ->
  (forall x, In x (sentences s) -> covered s x /\ no_definition x) ->
  scb (ground s) I = reading s I.
Proof.
  intros Hdom Hcov. unfold scb, reading, ground.
  pose proof (program_bounds s (universe s) I Hdom (universe_incl s) (universe_NoDup s) (fun x Hx => proj1 (Hcov x Hx))) as Hb.
  unfold constraints_ok in Hb. rewrite Hb. clear Hb.
  change (Ground.closedb (flat_map (ground_rule (universe s)) (compile s)) I) with (CoreDef.closedb I (flat_map (ground_rule (universe s)) (compile s))).
  rewrite (program_closed_no_definitions s (universe s) I) by (intros x Hx; apply (Hcov x Hx)).
  assert (Es : supportedb (flat_map (ground_rule (universe s)) (compile s)) I = forallb (admissible s) I).
  { unfold supportedb. apply forallb_ext'. intros a.
    exact (program_supported s (universe s) I Hdom (universe_incl s) Hcov a). }
  rewrite Es.
  assert (Eb : forallb (r_bounds s I) (sentences s) = forallb (r_sentence s I) (sentences s)).
  { induction (sentences s) as [|x xs IH]; [reflexivity|]. cbn [forallb]. rewrite r_bounds_no_def by (apply Hcov; now left).
    f_equal. apply IH. intros y Hy. apply Hcov. now right. }
  rewrite Eb. destruct (r_domains s I), (forallb (admissible s) I), (forallb (r_sentence s I) (sentences s)); reflexivity.
Qed.
