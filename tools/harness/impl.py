"""Access to the implementation under /repo/src (never a copy).

The only thing replaced is the *construction* of lark.Lark, which is memoised
per (grammar text, options) inside this process: Cnl2asp.parse_input rebuilds
the Earley parser (0.5 s) on every call.  Every line of /repo stays on the
executed path; the grammar text is the one read from /repo at call time.
"""
import io
import os
import re
import sys
import contextlib

REPO = os.environ.get('VERIF_REPO', '/repo')
SRC = os.path.join(REPO, 'src')
if SRC not in sys.path:
    sys.path.insert(0, SRC)

import lark  # noqa: E402

_lark_cache = {}
_RealLark = lark.Lark


def _memo_lark(grammar, **kw):
    key = (grammar, tuple(sorted(kw.items())))
    p = _lark_cache.get(key)
    if p is None:
        p = _RealLark(grammar, **kw)
        _lark_cache[key] = p
    return p


import cnl2asp.cnl2asp as _c  # noqa: E402

_c.Lark = _memo_lark

from cnl2asp.cnl2asp import Cnl2asp  # noqa: E402
from cnl2asp.utility.utility import Utility  # noqa: E402
from cnl2asp.specification.signaturemanager import SignatureManager  # noqa: E402

UUID_RE = re.compile(r'x_[0-9a-f]{8}_[0-9a-f]{4}_[0-9a-f]{4}_[0-9a-f]{4}_[0-9a-f]{12}')


# variables invented for attributes of an auxiliary x_<uuid> predicate: the uuid, vowels stripped and upper-cased
UUID_VAR_RE = re.compile(r'X_[0-9BCDF]{1,8}_[0-9BCDF]{0,4}_[0-9BCDF]{0,4}_[0-9BCDF]{0,4}_[0-9BCDF]{1,12}')


def norm_uuid(text):
    seen = {}
    seenv = {}

    def rep(m):
        k = m.group(0)
        if k not in seen:
            seen[k] = 'x_%d' % len(seen)
        return seen[k]

    def repv(m):
        k = m.group(0)
        if k not in seenv:
            seenv[k] = 'X_%d' % len(seenv)
        return seenv[k]
    return UUID_VAR_RE.sub(repv, UUID_RE.sub(rep, text))


def compile_text(text, auto_link=True, with_functions=False):
    """-> ('ok', program_text, stdout) | ('err', exception_class_name, message, stdout)"""
    Utility.PRINT_WITH_FUNCTIONS = with_functions
    out = io.StringIO()
    try:
        with contextlib.redirect_stdout(out):
            res = Cnl2asp(text).compile(auto_link)
        return ('ok', norm_uuid(res), out.getvalue())
    except Exception as e:  # noqa
        return ('err', type(e).__name__, str(e), out.getvalue())
    finally:
        Utility.PRINT_WITH_FUNCTIONS = False


def compile_objects(text):
    """Return (ASPEncoding object, printed text) -- the object tree the converter built."""
    from cnl2asp.converter.asp_converter import ASPConverter
    SignatureManager.signatures = []
    Utility.AUTO_ENTITY_LINK = True
    out = io.StringIO()
    with contextlib.redirect_stdout(out):
        spec = Cnl2asp(text).parse_input()
        enc = spec.convert(ASPConverter())
    return enc


def get_symbols(text):
    out = io.StringIO()
    with contextlib.redirect_stdout(out):
        return Cnl2asp(text).get_symbols()


def grammar_text():
    return open(os.path.join(SRC, 'cnl2asp', 'grammar.lark')).read()


# ---- parallel compilation (fork: every worker imports nothing new, each keeps its own Lark memo)
def _compile_job(args):
    text, auto_link, with_functions = args
    return compile_text(text, auto_link, with_functions)


def compile_many(texts, auto_link=True, with_functions=False, workers=14):
    import multiprocessing as mp
    if len(texts) < 24:
        return [compile_text(t, auto_link, with_functions) for t in texts]
    # warm the parent's cache so that forked workers inherit a built parser
    compile_text('A warmupconcept is identified by an id.')
    ctx = mp.get_context('fork')
    with ctx.Pool(workers) as pool:
        return pool.map(_compile_job, [(t, auto_link, with_functions) for t in texts], chunksize=8)


def symbols_repr(text):
    """canonical text of get_symbols(text) (or the failure)"""
    try:
        out = io.StringIO()
        with contextlib.redirect_stdout(out):
            syms = Cnl2asp(text).get_symbols()
        return ('ok', norm_uuid(repr([(s.predicate, repr(s.keys), repr(s.attributes), s.symbol_type.name) for s in syms])))
    except Exception as e:  # noqa
        return ('err', type(e).__name__, str(e)[:200])


def symbols_many(texts, workers=14):
    import multiprocessing as mp
    if len(texts) < 24:
        return [symbols_repr(t) for t in texts]
    compile_text('A warmupconcept is identified by an id.')
    with mp.get_context('fork').Pool(workers) as pool:
        return pool.map(symbols_repr, texts, chunksize=8)
