(* C14 — function-term mode prints the same program with foreign keys wrapped.
   Asp/Print.v models ASPAtom.__str__ in both modes (visited attributes tracked by POSITION, as the code does after the
   'fix:' commit recorded in KNOWN_FINDINGS.json); it is tied to /repo by printing every serialised element tree of the
   stream in both modes and comparing byte for byte. *)
Require Import Coq.Strings.String Coq.Lists.List Coq.Bool.Bool.
Require Import Cnl2aspV.Asp.Syntax Cnl2aspV.Asp.Print Cnl2aspV.Asp.PrintProofs.
Import ListNotations.
Open Scope string_scope.

(* an atom none of whose attributes is inherited from another concept is printed identically in both modes:
   nothing is wrapped, dropped, duplicated or reordered (any number of attributes, any values, equal values included) *)
Theorem C14_unwrapped_atoms_unchanged :
  forall a : atom, forallb (own_attr (at_name a)) (at_attrs a) = true -> print_atom true a = print_atom false a.
Proof. exact fn_equals_flat_on_own_attributes. Qed.
Print Assumptions C14_unwrapped_atoms_unchanged.

(* non-vacuity, and the shape fixed by the repair: equal-valued arguments are all kept *)
Example C14_equal_values_kept :
  let n := {| on_name := "node"; on_forms := ["node"; "nodes"; "node"] |} in
  let a := {| at_name := "connected_to";
              at_attrs := [ {| a_name := "id"; a_value := "_"; a_origin := [n] |}; {| a_name := "id"; a_value := "_"; a_origin := [n] |} ];
              at_neg := false; at_before := false; at_after := false; at_initial := false; at_final := false |} in
  print_atom true a = "connected_to(node(_,_))" /\ print_atom false a = "connected_to(_,_)".
Proof. vm_compute. split; reflexivity. Qed.

(* ---- wrapped groups (Asp/PrintTree.v) ---- *)
Require Import Coq.Sorting.Permutation.
Require Import Cnl2aspV.Base.Str Cnl2aspV.Asp.PrintTree.

(* what function-term mode prints for ANY atom (negated, primed, initial/final included) is the text of a tree: the decorated
   predicate name, then the printed sub-trees; a sub-tree is an argument value or a group named after the concept it is inherited from *)
Theorem C14_function_terms_are_a_tree :
  forall a : atom, at_name a <> "" ->
  print_atom true a = atom_prefix a ++ join "," (map print_t (match atom_tree a with FNode _ kids => kids | FLeaf _ => [] end)) ++ ")".
Proof. exact print_atom_fn_is_tree. Qed.
Print Assumptions C14_function_terms_are_a_tree.

(* flattening that tree gives back the atom's arguments: no argument is dropped and none is duplicated, for every atom with any number
   of attributes, any values (equal values included), origin chains of any depth, groups in any positions.
   PARTIAL: 'not reordered' (the leaves in the ORDER of the default program) holds when the attributes inherited from one concept are
   adjacent; that part is decided per program by the oracle (clingo.ast flattening), not proved. *)
Theorem C14_no_argument_dropped_or_duplicated_partial :
  forall a : atom, at_name a <> "" -> Forall ok_attr (at_attrs a) ->
  Permutation (leaves (atom_tree a)) (map a_value (at_attrs a)).
Proof. exact atom_tree_leaves. Qed.
Print Assumptions C14_no_argument_dropped_or_duplicated_partial.

Example C14_tree_example :
  let c := {| on_name := "city"; on_forms := ["city"; "cities"; "city"] |} in
  let s := {| on_name := "street"; on_forms := ["street"; "streets"; "street"] |} in
  let a := {| at_name := "house";
              at_attrs := [ {| a_name := "name"; a_value := """rome"""; a_origin := [s; c] |}; {| a_name := "label"; a_value := "5"; a_origin := [s] |};
                            {| a_name := "number"; a_value := "2"; a_origin := [] |} ];
              at_neg := false; at_before := false; at_after := false; at_initial := false; at_final := false |} in
  print_atom true a = "house(street(city(""rome""),5),2)" /\ leaves (atom_tree a) = ["""rome"""; "5"; "2"].
Proof. vm_compute. split; reflexivity. Qed.
