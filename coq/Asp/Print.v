(* Model of every __str__ of ASP_elements/*.py (default printing mode and PRINT_WITH_FUNCTIONS mode). *)
Require Import Coq.Strings.String Coq.Strings.Ascii Coq.Lists.List Coq.Bool.Bool Coq.Arith.Arith.
Require Import Cnl2aspV.Base.Util Cnl2aspV.Base.Str Cnl2aspV.Gen.Operators Cnl2aspV.Gen.Tables Cnl2aspV.Asp.Syntax.
Import ListNotations.
Open Scope string_scope.

(* ------------------------------------------------------------------ Python str helpers *)
Definition is_space_c (c : ascii) : bool :=
  let n := nat_of_ascii c in Nat.eqb n 32 || (Nat.leb 9 n && Nat.leb n 13) || (Nat.leb 28 n && Nat.leb n 31).
Fixpoint lstrip (s : string) : string :=
  match s with String c r => if is_space_c c then lstrip r else s | EmptyString => EmptyString end.
Fixpoint srev_acc (s acc : string) : string := match s with EmptyString => acc | String c r => srev_acc r (String c acc) end.
Definition srev (s : string) : string := srev_acc s "".
Definition rstrip (s : string) : string := srev (lstrip (srev s)).
Definition strip (s : string) : string := rstrip (lstrip s).

(* s.split(',') *)
Fixpoint split_comma_acc (s cur : string) : list string :=
  match s with
  | EmptyString => [srev cur]
  | String c r => if Ascii.eqb c "," then srev cur :: split_comma_acc r "" else split_comma_acc r (String c cur)
  end.
Definition split_comma (s : string) : list string := split_comma_acc s "".

(* s.replace(old, new): all non-overlapping occurrences, left to right; old non-empty *)
Fixpoint replace_fuel (fuel : nat) (old new s : string) : string :=
  match fuel with
  | O => s
  | S f => match s with
           | EmptyString => EmptyString
           | String c r => if prefix_b old s then new ++ replace_fuel f old new (drop (String.length old) s)
                           else String c (replace_fuel f old new r)
           end
  end.
Definition replace (old new s : string) : string :=
  match old with EmptyString => s | _ => replace_fuel (S (String.length s)) old new s end.

Definition sconcat (l : list string) : string := fold_right append "" l.

(* ------------------------------------------------------------------ names *)
Definition oname_eq_str (o : oname) (s : string) : bool := mem_string s (on_forms o).            (* NameComponent == str *)
Definition oname_eq (a b : oname) : bool := mem_string (on_name a) (on_forms b) || mem_string (on_name b) (on_forms a).

(* ASPAttribute.__eq__: name and value *)
Definition attr_eqb (a b : attr) : bool := String.eqb (a_name a) (a_name b) && String.eqb (a_value a) (a_value b).
Definition attr_in (a : attr) (l : list attr) : bool := existsb (attr_eqb a) l.

(* ------------------------------------------------------------------ atoms *)
Definition atom_prefix (a : atom) : string :=
  (if at_neg a then "not " else "") ++ (if at_before a then "'" else "") ++ (if at_initial a then "_" else "") ++
  (if at_final a then "__" else "") ++ at_name a ++ (if at_after a then "'" else "") ++ "(".

Definition print_atom_flat (a : atom) : string :=
  match at_name a with
  | EmptyString => ""
  | _ => atom_prefix a ++ join "," (map a_value (at_attrs a)) ++ ")"
  end.

(* PRINT_WITH_FUNCTIONS: group attributes by the name of their origin into nested terms.
   The recursion descends along origin chains (each nested atom's attributes have strictly shorter origins);
   fuel = maximal origin length + 1. *)
Definition plain_atom (name : string) (attrs : list attr) : atom :=
  {| at_name := name; at_attrs := attrs; at_neg := false; at_before := false; at_after := false;
     at_initial := false; at_final := false |}.

Definition origin_tail (o : origin) : origin := match o with [] => [] | _ :: r => r end.
Definition strip_origin (a : attr) : attr := {| a_name := a_name a; a_value := a_value a; a_origin := origin_tail (a_origin a) |}.

(* one pass of the `for attribute1 in self.attributes` loop; returns the printed pieces.
   `visited` holds POSITIONS: the code compares attributes by identity (`any(attribute1 is v for v in visited)`). *)
Definition nat_in (i : nat) (l : list nat) : bool := existsb (Nat.eqb i) l.

Fixpoint index_from (i : nat) (l : list attr) : list (nat * attr) :=
  match l with [] => [] | a :: r => (i, a) :: index_from (S i) r end.

Section FnPrint.
  Variable print_nested : atom -> string.

  (* collect the not yet visited attributes with the same origin name, in order *)
  Fixpoint gather (o1 : oname) (rest : list (nat * attr)) (visited : list nat) : list attr * list nat :=
    match rest with
    | [] => ([], visited)
    | (j, a2) :: r =>
        if nat_in j visited then gather o1 r visited
        else match a_origin a2 with
             | o2 :: _ => if oname_eq o1 o2
                          then let '(g, v) := gather o1 r (j :: visited) in (strip_origin a2 :: g, v)
                          else gather o1 r visited
             | [] => gather o1 r visited
             end
    end.

  Fixpoint fn_loop (self_name : string) (all : list (nat * attr)) (todo : list (nat * attr)) (visited : list nat) : list string :=
    match todo with
    | [] => []
    | (i, a1) :: r =>
        if nat_in i visited then fn_loop self_name all r visited
        else
          let visited1 := i :: visited in
          match a_origin a1 with
          | o1 :: _ =>
              if negb (oname_eq_str o1 self_name)
              then let '(g, visited2) := gather o1 all visited1 in
                   print_nested (plain_atom (on_name o1) (strip_origin a1 :: g)) :: fn_loop self_name all r visited2
              else a_value a1 :: fn_loop self_name all r visited1
          | [] => a_value a1 :: fn_loop self_name all r visited1
          end
    end.
End FnPrint.

Fixpoint print_atom_fn_fuel (fuel : nat) (a : atom) : string :=
  match at_name a with
  | EmptyString => ""
  | _ =>
    match fuel with
    | O => print_atom_flat a      (* not reachable with fuel = origin depth + 1 *)
    | S f =>
        let ia := index_from 0 (at_attrs a) in
        let pieces := fn_loop (print_atom_fn_fuel f) (at_name a) ia ia [] in
        (* string += piece + ','  then the trailing ',' is cut *)
        atom_prefix a ++ join "," pieces ++ ")"
    end
  end.

Definition max_origin_depth (a : atom) : nat := fold_right Nat.max 0 (map (fun x => length (a_origin x)) (at_attrs a)).
Definition print_atom_fn (a : atom) : string := print_atom_fn_fuel (S (max_origin_depth a)) a.

Definition print_atom (fn : bool) (a : atom) : string := if fn then print_atom_fn a else print_atom_flat a.

(* ------------------------------------------------------------------ operations, aggregates, temporal formulas *)
Definition sym_plain (op : operator) : string := match assoc operator_eqb op asp_operators with Some s => s | None => "?KeyError?" end.
Definition sym_temporal (op : operator) : string := match assoc operator_eqb op asp_temporal_operators with Some s => s | None => "None" end.
Definition agg_sym (f : aggop) : string := match assoc aggop_eqb f asp_aggregate_symbols with Some s => s | None => "?KeyError?" end.

Definition is_operation (e : elem) : bool := match e with EOp _ _ _ _ => true | _ => false end.
Definition n_operands (e : elem) : nat := match e with EOp _ _ _ l => length l | _ => 0 end.
Definition is_arith4 (op : operator) : bool :=
  operator_eqb op Op_SUM || operator_eqb op Op_DIFFERENCE || operator_eqb op Op_MULTIPLICATION || operator_eqb op Op_DIVISION.

Definition rewrite_init (s : string) : string :=
  if prefix_b "__" s then ">> " ++ drop 2 s else if prefix_b "_" s then "<< " ++ drop 1 s else s.

Section Elems.
  Variable fn : bool.

  (* ASPOperation.__str__ over already printed operands *)
  Definition print_chain (sym : string) (negated : bool) (ops : list (bool * string)) : string :=
    (if negated then "not " else "") ++
    join (" " ++ sym ++ " ") (map (fun p : bool * string => if fst p then "(" ++ snd p ++ ")" else snd p) ops).

  Fixpoint print_elem (e : elem) : string :=
    match e with
    | EAtom a => print_atom fn a
    | EVal v => v
    | EAttr a => a_value a
    | EOp KPlain op neg ops => print_chain (sym_plain op) neg (map (fun o => (is_operation o, print_elem o)) ops)
    | EOp KAngle op neg ops =>
        if is_arith4 op then print_chain (sym_plain op) neg (map (fun o => (is_operation o, print_elem o)) ops)
        else join (" " ++ sym_plain op ++ " ") (map (fun o => "(" ++ print_elem o ++ ")/360") ops)
    | EOp KTemporal op neg ops =>
        match ops with
        | [o] => sym_temporal op ++ " " ++
                 (if negb (is_operation o) || Nat.eqb (n_operands o) 1 then print_elem o else "(" ++ print_elem o ++ ")")
        | _ => print_chain (sym_temporal op) neg (map (fun o => (is_operation o, print_elem o)) ops)
        end
    | EAgg f discr body =>
        "#" ++ agg_sym f ++ "{" ++ join "," (map print_elem discr) ++ ": " ++
        join ", " (filter (fun s => negb (String.eqb s "")) (map print_elem body)) ++ "}"
    | ETel neg ops =>
        (if neg then "not " else "") ++ "&tel {" ++
        join " " (map (fun o =>
                        match o with
                        | EOp KTemporal op _ [x] =>
                            sym_temporal op ++ " " ++
                            (let s := rewrite_init (print_elem x) in if is_operation x then "(" ++ s ++ ")" else s)
                        | EOp KTemporal op _ xs =>
                            join (" " ++ sym_temporal op ++ " ")
                                 (map (fun x => let s := rewrite_init (print_elem x) in if is_operation x then "(" ++ s ++ ")" else s) xs)
                        | _ => print_elem o end) ops) ++ "}"
    end.

  (* ASPConjunction.__str__ *)
  Definition print_conj (l : list elem) : string :=
    join ", " (filter (fun s => negb (String.eqb s "")) (map print_elem l)).

  Definition print_head (h : head) : string :=
    let c := print_conj (h_cond h) in
    print_atom fn (h_atom h) ++ (match c with EmptyString => "" | _ => ": " ++ c end).

  (* the `not not &tel` patch of ASPRule.__str__ *)
  Definition patch_tel (body : string) : string :=
    fold_left (fun b el => if prefix_b "&tel" (strip el) then replace el ("not not " ++ strip el) b else b)
              (split_comma body) body.

  Definition print_rule_core (body : list elem) (heads : list head) (card : option (option string * option string)) : string :=
    let sep := match card with Some _ => " ; " | None => " | " end in
    let h := join sep (map print_head heads) in
    let h1 := match heads, card with
              | _ :: _, Some (lo, hi) =>
                  (match lo with Some l => (match l with EmptyString => "" | _ => l ++ " <= " end) | None => "" end) ++ "{" ++ h ++ "}" ++
                  (match hi with Some u => (match u with EmptyString => "" | _ => " <= " ++ u end) | None => "" end)
              | _, _ => h end in
    let h2 := strip h1 in
    let b := match body with
             | [] => ""
             | _ => let bs := print_conj body in
                    (match heads with [] => "" | _ => " " end) ++ ":- " ++ (match heads with [] => bs | _ => patch_tel bs end)
             end in
    h2 ++ b ++ "." ++ nl.

  Fixpoint dedup_strings (l : list string) (seen : list string) : list string :=
    match l with [] => [] | x :: r => if mem_string x seen then dedup_strings r seen else x :: dedup_strings r (x :: seen) end.

  Definition print_rule (r : rule) : string :=
    match r with
    | RRule body heads card => print_rule_core body heads card
    | RWeak body weight level discr =>
        let base := print_rule_core body [] None in
        let w := replace nl " " (replace ":-" ":~" base) in
        w ++ "[" ++ weight ++ "@" ++ level ++
        (match discr with [] => "]" | _ => "," ++ join "," (dedup_strings (map a_value discr) []) ++ "]" end) ++ nl
    end.

  Definition print_program (p : program) : string :=
    (match p_name p with Some n => (match n with EmptyString => "" | _ => nl ++ "#program " ++ n ++ "." ++ nl end) | None => "" end) ++
    sconcat (map print_rule (p_rules p)).

  Definition print_encoding (e : encoding) : string :=
    let cs := sconcat (map (fun c => match snd c with EmptyString => "" | v => "#const " ++ fst c ++ " = " ++ v ++ "." ++ nl end) (e_consts e)) in
    strip (cs ++ sconcat (map print_program (e_programs e))) ++ nl.
End Elems.
