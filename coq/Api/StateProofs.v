Require Import Coq.Strings.String Coq.Lists.List Coq.Bool.Bool Coq.Arith.Arith.
Require Import Cnl2aspV.Base.Util Cnl2aspV.Gen.Effects Cnl2aspV.Api.State.
Import ListNotations.
Open Scope string_scope.

Arguments o_reads {V R}. Arguments o_writes {V R}. Arguments o_resets {V R}. Arguments o_run {V R}.

Lemma all_api_pure : forallb api_pure api_methods = true.
Proof. vm_compute. reflexivity. Qed.
Lemma all_reach_closed : forallb reach_closed api_methods = true.
Proof. vm_compute. reflexivity. Qed.

Lemma option_not_written v a : In v option_fields -> In a api_methods -> ~ In v (api_writes a).
Proof.
  intros Hv Ha Hw. unfold option_fields in Hv.
  destruct (proj1 (filter_In not_written_by_api v globals) Hv) as [_ Hn].
  unfold not_written_by_api in Hn. apply negb_true_iff in Hn.
  assert (E : existsb (fun a0 => mem_string v (api_writes a0)) api_methods = true).
  { apply existsb_exists. exists a. split; [exact Ha|]. exact (proj2 (mem_string_In v (api_writes a)) Hw). }
  pose proof (eq_trans (eq_sym E) Hn) as F. discriminate F.
Qed.

Lemma live_reads_are_options {V R} (o : op V R) a :
  In a api_methods -> o_reads o = api_reads a -> o_resets o = api_resets_of a ->
  forall v, In v (live_reads V R o) -> In v option_fields.
Proof.
  intros Ha Hr Hs v Hv. unfold live_reads in Hv.
  destruct (proj1 (filter_In _ v _) Hv) as [Hin Hnr]. apply negb_true_iff in Hnr.
  pose proof (forallb_In _ _ all_api_pure a Ha) as P. unfold api_pure in P.
  rewrite Hr in Hin. pose proof (forallb_In _ _ P v Hin) as Q. cbv beta in Q.
  rewrite Hs in Hnr. apply orb_true_iff in Q as [Q|Q].
  - pose proof (eq_trans (eq_sym Q) Hnr) as F. discriminate F.
  - exact (proj1 (mem_string_In v option_fields) Q).
Qed.

Section Instance.
  Variables (V R : Type) (sem : string -> op V R).
  Hypothesis Hsem : forall a, In a api_methods ->
    respects V R (sem a) /\ o_reads (sem a) = api_reads a /\ o_resets (sem a) = api_resets_of a /\ incl (o_writes (sem a)) (api_writes a).

  Lemma history_ok (h : list string) : (forall b, In b h -> In b api_methods) ->
    Forall (fun o => respects V R o /\ forall v, In v option_fields -> ~ In v (o_writes o)) (map sem h).
  Proof.
    induction h as [|b r IH]; intros Hh; cbn [map]; constructor.
    - destruct (Hsem b (Hh b (or_introl eq_refl))) as (Hr & _ & _ & Hw). split; [exact Hr|].
      intros v Hv Hin. apply (option_not_written v b Hv (Hh b (or_introl eq_refl))). now apply Hw.
    - apply IH. intros c Hc. apply Hh. now right.
  Qed.

  Theorem api_history_independent (a : string) (h : list string) (g : gstate V) :
    In a api_methods -> (forall b, In b h -> In b api_methods) ->
    fst (o_run (sem a) (run V R (map sem h) g)) = fst (o_run (sem a) g).
  Proof.
    intros Ha Hh. destruct (Hsem a Ha) as (Hr & Hreads & Hresets & _).
    apply (history_independent V R option_fields (sem a) (map sem h) g Hr).
    - exact (live_reads_are_options (sem a) a Ha Hreads Hresets).
    - exact (history_ok h Hh).
  Qed.

  Theorem api_idempotent (a : string) (g : gstate V) :
    In a api_methods -> fst (o_run (sem a) (snd (o_run (sem a) g))) = fst (o_run (sem a) g).
  Proof.
    intros Ha. apply (api_history_independent a [a] g Ha). intros b [<-|[]]. exact Ha.
  Qed.
End Instance.
