(* C02: the aggregate term the compile model emits evaluates, under the rule semantics, to the value the READING gives the aggregate. *)
Require Import Coq.Strings.String Coq.Strings.Ascii Coq.ZArith.ZArith Coq.Lists.List Coq.Bool.Bool Lia.
Require Import Cnl2aspV.Base.Util Cnl2aspV.Base.Digits Cnl2aspV.Gen.Operators Cnl2aspV.Gen.Tables Cnl2aspV.Gen.Terminals
               Cnl2aspV.Asp.CmpSem Cnl2aspV.Asp.Agg Cnl2aspV.Asp.AggProofs Cnl2aspV.Cnl.Comparison Cnl2aspV.Cnl.ComparisonProofs
               Cnl2aspV.Cnl.Aggregate Cnl2aspV.Cnl.AggregateProofs.
Import ListNotations.
Open Scope string_scope.

(* author names do not start with '#': the model's invented names do *)
Definition nohash (l : string) : Prop := match l with String c _ => c <> "#"%char | EmptyString => True end.
Lemma nohash_neq l s : nohash l -> String.eqb l (String "#" s) = false.
Proof. destruct l as [|c r]; cbn; [reflexivity|]. intros H. destruct (Ascii.eqb c "#") eqn:E; [|reflexivity]. apply Ascii.eqb_eq in E. contradiction. Qed.
Lemma nohash_neq' l s : nohash l -> String.eqb (String "#" s) l = false.
Proof. intros H. rewrite String.eqb_sym. now apply nohash_neq. Qed.

Definition hash_free (b : binding) : Prop := forall s, sassoc (String "#" s) b = None.

Lemma fn_tables f : exists op sym, fn_op f = Some op /\ assoc aggop_eqb op asp_aggregate_symbols = Some sym /\ fn_of_symbol sym = Some f.
Proof. destruct f; vm_compute; eexists _, _; repeat split; reflexivity. Qed.

Lemma all_bindings_one v U : all_bindings [v] U = map (fun x => [(v, x)]) U.
Proof. cbn [all_bindings]. induction U as [|x r IH]; [reflexivity|]. cbn in *. now rewrite IH. Qed.

Lemma holds_host_In I x y : holds_host I x y = true <-> In (x, y) I.
Proof.
  unfold holds_host. rewrite existsb_exists. split.
  - intros ([a b] & Hin & H). cbn in H. apply andb_true_iff in H as [H1 H2]. apply Z.eqb_eq in H1, H2. now subst.
  - intros H. exists (x, y). split; [exact H|]. cbn. now rewrite !Z.eqb_refl.
Qed.

Definition adm (sp : aspec) (I : interp) : Prop := forall r s, In (r, s) I -> In r (rooms sp) /\ In s (shelf_ids sp).

Lemma triples_In sp I r s w : In (r, (s, w)) (triples sp I) <-> In r (rooms sp) /\ In (s, w) (a_shelves sp) /\ In (r, s) I.
Proof. unfold triples. rewrite filter_In, in_prod_iff. cbn [fst snd]. rewrite holds_host_In. tauto. Qed.
Lemma in_universe_room sp r : In r (rooms sp) -> In r (universe sp).
Proof. intros H. unfold universe. apply in_or_app. now left. Qed.
Lemma in_universe_shelf sp s : In s (shelf_ids sp) -> In s (universe sp).
Proof. intros H. unfold universe. apply in_or_app. right. apply in_or_app. now left. Qed.
Lemma shelf_id_of sp s w : In (s, w) (a_shelves sp) -> In s (shelf_ids sp).
Proof. intros H. unfold shelf_ids. apply in_map_iff. now exists (s, w). Qed.

Lemma all_bindings_two u v U g :
  In g (all_bindings [u; v] U) <-> exists x y, In x U /\ In y U /\ g = [(u, x); (v, y)].
Proof.
  cbn [all_bindings]. rewrite in_flat_map. split.
  - intros (x & Hx & Hg). apply in_map_iff in Hg as (g' & <- & Hg'). apply in_flat_map in Hg' as (y & Hy & Hg''). cbn in Hg''. destruct Hg'' as [<-|[]].
    now exists x, y.
  - intros (x & y & Hx & Hy & ->). exists x. split; [exact Hx|]. apply in_map. apply in_flat_map. exists y. split; [exact Hy|]. cbn. now left.
Qed.
Lemma is_shelf_id_In sp s : is_shelf_id sp s = true <-> In s (shelf_ids sp).
Proof.
  unfold is_shelf_id. rewrite existsb_exists. split.
  - intros (y & Hy & E). apply Z.eqb_eq in E. now subst.
  - intros H. exists s. split; [exact H|apply Z.eqb_refl].
Qed.
Lemma is_shelf_In sp s w : is_shelf sp s w = true <-> In (s, w) (a_shelves sp).
Proof.
  unfold is_shelf. rewrite existsb_exists. split.
  - intros ([a b] & Hin & H). cbn in H. apply andb_true_iff in H as [H1 H2]. apply Z.eqb_eq in H1, H2. now subst.
  - intros H. exists (s, w). split; [exact H|]. cbn. now rewrite !Z.eqb_refl.
Qed.
Lemma in_universe_weight sp s w : In (s, w) (a_shelves sp) -> In w (universe sp).
Proof. intros H. unfold universe. apply in_or_app. right. apply in_or_app. right. apply in_map_iff. now exists (s, w). Qed.

Section ParamShelf.
  Variable sp : aspec.
  Variable I : interp.
  Hypothesis Hadm : adm sp I.
  Variable b : binding.
  Hypothesis Hb : hash_free b.

  (* the <fn> shelf id of a host                      (no outer label, no filter) *)
  Lemma param_shelf_unbound f :
    let g := {| g_fn := f; g_form := FParamShelf; g_side := None; g_label := None; g_dlabel := None; g_filter := None |} in
    exists t, compile_aggr 1 g = Some t /\ agg_eval sp I b t = Some (agg_of sp I b g).
  Proof.
    cbv zeta. destruct (fn_tables f) as (op & sym & Hop & Hsym & Hfn). unfold compile_aggr. cbn [g_fn g_form g_side g_label g_dlabel g_filter].
    rewrite Hop. eexists. split; [reflexivity|]. unfold agg_eval. cbn [t_op]. rewrite Hsym, Hfn. f_equal. unfold agg_of. cbn [g_fn g_form].
    change (lab_or None (fresh 1 "d")) with "#1d". cbn [filter_conds g_filter app t_conds t_tuple].
    assert (L : filter (fun v => match sassoc v b with Some _ => false | None => true end)
                       (agg_vars {| t_op := op; t_atom_tuple := false; t_tuple := [TV "#1d"]; t_conds := [CHost TAnon (TV "#1d")] |}) = ["#1d"]).
    { cbn. now rewrite (Hb "1d"). }
    cbn [filter_conds] in L. rewrite L, all_bindings_one. apply agg_value_set. intros t. rewrite !in_map_iff. split.
    - intros (l & <- & Hl). apply filter_In in Hl as [Hl Hsat]. apply in_map_iff in Hl as (x & <- & Hx).
      cbn in Hsat. rewrite andb_true_r in Hsat. apply existsb_exists in Hsat as ([r s] & Hin & E). cbn in E. apply Z.eqb_eq in E. subst x.
      destruct (Hadm r s Hin) as [Hr Hs]. apply in_map_iff in Hs as ([s' w] & Es & Hsw). cbn in Es. subst s'.
      exists (r, (s, w)). split; [reflexivity|]. apply filter_In. split; [apply triples_In; repeat split; auto|reflexivity].
    - intros ([r [s w]] & <- & Hin). apply filter_In in Hin as [Hin _]. apply triples_In in Hin as (Hr & Hs & Hh).
      exists [("#1d", s)]. split; [reflexivity|]. apply filter_In. split.
      + apply in_map_iff. exists s. split; [reflexivity|]. apply in_universe_shelf. now apply shelf_id_of with w.
      + cbn. rewrite andb_true_r. apply existsb_exists. exists (r, s). split; [exact Hh|]. cbn. apply Z.eqb_refl.
  Qed.

  (* the <fn> shelf id of a host with room id L       (outer label L, bound by b) *)
  Lemma param_shelf_bound f l r0 :
    nohash l -> sassoc l b = Some r0 ->
    let g := {| g_fn := f; g_form := FParamShelf; g_side := Some KRoom; g_label := Some l; g_dlabel := None; g_filter := None |} in
    exists t, compile_aggr 1 g = Some t /\ agg_eval sp I b t = Some (agg_of sp I b g).
  Proof.
    intros Hl Hr0. cbv zeta. destruct (fn_tables f) as (op & sym & Hop & Hsym & Hfn). unfold compile_aggr. cbn [g_fn g_form g_side g_label g_dlabel g_filter].
    rewrite Hop. eexists. split; [reflexivity|]. unfold agg_eval. cbn [t_op]. rewrite Hsym, Hfn. f_equal. unfold agg_of. cbn [g_fn g_form].
    change (lab_or None (fresh 1 "d")) with "#1d". cbn [filter_conds g_filter app t_conds t_tuple].
    assert (L : filter (fun v => match sassoc v b with Some _ => false | None => true end)
                       (agg_vars {| t_op := op; t_atom_tuple := false; t_tuple := [TV "#1d"]; t_conds := [CHost (TV l) (TV "#1d")] |}) = ["#1d"]).
    { unfold agg_vars. cbn. unfold add_var. cbn [mem_string]. rewrite (nohash_neq l "1d" Hl). cbn. pose proof Hr0 as Hr0u. unfold sassoc in Hr0u. pose proof (Hb "1d") as Hbu. unfold sassoc in Hbu. rewrite ?(Hb "1d"), ?Hbu. cbn. rewrite ?Hr0, ?Hr0u. reflexivity. }
    rewrite L, all_bindings_one. apply agg_value_set. intros t. rewrite !in_map_iff.
    assert (TVl : forall x, term_val ([("#1d", x)] ++ b)%list (TV l) = Some (Some r0)).
    { intros x. cbn [term_val app sassoc assoc]. rewrite (nohash_neq l "1d" Hl). fold (@sassoc Z l b). now rewrite Hr0. }
    split.
    - intros (l' & <- & Hl'). apply filter_In in Hl' as [Hl' Hsat]. apply in_map_iff in Hl' as (x & <- & Hx).
      cbn [forallb cond_true] in Hsat. rewrite TVl in Hsat. cbn in Hsat. rewrite andb_true_r in Hsat. apply holds_host_In in Hsat.
      destruct (Hadm r0 x Hsat) as [Hr Hs]. apply in_map_iff in Hs as ([s' w] & Es & Hsw). cbn in Es. subst s'.
      exists (r0, (x, w)). split; [reflexivity|]. apply filter_In. split; [apply triples_In; repeat split; auto|].
      unfold qualifies. cbn [g_side g_label g_filter colval fst]. rewrite Hr0, Z.eqb_refl. reflexivity.
    - intros ([r [s w]] & <- & Hin). apply filter_In in Hin as [Hin Hq]. apply triples_In in Hin as (Hr & Hs & Hh).
      unfold qualifies in Hq. cbn [g_side g_label g_filter colval fst] in Hq. rewrite Hr0, andb_true_r in Hq. apply Z.eqb_eq in Hq. subst r.
      exists [("#1d", s)]. split; [reflexivity|]. apply filter_In. split.
      + apply in_map_iff. exists s. split; [reflexivity|]. apply in_universe_shelf. now apply shelf_id_of with w.
      + cbn [forallb cond_true]. rewrite TVl. cbn. rewrite andb_true_r. now apply holds_host_In.
  Qed.

  (* the <fn> room id of a host *)
  Lemma param_room_unbound f :
    let g := {| g_fn := f; g_form := FParamRoom; g_side := None; g_label := None; g_dlabel := None; g_filter := None |} in
    exists t, compile_aggr 1 g = Some t /\ agg_eval sp I b t = Some (agg_of sp I b g).
  Proof.
    cbv zeta. destruct (fn_tables f) as (op & sym & Hop & Hsym & Hfn). unfold compile_aggr. cbn [g_fn g_form g_side g_label g_dlabel g_filter].
    rewrite Hop. eexists. split; [reflexivity|]. unfold agg_eval. cbn [t_op]. rewrite Hsym, Hfn. f_equal. unfold agg_of. cbn [g_fn g_form].
    change (lab_or None (fresh 1 "d")) with "#1d". cbn [filter_conds g_filter app t_conds t_tuple].
    assert (L : filter (fun v => match sassoc v b with Some _ => false | None => true end)
                       (agg_vars {| t_op := op; t_atom_tuple := false; t_tuple := [TV "#1d"]; t_conds := [CHost (TV "#1d") TAnon] |}) = ["#1d"]).
    { cbn. now rewrite (Hb "1d"). }
    cbn [filter_conds] in L. rewrite L, all_bindings_one. apply agg_value_set. intros t. rewrite !in_map_iff. split.
    - intros (l & <- & Hl). apply filter_In in Hl as [Hl Hsat]. apply in_map_iff in Hl as (x & <- & Hx).
      cbn in Hsat. rewrite andb_true_r in Hsat. apply existsb_exists in Hsat as ([r s] & Hin & E). cbn in E. apply Z.eqb_eq in E. subst x.
      destruct (Hadm r s Hin) as [Hr Hs]. apply in_map_iff in Hs as ([s' w] & Es & Hsw). cbn in Es. subst s'.
      exists (r, (s, w)). split; [reflexivity|]. apply filter_In. split; [apply triples_In; repeat split; auto|reflexivity].
    - intros ([r [s w]] & <- & Hin). apply filter_In in Hin as [Hin _]. apply triples_In in Hin as (Hr & Hs & Hh).
      exists [("#1d", r)]. split; [reflexivity|]. apply filter_In. split.
      + apply in_map_iff. exists r. split; [reflexivity|]. now apply in_universe_room.
      + cbn. rewrite andb_true_r. apply existsb_exists. exists (r, s). split; [exact Hh|]. cbn. apply Z.eqb_refl.
  Qed.

  (* the <fn> room id of a host with shelf id L *)
  Lemma param_room_bound f l s0 :
    nohash l -> sassoc l b = Some s0 ->
    let g := {| g_fn := f; g_form := FParamRoom; g_side := Some KShelf; g_label := Some l; g_dlabel := None; g_filter := None |} in
    exists t, compile_aggr 1 g = Some t /\ agg_eval sp I b t = Some (agg_of sp I b g).
  Proof.
    intros Hl Hr0. cbv zeta. destruct (fn_tables f) as (op & sym & Hop & Hsym & Hfn). unfold compile_aggr. cbn [g_fn g_form g_side g_label g_dlabel g_filter].
    rewrite Hop. eexists. split; [reflexivity|]. unfold agg_eval. cbn [t_op]. rewrite Hsym, Hfn. f_equal. unfold agg_of. cbn [g_fn g_form].
    change (lab_or None (fresh 1 "d")) with "#1d". cbn [filter_conds g_filter app t_conds t_tuple].
    assert (L : filter (fun v => match sassoc v b with Some _ => false | None => true end)
                       (agg_vars {| t_op := op; t_atom_tuple := false; t_tuple := [TV "#1d"]; t_conds := [CHost (TV "#1d") (TV l)] |}) = ["#1d"]).
    { unfold agg_vars. cbn. unfold add_var. cbn [mem_string]. rewrite (nohash_neq l "1d" Hl). cbn. pose proof Hr0 as Hr0u. unfold sassoc in Hr0u.
      pose proof (Hb "1d") as Hbu. unfold sassoc in Hbu. rewrite ?(Hb "1d"), ?Hbu. cbn. rewrite ?Hr0, ?Hr0u. reflexivity. }
    rewrite L, all_bindings_one. apply agg_value_set. intros t. rewrite !in_map_iff.
    assert (TVl : forall x, term_val ([("#1d", x)] ++ b)%list (TV l) = Some (Some s0)).
    { intros x. cbn [term_val app sassoc assoc]. rewrite (nohash_neq l "1d" Hl). fold (@sassoc Z l b). now rewrite Hr0. }
    split.
    - intros (l' & <- & Hl'). apply filter_In in Hl' as [Hl' Hsat]. apply in_map_iff in Hl' as (x & <- & Hx).
      cbn [forallb cond_true] in Hsat. rewrite TVl in Hsat. cbn in Hsat. rewrite andb_true_r in Hsat. apply holds_host_In in Hsat.
      destruct (Hadm x s0 Hsat) as [Hr Hs]. apply in_map_iff in Hs as ([s' w] & Es & Hsw). cbn in Es. subst s'.
      exists (x, (s0, w)). split; [reflexivity|]. apply filter_In. split; [apply triples_In; repeat split; auto|].
      unfold qualifies. cbn [g_side g_label g_filter colval fst snd]. rewrite Hr0, Z.eqb_refl. reflexivity.
    - intros ([r [s w]] & <- & Hin). apply filter_In in Hin as [Hin Hq]. apply triples_In in Hin as (Hr & Hs & Hh).
      unfold qualifies in Hq. cbn [g_side g_label g_filter colval fst snd] in Hq. rewrite Hr0, andb_true_r in Hq. apply Z.eqb_eq in Hq. subst s.
      exists [("#1d", r)]. split; [reflexivity|]. apply filter_In. split.
      + apply in_map_iff. exists r. split; [reflexivity|]. now apply in_universe_room.
      + cbn [forallb cond_true]. rewrite TVl. cbn. rewrite andb_true_r. now apply holds_host_In.
  Qed.

  (* the <fn> shelf id where a room L hosts a shelf *)
  Lemma passive_shelf_bound f l r0 :
    nohash l -> sassoc l b = Some r0 ->
    let g := {| g_fn := f; g_form := FPassiveShelf; g_side := Some KRoom; g_label := Some l; g_dlabel := None; g_filter := None |} in
    exists t, compile_aggr 1 g = Some t /\ agg_eval sp I b t = Some (agg_of sp I b g).
  Proof.
    intros Hl Hr0. cbv zeta. destruct (fn_tables f) as (op & sym & Hop & Hsym & Hfn). unfold compile_aggr. cbn [g_fn g_form g_side g_label g_dlabel g_filter].
    rewrite Hop. eexists. split; [reflexivity|]. unfold agg_eval. cbn [t_op]. rewrite Hsym, Hfn. f_equal. unfold agg_of. cbn [g_fn g_form].
    change (lab_or None (fresh 1 "d")) with "#1d". cbn [filter_conds g_filter app t_conds t_tuple].
    assert (L : filter (fun v => match sassoc v b with Some _ => false | None => true end)
                       (agg_vars {| t_op := op; t_atom_tuple := false; t_tuple := [TV "#1d"]; t_conds := [CHost (TV l) (TV "#1d"); CShelf (TV "#1d") TAnon] |}) = ["#1d"]).
    { unfold agg_vars. cbn. unfold add_var. cbn [mem_string]. rewrite (nohash_neq l "1d" Hl). cbn. pose proof Hr0 as Hr0u. unfold sassoc in Hr0u.
      pose proof (Hb "1d") as Hbu. unfold sassoc in Hbu. rewrite ?(Hb "1d"), ?Hbu. cbn. rewrite ?Hr0, ?Hr0u. reflexivity. }
    rewrite L, all_bindings_one. apply agg_value_set. intros t. rewrite !in_map_iff.
    assert (TVl : forall x, term_val ([("#1d", x)] ++ b)%list (TV l) = Some (Some r0)).
    { intros x. cbn [term_val app sassoc assoc]. rewrite (nohash_neq l "1d" Hl). fold (@sassoc Z l b). now rewrite Hr0. }
    split.
    - intros (l' & <- & Hl'). apply filter_In in Hl' as [Hl' Hsat]. apply in_map_iff in Hl' as (x & <- & Hx).
      cbn [forallb cond_true] in Hsat. rewrite TVl in Hsat. cbn in Hsat. rewrite andb_true_r in Hsat. apply andb_true_iff in Hsat as [Hh Hsid].
      apply holds_host_In in Hh. destruct (Hadm r0 x Hh) as [Hr Hs]. apply in_map_iff in Hs as ([s' w] & Es & Hsw). cbn in Es. subst s'.
      exists (r0, (x, w)). split; [reflexivity|]. apply filter_In. split; [apply triples_In; repeat split; auto|].
      unfold qualifies. cbn [g_side g_label g_filter colval fst]. rewrite Hr0, Z.eqb_refl. reflexivity.
    - intros ([r [s w]] & <- & Hin). apply filter_In in Hin as [Hin Hq]. apply triples_In in Hin as (Hr & Hs & Hh).
      unfold qualifies in Hq. cbn [g_side g_label g_filter colval fst] in Hq. rewrite Hr0, andb_true_r in Hq. apply Z.eqb_eq in Hq. subst r.
      exists [("#1d", s)]. split; [reflexivity|]. apply filter_In. split.
      + apply in_map_iff. exists s. split; [reflexivity|]. apply in_universe_shelf. now apply shelf_id_of with w.
      + cbn [forallb cond_true]. rewrite TVl. cbn. rewrite andb_true_r. apply andb_true_iff. split; [now apply holds_host_In|].
        apply is_shelf_id_In. now apply shelf_id_of with w.
  Qed.

  (* the <fn> room id that host a shelf *)
  Lemma active_unbound f :
    let g := {| g_fn := f; g_form := FActive; g_side := None; g_label := None; g_dlabel := None; g_filter := None |} in
    exists t, compile_aggr 1 g = Some t /\ agg_eval sp I b t = Some (agg_of sp I b g).
  Proof.
    cbv zeta. destruct (fn_tables f) as (op & sym & Hop & Hsym & Hfn). unfold compile_aggr. cbn [g_fn g_form g_side g_label g_dlabel g_filter].
    rewrite Hop. eexists. split; [reflexivity|]. unfold agg_eval. cbn [t_op]. rewrite Hsym, Hfn. f_equal. unfold agg_of. cbn [g_fn g_form].
    change (lab_or None (fresh 1 "d")) with "#1d". change (fresh 1 "s") with "#1s". cbn [filter_conds g_filter app t_conds t_tuple].
    assert (L : filter (fun v => match sassoc v b with Some _ => false | None => true end)
                       (agg_vars {| t_op := op; t_atom_tuple := false; t_tuple := [TV "#1d"]; t_conds := [CHost (TV "#1d") (TV "#1s"); CShelf (TV "#1s") TAnon] |})
                = ["#1d"; "#1s"]).
    { cbn. now rewrite (Hb "1d"), (Hb "1s"). }
    rewrite L. apply agg_value_set. intros t. rewrite !in_map_iff. split.
    - intros (l & <- & Hl). apply filter_In in Hl as [Hl Hsat]. apply all_bindings_two in Hl as (x & y & Hx & Hy & ->).
      cbn in Hsat. rewrite andb_true_r in Hsat. apply andb_true_iff in Hsat as [Hh Hsid]. apply holds_host_In in Hh.
      destruct (Hadm x y Hh) as [Hr Hs]. apply in_map_iff in Hs as ([s' w] & Es & Hsw). cbn in Es. subst s'.
      exists (x, (y, w)). split; [reflexivity|]. apply filter_In. split; [apply triples_In; repeat split; auto|reflexivity].
    - intros ([r [s w]] & <- & Hin). apply filter_In in Hin as [Hin _]. apply triples_In in Hin as (Hr & Hs & Hh).
      exists [("#1d", r); ("#1s", s)]. split; [reflexivity|]. apply filter_In. split.
      + apply all_bindings_two. exists r, s. repeat split; [now apply in_universe_room|apply in_universe_shelf; now apply shelf_id_of with w].
      + cbn. rewrite andb_true_r. apply andb_true_iff. split; [now apply holds_host_In|]. apply is_shelf_id_In. now apply shelf_id_of with w.
  Qed.

  (* the <fn> room id that host a shelf L *)
  Lemma active_bound f l s0 :
    nohash l -> sassoc l b = Some s0 ->
    let g := {| g_fn := f; g_form := FActive; g_side := Some KShelf; g_label := Some l; g_dlabel := None; g_filter := None |} in
    exists t, compile_aggr 1 g = Some t /\ agg_eval sp I b t = Some (agg_of sp I b g).
  Proof.
    intros Hl Hr0. cbv zeta. destruct (fn_tables f) as (op & sym & Hop & Hsym & Hfn). unfold compile_aggr. cbn [g_fn g_form g_side g_label g_dlabel g_filter].
    rewrite Hop. eexists. split; [reflexivity|]. unfold agg_eval. cbn [t_op]. rewrite Hsym, Hfn. f_equal. unfold agg_of. cbn [g_fn g_form].
    change (lab_or None (fresh 1 "d")) with "#1d". cbn [filter_conds g_filter app t_conds t_tuple].
    assert (L : filter (fun v => match sassoc v b with Some _ => false | None => true end)
                       (agg_vars {| t_op := op; t_atom_tuple := false; t_tuple := [TV "#1d"]; t_conds := [CHost (TV "#1d") (TV l); CShelf (TV l) TAnon] |}) = ["#1d"]).
    { unfold agg_vars. cbn. unfold add_var. repeat (cbn [mem_string]; rewrite ?(nohash_neq l "1d" Hl), ?String.eqb_refl; cbn [orb app]).
      cbn. pose proof Hr0 as Hr0u. unfold sassoc in Hr0u.
      pose proof (Hb "1d") as Hbu. unfold sassoc in Hbu. rewrite ?(Hb "1d"), ?Hbu. cbn. rewrite ?Hr0, ?Hr0u. reflexivity. }
    rewrite L, all_bindings_one. apply agg_value_set. intros t. rewrite !in_map_iff.
    assert (TVl : forall x, term_val ([("#1d", x)] ++ b)%list (TV l) = Some (Some s0)).
    { intros x. cbn [term_val app sassoc assoc]. rewrite (nohash_neq l "1d" Hl). fold (@sassoc Z l b). now rewrite Hr0. }
    split.
    - intros (l' & <- & Hl'). apply filter_In in Hl' as [Hl' Hsat]. apply in_map_iff in Hl' as (x & <- & Hx).
      cbn [forallb cond_true] in Hsat. rewrite !TVl in Hsat. cbn in Hsat. rewrite andb_true_r in Hsat. apply andb_true_iff in Hsat as [Hh Hsid].
      apply holds_host_In in Hh. destruct (Hadm x s0 Hh) as [Hr Hs]. apply in_map_iff in Hs as ([s' w] & Es & Hsw). cbn in Es. subst s'.
      exists (x, (s0, w)). split; [reflexivity|]. apply filter_In. split; [apply triples_In; repeat split; auto|].
      unfold qualifies. cbn [g_side g_label g_filter colval fst snd]. rewrite Hr0, Z.eqb_refl. reflexivity.
    - intros ([r [s w]] & <- & Hin). apply filter_In in Hin as [Hin Hq]. apply triples_In in Hin as (Hr & Hs & Hh).
      unfold qualifies in Hq. cbn [g_side g_label g_filter colval fst snd] in Hq. rewrite Hr0, andb_true_r in Hq. apply Z.eqb_eq in Hq. subst s.
      exists [("#1d", r)]. split; [reflexivity|]. apply filter_In. split.
      + apply in_map_iff. exists r. split; [reflexivity|]. now apply in_universe_room.
      + cbn [forallb cond_true]. rewrite !TVl. cbn. rewrite andb_true_r. apply andb_true_iff. split; [now apply holds_host_In|].
        apply is_shelf_id_In. now apply shelf_id_of with w.
  Qed.

  (* the <fn> weight, for each shelf id, where a room L hosts a shelf *)
  Lemma passive_weight_each_bound f l r0 :
    nohash l -> sassoc l b = Some r0 ->
    let g := {| g_fn := f; g_form := FPassiveWeightEach; g_side := Some KRoom; g_label := Some l; g_dlabel := None; g_filter := None |} in
    exists t, compile_aggr 1 g = Some t /\ agg_eval sp I b t = Some (agg_of sp I b g).
  Proof.
    intros Hl Hr0. cbv zeta. destruct (fn_tables f) as (op & sym & Hop & Hsym & Hfn). unfold compile_aggr. cbn [g_fn g_form g_side g_label g_dlabel g_filter].
    rewrite Hop. eexists. split; [reflexivity|]. unfold agg_eval. cbn [t_op]. rewrite Hsym, Hfn. f_equal. unfold agg_of. cbn [g_fn g_form].
    change (lab_or None (fresh 1 "d")) with "#1d". change (fresh 1 "v") with "#1v". cbn [filter_conds g_filter app t_conds t_tuple].
    assert (L : filter (fun v => match sassoc v b with Some _ => false | None => true end)
                       (agg_vars {| t_op := op; t_atom_tuple := false; t_tuple := [TV "#1d"; TV "#1v"]; t_conds := [CHost (TV l) (TV "#1v"); CShelf (TV "#1v") (TV "#1d")] |})
                = ["#1d"; "#1v"]).
    { unfold agg_vars. cbn. unfold add_var. cbn [mem_string]. rewrite (nohash_neq l "1d" Hl), (nohash_neq l "1v" Hl). cbn. pose proof Hr0 as Hr0u. unfold sassoc in Hr0u.
      pose proof (Hb "1d") as Hbu. unfold sassoc in Hbu. pose proof (Hb "1v") as Hbv. unfold sassoc in Hbv. rewrite ?(Hb "1d"), ?(Hb "1v"), ?Hbu, ?Hbv. cbn. rewrite ?Hr0, ?Hr0u. reflexivity. }
    rewrite L. apply agg_value_set. intros t. rewrite !in_map_iff.
    assert (TVl : forall x y, term_val ([("#1d", x); ("#1v", y)] ++ b)%list (TV l) = Some (Some r0)).
    { intros x y. cbn [term_val app sassoc assoc]. rewrite (nohash_neq l "1d" Hl), (nohash_neq l "1v" Hl). fold (@sassoc Z l b). now rewrite Hr0. }
    split.
    - intros (l' & <- & Hl'). apply filter_In in Hl' as [Hl' Hsat]. apply all_bindings_two in Hl' as (x & y & Hx & Hy & ->).
      cbn [forallb cond_true] in Hsat. rewrite TVl in Hsat. cbn in Hsat. rewrite andb_true_r in Hsat. apply andb_true_iff in Hsat as [Hh Hsw].
      apply holds_host_In in Hh. apply is_shelf_In in Hsw. destruct (Hadm r0 y Hh) as [Hr _].
      exists (r0, (y, x)). split; [reflexivity|]. apply filter_In. split; [apply triples_In; repeat split; auto|].
      unfold qualifies. cbn [g_side g_label g_filter colval fst]. rewrite Hr0, Z.eqb_refl. reflexivity.
    - intros ([r [s w]] & <- & Hin). apply filter_In in Hin as [Hin Hq]. apply triples_In in Hin as (Hr & Hs & Hh).
      unfold qualifies in Hq. cbn [g_side g_label g_filter colval fst] in Hq. rewrite Hr0, andb_true_r in Hq. apply Z.eqb_eq in Hq. subst r.
      exists [("#1d", w); ("#1v", s)]. split; [reflexivity|]. apply filter_In. split.
      + apply all_bindings_two. exists w, s. repeat split; [now apply in_universe_weight with s|apply in_universe_shelf; now apply shelf_id_of with w].
      + cbn [forallb cond_true]. rewrite TVl. cbn. rewrite andb_true_r. apply andb_true_iff. split; [now apply holds_host_In|now apply is_shelf_In].
  Qed.

  (* the <fn> weight where a room L hosts a shelf   (values, not instances: equal weights count once) *)
  Lemma passive_weight_bound f l r0 :
    nohash l -> sassoc l b = Some r0 ->
    let g := {| g_fn := f; g_form := FPassiveWeight; g_side := Some KRoom; g_label := Some l; g_dlabel := None; g_filter := None |} in
    exists t, compile_aggr 1 g = Some t /\ agg_eval sp I b t = Some (agg_of sp I b g).
  Proof.
    intros Hl Hr0. cbv zeta. destruct (fn_tables f) as (op & sym & Hop & Hsym & Hfn). unfold compile_aggr. cbn [g_fn g_form g_side g_label g_dlabel g_filter].
    rewrite Hop. eexists. split; [reflexivity|]. unfold agg_eval. cbn [t_op]. rewrite Hsym, Hfn. f_equal. unfold agg_of. cbn [g_fn g_form].
    change (lab_or None (fresh 1 "d")) with "#1d". change (fresh 1 "v") with "#1v". cbn [filter_conds g_filter app t_conds t_tuple].
    assert (L : filter (fun v => match sassoc v b with Some _ => false | None => true end)
                       (agg_vars {| t_op := op; t_atom_tuple := false; t_tuple := [TV "#1d"]; t_conds := [CHost (TV l) (TV "#1v"); CShelf (TV "#1v") (TV "#1d")] |})
                = ["#1d"; "#1v"]).
    { unfold agg_vars. cbn [t_tuple t_conds fold_left term_vars cond_vars]. unfold add_var.
      repeat (progress (cbn [mem_string]; rewrite ?(nohash_neq l "1d" Hl), ?(nohash_neq l "1v" Hl), ?(nohash_neq' l "1d" Hl), ?(nohash_neq' l "1v" Hl), ?String.eqb_refl;
                        cbn [String.eqb Ascii.eqb Bool.eqb orb app])).
      cbn [filter]. pose proof Hr0 as Hr0u. unfold sassoc in Hr0u.
      pose proof (Hb "1d") as Hbu. unfold sassoc in Hbu. pose proof (Hb "1v") as Hbv. unfold sassoc in Hbv.
      rewrite ?(Hb "1d"), ?(Hb "1v"), ?Hbu, ?Hbv, ?Hr0, ?Hr0u. reflexivity. }
    rewrite L. apply agg_value_set. intros t. rewrite !in_map_iff.
    assert (TVl : forall x y, term_val ([("#1d", x); ("#1v", y)] ++ b)%list (TV l) = Some (Some r0)).
    { intros x y. cbn [term_val app sassoc assoc]. rewrite (nohash_neq l "1d" Hl), (nohash_neq l "1v" Hl). fold (@sassoc Z l b). now rewrite Hr0. }
    split.
    - intros (l' & <- & Hl'). apply filter_In in Hl' as [Hl' Hsat]. apply all_bindings_two in Hl' as (x & y & Hx & Hy & ->).
      cbn [forallb cond_true] in Hsat. rewrite TVl in Hsat. cbn in Hsat. rewrite andb_true_r in Hsat. apply andb_true_iff in Hsat as [Hh Hsw].
      apply holds_host_In in Hh. apply is_shelf_In in Hsw. destruct (Hadm r0 y Hh) as [Hr _].
      exists (r0, (y, x)). split; [reflexivity|]. apply filter_In. split; [apply triples_In; repeat split; auto|].
      unfold qualifies. cbn [g_side g_label g_filter colval fst]. rewrite Hr0, Z.eqb_refl. reflexivity.
    - intros ([r [s w]] & <- & Hin). apply filter_In in Hin as [Hin Hq]. apply triples_In in Hin as (Hr & Hs & Hh).
      unfold qualifies in Hq. cbn [g_side g_label g_filter colval fst] in Hq. rewrite Hr0, andb_true_r in Hq. apply Z.eqb_eq in Hq. subst r.
      exists [("#1d", w); ("#1v", s)]. split; [reflexivity|]. apply filter_In. split.
      + apply all_bindings_two. exists w, s. repeat split; [now apply in_universe_weight with s|apply in_universe_shelf; now apply shelf_id_of with w].
      + cbn [forallb cond_true]. rewrite TVl. cbn. rewrite andb_true_r. apply andb_true_iff. split; [now apply holds_host_In|now apply is_shelf_In].
  Qed.

  (* the number of host occurrences *)
  Lemma entity_unbound f :
    let g := {| g_fn := f; g_form := FEntity; g_side := None; g_label := None; g_dlabel := None; g_filter := None |} in
    exists t, compile_aggr 1 g = Some t /\ agg_eval sp I b t = Some (agg_of sp I b g).
  Proof.
    cbv zeta. destruct (fn_tables f) as (op & sym & Hop & Hsym & Hfn). unfold compile_aggr. cbn [g_fn g_form g_side g_label g_dlabel g_filter].
    rewrite Hop. eexists. split; [reflexivity|]. unfold agg_eval. cbn [t_op]. rewrite Hsym, Hfn. f_equal. unfold agg_of. cbn [g_fn g_form].
    change (fresh 1 "a") with "#1a". change (fresh 1 "b") with "#1b". cbn [t_conds t_tuple].
    assert (L : filter (fun v => match sassoc v b with Some _ => false | None => true end)
                       (agg_vars {| t_op := op; t_atom_tuple := true; t_tuple := [TV "#1a"; TV "#1b"]; t_conds := [CHost (TV "#1a") (TV "#1b")] |})
                = ["#1a"; "#1b"]).
    { cbn. now rewrite (Hb "1a"), (Hb "1b"). }
    rewrite L. apply agg_value_set. intros t. rewrite !in_map_iff. split.
    - intros (l & <- & Hl). apply filter_In in Hl as [Hl Hsat]. apply all_bindings_two in Hl as (x & y & Hx & Hy & ->).
      cbn in Hsat. rewrite andb_true_r in Hsat. apply holds_host_In in Hsat.
      destruct (Hadm x y Hsat) as [Hr Hs]. apply in_map_iff in Hs as ([s' w] & Es & Hsw). cbn in Es. subst s'.
      exists (x, (y, w)). split; [reflexivity|]. apply filter_In. split; [apply triples_In; repeat split; auto|reflexivity].
    - intros ([r [s w]] & <- & Hin). apply filter_In in Hin as [Hin _]. apply triples_In in Hin as (Hr & Hs & Hh).
      exists [("#1a", r); ("#1b", s)]. split; [reflexivity|]. apply filter_In. split.
      + apply all_bindings_two. exists r, s. repeat split; [now apply in_universe_room|apply in_universe_shelf; now apply shelf_id_of with w].
      + cbn. rewrite andb_true_r. now apply holds_host_In.
  Qed.

  (* the number of host occurrences with room id L *)
  Lemma entity_room_bound f l r0 :
    nohash l -> sassoc l b = Some r0 ->
    let g := {| g_fn := f; g_form := FEntity; g_side := Some KRoom; g_label := Some l; g_dlabel := None; g_filter := None |} in
    exists t, compile_aggr 1 g = Some t /\ agg_eval sp I b t = Some (agg_of sp I b g).
  Proof.
    intros Hl Hr0. cbv zeta. destruct (fn_tables f) as (op & sym & Hop & Hsym & Hfn). unfold compile_aggr. cbn [g_fn g_form g_side g_label g_dlabel g_filter].
    rewrite Hop. eexists. split; [reflexivity|]. unfold agg_eval. cbn [t_op]. rewrite Hsym, Hfn. f_equal. unfold agg_of. cbn [g_fn g_form].
    change (fresh 1 "b") with "#1b". cbn [t_conds t_tuple].
    assert (L : filter (fun v => match sassoc v b with Some _ => false | None => true end)
                       (agg_vars {| t_op := op; t_atom_tuple := true; t_tuple := [TV l; TV "#1b"]; t_conds := [CHost (TV l) (TV "#1b")] |}) = ["#1b"]).
    { unfold agg_vars. cbn [t_tuple t_conds fold_left term_vars cond_vars]. unfold add_var.
      repeat (progress (cbn [mem_string]; rewrite ?(nohash_neq l "1b" Hl), ?(nohash_neq' l "1b" Hl), ?String.eqb_refl; cbn [String.eqb Ascii.eqb Bool.eqb orb app])).
      cbn [filter]. pose proof Hr0 as Hr0u. unfold sassoc in Hr0u. pose proof (Hb "1b") as Hbu. unfold sassoc in Hbu.
      rewrite ?(Hb "1b"), ?Hbu, ?Hr0, ?Hr0u. reflexivity. }
    rewrite L, all_bindings_one. apply agg_value_set. intros t. rewrite !in_map_iff.
    assert (TVl : forall x, term_val ([("#1b", x)] ++ b)%list (TV l) = Some (Some r0)).
    { intros x. cbn [term_val app sassoc assoc]. rewrite (nohash_neq l "1b" Hl). fold (@sassoc Z l b). now rewrite Hr0. }
    split.
    - intros (l' & <- & Hl'). apply filter_In in Hl' as [Hl' Hsat]. apply in_map_iff in Hl' as (x & <- & Hx).
      cbn [forallb cond_true] in Hsat. rewrite TVl in Hsat. cbn in Hsat. rewrite andb_true_r in Hsat. apply holds_host_In in Hsat.
      destruct (Hadm r0 x Hsat) as [Hr Hs]. apply in_map_iff in Hs as ([s' w] & Es & Hsw). cbn in Es. subst s'.
      exists (r0, (x, w)). split.
      + cbn [map]. rewrite TVl. reflexivity.
      + apply filter_In. split; [apply triples_In; repeat split; auto|]. unfold qualifies. cbn [g_side g_label g_filter colval fst]. rewrite Hr0, Z.eqb_refl. reflexivity.
    - intros ([r [s w]] & <- & Hin). apply filter_In in Hin as [Hin Hq]. apply triples_In in Hin as (Hr & Hs & Hh).
      unfold qualifies in Hq. cbn [g_side g_label g_filter colval fst] in Hq. rewrite Hr0, andb_true_r in Hq. apply Z.eqb_eq in Hq. subst r.
      exists [("#1b", s)]. split.
      + cbn [map]. rewrite TVl. reflexivity.
      + apply filter_In. split.
        * apply in_map_iff. exists s. split; [reflexivity|]. apply in_universe_shelf. now apply shelf_id_of with w.
        * cbn [forallb cond_true]. rewrite TVl. cbn. rewrite andb_true_r. now apply holds_host_In.
  Qed.

  (* the number of host occurrences with shelf id L *)
  Lemma entity_shelf_bound f l s0 :
    nohash l -> sassoc l b = Some s0 ->
    let g := {| g_fn := f; g_form := FEntity; g_side := Some KShelf; g_label := Some l; g_dlabel := None; g_filter := None |} in
    exists t, compile_aggr 1 g = Some t /\ agg_eval sp I b t = Some (agg_of sp I b g).
  Proof.
    intros Hl Hr0. cbv zeta. destruct (fn_tables f) as (op & sym & Hop & Hsym & Hfn). unfold compile_aggr. cbn [g_fn g_form g_side g_label g_dlabel g_filter].
    rewrite Hop. eexists. split; [reflexivity|]. unfold agg_eval. cbn [t_op]. rewrite Hsym, Hfn. f_equal. unfold agg_of. cbn [g_fn g_form].
    change (fresh 1 "a") with "#1a". cbn [t_conds t_tuple].
    assert (L : filter (fun v => match sassoc v b with Some _ => false | None => true end)
                       (agg_vars {| t_op := op; t_atom_tuple := true; t_tuple := [TV "#1a"; TV l]; t_conds := [CHost (TV "#1a") (TV l)] |}) = ["#1a"]).
    { unfold agg_vars. cbn [t_tuple t_conds fold_left term_vars cond_vars]. unfold add_var.
      repeat (progress (cbn [mem_string]; rewrite ?(nohash_neq l "1a" Hl), ?(nohash_neq' l "1a" Hl), ?String.eqb_refl; cbn [String.eqb Ascii.eqb Bool.eqb orb app])).
      cbn [filter]. pose proof Hr0 as Hr0u. unfold sassoc in Hr0u. pose proof (Hb "1a") as Hbu. unfold sassoc in Hbu.
      rewrite ?(Hb "1a"), ?Hbu, ?Hr0, ?Hr0u. reflexivity. }
    rewrite L, all_bindings_one. apply agg_value_set. intros t. rewrite !in_map_iff.
    assert (TVl : forall x, term_val ([("#1a", x)] ++ b)%list (TV l) = Some (Some s0)).
    { intros x. cbn [term_val app sassoc assoc]. rewrite (nohash_neq l "1a" Hl). fold (@sassoc Z l b). now rewrite Hr0. }
    split.
    - intros (l' & <- & Hl'). apply filter_In in Hl' as [Hl' Hsat]. apply in_map_iff in Hl' as (x & <- & Hx).
      cbn [forallb cond_true] in Hsat. rewrite TVl in Hsat. cbn in Hsat. rewrite andb_true_r in Hsat. apply holds_host_In in Hsat.
      destruct (Hadm x s0 Hsat) as [Hr Hs]. apply in_map_iff in Hs as ([s' w] & Es & Hsw). cbn in Es. subst s'.
      exists (x, (s0, w)). split.
      + cbn [map]. rewrite TVl. reflexivity.
      + apply filter_In. split; [apply triples_In; repeat split; auto|]. unfold qualifies. cbn [g_side g_label g_filter colval fst snd]. rewrite Hr0, Z.eqb_refl. reflexivity.
    - intros ([r [s w]] & <- & Hin). apply filter_In in Hin as [Hin Hq]. apply triples_In in Hin as (Hr & Hs & Hh).
      unfold qualifies in Hq. cbn [g_side g_label g_filter colval fst snd] in Hq. rewrite Hr0, andb_true_r in Hq. apply Z.eqb_eq in Hq. subst s.
      exists [("#1a", r)]. split.
      + cbn [map]. rewrite TVl. reflexivity.
      + apply filter_In. split.
        * apply in_map_iff. exists r. split; [reflexivity|]. now apply in_universe_room.
        * cbn [forallb cond_true]. rewrite TVl. cbn. rewrite andb_true_r. now apply holds_host_In.
  Qed.
End ParamShelf.

(* ------------------------------------------------------------------ end to end, for sentences without outer variables *)
Definition is_ocmp (l : olit) : bool := match l with OCmp _ => true | _ => false end.
Lemma name_values_ocmp ops j : forallb is_ocmp (fst (name_values ops j)) = true.
Proof.
  revert j. induction ops as [|o r IH]; intros j; [reflexivity|]. cbn [name_values]. destruct o; specialize (IH (S j)); destruct (name_values r (S j)) as [ls vs]; cbn in *; auto.
Qed.
Lemma pairs_ocmp op l : forallb is_ocmp (pairs op l) = true.
Proof.
  induction l as [|x r IH]; [reflexivity|]. cbn [pairs]. rewrite forallb_app, IH, andb_true_r. clear IH. induction r as [|y s IHs]; [reflexivity|]. cbn. exact IHs.
Qed.
Lemma convert_cmp_ocmp c lits : convert_cmp c = Some lits -> forallb is_ocmp lits = true.
Proof.
  unfold convert_cmp. cbv zeta.
  match goal with |- (if ?b then _ else _) = _ -> _ => destruct b end.
  - match goal with |- match ?o with Some _ => _ | None => _ end = _ -> _ => destruct o as [op|]; [|discriminate] end.
    pose proof (name_values_ocmp (oc_operands c) 1) as N. destruct (name_values (oc_operands c) 1) as [assigns vals]. cbn [fst] in N.
    match goal with |- (if ?b then _ else _) = _ -> _ => destruct b end; intros H; injection H as <-; rewrite forallb_app, N; cbn; [apply pairs_ocmp|reflexivity].
  - match goal with |- match ?o with ConvOk _ => _ | ConvKeyError => _ end = _ -> _ => destruct o as [l|]; [|discriminate] end.
    intros H. injection H as <-. induction l as [|x r IH]; cbn; auto.
Qed.
Lemma ocmp_no_globals lits acc : forallb is_ocmp lits = true ->
  fold_left (fun acc l => match l with ORoom v | OShelf v => add_var v acc | _ => acc end) lits acc = acc.
Proof.
  revert acc. induction lits as [|l r IH]; intros acc H; [reflexivity|]. cbn in H. apply andb_true_iff in H as [Hl Hr]. destruct l; try discriminate. cbn. now apply IH.
Qed.

Lemma unbound_generic sp I g t :
  a_agg sp = g -> g_label g = None -> passive (g_form g) = false -> a_whenever sp = [] -> a_owhere sp = None ->
  (match a_cmp sp with CPhrase _ _ | CBetween _ _ => True | _ => False end) ->
  compile_aggr 1 g = Some t -> agg_eval sp I [] t = Some (agg_of sp I [] g) ->
  forall r, compile sp = Some r -> rule_violated sp I r = negb (reading sp I).
Proof.
  intros Ha Hlab Hpas Hwh How Hcmp Ht Hev r Hr.
  assert (Hpl : passive_labels sp = []).
  { unfold passive_labels, aggs. rewrite Ha. destruct (a_cmp sp); try contradiction; cbn; rewrite Hlab; reflexivity. }
  unfold compile in Hr. destruct (compile_cmp sp) as [lits|] eqn:Ec; [|discriminate]. rewrite How, Hpl, Hwh in Hr. cbn [map app] in Hr.
  rewrite app_nil_r in Hr. injection Hr as <-.
  unfold compile_cmp in Ec. rewrite Ha, Ht in Ec.
  unfold reading, outer_labels. rewrite Hpl, Hwh. cbn [app bindings forallb]. unfold owhere_ok. rewrite How. rewrite andb_true_r.
  unfold cmp_holds. rewrite Ha.
  destruct (a_cmp sp) as [ph k|lo hi| | | ] eqn:Eq; try contradiction.
  - assert (Ho : forallb is_ocmp lits = true).
    { destruct (parse_simple ph (OAgg t) (ONum k)); [|discriminate]. now apply convert_cmp_ocmp in Ec. }
    unfold rule_violated, global_vars. rewrite (ocmp_no_globals lits [] Ho). cbn [all_bindings existsb]. rewrite orb_false_r.
    destruct (cmp_phrase_number sp I [] t _ ph k (a_required sp) lits [] Hev eq_refl Ec) as (kd & Hn & Hl).
    rewrite app_nil_r in Hl. rewrite Hl, Hn. cbn [lits_true]. now rewrite andb_true_r.
  - assert (Ho : forallb is_ocmp lits = true).
    { destruct (parse_between (OAgg t) (ONum lo) (ONum hi)); [|discriminate]. now apply convert_cmp_ocmp in Ec. }
    unfold rule_violated, global_vars. rewrite (ocmp_no_globals lits [] Ho). cbn [all_bindings existsb]. rewrite orb_false_r.
    pose proof (cmp_between_numbers sp I [] t _ lo hi (a_required sp) lits [] Hev eq_refl Ec) as Hl.
    rewrite app_nil_r in Hl. rewrite Hl. cbn [lits_true]. now rewrite andb_true_r.
Qed.

Lemma hash_free_nil : hash_free []. Proof. intros s. reflexivity. Qed.

(* the three sentence forms without an outer variable: "the <fn> shelf id of a host" / "the <fn> room id of a host" /
   "the <fn> room id that host a shelf", compared with a number or a pair of numbers, required or prohibited:
   the emitted constraint is violated exactly by the interpretations the READING excludes *)
Theorem unbound_aggregate_sentence_correct sp I f form :
  adm sp I -> In form [FParamShelf; FParamRoom; FActive; FEntity] ->
  a_agg sp = {| g_fn := f; g_form := form; g_side := None; g_label := None; g_dlabel := None; g_filter := None |} ->
  a_whenever sp = [] -> a_owhere sp = None -> (match a_cmp sp with CPhrase _ _ | CBetween _ _ => True | _ => False end) ->
  forall r, compile sp = Some r -> rule_violated sp I r = negb (reading sp I).
Proof.
  intros Hadm Hform Ha Hwh How Hcmp r Hr.
  destruct Hform as [<-|[<-|[<-|[<-|[]]]]].
  - destruct (param_shelf_unbound sp I Hadm [] hash_free_nil f) as (t & Ht & Hev).
    exact (unbound_generic sp I _ t Ha eq_refl eq_refl Hwh How Hcmp Ht Hev r Hr).
  - destruct (param_room_unbound sp I Hadm [] hash_free_nil f) as (t & Ht & Hev).
    exact (unbound_generic sp I _ t Ha eq_refl eq_refl Hwh How Hcmp Ht Hev r Hr).
  - destruct (active_unbound sp I Hadm [] hash_free_nil f) as (t & Ht & Hev).
    exact (unbound_generic sp I _ t Ha eq_refl eq_refl Hwh How Hcmp Ht Hev r Hr).
  - destruct (entity_unbound sp I Hadm [] hash_free_nil f) as (t & Ht & Hev).
    exact (unbound_generic sp I _ t Ha eq_refl eq_refl Hwh How Hcmp Ht Hev r Hr).
Qed.

(* the aggregate term of a sentence form with an outer label L evaluates, under any binding of L, to the value the READING gives *)
Theorem bound_aggregate_term_value sp I b f l v form side :
  adm sp I -> hash_free b -> nohash l -> sassoc l b = Some v ->
  In (form, side) [(FParamShelf, KRoom); (FParamRoom, KShelf); (FActive, KShelf); (FPassiveShelf, KRoom); (FPassiveWeightEach, KRoom); (FPassiveWeight, KRoom); (FEntity, KRoom); (FEntity, KShelf)] ->
  let g := {| g_fn := f; g_form := form; g_side := Some side; g_label := Some l; g_dlabel := None; g_filter := None |} in
  exists t, compile_aggr 1 g = Some t /\ agg_eval sp I b t = Some (agg_of sp I b g).
Proof.
  intros Hadm Hb Hl Hv Hin. cbv zeta.
  destruct Hin as [E|[E|[E|[E|[E|[E|[E|[E|[]]]]]]]]]; injection E as <- <-.
  - exact (param_shelf_bound sp I Hadm b Hb f l v Hl Hv).
  - exact (param_room_bound sp I Hadm b Hb f l v Hl Hv).
  - exact (active_bound sp I Hadm b Hb f l v Hl Hv).
  - exact (passive_shelf_bound sp I Hadm b Hb f l v Hl Hv).
  - exact (passive_weight_each_bound sp I Hadm b Hb f l v Hl Hv).
  - exact (passive_weight_bound sp I Hadm b Hb f l v Hl Hv).
  - exact (entity_room_bound sp I Hadm b Hb f l v Hl Hv).
  - exact (entity_shelf_bound sp I Hadm b Hb f l v Hl Hv).
Qed.

(* ------------------------------------------------------------------ end to end, with one outer variable *)
Lemma existsb_eqb_In z l : existsb (Z.eqb z) l = true <-> In z l.
Proof.
  rewrite existsb_exists. split.
  - intros (y & Hy & E). apply Z.eqb_eq in E. now subst.
  - intros H. exists z. split; [exact H|apply Z.eqb_refl].
Qed.
Lemma hash_free_single l x : nohash l -> hash_free [(l, x)].
Proof. intros H s. unfold sassoc. cbn [assoc]. now rewrite (nohash_neq' l s H). Qed.

Definition in_dom (sp : aspec) (c : col) (x : Z) : bool := match c with KRoom => is_room sp x | _ => is_shelf_id sp x end.
Lemma in_dom_In sp c x : c <> KWeight -> (in_dom sp c x = true <-> In x (dom_of sp c)).
Proof.
  intros Hc. destruct c; try (now contradiction Hc); cbn [in_dom dom_of].
  - unfold is_room. apply existsb_eqb_In.
  - apply is_shelf_id_In.
Qed.
Lemma dom_in_universe sp c x : c <> KWeight -> In x (dom_of sp c) -> In x (universe sp).
Proof. intros Hc. destruct c; try (now contradiction Hc); cbn [dom_of]; [apply in_universe_room|apply in_universe_shelf]. Qed.

(* exists over the universe, guarded by membership in the domain = exists over the domain *)
Lemma existsb_guard sp c (P : Z -> bool) :
  c <> KWeight -> existsb (fun x => P x && in_dom sp c x) (universe sp) = existsb P (dom_of sp c).
Proof.
  intros Hc. apply eq_true_iff_eq. rewrite !existsb_exists. split.
  - intros (x & _ & H). apply andb_true_iff in H as [HP Hd]. exists x. split; [now apply in_dom_In|exact HP].
  - intros (x & Hx & HP). exists x. split; [now apply dom_in_universe with c|]. rewrite HP. now apply in_dom_In.
Qed.
Lemma existsb_ext {A} (f g : A -> bool) l : (forall x, f x = g x) -> existsb f l = existsb g l.
Proof. intros H. induction l as [|a r IH]; cbn; [reflexivity|]. now rewrite H, IH. Qed.
Lemma existsb_map {A B} (f : A -> B) (p : B -> bool) l : existsb p (map f l) = existsb (fun x => p (f x)) l.
Proof. induction l as [|a r IH]; cbn; [reflexivity|]. now rewrite IH. Qed.
Lemma existsb_guard' sp c (P : Z -> bool) :
  c <> KWeight -> existsb (fun x => in_dom sp c x && P x) (universe sp) = existsb P (dom_of sp c).
Proof. intros Hc. rewrite <- (existsb_guard sp c P Hc). apply existsb_ext. intros x. apply andb_comm. Qed.

Lemma negb_forallb {A} (f : A -> bool) l : negb (forallb f l) = existsb (fun x => negb (f x)) l.
Proof. induction l as [|a r IH]; cbn; [reflexivity|]. rewrite negb_andb, IH. reflexivity. Qed.
Lemma bindings_one sp l c : bindings sp [(l, c)] = map (fun v => [(l, v)]) (dom_of sp c).
Proof. cbn [bindings]. induction (dom_of sp c) as [|x r IH]; [reflexivity|]. cbn in *. now rewrite IH. Qed.

Lemma bound_generic sp I g t l side :
  a_agg sp = g -> g_label g = Some l -> nohash l -> side <> KWeight -> a_owhere sp = None ->
  (match a_cmp sp with CPhrase _ _ | CBetween _ _ => True | _ => False end) ->
  (* the three layouts: label given by a whenever clause (non-passive / passive form), or passive subject without whenever clause *)
  ((passive (g_form g) = false /\ a_whenever sp = [(l, side)]) \/
   (passive (g_form g) = true /\ side = KRoom /\ (a_whenever sp = [(l, KRoom)] \/ a_whenever sp = []))) ->
  compile_aggr 1 g = Some t -> (forall x, agg_eval sp I [(l, x)] t = Some (agg_of sp I [(l, x)] g)) ->
  forall r, compile sp = Some r -> rule_violated sp I r = negb (reading sp I).
Proof.
  intros Ha Hlab Hl Hside How Hcmp Hlay Ht Hev r Hr.
  unfold compile in Hr. destruct (compile_cmp sp) as [lits|] eqn:Ec; [|discriminate]. rewrite How in Hr.
  unfold compile_cmp in Ec. rewrite Ha, Ht in Ec.
  (* the comparison literals under a binding of l *)
  assert (Hlits : forall x rest, forallb outer_only rest = true ->
            lits_true sp I [(l, x)] [] (lits ++ rest) =
            negb (Bool.eqb (cmp_holds sp I [(l, x)]) (a_required sp)) && lits_true sp I [(l, x)] [] rest).
  { intros x rest Hrest. unfold cmp_holds. rewrite Ha. destruct (a_cmp sp) as [ph k|lo hi| | | ] eqn:Eq; try contradiction.
    - destruct (cmp_phrase_number sp I [(l, x)] t _ ph k (a_required sp) lits rest (Hev x) Hrest Ec) as (kd & Hn & Hq). now rewrite Hq, Hn.
    - exact (cmp_between_numbers sp I [(l, x)] t _ lo hi (a_required sp) lits rest (Hev x) Hrest Ec). }
  assert (Ho : forallb is_ocmp lits = true).
  { destruct (a_cmp sp) as [ph k|lo hi| | | ]; try contradiction.
    - destruct (parse_simple ph (OAgg t) (ONum k)); [|discriminate]. now apply convert_cmp_ocmp in Ec.
    - destruct (parse_between (OAgg t) (ONum lo) (ONum hi)); [|discriminate]. now apply convert_cmp_ocmp in Ec. }
  assert (Hpl : passive_labels sp = if passive (g_form g) && negb (has_label l (a_whenever sp)) then [(l, KRoom)] else []).
  { unfold passive_labels, aggs. rewrite Ha. destruct (a_cmp sp); try contradiction; cbn [aggs_of_cmp flat_map]; rewrite Hlab, app_nil_r; destruct (passive (g_form g) && negb (has_label l (a_whenever sp))); reflexivity. }
  assert (Hread : negb (reading sp I) = existsb (fun v => negb (Bool.eqb (cmp_holds sp I [(l, v)]) (a_required sp))) (dom_of sp side)).
  { unfold reading, outer_labels. rewrite Hpl.
    assert (E : ((if passive (g_form g) && negb (has_label l (a_whenever sp)) then [(l, KRoom)] else []) ++ a_whenever sp)%list = [(l, side)]).
    { destruct Hlay as [[Hp Hw]|(Hp & -> & [Hw|Hw])]; rewrite Hp, Hw; cbn; rewrite ?String.eqb_refl; reflexivity. }
    rewrite E, bindings_one, negb_forallb, existsb_map. apply existsb_ext. intros v. unfold owhere_ok. now rewrite How. }
  rewrite Hread. unfold rule_violated.
  destruct Hlay as [[Hp Hw]|(Hp & -> & [Hw|Hw])]; rewrite Hpl, Hp, Hw in Hr; cbn [has_label existsb fst String.eqb andb negb map app] in Hr;
    rewrite ?String.eqb_refl in Hr; cbn [orb negb andb map app] in Hr; injection Hr as <-.
  - (* lits ++ [outer] *)
    assert (G : global_vars (lits ++ [outer_atom (l, side)])%list = [l]).
    { unfold global_vars. rewrite fold_left_app, (ocmp_no_globals lits [] Ho). destruct side; reflexivity. }
    rewrite G, all_bindings_one, existsb_map. rewrite <- (existsb_guard sp side _ Hside). apply existsb_ext. intros x.
    rewrite Hlits by (destruct side; reflexivity). f_equal.
    destruct side; try (now contradiction Hside); cbn [outer_atom snd fst lits_true sassoc assoc]; rewrite String.eqb_refl, andb_true_r; reflexivity.
  - assert (G : global_vars (lits ++ [outer_atom (l, KRoom)])%list = [l]).
    { unfold global_vars. rewrite fold_left_app, (ocmp_no_globals lits [] Ho). reflexivity. }
    rewrite G, all_bindings_one, existsb_map. rewrite <- (existsb_guard sp KRoom _ Hside). apply existsb_ext. intros x.
    rewrite Hlits by reflexivity. f_equal. cbn [outer_atom snd fst lits_true sassoc assoc]. rewrite String.eqb_refl, andb_true_r. reflexivity.
  - assert (G : global_vars (outer_atom (l, KRoom) :: lits ++ [])%list = [l]).
    { unfold global_vars. cbn [fold_left outer_atom snd fst]. rewrite fold_left_app, (ocmp_no_globals lits _ Ho). reflexivity. }
    rewrite G, all_bindings_one, existsb_map. rewrite <- (existsb_guard' sp KRoom _ Hside). apply existsb_ext. intros x.
    cbn [outer_atom snd fst lits_true sassoc assoc]. rewrite String.eqb_refl. rewrite Hlits by reflexivity. cbn [lits_true]. now rewrite andb_true_r.
Qed.

Theorem bound_aggregate_sentence_correct sp I f l form side :
  adm sp I -> nohash l ->
  In (form, side) [(FParamShelf, KRoom); (FParamRoom, KShelf); (FActive, KShelf); (FPassiveShelf, KRoom); (FPassiveWeightEach, KRoom); (FPassiveWeight, KRoom); (FEntity, KRoom); (FEntity, KShelf)] ->
  a_agg sp = {| g_fn := f; g_form := form; g_side := Some side; g_label := Some l; g_dlabel := None; g_filter := None |} ->
  a_owhere sp = None -> (match a_cmp sp with CPhrase _ _ | CBetween _ _ => True | _ => False end) ->
  ((passive form = false /\ a_whenever sp = [(l, side)]) \/ (passive form = true /\ (a_whenever sp = [(l, KRoom)] \/ a_whenever sp = []))) ->
  forall r, compile sp = Some r -> rule_violated sp I r = negb (reading sp I).
Proof.
  intros Hadm Hl Hin Ha How Hcmp Hlay r Hr.
  set (g := {| g_fn := f; g_form := form; g_side := Some side; g_label := Some l; g_dlabel := None; g_filter := None |}) in *.
  assert (Hside : side <> KWeight).
  { destruct Hin as [E|[E|[E|[E|[E|[E|[E|[E|[]]]]]]]]]; injection E as <- <-; discriminate. }
  assert (Hval : forall x, exists t, compile_aggr 1 g = Some t /\ agg_eval sp I [(l, x)] t = Some (agg_of sp I [(l, x)] g)).
  { intros x. apply (bound_aggregate_term_value sp I [(l, x)] f l x form side Hadm (hash_free_single l x Hl) Hl); [|exact Hin].
    unfold sassoc. cbn [assoc]. now rewrite String.eqb_refl. }
  destruct (Hval 0%Z) as (t & Ht & _).
  assert (Hev : forall x, agg_eval sp I [(l, x)] t = Some (agg_of sp I [(l, x)] g)).
  { intros x. destruct (Hval x) as (t' & Ht' & E). rewrite Ht in Ht'. injection Ht' as <-. exact E. }
  apply (bound_generic sp I g t l side Ha eq_refl Hl Hside How Hcmp); [|exact Ht|exact Hev|exact Hr].
  cbn [g g_form]. destruct Hlay as [[Hp Hw]|[Hp Hw]]; [left; now split|right].
  split; [exact Hp|]. split; [|exact Hw].
  destruct Hin as [E|[E|[E|[E|[E|[E|[E|[E|[]]]]]]]]]; injection E as <- <-; try reflexivity; discriminate Hp.
Qed.
