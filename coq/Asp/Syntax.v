(* The ASP element tree the converter builds (ASP_elements/*.py), as data. *)
Require Import Coq.Strings.String Coq.Lists.List Coq.Bool.Bool.
Require Import Cnl2aspV.Gen.Operators.
Import ListNotations.
Open Scope string_scope.

(* an AttributeOrigin chain, outermost first; each link carries NameComponent.singular_and_plural_name
   (singular, plural, the name itself) as the implementation computed it with `inflect` *)
Record oname := { on_name : string; on_forms : list string }.
Definition origin := list oname.            (* [] = no origin (None) *)

Record attr := { a_name : string; a_value : string; a_origin : origin }.

Record atom := { at_name : string; at_attrs : list attr; at_neg : bool;
                 at_before : bool; at_after : bool; at_initial : bool; at_final : bool }.

Inductive opkind := KPlain | KAngle | KTemporal.

Inductive elem :=
| EAtom (a : atom)
| EVal (v : string)                                    (* ASPValue *)
| EAttr (a : attr)                                     (* ASPAttribute used as aggregate discriminant / weak-constraint term *)
| EOp (k : opkind) (op : operator) (negated : bool) (operands : list elem)
| EAgg (f : aggop) (discr : list elem) (body : list elem)
| ETel (negated : bool) (ops : list elem).             (* ASPTemporalFormula *)

Record head := { h_atom : atom; h_cond : list elem }.

Inductive rule :=
| RRule (body : list elem) (heads : list head) (card : option (option string * option string))
| RWeak (body : list elem) (weight : string) (level : string) (discr : list attr).

Record program := { p_name : option string; p_rules : list rule }.
Record encoding := { e_consts : list (string * string); e_programs : list program }.
