(* The unstamped escapes that are ACCEPTED (hand-maintained).  Each row: callback, the callee through which the exception
   arrives ("<raise>" = a raise statement of the callback), exception class, and why it is accepted:
     Imprecision    - the name-based may-analysis cannot see a guard (e.g. clone_signature after is_temporal_entity;
                      TemporalEntityComponent.copy setting its own attributes; int() on digits matched by a regexp)
     Internal       - RuntimeError('Error in compilation phase.'): an internal invariant, not a fault of the specification
     NotLookupFault - real, but not one of the fault classes of C17 (an inexpressible temporal operator combination,
                      a non-integer number)
     KnownFinding   - real lookup failure that leaves without the line of the sentence (KNOWN_FINDINGS.json, entries F-C17-...)
   Any escape outside this list breaks theorem C17_lookup_failures_are_stamped. *)
Require Import Coq.Strings.String Coq.Lists.List.
Import ListNotations.
Open Scope string_scope.

Inductive why := Imprecision | Internal | NotLookupFault | KnownFinding.

Definition accepted_unstamped : list (string * string * string * why) :=
[
  ("CNLTransformer.explicit_definition_proposition", "add_signature", "RuntimeError", Internal);
  ("CNLTransformer.explicit_definition_proposition", "add_signature", "AttributeNotFound", Imprecision);
  ("CNLTransformer.parameter_definition", "clone_signature", "EntityNotFound", Imprecision);
  ("CNLTransformer.parameter_definition", "clone_signature", "RuntimeError", Internal);
  ("CNLTransformer.parameter_definition", "clone_signature", "AttributeNotFound", Imprecision);
  ("CNLTransformer.implicit_definition_proposition", "execute", "RuntimeError", Internal);
  ("CNLTransformer.implicit_definition_proposition", "execute", "AttributeNotFound", KnownFinding);
  ("CNLTransformer.implicit_definition_proposition", "add_signature", "RuntimeError", Internal);
  ("CNLTransformer.implicit_definition_proposition", "add_signature", "AttributeNotFound", Imprecision);
  ("CNLTransformer.simple_definition", "clone_signature", "RuntimeError", Internal);
  ("CNLTransformer.simple_definition", "clone_signature", "AttributeNotFound", Imprecision);
  ("CNLTransformer.compounded_match_clause", "copy_proposition", "RuntimeError", Internal);
  ("CNLTransformer.compounded_match_clause", "copy_proposition", "AttributeNotFound", Imprecision);
  ("CNLTransformer.enumerative_definition_clause", "create_new_signature", "RuntimeError", Internal);
  ("CNLTransformer.enumerative_definition_clause", "create_new_signature", "AttributeNotFound", Imprecision);
  ("CNLTransformer.enumerative_definition_clause", "add_signature", "RuntimeError", Internal);
  ("CNLTransformer.enumerative_definition_clause", "add_signature", "AttributeNotFound", Imprecision);
  ("CNLTransformer.enumerative_definition_clause", "copy", "RuntimeError", Internal);
  ("CNLTransformer.enumerative_definition_clause", "copy", "AttributeNotFound", Imprecision);
  ("CNLTransformer.enumerative_definition_clause", "set_attributes_value", "RuntimeError", Internal);
  ("CNLTransformer.enumerative_definition_clause", "set_attributes_value", "AttributeNotFound", KnownFinding);
  ("CNLTransformer.enumerative_definition_clause", "clone_signature", "EntityNotFound", Imprecision);
  ("CNLTransformer.enumerative_definition_clause", "clone_signature", "RuntimeError", Internal);
  ("CNLTransformer.enumerative_definition_clause", "clone_signature", "AttributeNotFound", Imprecision);
  ("CNLTransformer.then_clause", "_handle_new_definition_proposition", "RuntimeError", Internal);
  ("CNLTransformer.then_clause", "_handle_new_definition_proposition", "AttributeNotFound", Imprecision);
  ("CNLTransformer.telingo_operation", "<raise>", "KeyError", NotLookupFault);
  ("CNLTransformer.prefixed_telingo_operation", "telingo_operation", "KeyError", NotLookupFault);
  ("CNLTransformer.quantified_choice_proposition", "_handle_new_definition_proposition", "RuntimeError", Internal);
  ("CNLTransformer.quantified_choice_proposition", "_handle_new_definition_proposition", "AttributeNotFound", Imprecision);
  ("CNLTransformer.temporal_constraint", "<raise>", "ValueError", Imprecision);
  ("CNLTransformer.temporal_constraint", "get_attributes_by_name_and_origin", "AttributeNotFound", KnownFinding);
  ("CNLTransformer.temporal_constraint", "_new_field_value", "ValueError", Imprecision);
  ("CNLTransformer.temporal_constraint", "<raise>", "CompilationError", Imprecision);
  ("CNLTransformer.parameter_entity_link", "_new_field_value", "ValueError", Imprecision);
  ("CNLTransformer.parameter_entity_link", "set_attributes_value", "RuntimeError", Internal);
  ("CNLTransformer.aggregate_passive_clause", "set_attributes_value", "RuntimeError", Internal);
  ("CNLTransformer.preference_with_aggregate_clause", "_new_field_value", "ValueError", Imprecision);
  ("CNLTransformer.parameter", "clone_signature", "EntityNotFound", Imprecision);
  ("CNLTransformer.parameter", "clone_signature", "RuntimeError", Internal);
  ("CNLTransformer.parameter", "clone_signature", "AttributeNotFound", Imprecision);
  ("CNLTransformer.parameter", "is_temporal_entity", "RuntimeError", Internal);
  ("CNLTransformer.parameter", "is_temporal_entity", "AttributeNotFound", Imprecision);
  ("CNLTransformer.parameter", "_parse_parameter_value", "ValueError", Imprecision);
  ("CNLTransformer.aggregate_parameter", "clone_signature", "EntityNotFound", Imprecision);
  ("CNLTransformer.aggregate_parameter", "clone_signature", "RuntimeError", Internal);
  ("CNLTransformer.aggregate_parameter", "clone_signature", "AttributeNotFound", Imprecision);
  ("CNLTransformer.aggregate_parameter", "is_temporal_entity", "RuntimeError", Internal);
  ("CNLTransformer.aggregate_parameter", "is_temporal_entity", "AttributeNotFound", Imprecision);
  ("CNLTransformer.aggregate_parameter", "_parse_parameter_value", "ValueError", Imprecision);
  ("CNLTransformer.parameter_temporal_ordering", "get_signature_from_type", "RuntimeError", Internal);
  ("CNLTransformer.parameter_temporal_ordering", "get_signature_from_type", "AttributeNotFound", Imprecision);
  ("CNLTransformer.parameter_temporal_ordering", "get_signature_from_type", "EntityNotFound", KnownFinding);
  ("CNLTransformer.simple_entity", "clone_signature", "RuntimeError", Internal);
  ("CNLTransformer.simple_entity", "clone_signature", "AttributeNotFound", Imprecision);
  ("CNLTransformer.simple_entity", "set_attributes_value", "RuntimeError", Internal);
  ("CNLTransformer.simple_entity", "set_label_as_key_value", "RuntimeError", Internal);
  ("CNLTransformer.simple_entity", "set_label_as_key_value", "AttributeNotFound", Imprecision);
  ("CNLTransformer.simple_entity", "set_label_as_key_value", "ValueError", Imprecision);
  ("CNLTransformer.simple_entity", "temporal_constraint", "ValueError", Imprecision);
  ("CNLTransformer.simple_entity", "temporal_constraint", "AttributeNotFound", KnownFinding);
  ("CNLTransformer.simple_entity", "temporal_constraint", "CompilationError", Imprecision);
  ("CNLTransformer.simple_entity", "__substitute_subsequent_event", "RuntimeError", Internal);
  ("CNLTransformer.simple_entity", "__substitute_subsequent_event", "AttributeNotFound", Imprecision);
  ("CNLTransformer.simple_entity", "__substitute_subsequent_event", "EntityNotFound", Imprecision);
  ("CNLTransformer.generic_element", "clone_signature", "RuntimeError", Internal);
  ("CNLTransformer.generic_element", "clone_signature", "AttributeNotFound", Imprecision);
  ("CNLTransformer.generic_element", "set_attributes_value", "RuntimeError", Internal);
  ("CNLTransformer.generic_element", "set_attributes_value", "AttributeNotFound", Imprecision);
  ("CNLTransformer.list_element_order", "clone_signature", "RuntimeError", Internal);
  ("CNLTransformer.list_element_order", "clone_signature", "AttributeNotFound", Imprecision);
  ("CNLTransformer.list_element_order", "set_shifted_value", "AttributeNotFound", Imprecision);
  ("CNLTransformer.list_element_order", "set_shifted_value", "RuntimeError", Internal);
  ("CNLTransformer.list_index_element", "clone_signature", "RuntimeError", Internal);
  ("CNLTransformer.list_index_element", "clone_signature", "AttributeNotFound", Imprecision);
  ("CNLTransformer.list_index_element", "_new_field_value", "ValueError", Imprecision);
  ("CNLTransformer.list_index_element", "<raise>", "ValueError", NotLookupFault);
  ("CNLTransformer.list_index_element", "set_index_value", "AttributeNotFound", Imprecision);
  ("CNLTransformer.list_index_element", "set_index_value", "RuntimeError", Internal);
  ("CNLTransformer.complex_entity_parameter", "parameter", "EntityNotFound", Imprecision);
  ("CNLTransformer.complex_entity_parameter", "parameter", "RuntimeError", Internal);
  ("CNLTransformer.complex_entity_parameter", "parameter", "AttributeNotFound", Imprecision);
  ("CNLTransformer.complex_entity_parameter", "parameter", "ValueError", Imprecision);
  ("CNLTransformer.verb", "simple_entity", "RuntimeError", Internal);
  ("CNLTransformer.verb", "simple_entity", "AttributeNotFound", Imprecision);
  ("CNLTransformer.verb", "simple_entity", "ValueError", Imprecision);
  ("CNLTransformer.verb", "simple_entity", "CompilationError", Imprecision);
  ("CNLTransformer.verb", "simple_entity", "EntityNotFound", Imprecision);
  ("CNLTransformer.telingo_verb", "<raise>", "KeyError", NotLookupFault);
  ("CNLTransformer.priority_level_number", "<raise>", "ValueError", NotLookupFault)
].
