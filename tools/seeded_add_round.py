#!/venv/bin/python
"""Add one more round of confirmed seeded changes to /verif/seeded and append their rows to seeded/RESULTS.md.

  tools/seeded_add_round.py <round tag, e.g. r4> <first-pass run log> [...] -- <later run log> [...]

Run logs are the stdout of tools/seeded_run.py (one JSON object per line).  The first-pass logs (run with --tests) confirm a
change (patch applies, demo 0 on the pristine tree / 1 with the patch, 87 tests pass) and record what the quick check did at
that time; the later logs (after the checks were strengthened) override the check outcome, the first-pass outcome is kept as
'first_pass'."""
import json
import os
import re
import shutil
import sys

VERIF = os.path.dirname(os.path.dirname(os.path.abspath(__file__)))


def load(paths):
    out = {}
    for p in paths:
        for l in open(p):
            if l.startswith('{'):
                r = json.loads(l)
                out[os.path.basename(r['dir'])] = r
    return out


def main():
    tag = sys.argv[1]
    rest = sys.argv[2:]
    k = rest.index('--') if '--' in rest else len(rest)
    first, later = load(rest[:k]), load(rest[k + 1:])
    rows = []
    for name in sorted(first):
        r0 = first[name]
        r = later.get(name, r0)
        src = r0['dir']
        meta = json.load(open(os.path.join(src, 'meta.json')))
        confirmed = bool(r0.get('applies')) and r0.get('demo_pristine_exit') == 0 and r0.get('demo_mutated_exit') == 1 and '87 passed' in (r0.get('tests') or '')
        if not confirmed:
            rows.append((name, meta, False, r0, r))
            continue
        dst = os.path.join(VERIF, 'seeded', name)
        os.makedirs(dst, exist_ok=True)
        for f in ('patch.diff', 'demo.py'):
            shutil.copy(os.path.join(src, f), os.path.join(dst, f))
        meta['round'] = tag
        meta['confirmation'] = dict(patch_applies=True, demo_exit_pristine=0, demo_exit_with_patch=1, test_suite_with_patch=r0.get('tests'))
        first_v = next((x for x in r.get('check_lines', []) if x.startswith('VIOLATION')), None)
        meta['check'] = dict(command='./check %s --tier quick' % r['property'], exit=r.get('check_exit'), caught=bool(r.get('caught')),
                             with_failing_input=bool(r.get('with_input')), wall_s=r.get('check_wall'),
                             first_violation=(r.get('first_replay_what') or '')[:400],
                             first_line=re.sub(r'replay=\S*/replays/', 'replay=replays/', first_v) if first_v else None)
        meta['first_pass'] = dict(caught=bool(r0.get('caught')), with_failing_input=bool(r0.get('with_input')))
        json.dump(meta, open(os.path.join(dst, 'meta.json'), 'w'), indent=1)
        rows.append((name, meta, True, r0, r))
    path = os.path.join(VERIF, 'seeded', 'RESULTS.md')
    text = open(path).read()
    marker = '\n## Round %s\n' % tag
    if marker in text:
        text = text[:text.index(marker)]
    lines = [marker.strip('\n'), '',
             'Fresh agents on the tree of that round; same protocol.  "first pass" = the quick check as it was when the change arrived.', '',
             '| change | what was changed | confirmed | first pass: caught / with input | now: caught / with input | first violation reported |', '|---|---|---|---|---|---|']
    n = c0 = i0 = c1 = i1 = 0
    for name, meta, confirmed, r0, r in rows:
        if confirmed:
            n += 1; c0 += bool(r0.get('caught')); i0 += bool(r0.get('with_input')); c1 += bool(r.get('caught')); i1 += bool(r.get('with_input'))
        lines.append('| %s | %s (%s) | %s | %s / %s | %s / %s | %s |' % (
            name, (meta.get('title') or '').replace('|', '/'), ', '.join(meta.get('files', []))[:80], 'yes' if confirmed else 'NO (dropped)',
            'yes' if r0.get('caught') else 'no', 'yes' if r0.get('with_input') else 'no', 'yes' if r.get('caught') else 'no', 'yes' if r.get('with_input') else 'no',
            (r.get('first_replay_what') or '').replace('|', '/').replace('\n', ' ')[:160]))
    lines += ['', 'Round %s: %d confirmed changes; first pass %d caught (%d with a failing input); now %d caught (%d with a failing input).' % (tag, n, c0, i0, c1, i1), '']
    open(path, 'w').write(text.rstrip('\n') + '\n\n' + '\n'.join(lines))
    print(lines[-2])


if __name__ == '__main__':
    main()
