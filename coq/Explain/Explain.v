(* Model of ClingoResultParser: _clingo_symbol_to_sentence, _parse_clingo_symbol, _convert_subject (0 or 1 subject),
   _convert_attribute_to_entity, _entity_printer, _convert_verb (clingo_result_parser.py, after the repair of the
   capitalisation recorded in KNOWN_FINDINGS.json). *)
Require Import Coq.Strings.String Coq.Strings.Ascii Coq.Lists.List Coq.Bool.Bool Coq.Arith.Arith.
Require Import Cnl2aspV.Base.Util Cnl2aspV.Base.Str Cnl2aspV.Asp.Syntax Cnl2aspV.Asp.Print Cnl2aspV.Cnl.Link.
Import ListNotations.
Open Scope string_scope.

(* an AttributeComponent: its NameComponent (name + singular/plural forms), origin chain, value *)
Record xattr := { x_name : oname; x_origin : origin; x_value : string }.
Record xentity := { xe_name : oname; xe_keys : list xattr; xe_attrs : list xattr }.

Definition xe_all (e : xentity) : list xattr := (xe_keys e ++ xe_attrs e)%list.
(* EntityComponent.get_keys(): the keys, or the attributes when there is no key *)
Definition keys_are_attrs (e : xentity) : bool := match xe_keys e with [] => true | _ => false end.

(* AttributeComponent.__eq__: NameComponent equality and equal values *)
Definition xattr_eqb (a b : xattr) : bool := oname_eq (x_name a) (x_name b) && String.eqb (x_value a) (x_value b).

Fixpoint remove_first (a : xattr) (l : list xattr) : option (list xattr) :=     (* list.remove: None = ValueError *)
  match l with
  | [] => None
  | x :: r => if xattr_eqb x a then Some r else match remove_first a r with Some r' => Some (x :: r') | None => None end
  end.

(* get_attributes_by_name_and_origin(name, origin)[0] on the subject; origin None -> AttributeOrigin(subject name) *)
Definition find_subject_attr (subj : xentity) (name : string) (o : origin) : option xattr :=
  let o' := match o with [] => [xe_name subj] | _ => o end in
  find (fun a => oname_eq_str (x_name a) name && same_origin (x_origin a) o') (xe_all subj).

(* str(attribute) = str(origin) + ' ' + name ; str(None) = 'None' *)
Fixpoint origin_str (o : origin) : string :=
  match o with [] => "None" | [l] => on_name l | l :: r => on_name l ++ " " ++ origin_str r end.
Definition xattr_str (a : xattr) : string := origin_str (x_origin a) ++ " " ++ on_name (x_name a).

Fixpoint replace_underscore (s : string) : string :=
  match s with EmptyString => EmptyString | String c r => String (if Ascii.eqb c "_" then " "%char else c) (replace_underscore r) end.

(* _entity_printer *)
Definition entity_printer (symbol_name : string) (attrs : list xattr) : string :=
  let body := match attrs with
              | [a] => x_value a
              | _ => join ", " (map (fun a => "with " ++ strip (removeprefix symbol_name (xattr_str a)) ++ " equal to " ++ x_value a) attrs)
              end in
  strip (replace_underscore symbol_name ++ " " ++ body).

(* _convert_attribute_to_entity(subject, atom): (printed subject, remaining atom, remaining subject keys) *)
Fixpoint consume (subj : xentity) (todo : list xattr) (printed : list xattr) : xentity * list xattr :=
  match todo with
  | [] => (subj, printed)
  | a :: r =>
      match find_subject_attr subj (on_name (x_name a)) (x_origin a) with
      | Some sa =>
          (* subject.get_keys().remove(subject_attribute) *)
          if keys_are_attrs subj
          then match remove_first sa (xe_attrs subj) with
               | Some l' => consume {| xe_name := xe_name subj; xe_keys := []; xe_attrs := l' |} r (printed ++ [a])
               | None => consume subj r printed end
          else match remove_first sa (xe_keys subj) with
               | Some l' => consume {| xe_name := xe_name subj; xe_keys := l'; xe_attrs := xe_attrs subj |} r (printed ++ [a])
               | None => consume subj r printed end
      | None => consume subj r printed
      end
  end.

Definition remove_printed (atom : xentity) (printed : list xattr) : xentity :=
  fold_left (fun at_ a =>
               let attrs' := match remove_first a (xe_attrs at_) with Some l => l | None => xe_attrs at_ end in
               let keys' := match remove_first a (xe_keys at_) with Some l => l | None => xe_keys at_ end in
               {| xe_name := xe_name at_; xe_keys := keys'; xe_attrs := attrs' |}) printed atom.

Definition convert_attribute_to_entity (subj : option xentity) (atom : xentity) : string * xentity :=
  match subj with
  | None => ("There", atom)
  | Some s =>
      let '(_, printed) := consume s (xe_all atom) [] in
      let atom' := remove_printed atom printed in
      let res := entity_printer (on_name (xe_name s)) printed in
      ((match res with EmptyString => "There" | _ => if String.eqb res (on_name (xe_name s)) then "There" else res end), atom')
  end.

Definition convert_verb (v : option string) : string :=
  match v with
  | Some s => if mem_string s ["be "; "be a "; "be an "; "are "; "are a "; "are an "; "is "; "is a "; "is an "] then "is "
              else if mem_string s ["have "; "have a "; "have an "; "has "; "has a "; "has an "] then "has " else ""
  | None => "" end.

Record signature := { sg_entity : xentity; sg_subjects : list xentity; sg_verb : option string; sg_objects : list xentity }.

(* _parse_clingo_symbol: argument i (quotes removed) becomes the value of attribute i *)
Definition unquote (s : string) : string :=
  let s1 := removeprefix """" s in if ends_with_char s1 """"%char then drop_last s1 else s1.
Fixpoint set_values (l : list xattr) (args : list string) : list xattr * list string :=
  match l, args with
  | a :: r, v :: vs => let '(r', rest) := set_values r vs in ({| x_name := x_name a; x_origin := x_origin a; x_value := unquote v |} :: r', rest)
  | _, _ => (l, args) end.
Definition parse_symbol (e : xentity) (args : list string) : xentity :=
  let '(k, rest) := set_values (xe_keys e) args in let '(a, _) := set_values (xe_attrs e) rest in
  {| xe_name := xe_name e; xe_keys := k; xe_attrs := a |}.

Definition cap_first (s : string) : string := match s with EmptyString => EmptyString | String c r => String (upper_c c) r end.

Inductive expl := Sentence (s : string) | NotModelled.

Definition raw_sentence (sg : signature) (args : list string) : option string :=
  let atom := parse_symbol (sg_entity sg) args in
  match sg_subjects sg with
  | _ :: _ :: _ => None
  | subs =>
      let '(subject, atom1) := convert_attribute_to_entity (match subs with [s] => Some s | _ => None end) atom in
      let verb := if String.eqb subject "There" then "is " else convert_verb (sg_verb sg) in
      let '(objs, atom2) := fold_left (fun st o => let '(acc, at_) := st in
                                                    let '(s, at') := convert_attribute_to_entity (Some o) at_ in ((acc ++ s)%string, at'))
                                      (sg_objects sg) ("", atom1) in
      Some (strip (subject ++ " " ++ verb ++ entity_printer (on_name (xe_name atom2)) (xe_all atom2) ++ " " ++ objs))
  end.

Definition sentence_of (sg : signature) (args : list string) : expl :=
  match raw_sentence sg args with Some r => Sentence (cap_first r ++ ".") | None => NotModelled end.

(* ------------------------------------------------------------------ facts of declared concepts: scope and closed form of the theorems in ExplainProofs.v *)
Definition value_c (c : ascii) : bool := negb (is_space_c c) && negb (Ascii.eqb c ",").
(* a printed value: not empty, no white space, no comma (numbers, identifiers, strings of word characters) *)
Definition value_ok (v : string) : bool := match v with EmptyString => false | _ => sforall value_c v end.

Definition fact_sig (e : xentity) : signature := {| sg_entity := e; sg_subjects := []; sg_verb := None; sg_objects := [] |}.
Definition item_prefix (name : string) (a : xattr) : string := "with " ++ strip (removeprefix name (xattr_str a)) ++ " equal to ".
Definition fact_body (name : string) (attrs : list xattr) : string :=
  match attrs with [a] => x_value a | _ => join ", " (map (fun a => item_prefix name a ++ x_value a) attrs) end.

(* a concept name as the sentence shows it: no leading white space or underscore (names are letter-initial identifiers) *)
Definition name_ok (n : string) : bool :=
  match n with String c _ => negb (is_space_c c) && negb (Ascii.eqb c "_") | EmptyString => false end.

