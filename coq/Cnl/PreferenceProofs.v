(* C04: the cost the emitted weak constraints give an interpretation is the stated quantity (with its direction), levels are
   compared in the order of the priorities, hence optimality by the weak constraints is optimality by the READING. *)
Require Import Coq.ZArith.ZArith Coq.Lists.List Coq.Bool.Bool Coq.Strings.String Coq.Arith.Arith Coq.Sorting.Permutation Lia.
Require Import Cnl2aspV.Base.Util Cnl2aspV.Gen.Operators Cnl2aspV.Gen.Tables Cnl2aspV.Gen.Terminals
               Cnl2aspV.Asp.CmpSem Cnl2aspV.Asp.Agg Cnl2aspV.Asp.AggProofs Cnl2aspV.Cnl.Comparison Cnl2aspV.Cnl.ComparisonProofs
               Cnl2aspV.Cnl.Aggregate Cnl2aspV.Cnl.Preference.
Import ListNotations.
Open Scope Z_scope.

(* ------------------------------------------------------------------ tables *)
Lemma levels_ordered :
  (exists l m h, prio_level PLow = Some l /\ prio_level PMedium = Some m /\ prio_level PHigh = Some h /\ l < m < h) /\
  (forall n, prio_level (PNum n) = Some n).
Proof.
  split.
  - vm_compute. eexists _, _, _. repeat split; try reflexivity.
  - intros n. reflexivity.
Qed.

Lemma direction_signs : dir_neg DMinimized = Some false /\ dir_neg DAsLittle = Some false /\ dir_neg DMaximized = Some true.
Proof. vm_compute. repeat split. Qed.
Lemma as_much_refuted : dir_neg DAsMuch = Some false.
Proof. vm_compute. reflexivity. Qed.

Lemma prio_level_rank p : prio_level p = Some (rank p).
Proof. destruct p; vm_compute; reflexivity. Qed.

(* the direction table agrees with what the phrase asks for, except 'as much as possible' *)
Lemma dir_neg_wants d : d <> DAsMuch -> dir_neg d = Some (wants_max d).
Proof. destruct d; intros H; try (vm_compute; reflexivity). now contradiction H. Qed.

(* the symbol a comparison phrase compiles to means what the phrase names *)
Definition phrase_kind_ok (ph : string) : bool :=
  match phrase_op ph with
  | Some o => match kind_of_op o, Aggregate.named_kind ph with Some k, Some k' => ckind_eqb k k' | _, _ => false end
  | None => false end.
Lemma phrase_kind_table : forallb phrase_kind_ok comparison_phrases = true.
Proof. vm_compute. reflexivity. Qed.
Lemma sassoc_in_keys {V} k (l : list (string * V)) v : sassoc k l = Some v -> In k (map fst l).
Proof.
  unfold sassoc. induction l as [|[k' v'] r IH]; cbn; [discriminate|].
  destruct (String.eqb k k') eqn:E; intros H.
  - apply String.eqb_eq in E. now left.
  - right. now apply IH.
Qed.
Lemma phrase_op_kind ph o : phrase_op ph = Some o -> exists k, kind_of_op o = Some k /\ Aggregate.named_kind ph = Some k.
Proof.
  intros H. assert (Hin : In ph comparison_phrases).
  { unfold phrase_op in H. destruct (sassoc ph term_COMPARISON_OPERATOR) eqn:E; [|discriminate]. now apply sassoc_in_keys in E. }
  pose proof (forallb_In _ _ phrase_kind_table ph Hin) as T. unfold phrase_kind_ok in T. rewrite H in T.
  destruct (kind_of_op o) as [k|]; [|discriminate]. destruct (Aggregate.named_kind ph) as [k'|]; [|discriminate].
  apply ckind_eqb_eq in T. subst. now exists k'.
Qed.

(* ------------------------------------------------------------------ enumeration of bindings *)
Lemma all_bindings_in vars U g :
  In g (all_bindings vars U) <-> exists vals, List.length vals = List.length vars /\ (forall x, In x vals -> In x U) /\ g = combine vars vals.
Proof.
  revert g. induction vars as [|v r IH]; intros g; cbn [all_bindings].
  - split.
    + intros [<-|[]]. exists []. repeat split. intros x [].
    + intros (vals & L & _ & ->). destruct vals; [now left|discriminate].
  - rewrite in_flat_map. split.
    + intros (x & Hx & Hg). apply in_map_iff in Hg as (g' & <- & Hg'). apply IH in Hg' as (vals & L & HU & ->).
      exists (x :: vals). repeat split.
      * cbn. now rewrite L.
      * intros y [<-|Hy]; auto.
    + intros (vals & L & HU & ->). destruct vals as [|x vals]; [discriminate|]. cbn in L.
      exists x. split; [apply HU; now left|]. cbn [combine]. apply in_map. apply IH. exists vals. repeat split; [lia|].
      intros y Hy. apply HU. now right.
Qed.

Lemma holds_host_In I x y : holds_host I x y = true <-> In (x, y) I.
Proof.
  unfold holds_host. rewrite existsb_exists. split.
  - intros ([a b] & Hin & H). cbn in H. apply andb_true_iff in H as [H1 H2]. apply Z.eqb_eq in H1, H2. now subst.
  - intros H. exists (x, y). split; [exact H|]. cbn. now rewrite !Z.eqb_refl.
Qed.
Lemma existsb_eqb_In z l : existsb (Z.eqb z) l = true <-> In z l.
Proof.
  rewrite existsb_exists. split.
  - intros (y & Hy & E). apply Z.eqb_eq in E. now subst.
  - intros H. exists z. split; [exact H|apply Z.eqb_refl].
Qed.
Lemma is_shelf_In sp s w : is_shelf sp s w = true <-> In (s, w) (a_shelves sp).
Proof.
  unfold is_shelf. rewrite existsb_exists. split.
  - intros ([a b] & Hin & H). cbn in H. apply andb_true_iff in H as [H1 H2]. apply Z.eqb_eq in H1, H2. now subst.
  - intros H. exists (s, w). split; [exact H|]. cbn. now rewrite !Z.eqb_refl.
Qed.

(* admissible interpretations: only rooms host, only shelves are hosted *)
Definition adm (sp : pspec) (I : interp) : Prop :=
  forall r s, In (r, s) I -> In r (rooms (world sp)) /\ In s (shelf_ids (world sp)).
Lemma hard_adm sp I : hard sp I = true -> adm sp I.
Proof.
  unfold hard. intros H. apply andb_true_iff in H as [H _]. intros r s Hin.
  pose proof (forallb_In _ _ H (r, s) Hin) as E. cbn in E. apply andb_true_iff in E as [E1 E2].
  split.
  - apply existsb_exists in E1 as (y & Hy & E). apply Z.eqb_eq in E. now subst.
  - apply existsb_exists in E2 as (y & Hy & E). apply Z.eqb_eq in E. now subst.
Qed.

Lemma triples_In sp I r s w :
  In (r, (s, w)) (triples sp I) <-> In r (rooms sp) /\ In (s, w) (a_shelves sp) /\ In (r, s) I.
Proof.
  unfold triples. rewrite filter_In, in_prod_iff. cbn [fst snd]. rewrite holds_host_In. tauto.
Qed.

Lemma in_universe_room sp r : In r (rooms sp) -> In r (universe sp).
Proof. intros H. unfold universe. apply in_or_app. now left. Qed.
Lemma in_universe_shelf sp s : In s (shelf_ids sp) -> In s (universe sp).
Proof. intros H. unfold universe. apply in_or_app. right. apply in_or_app. now left. Qed.
Lemma in_universe_weight sp s w : In (s, w) (a_shelves sp) -> In w (universe sp).
Proof. intros H. unfold universe. apply in_or_app. right. apply in_or_app. right. apply in_map_iff. now exists (s, w). Qed.
Lemma shelf_id_of sp s w : In (s, w) (a_shelves sp) -> In s (shelf_ids sp).
Proof. intros H. unfold shelf_ids. apply in_map_iff. now exists (s, w). Qed.

(* ------------------------------------------------------------------ sums over sets of tuples *)
Lemma sum_map_hd (l : list tuple) : fold_right Z.add 0 (map (hd 0) l) = fold_right (fun t acc => weight_of t + acc) 0 l.
Proof. induction l as [|x r IH]; cbn; [reflexivity|]. now rewrite IH. Qed.

Lemma level_cost_agg sp I ws lvl :
  EFin (level_cost sp I ws lvl) = agg_value ASum (flat_map (wc_elements sp I) (filter (fun w => Z.eqb (w_level w) lvl) ws)).
Proof. unfold level_cost, agg_value. cbn [agg_fold]. now rewrite sum_map_hd. Qed.

(* the cost of a set of elements that is, as a set, the image of a duplicate-free list under an injective tuple function *)
Lemma cost_of_image {A} (els : list tuple) (src : list A) (f : A -> tuple) :
  NoDup src -> (forall a b, In a src -> In b src -> f a = f b -> a = b) ->
  (forall t, In t els <-> exists a, In a src /\ t = f a) ->
  agg_value ASum els = EFin (fold_right Z.add 0 (map (fun a => weight_of (f a)) src)).
Proof.
  intros ND Inj Set_.
  rewrite (agg_value_set ASum els (map f src)).
  - rewrite agg_sum_nodup.
    + f_equal. clear. induction src as [|a r IH]; cbn; [reflexivity|]. now rewrite IH.
    + clear Set_. induction src as [|a r IH]; cbn; [constructor|]. inversion ND as [|? ? Hn ND']; subst. constructor.
      * intros Hin. apply in_map_iff in Hin as (b & E & Hb). apply Hn.
        assert (b = a) by (apply Inj; [now right|now left|exact E]). now subst.
      * apply IH; [exact ND'|]. intros x y Hx Hy. apply Inj; now right.
  - intros t. rewrite Set_, in_map_iff. split; intros (a & H1 & H2); exists a; auto.
Qed.

(* ------------------------------------------------------------------ elements of the simple forms *)
Definition sgn (ng : bool) (z : Z) : Z := if ng then - z else z.

Section Elements.
  Variable sp : pspec.
  Variable I : interp.
  Hypothesis Hadm : adm sp I.
  Let W := world sp.

  (* body host(R,S) [with a comparison on R or S]; weight 1, R or S *)
  Lemma elems_rs (pre : list wlit) (ng : bool) (wt : wweight) (lvl : Z) (cond : Z -> Z -> bool) (wf : Z -> Z -> Z) :
    (forall x y e, wbody_true sp I [("R"%string, x); ("S"%string, y)] e (pre ++ [WHost "R" "S"]) =
                   if cond x y && holds_host I x y then Some e else None) ->
    (forall acc, fold_left (fun acc l => wl_vars l acc) pre acc = acc) ->
    (forall x y, match wt with WOne => Some 1 | WVarW v => sassoc v [("R"%string, x); ("S"%string, y)] end = Some (wf x y)) ->
    forall t, In t (wc_elements sp I {| w_body := pre ++ [WHost "R" "S"]; w_neg := ng; w_weight := wt; w_level := lvl; w_tuple := ["R"%string; "S"%string] |})
              <-> exists tr, In tr (filter (fun tr => cond (colval KRoom tr) (colval KShelf tr)) (triples W I)) /\
                             t = [sgn ng (wf (colval KRoom tr) (colval KShelf tr)); colval KRoom tr; colval KShelf tr].
  Proof.
    intros Hbody Hpre Hwt t. unfold wc_elements. cbn [w_body w_neg w_weight w_level w_tuple].
    assert (G : wc_globals {| w_body := pre ++ [WHost "R" "S"]; w_neg := ng; w_weight := wt; w_level := lvl; w_tuple := ["R"%string; "S"%string] |}
                = ["R"%string; "S"%string]).
    { unfold wc_globals. cbn [w_body]. rewrite fold_left_app, Hpre. reflexivity. }
    rewrite G, in_flat_map. split.
    - intros (g & Hg & Ht). apply all_bindings_in in Hg as (vals & L & HU & ->).
      destruct vals as [|x [|y [|z r]]]; try discriminate. cbn [combine] in Ht. rewrite Hbody in Ht.
      destruct (cond x y && holds_host I x y) eqn:E; [|destruct Ht].
      apply andb_true_iff in E as [Ec Eh]. apply holds_host_In in Eh. destruct (Hadm x y Eh) as [Hr Hs].
      apply in_map_iff in Hs as ([s w] & Es & Hsw). cbn in Es. subst s.
      assert (Hw : match wt with WOne => Some 1 | WVarW v => match sassoc v (@nil (string * ext)) with Some (EFin z) => Some z | Some _ => None
                                                              | None => sassoc v [("R"%string, x); ("S"%string, y)] end end = Some (wf x y)).
      { specialize (Hwt x y). destruct wt; [exact Hwt|]. cbn [sassoc assoc]. exact Hwt. }
      rewrite Hw in Ht. cbn in Ht. destruct Ht as [<-|[]].
      exists (x, (y, w)). split.
      + apply filter_In. split; [|exact Ec]. apply triples_In. repeat split; auto.
      + reflexivity.
    - intros ([r [s w]] & Hin & ->). apply filter_In in Hin as [Hin Ec]. cbn [colval fst snd] in *.
      apply triples_In in Hin as (Hr & Hs & Hh).
      exists [("R"%string, r); ("S"%string, s)]. split.
      + apply all_bindings_in. exists [r; s]. repeat split.
        intros z [<-|[<-|[]]]; [now apply in_universe_room|apply in_universe_shelf; now apply shelf_id_of with w].
      + rewrite Hbody. apply holds_host_In in Hh. rewrite Ec, Hh. cbn [andb].
        assert (Hw : match wt with WOne => Some 1 | WVarW v => match sassoc v (@nil (string * ext)) with Some (EFin z) => Some z | Some _ => None
                                                                | None => sassoc v [("R"%string, r); ("S"%string, s)] end end = Some (wf r s)).
        { specialize (Hwt r s). destruct wt; [exact Hwt|]. cbn [sassoc assoc]. exact Hwt. }
        rewrite Hw. cbn. now left.
  Qed.
End Elements.

Section Elements3.
  Variable sp : pspec.
  Variable I : interp.
  Hypothesis Hadm : adm sp I.
  Let W := world sp.
  Let g3 (x y z : Z) : binding := [("R"%string, x); ("S"%string, y); ("W"%string, z)].

  Lemma elems_rsw (pre : list wlit) (ng : bool) (wt : wweight) (lvl : Z) (cond : Z -> Z -> Z -> bool) (wf : Z -> Z -> Z -> Z) :
    (forall x y z e, wbody_true sp I (g3 x y z) e (pre ++ [WHost "R" "S"; WShelf "S" "W"]) =
                     if cond x y z && holds_host I x y && is_shelf W y z then Some e else None) ->
    (forall acc, fold_left (fun acc l => wl_vars l acc) pre acc = acc) ->
    (forall x y z, match wt with WOne => Some 1 | WVarW v => sassoc v (g3 x y z) end = Some (wf x y z)) ->
    forall t, In t (wc_elements sp I {| w_body := pre ++ [WHost "R" "S"; WShelf "S" "W"]; w_neg := ng; w_weight := wt; w_level := lvl;
                                        w_tuple := ["R"%string; "S"%string; "W"%string] |})
              <-> exists tr, In tr (filter (fun tr => cond (colval KRoom tr) (colval KShelf tr) (colval KWeight tr)) (triples W I)) /\
                             t = [sgn ng (wf (colval KRoom tr) (colval KShelf tr) (colval KWeight tr)); colval KRoom tr; colval KShelf tr; colval KWeight tr].
  Proof.
    intros Hbody Hpre Hwt t. unfold wc_elements. cbn [w_body w_neg w_weight w_level w_tuple].
    assert (G : wc_globals {| w_body := pre ++ [WHost "R" "S"; WShelf "S" "W"]; w_neg := ng; w_weight := wt; w_level := lvl;
                              w_tuple := ["R"%string; "S"%string; "W"%string] |} = ["R"%string; "S"%string; "W"%string]).
    { unfold wc_globals. cbn [w_body]. rewrite fold_left_app, Hpre. reflexivity. }
    rewrite G, in_flat_map. split.
    - intros (g & Hg & Ht). apply all_bindings_in in Hg as (vals & L & HU & ->).
      destruct vals as [|x [|y [|z [|u r]]]]; try discriminate. cbn [combine] in Ht. change (wbody_true sp I (g3 x y z) [] (pre ++ [WHost "R" "S"; WShelf "S" "W"])) with
        (wbody_true sp I (g3 x y z) [] (pre ++ [WHost "R" "S"; WShelf "S" "W"])) in Ht.
      fold (g3 x y z) in Ht. rewrite Hbody in Ht.
      destruct (cond x y z && holds_host I x y && is_shelf W y z) eqn:E; [|destruct Ht].
      apply andb_true_iff in E as [E Es]. apply andb_true_iff in E as [Ec Eh].
      apply holds_host_In in Eh. destruct (Hadm x y Eh) as [Hr _]. apply is_shelf_In in Es.
      assert (Hw : match wt with WOne => Some 1 | WVarW v => match sassoc v (@nil (string * ext)) with Some (EFin z0) => Some z0 | Some _ => None
                                                              | None => sassoc v (g3 x y z) end end = Some (wf x y z)).
      { specialize (Hwt x y z). destruct wt; [exact Hwt|]. cbn [sassoc assoc]. exact Hwt. }
      rewrite Hw in Ht. cbn in Ht. destruct Ht as [<-|[]].
      exists (x, (y, z)). split.
      + apply filter_In. split; [|exact Ec]. apply triples_In. repeat split; auto.
      + reflexivity.
    - intros ([r [s w]] & Hin & ->). apply filter_In in Hin as [Hin Ec]. cbn [colval fst snd] in *.
      apply triples_In in Hin as (Hr & Hs & Hh).
      exists (g3 r s w). split.
      + apply all_bindings_in. exists [r; s; w]. repeat split.
        intros z [<-|[<-|[<-|[]]]]; [now apply in_universe_room|apply in_universe_shelf; now apply shelf_id_of with w|now apply in_universe_weight with s].
      + rewrite Hbody. apply holds_host_In in Hh. apply is_shelf_In in Hs. fold W in Hs. rewrite Ec, Hh, Hs. cbn [andb].
        assert (Hw : match wt with WOne => Some 1 | WVarW v => match sassoc v (@nil (string * ext)) with Some (EFin z0) => Some z0 | Some _ => None
                                                                | None => sassoc v (g3 r s w) end end = Some (wf r s w)).
        { specialize (Hwt r s w). destruct wt; [exact Hwt|]. cbn [sassoc assoc]. exact Hwt. }
        rewrite Hw. cbn. now left.
  Qed.
End Elements3.

(* ------------------------------------------------------------------ duplicate-freeness of the qualifying instances *)
Lemma NoDup_app' {A} (l1 l2 : list A) : NoDup l1 -> NoDup l2 -> (forall x, In x l1 -> ~ In x l2) -> NoDup (l1 ++ l2).
Proof.
  induction l1 as [|a r IH]; cbn; intros H1 H2 D; [exact H2|]. inversion H1 as [|? ? Hn H1']; subst. constructor.
  - intros Hin. apply in_app_or in Hin as [Hin|Hin]; [now apply Hn|]. apply (D a); [now left|exact Hin].
  - apply IH; [exact H1'|exact H2|]. intros x Hx. apply D. now right.
Qed.
Lemma NoDup_prod {A B} (l1 : list A) (l2 : list B) : NoDup l1 -> NoDup l2 -> NoDup (list_prod l1 l2).
Proof.
  induction l1 as [|a r IH]; cbn; intros H1 H2; [constructor|]. inversion H1 as [|? ? Hn H1']; subst. apply NoDup_app'.
  - clear - H2. induction l2 as [|b s IH]; cbn; [constructor|]. inversion H2 as [|? ? Hn H2']; subst. constructor; [|now apply IH].
    intros Hin. apply in_map_iff in Hin as (b' & E & Hb). injection E as ->. now apply Hn.
  - now apply IH.
  - intros [x y] Hin Hin2. apply in_map_iff in Hin as (b' & E & Hb). injection E as <- <-. apply in_prod_iff in Hin2 as [Hx _]. now apply Hn.
Qed.
Lemma NoDup_filter' {A} (f : A -> bool) l : NoDup l -> NoDup (filter f l).
Proof.
  induction l as [|a r IH]; cbn; intros H; [constructor|]. inversion H as [|? ? Hn H']; subst. destruct (f a); [|now apply IH].
  constructor; [|now apply IH]. intros Hin. apply filter_In in Hin as [Hin _]. now apply Hn.
Qed.
Lemma NoDup_rooms sp : NoDup (rooms sp).
Proof.
  unfold rooms. generalize (seq_NoDup (a_rooms sp) 1). generalize (seq 1 (a_rooms sp)). intros l H.
  induction l as [|a r IH]; cbn; [constructor|]. inversion H as [|? ? Hn H']; subst. constructor; [|now apply IH].
  intros Hin. apply in_map_iff in Hin as (b & E & Hb). apply Nat2Z.inj in E. now subst.
Qed.
Lemma NoDup_of_fst {A B} (l : list (A * B)) : NoDup (map fst l) -> NoDup l.
Proof.
  induction l as [|a r IH]; cbn; intros H; [constructor|]. inversion H as [|? ? Hn H']; subst. constructor; [|now apply IH].
  intros Hin. apply Hn. apply in_map_iff. now exists a.
Qed.
Lemma fst_determines {A B} (l : list (A * B)) a b b' : NoDup (map fst l) -> In (a, b) l -> In (a, b') l -> b = b'.
Proof.
  induction l as [|[x y] r IH]; cbn; intros H H1 H2; [destruct H1|]. inversion H as [|? ? Hn H']; subst.
  destruct H1 as [E1|H1], H2 as [E2|H2].
  - congruence.
  - injection E1 as -> ->. exfalso. apply Hn. apply in_map_iff. now exists (a, b').
  - injection E2 as -> ->. exfalso. apply Hn. apply in_map_iff. now exists (a, b).
  - now apply IH.
Qed.
Lemma NoDup_triples sp I : NoDup (shelf_ids sp) -> NoDup (triples sp I).
Proof. intros H. unfold triples. apply NoDup_filter'. apply NoDup_prod; [apply NoDup_rooms|now apply NoDup_of_fst]. Qed.

Lemma sum_sgn {A} ng (h : A -> Z) l : fold_right Z.add 0 (map (fun a => sgn ng (h a)) l) = sgn ng (fold_right Z.add 0 (map h l)).
Proof. induction l as [|a r IH]; cbn [map fold_right]; [now destruct ng|]. rewrite IH. unfold sgn. destruct ng; lia. Qed.
Lemma sum_ones {A} (l : list A) : fold_right Z.add 0 (map (fun _ => 1) l) = Z.of_nat (List.length l).
Proof. induction l as [|a r IH]; cbn [map fold_right List.length]; [reflexivity|]. rewrite IH. lia. Qed.
Lemma filter_true {A} (l : list A) : filter (fun _ => true) l = l.
Proof. induction l as [|a r IH]; cbn; [reflexivity|]. now rewrite IH. Qed.

(* ------------------------------------------------------------------ cost = directed quantity, for the forms without aggregates *)
Definition simple_form (f : pform) : bool := match f with PVar _ | PClause | PCmp _ _ _ => true | _ => false end.

Section Cost.
  Variable sp : pspec.
  Variable I : interp.
  Hypothesis Hadm : adm sp I.
  Hypothesis Hids : NoDup (shelf_ids (world sp)).
  Let W := world sp.

  Lemma cost_rs w (cond : Z -> Z -> bool) (wf : Z -> Z -> Z) ng :
    (forall t, In t (wc_elements sp I w) <-> exists tr, In tr (filter (fun tr => cond (colval KRoom tr) (colval KShelf tr)) (triples W I)) /\
               t = [sgn ng (wf (colval KRoom tr) (colval KShelf tr)); colval KRoom tr; colval KShelf tr]) ->
    agg_value ASum (wc_elements sp I w) =
    EFin (sgn ng (fold_right Z.add 0 (map (fun tr => wf (colval KRoom tr) (colval KShelf tr)) (filter (fun tr => cond (colval KRoom tr) (colval KShelf tr)) (triples W I))))).
  Proof.
    intros H.
    rewrite (cost_of_image (wc_elements sp I w) (filter (fun tr => cond (colval KRoom tr) (colval KShelf tr)) (triples W I))
               (fun tr => [sgn ng (wf (colval KRoom tr) (colval KShelf tr)); colval KRoom tr; colval KShelf tr])).
    - cbn [weight_of hd]. now rewrite (sum_sgn ng (fun tr => wf (colval KRoom tr) (colval KShelf tr))).
    - apply NoDup_filter'. now apply NoDup_triples.
    - intros [r [s w1]] [r' [s' w2]] Ha Hb E. cbn [colval fst snd] in E. injection E as _ -> ->.
      apply filter_In in Ha as [Ha _]. apply filter_In in Hb as [Hb _]. apply triples_In in Ha as (_ & Ha & _). apply triples_In in Hb as (_ & Hb & _).
      now rewrite (fst_determines _ _ _ _ Hids Ha Hb).
    - exact H.
  Qed.

  Lemma cost_rsw w (cond : Z -> Z -> Z -> bool) (wf : Z -> Z -> Z -> Z) ng :
    (forall t, In t (wc_elements sp I w) <-> exists tr, In tr (filter (fun tr => cond (colval KRoom tr) (colval KShelf tr) (colval KWeight tr)) (triples W I)) /\
               t = [sgn ng (wf (colval KRoom tr) (colval KShelf tr) (colval KWeight tr)); colval KRoom tr; colval KShelf tr; colval KWeight tr]) ->
    agg_value ASum (wc_elements sp I w) =
    EFin (sgn ng (fold_right Z.add 0 (map (fun tr => wf (colval KRoom tr) (colval KShelf tr) (colval KWeight tr))
                                          (filter (fun tr => cond (colval KRoom tr) (colval KShelf tr) (colval KWeight tr)) (triples W I))))).
  Proof.
    intros H.
    rewrite (cost_of_image (wc_elements sp I w) (filter (fun tr => cond (colval KRoom tr) (colval KShelf tr) (colval KWeight tr)) (triples W I))
               (fun tr => [sgn ng (wf (colval KRoom tr) (colval KShelf tr) (colval KWeight tr)); colval KRoom tr; colval KShelf tr; colval KWeight tr])).
    - cbn [weight_of hd]. now rewrite (sum_sgn ng (fun tr => wf (colval KRoom tr) (colval KShelf tr) (colval KWeight tr))).
    - apply NoDup_filter'. now apply NoDup_triples.
    - intros [r [s w1]] [r' [s' w2]] Ha Hb E. cbn [colval fst snd] in E. now injection E as _ -> -> ->.
    - exact H.
  Qed.
End Cost.

Local Arguments op_symbol : simpl never.
Local Arguments kind_of_symbol : simpl never.
Lemma directed_sgn sp I p : directed sp I p = sgn (wants_max (pf_dir p)) (quantity sp I p).
Proof. reflexivity. Qed.

Lemma simple_cost sp I p w :
  adm sp I -> NoDup (shelf_ids (world sp)) -> simple_form (pf_form p) = true -> pf_dir p <> DAsMuch ->
  compile_pref p = Some w ->
  w_level w = rank (pf_prio p) /\ agg_value ASum (wc_elements sp I w) = EFin (directed sp I p).
Proof.
  intros Hadm Hids Hs Hd Hc. unfold compile_pref in Hc. destruct (pf_only p) eqn:Eonly; [|discriminate]. rewrite prio_level_rank, (dir_neg_wants _ Hd) in Hc.
  rewrite directed_sgn. unfold quantity, restrict. rewrite Eonly.
  destruct (pf_form p) as [f c|f|c| |c ph k]; try discriminate Hs.
  - (* PVar *)
    destruct c; injection Hc as <-; (split; [reflexivity|]).
    + rewrite (cost_rs sp I Hids _ (fun _ _ => true) (fun x _ => x) (wants_max (pf_dir p))).
      * cbn beta. now rewrite filter_true.
      * apply (elems_rs sp I Hadm [] (wants_max (pf_dir p)) (WVarW "R") (rank (pf_prio p)) (fun _ _ => true) (fun x _ => x)).
        -- intros x y e. cbn. now destruct (holds_host I x y).
        -- reflexivity.
        -- reflexivity.
    + rewrite (cost_rs sp I Hids _ (fun _ _ => true) (fun _ y => y) (wants_max (pf_dir p))).
      * cbn beta. now rewrite filter_true.
      * apply (elems_rs sp I Hadm [] (wants_max (pf_dir p)) (WVarW "S") (rank (pf_prio p)) (fun _ _ => true) (fun _ y => y)).
        -- intros x y e. cbn. now destruct (holds_host I x y).
        -- reflexivity.
        -- reflexivity.
    + rewrite (cost_rsw sp I Hids _ (fun _ _ _ => true) (fun _ _ z => z) (wants_max (pf_dir p))).
      * cbn beta. now rewrite filter_true.
      * apply (elems_rsw sp I Hadm [] (wants_max (pf_dir p)) (WVarW "W") (rank (pf_prio p)) (fun _ _ _ => true) (fun _ _ z => z)).
        -- intros x y z e. cbn. destruct (holds_host I x y); [|reflexivity]. now destruct (is_shelf (world sp) y z).
        -- reflexivity.
        -- reflexivity.
  - (* PClause *)
    injection Hc as <-. split; [reflexivity|].
    rewrite (cost_rs sp I Hids _ (fun _ _ => true) (fun _ _ => 1) (wants_max (pf_dir p))).
    + cbn beta. now rewrite filter_true, sum_ones.
    + apply (elems_rs sp I Hadm [] (wants_max (pf_dir p)) WOne (rank (pf_prio p)) (fun _ _ => true) (fun _ _ => 1)).
      * intros x y e. cbn. now destruct (holds_host I x y).
      * reflexivity.
      * reflexivity.
  - (* PCmp *)
    destruct (phrase_op ph) as [o|] eqn:Eo; [|destruct c; discriminate].
    destruct (phrase_op_kind ph o Eo) as (kd & Hk & Hn). rewrite Hn.
    unfold kind_of_op in Hk. destruct (op_symbol o) as [sym|] eqn:Es; [|discriminate].
    destruct c; injection Hc as <-; (split; [reflexivity|]).
    + rewrite (cost_rs sp I Hids _ (fun x _ => ksem kd x k) (fun _ _ => 1) (wants_max (pf_dir p))).
      * cbn beta. now rewrite sum_ones.
      * apply (elems_rs sp I Hadm [WCmp "R" o k] (wants_max (pf_dir p)) WOne (rank (pf_prio p)) (fun x _ => ksem kd x k) (fun _ _ => 1)).
        -- intros x y e. cbn. rewrite Es, Hk. destruct (ksem kd x k); [|reflexivity]. now destruct (holds_host I x y).
        -- reflexivity.
        -- reflexivity.
    + rewrite (cost_rs sp I Hids _ (fun _ y => ksem kd y k) (fun _ _ => 1) (wants_max (pf_dir p))).
      * cbn beta. now rewrite sum_ones.
      * apply (elems_rs sp I Hadm [WCmp "S" o k] (wants_max (pf_dir p)) WOne (rank (pf_prio p)) (fun _ y => ksem kd y k) (fun _ _ => 1)).
        -- intros x y e. cbn. rewrite Es, Hk. destruct (ksem kd y k); [|reflexivity]. now destruct (holds_host I x y).
        -- reflexivity.
        -- reflexivity.
    + rewrite (cost_rsw sp I Hids _ (fun _ _ z => ksem kd z k) (fun _ _ _ => 1) (wants_max (pf_dir p))).
      * cbn beta. now rewrite sum_ones.
      * apply (elems_rsw sp I Hadm [WCmp "W" o k] (wants_max (pf_dir p)) WOne (rank (pf_prio p)) (fun _ _ z => ksem kd z k) (fun _ _ _ => 1)).
        -- intros x y z e. cbn. rewrite Es, Hk. destruct (ksem kd z k); [|reflexivity]. destruct (holds_host I x y); [|reflexivity]. now destruct (is_shelf (world sp) y z).
        -- reflexivity.
        -- reflexivity.
Qed.

(* ------------------------------------------------------------------ levels are compared in the order of the priorities *)
Definition rankp (p : pref) : Z := rank (pf_prio p).

Lemma all_some_Forall2 {A B} (f : A -> option B) l ws : all_some (map f l) = Some ws -> Forall2 (fun a w => f a = Some w) l ws.
Proof.
  revert ws. induction l as [|a r IH]; cbn; intros ws H.
  - injection H as <-. constructor.
  - destruct (f a) as [b|] eqn:E; [|discriminate]. destruct (all_some (map f r)) as [bs|] eqn:E2; [|discriminate].
    injection H as <-. constructor; [exact E|]. now apply IH.
Qed.

Lemma filter_level_unique (ws : list wc) w :
  NoDup (map w_level ws) -> In w ws -> filter (fun w' => Z.eqb (w_level w') (w_level w)) ws = [w].
Proof.
  induction ws as [|a r IH]; cbn; intros ND Hin; [destruct Hin|]. inversion ND as [|? ? Hn ND']; subst.
  destruct Hin as [->|Hin].
  - rewrite Z.eqb_refl. f_equal.
    clear IH ND ND'. induction r as [|b s IHs]; cbn; [reflexivity|].
    destruct (Z.eqb_spec (w_level b) (w_level w)) as [E|E].
    + exfalso. apply Hn. cbn. now left.
    + apply IHs. intros H. apply Hn. cbn. now right.
  - destruct (Z.eqb_spec (w_level a) (w_level w)) as [E|E].
    + exfalso. apply Hn. rewrite E. apply in_map_iff. now exists w.
    + now apply IH.
Qed.

Lemma insert_desc_In p l x : In x (insert_desc p l) <-> x = p \/ In x l.
Proof.
  induction l as [|q r IH]; cbn; [intuition|].
  destruct (Z.leb (rank (pf_prio q)) (rank (pf_prio p))); cbn; [intuition|]. rewrite IH. intuition.
Qed.
Lemma by_priority_In l x : In x (by_priority l) <-> In x l.
Proof.
  unfold by_priority. induction l as [|p r IH]; cbn; [tauto|]. rewrite insert_desc_In, IH. intuition.
Qed.
Lemma insert_desc_levels p l :
  ~ In (rankp p) (map rankp l) -> map rankp (insert_desc p l) = insert_z_desc (rankp p) (map rankp l).
Proof.
  induction l as [|q r IH]; cbn; intros Hn; [reflexivity|]. fold (rankp q). fold (rankp p).
  destruct (Z.eqb_spec (rankp q) (rankp p)) as [E|E]; [exfalso; apply Hn; now left|].
  destruct (Z.leb_spec (rankp q) (rankp p)) as [L|L], (Z.ltb_spec (rankp q) (rankp p)) as [L'|L']; try lia.
  - reflexivity.
  - cbn. f_equal. apply IH. intros H. apply Hn. now right.
Qed.
Lemma by_priority_levels l :
  NoDup (map rankp l) -> map rankp (by_priority l) = fold_right insert_z_desc [] (map rankp l).
Proof.
  unfold by_priority. induction l as [|p r IH]; cbn; intros ND; [reflexivity|]. inversion ND as [|? ? Hn ND']; subst.
  rewrite insert_desc_levels.
  - now rewrite IH.
  - intros H. apply Hn. apply in_map_iff in H as (x & E & Hx). apply in_map_iff. exists x. split; [exact E|].
    apply (proj1 (by_priority_In r x)). exact Hx.
Qed.

Lemma better_agree sp ws J I (ps : list pref) :
  (forall p, In p ps -> level_cost sp J ws (rankp p) = directed sp J p /\ level_cost sp I ws (rankp p) = directed sp I p) ->
  cost_better sp ws J I (map rankp ps) = lex_better sp J I ps.
Proof.
  induction ps as [|p r IH]; cbn [map cost_better lex_better]; intros H; [reflexivity|].
  destruct (H p (or_introl eq_refl)) as [-> ->]. rewrite IH; [reflexivity|]. intros q Hq. apply H. now right.
Qed.

Lemma forallb_ext_in' {A} (f g : A -> bool) l : (forall x, In x l -> f x = g x) -> forallb f l = forallb g l.
Proof. induction l as [|a r IH]; cbn; intros H; [reflexivity|]. rewrite H by now left. f_equal. apply IH. intros x Hx. apply H. now right. Qed.

(* ====================================================================== the two forms with an aggregate *)
Lemma fn_tables f : exists op sym, fn_op f = Some op /\ assoc aggop_eqb op asp_aggregate_symbols = Some sym /\ fn_of_symbol sym = Some f.
Proof. destruct f; vm_compute; eexists _, _; repeat split; reflexivity. Qed.

Lemma all_bindings_one v U : all_bindings [v] U = map (fun x => [(v, x)]) U.
Proof. cbn [all_bindings]. induction U as [|x r IH]; [reflexivity|]. cbn in *. now rewrite IH. Qed.

Section AggForms.
  Variable sp : pspec.
  Variable I : interp.
  Hypothesis Hadm : adm sp I.
  Let W := world sp.

  (* #f{D: host(D,_)} / #f{D: host(_,D)} *)
  Lemma agg_all_eval op sym f (c : col) :
    assoc aggop_eqb op asp_aggregate_symbols = Some sym -> fn_of_symbol sym = Some f -> c <> KWeight ->
    agg_eval W I [] {| t_op := op; t_atom_tuple := false; t_tuple := [TV "#d"];
                       t_conds := [match c with KRoom => CHost (TV "#d") TAnon | _ => CHost TAnon (TV "#d") end] |}
    = Some (agg_value f (map (fun t => [colval c t]) (triples W I))).
  Proof.
    intros Hs Hf Hc. unfold agg_eval. cbn [t_op]. rewrite Hs, Hf. f_equal.
    assert (L : filter (fun v => match sassoc v (@nil (string * Z)) with Some _ => false | None => true end)
                       (agg_vars {| t_op := op; t_atom_tuple := false; t_tuple := [TV "#d"];
                                    t_conds := [match c with KRoom => CHost (TV "#d") TAnon | _ => CHost TAnon (TV "#d") end] |}) = ["#d"%string]).
    { destruct c; reflexivity. }
    cbn [t_conds t_tuple]. rewrite L, all_bindings_one. apply agg_value_set. intros t.
    rewrite !in_map_iff. split.
    - intros (l & <- & Hl). apply filter_In in Hl as [Hl Hsat]. apply in_map_iff in Hl as (x & <- & Hx).
      destruct c; try (now contradiction Hc); cbn in Hsat; rewrite andb_true_r in Hsat; apply existsb_exists in Hsat as ([r s] & Hin & E); cbn in E;
        apply Z.eqb_eq in E; destruct (Hadm r s Hin) as [Hr Hs']; apply in_map_iff in Hs' as ([s' w] & Es & Hsw); cbn in Es; subst s'.
      + subst x. exists (r, (s, w)). split; [reflexivity|]. apply triples_In. repeat split; auto.
      + subst x. exists (r, (s, w)). split; [reflexivity|]. apply triples_In. repeat split; auto.
    - intros ([r [s w]] & <- & Hin). apply triples_In in Hin as (Hr & Hs' & Hh).
      destruct c; try (now contradiction Hc); cbn [colval fst snd].
      + exists [("#d"%string, r)]. split; [reflexivity|]. apply filter_In. split.
        * apply in_map_iff. exists r. split; [reflexivity|]. now apply in_universe_room.
        * cbn. rewrite andb_true_r. apply existsb_exists. exists (r, s). split; [exact Hh|]. cbn. apply Z.eqb_refl.
      + exists [("#d"%string, s)]. split; [reflexivity|]. apply filter_In. split.
        * apply in_map_iff. exists s. split; [reflexivity|]. apply in_universe_shelf. now apply shelf_id_of with w.
        * cbn. rewrite andb_true_r. apply existsb_exists. exists (r, s). split; [exact Hh|]. cbn. apply Z.eqb_refl.
  Qed.

  (* #f{D: host(R,D)} with R bound to a room *)
  Lemma agg_room_eval op sym f r :
    assoc aggop_eqb op asp_aggregate_symbols = Some sym -> fn_of_symbol sym = Some f ->
    agg_eval W I [("R"%string, r)] {| t_op := op; t_atom_tuple := false; t_tuple := [TV "#d"]; t_conds := [CHost (TV "R") (TV "#d")] |}
    = Some (agg_value f (map (fun t => [colval KShelf t]) (filter (fun t => Z.eqb (colval KRoom t) r) (triples W I)))).
  Proof.
    intros Hs Hf. unfold agg_eval. cbn [t_op]. rewrite Hs, Hf. f_equal.
    change (filter _ (agg_vars _)) with ["#d"%string]. rewrite all_bindings_one. cbn [t_conds t_tuple]. apply agg_value_set. intros t.
    rewrite !in_map_iff. split.
    - intros (l & <- & Hl). apply filter_In in Hl as [Hl Hsat]. apply in_map_iff in Hl as (x & <- & Hx).
      cbn in Hsat. rewrite andb_true_r in Hsat. apply holds_host_In in Hsat. destruct (Hadm r x Hsat) as [Hr Hs'].
      apply in_map_iff in Hs' as ([s' w] & Es & Hsw). cbn in Es. subst s'.
      exists (r, (x, w)). split; [reflexivity|]. apply filter_In. split; [|cbn; apply Z.eqb_refl]. apply triples_In. repeat split; auto.
    - intros ([r' [s w]] & <- & Hin). apply filter_In in Hin as [Hin Er]. cbn [colval fst snd] in Er. apply Z.eqb_eq in Er. subst r'.
      apply triples_In in Hin as (Hr & Hs' & Hh). cbn [colval fst snd].
      exists [("#d"%string, s)]. split; [reflexivity|]. apply filter_In. split.
      + apply in_map_iff. exists s. split; [reflexivity|]. apply in_universe_shelf. now apply shelf_id_of with w.
      + cbn. rewrite andb_true_r. now apply holds_host_In.
  Qed.
End AggForms.

Lemma sgn0 ng : sgn ng 0 = 0. Proof. now destruct ng. Qed.
Lemma agg_sum_single z : agg_value ASum [[z]] = EFin z.
Proof. unfold agg_value. cbn. f_equal. lia. Qed.

Definition form_ok (f : pform) : bool := match f with PAggAll _ KWeight => false | _ => true end.

Lemma sum_filter_zero {A} (h : A -> Z) (keep : A -> bool) l :
  (forall a, keep a = false -> h a = 0) -> fold_right Z.add 0 (map h (filter keep l)) = fold_right Z.add 0 (map h l).
Proof.
  intros H. induction l as [|a r IH]; cbn; [reflexivity|]. destruct (keep a) eqn:E; cbn; rewrite IH; [reflexivity|]. rewrite (H a E). lia.
Qed.

Lemma agg_all_cost sp I p w f c :
  adm sp I -> pf_form p = PAggAll f c -> c <> KWeight -> pf_dir p <> DAsMuch -> compile_pref p = Some w ->
  w_level w = rank (pf_prio p) /\ agg_value ASum (wc_elements sp I w) = EFin (directed sp I p).
Proof.
  intros Hadm Hf Hc Hd Hw. unfold compile_pref in Hw. destruct (pf_only p) eqn:Eonly; [|discriminate]. rewrite prio_level_rank, (dir_neg_wants _ Hd), Hf in Hw.
  destruct (fn_tables f) as (op & sym & Hop & Hsym & Hfn). rewrite Hop in Hw. injection Hw as <-. split; [reflexivity|].
  rewrite directed_sgn. unfold quantity, restrict. rewrite Eonly, Hf.
  unfold wc_elements. cbn [w_body w_neg w_weight w_level w_tuple]. change (wc_globals _) with (@nil string).
  cbn [all_bindings flat_map wbody_true].
  pose proof (agg_all_eval sp I Hadm op sym f c Hsym Hfn Hc) as E. cbv zeta in E. rewrite E.
  cbn [wbody_true sassoc assoc String.eqb Ascii.eqb Bool.eqb map app].
  destruct (agg_value f (map (fun t => [colval c t]) (triples (world sp) I))) as [|z|]; cbn [fin app].
  - now rewrite sgn0.
  - apply agg_sum_single.
  - now rewrite sgn0.
Qed.

Section PerRoom.
  Variable sp : pspec.
  Variable I : interp.
  Hypothesis Hadm : adm sp I.
  Let W := world sp.
  Variables (op : aggop) (sym : string) (f : aggfn) (ng : bool) (lvl : Z).
  Hypothesis Hsym : assoc aggop_eqb op asp_aggregate_symbols = Some sym.
  Hypothesis Hfn : fn_of_symbol sym = Some f.
  Let a : aggt := {| t_op := op; t_atom_tuple := false; t_tuple := [TV "#d"]; t_conds := [CHost (TV "R") (TV "#d")] |}.
  Let w : wc := {| w_body := [WRoom "R"; WAgg a "#r"]; w_neg := ng; w_weight := WVarW "#r"; w_level := lvl; w_tuple := ["R"%string] |}.
  Let val (r : Z) : ext := agg_value f (map (fun t => [colval KShelf t]) (filter (fun t => Z.eqb (colval KRoom t) r) (triples W I))).
  Let is_fin (e : ext) : bool := match e with EFin _ => true | _ => false end.

  Lemma per_room_elements t :
    In t (wc_elements sp I w) <-> exists r, In r (filter (fun r => is_fin (val r)) (rooms W)) /\ t = [sgn ng (fin (val r)); r].
  Proof.
    unfold wc_elements. change (wc_globals w) with ["R"%string]. rewrite all_bindings_one, in_flat_map. split.
    - intros (g & Hg & Ht). apply in_map_iff in Hg as (x & <- & Hx). cbn [w w_body wbody_true sassoc assoc String.eqb Ascii.eqb Bool.eqb] in Ht.
      destruct (is_room (world sp) x) eqn:Er; [|destruct Ht].
      pose proof (agg_room_eval sp I Hadm op sym f x Hsym Hfn) as E. cbv zeta in E. fold a in E. rewrite E in Ht. fold W in Ht. fold (val x) in Ht.
      cbn [wbody_true w_weight w_neg w_tuple sassoc assoc String.eqb Ascii.eqb Bool.eqb map] in Ht.
      destruct (val x) as [|z|] eqn:Ev; try (destruct Ht; fail). cbn in Ht. destruct Ht as [<-|[]].
      exists x. split.
      + apply filter_In. split; [now apply existsb_eqb_In in Er|]. unfold is_fin. now rewrite Ev.
      + now rewrite Ev.
    - intros (r & Hr & ->). apply filter_In in Hr as [Hr Hfin]. exists [("R"%string, r)]. split.
      + apply in_map_iff. exists r. split; [reflexivity|]. now apply in_universe_room.
      + cbn [w w_body wbody_true sassoc assoc String.eqb Ascii.eqb Bool.eqb].
        assert (Er : is_room (world sp) r = true) by now apply existsb_eqb_In.
        rewrite Er. pose proof (agg_room_eval sp I Hadm op sym f r Hsym Hfn) as E. cbv zeta in E. fold a in E. rewrite E. fold W. fold (val r).
        cbn [wbody_true w_weight w_neg w_tuple sassoc assoc String.eqb Ascii.eqb Bool.eqb map].
        unfold is_fin in Hfin. destruct (val r) as [|z|]; try discriminate. cbn. now left.
  Qed.

  Lemma per_room_cost :
    agg_value ASum (wc_elements sp I w) = EFin (sgn ng (fold_right Z.add 0 (map (fun r => fin (val r)) (rooms W)))).
  Proof.
    rewrite (cost_of_image (wc_elements sp I w) (filter (fun r => is_fin (val r)) (rooms W)) (fun r => [sgn ng (fin (val r)); r])).
    - cbn [weight_of hd]. rewrite (sum_sgn ng (fun r => fin (val r))). f_equal. f_equal.
      apply sum_filter_zero. intros r Hr. unfold is_fin in Hr. now destruct (val r).
    - apply NoDup_filter'. apply NoDup_rooms.
    - intros x y _ _ E. now injection E.
    - exact per_room_elements.
  Qed.
End PerRoom.

Lemma agg_room_cost sp I p w f :
  adm sp I -> pf_form p = PAggPerRoom f -> pf_dir p <> DAsMuch -> compile_pref p = Some w ->
  w_level w = rank (pf_prio p) /\ agg_value ASum (wc_elements sp I w) = EFin (directed sp I p).
Proof.
  intros Hadm Hf Hd Hw. unfold compile_pref in Hw. destruct (pf_only p) eqn:Eonly; [|discriminate]. rewrite prio_level_rank, (dir_neg_wants _ Hd), Hf in Hw.
  destruct (fn_tables f) as (op & sym & Hop & Hsym & Hfn). rewrite Hop in Hw. injection Hw as <-. split; [reflexivity|].
  rewrite directed_sgn. unfold quantity, restrict. rewrite Eonly, Hf.
  exact (per_room_cost sp I Hadm op sym f (wants_max (pf_dir p)) (rank (pf_prio p)) Hsym Hfn).
Qed.

(* every form *)
Lemma pref_cost sp I p w :
  adm sp I -> NoDup (shelf_ids (world sp)) -> form_ok (pf_form p) = true -> pf_dir p <> DAsMuch -> compile_pref p = Some w ->
  w_level w = rank (pf_prio p) /\ agg_value ASum (wc_elements sp I w) = EFin (directed sp I p).
Proof.
  intros Hadm Hids Hok Hd Hw. destruct (pf_form p) as [f c|f|c| |c ph k] eqn:Ef.
  - apply (agg_all_cost sp I p w f c); auto. intros ->. discriminate Hok.
  - apply (agg_room_cost sp I p w f); auto.
  - apply simple_cost; auto. now rewrite Ef.
  - apply simple_cost; auto. now rewrite Ef.
  - apply simple_cost; auto. now rewrite Ef.
Qed.

(* ------------------------------------------------------------------ the theorem *)
Definition wf_pspec (sp : pspec) : Prop :=
  NoDup (shelf_ids (world sp)) /\ NoDup (map rankp (p_prefs sp)) /\
  (forall p, In p (p_prefs sp) -> form_ok (pf_form p) = true /\ pf_dir p <> DAsMuch).

Theorem wc_optimal_is_reading_optimal sp ws space I :
  wf_pspec sp -> compile_prefs sp = Some ws -> wc_optimal_in sp ws space I = optimal_in sp space I.
Proof.
  intros (Hids & Hranks & Hsimple) Hc. unfold wc_optimal_in, optimal_in.
  destruct (hard sp I) eqn:HI; [|reflexivity]. cbn [andb].
  apply all_some_Forall2 in Hc.
  (* levels of the weak constraints = ranks of the preferences, in the same order *)
  assert (Hlv : map w_level ws = map rankp (p_prefs sp)).
  { clear - Hc Hsimple. revert Hsimple. induction Hc as [|p w ps ws' Hpw Hrest IH]; intros Hs; [reflexivity|]. cbn. f_equal.
    - unfold compile_pref in Hpw. destruct (pf_only p); [|discriminate]. rewrite prio_level_rank in Hpw. destruct (dir_neg (pf_dir p)); [|discriminate].
      destruct (pf_form p) as [f c|f|c| |c ph k]; try (destruct (fn_op f); [|discriminate]); try (destruct (phrase_op ph); [|discriminate]);
        injection Hpw as <-; reflexivity.
    - apply IH. intros q Hq. apply Hs. now right. }
  (* cost at the level of a preference = its directed quantity, on admissible interpretations *)
  assert (Hcost : forall K, hard sp K = true -> forall p, In p (p_prefs sp) -> level_cost sp K ws (rankp p) = directed sp K p).
  { intros K HK p Hp. pose proof (hard_adm sp K HK) as Hadm.
    assert (Hw : exists w, In w ws /\ compile_pref p = Some w).
    { clear - Hc Hp. induction Hc as [|q w ps ws' Hqw Hrest IH]; [destruct Hp|]. destruct Hp as [->|Hp].
      - exists w. split; [now left|exact Hqw].
      - destruct (IH Hp) as (w' & Hin & E). exists w'. split; [now right|exact E]. }
    destruct Hw as (w & Hin & Ew). destruct (Hsimple p Hp) as [Hs Hd].
    destruct (pref_cost sp K p w Hadm Hids Hs Hd Ew) as [Hl Hq].
    assert (E : EFin (level_cost sp K ws (rankp p)) = EFin (directed sp K p)).
    { rewrite level_cost_agg. unfold rankp. rewrite <- Hl. rewrite filter_level_unique; [|now rewrite Hlv|exact Hin].
      cbn [flat_map]. now rewrite app_nil_r. }
    now injection E. }
  assert (Hlevels : levels_desc ws = map rankp (by_priority (p_prefs sp))).
  { unfold levels_desc. rewrite Hlv. symmetry. now apply by_priority_levels. }
  rewrite Hlevels. apply forallb_ext_in'. intros J _.
  destruct (hard sp J) eqn:HJ; [|reflexivity]. cbn [andb]. f_equal.
  apply better_agree. intros p Hp. apply (proj1 (by_priority_In _ _)) in Hp. split; apply Hcost; assumption.
Qed.

