"""clingo / telingo runners (external solvers; their semantics is what the properties refer to)."""
import os
import subprocess
import tempfile
import clingo

PY = '/venv/bin/python'


class SolveError(Exception):
    pass


def answer_sets(program, limit=0, project=None):
    msgs = []
    ctl = clingo.Control(['--models=%d' % limit, '--warn=none'], logger=lambda c, m: msgs.append((str(c), m)))
    try:
        ctl.add('base', [], program)
        ctl.ground([('base', [])])
    except RuntimeError as e:
        raise SolveError('%s | %s' % (e, msgs))
    models = []

    def on_model(m):
        atoms = [str(a) for a in m.symbols(atoms=True)]
        if project is not None:
            atoms = [a for a in atoms if a.split('(')[0] in project]
        models.append(frozenset(atoms))
    ctl.solve(on_model=on_model)
    return models


def ground_messages(program):
    """-> (ok, messages) : parse + ground only."""
    msgs = []
    ctl = clingo.Control(['--warn=none'], logger=lambda c, m: msgs.append((str(c), m)))
    try:
        ctl.add('base', [], program)
        ctl.ground([('base', [])])
        return True, msgs
    except RuntimeError as e:
        return False, msgs + [('exception', str(e))]


def optimal_sets(program):
    """All optimal answer sets (optN, optimality proven)."""
    ctl = clingo.Control(['--models=0', '--opt-mode=optN', '--warn=none'])
    ctl.add('base', [], program)
    ctl.ground([('base', [])])
    models = []

    def on_model(m):
        if m.optimality_proven or len(m.cost) == 0:      # no ground weak constraint: every answer set is optimal
            models.append((frozenset(str(a) for a in m.symbols(atoms=True)), tuple(m.cost)))
    ctl.solve(on_model=on_model)
    return models


def telingo_models(program, horizon, timeout=120):
    """All traces of exactly `horizon` states: list of list(frozenset(atom strings)) ; None if telingo fails."""
    with tempfile.NamedTemporaryFile('w', suffix='.lp', delete=False, dir=os.environ.get('VERIF_WORK', None)) as f:
        f.write(program)
        path = f.name
    try:
        p = subprocess.run([PY, '-m', 'telingo', path, '--imin=%d' % horizon, '--imax=%d' % horizon, '0', '--verbose=0',
                            '--warn=none'], stdout=subprocess.PIPE, stderr=subprocess.PIPE, text=True, timeout=timeout)
    finally:
        os.unlink(path)
    if p.returncode not in (10, 20, 30):
        return None, p.stdout + p.stderr
    out = p.stdout
    traces = []
    cur = None
    for line in out.splitlines():
        line = line.strip()
        if line.startswith('Answer:'):
            cur = []
            traces.append(cur)
        elif line.startswith('State '):
            if cur is not None:
                cur.append(set())
        elif line in ('SATISFIABLE', 'UNSATISFIABLE', 'OPTIMUM FOUND') or not line:
            continue
        elif cur is not None and cur:
            for a in line.split():
                cur[-1].add(a)
    return [[frozenset(s) for s in t] for t in traces], p.stdout + p.stderr
