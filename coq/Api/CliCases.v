Require Import Coq.Strings.String Coq.Lists.List Coq.Bool.Bool Coq.ZArith.ZArith.
Require Import Cnl2aspV.Api.Cli.
Import ListNotations.
Record pecase := { pe_char : string; pe_line_no : Z; pe_col : Z; pe_context : string; pe_line : string; pe_allowed : list string; pe_text : string }.
Definition pecase_ok (c : pecase) : bool :=
  String.eqb (parser_error_text (pe_char c) (pe_line_no c) (pe_col c) (pe_context c) (pe_line c) (pe_allowed c)) (pe_text c).
Record wcase := { w_line : string; w_index : nat; w_word : string }.
Definition wcase_ok (c : wcase) : bool := String.eqb (get_unrecognized_word (w_line c) (w_index c)) (w_word c).
