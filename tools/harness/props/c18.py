"""C18 -- the command line never crashes and never leaves a partial result."""
import os
import random
import shutil
import subprocess
import tempfile
from concurrent.futures import ThreadPoolExecutor

import common
import corpus
import impl
import translate
from common import Report, coq_str, coq_list, coq_z

PID = 'C18'
PRE = 'Require Import Cnl2aspV.Api.Cli Cnl2aspV.Api.CliCases.'
MAIN = os.path.join(common.REPO, 'src', 'main.py')


def lark_first_error(text):
    """(line, column) at which Lark itself (called as parse_input does) stops, or None"""
    from lark import UnexpectedCharacters
    from cnl2asp.cnl2asp import Cnl2asp
    from cnl2asp.specification.signaturemanager import SignatureManager
    SignatureManager.signatures = []
    try:
        Cnl2asp(text).parse_input()
    except UnexpectedCharacters as e:
        return (e.line, e.column)
    except Exception:
        return 'other'
    finally:
        SignatureManager.signatures = []
    return None


def damage(rnd, text, tier):
    out = []
    n = len(text)
    k = 14 if tier == 'thorough' else 3
    for _ in range(k):
        pos = rnd.randrange(n + 1)
        kind = rnd.choice(['ins', 'del', 'sub', 'trunc', 'tokdel', 'tokins', 'ctl'])
        if kind == 'ctl':
            # a character that str.splitlines() takes for a line boundary although the parser counts lines by '\n' only (form feed is
            # white space for the grammar), followed somewhere later by a stray character
            t = text[:pos] + rnd.choice('\x0c\x0c\x0b\x1c\x85\u2028\r') + text[pos:]
            pos2 = rnd.randrange(pos, len(t) + 1)
            t = t[:pos2] + rnd.choice('$#@') + t[pos2:]
        elif kind == 'ins':
            t = text[:pos] + rnd.choice('$#@x, .:"9') + text[pos:]
        elif kind == 'del' and n:
            t = text[:pos] + text[pos + 1:]
        elif kind == 'sub' and n:
            t = text[:pos] + rnd.choice('$#@q .Z') + text[pos + 1:]
        elif kind == 'trunc':
            t = text[:pos]
        else:
            words = text.split(' ')
            i = rnd.randrange(len(words))
            if kind == 'tokdel':
                del words[i]
            else:
                words.insert(i, rnd.choice(['is', 'whenever', 'a', 'node', 'X', 'then', '$$', 'not']))
            t = ' '.join(words)
        out.append((kind, t))
    # a block comment (several lines, or inline before the rest of a line) ahead of a stray character: the diagnostic must still be built
    # from the line and column of the FILE (positions in a text the comments were removed from are other positions)
    for _ in range(2 if tier == 'thorough' else 1):
        starts = [0] + [i + 1 for i, c in enumerate(text) if c == '\n' and i + 1 < n]
        pos = rnd.choice(starts)
        cmt = rnd.choice(['/* header\n   of several\n   lines */\n', '/* note */ ', '/* a\n b */ '])
        t = text[:pos] + cmt + text[pos:]
        pos2 = rnd.randrange(pos + len(cmt), len(t) + 1)
        out.append(('cmt', t[:pos2] + rnd.choice('$#@') + t[pos2:]))
    return out


def run_cli(work, idx, text, flags, with_out):
    d = os.path.join(work, 'c%d' % idx)
    os.makedirs(d, exist_ok=True)
    inp = os.path.join(d, 'in.cnl')
    with open(inp, 'w') as f:
        f.write(text)
    args = [common.PY, MAIN] + flags + [inp]
    outp = os.path.join(d, 'out.lp')
    if with_out:
        args.append(outp)
    env = dict(os.environ, PYTHONHASHSEED='0')
    env.pop('PYTHONPATH', None)
    p = subprocess.run(args, stdout=subprocess.PIPE, stderr=subprocess.PIPE, text=True, timeout=600, env=env, cwd=d)
    exists = os.path.exists(outp)
    content = open(outp).read() if exists else None
    shutil.rmtree(d, ignore_errors=True)
    return p.returncode, p.stdout, p.stderr, exists, content


def run(tier, seed):
    rep = Report(PID, tier, seed)
    rnd = random.Random(seed)
    tie_ok, tout = translate.run(['tables', 'main'])
    proof = common.build_property(PID, extra=['Api/CliCases.vo'])
    work = tempfile.mkdtemp(prefix='c18_', dir=common.WORK)
    small = [(n, t) for n, t in corpus.load() if len(t) < 900 and all(ord(c) < 128 for c in t)]
    rnd.shuffle(small)
    base = small[:60 if tier == 'thorough' else 14]
    jobs = []
    for name, text in base:
        jobs.append((name, 'valid', text))
        for kind, t in damage(rnd, text, tier):
            jobs.append((name, kind, t))
    for t in ['', '\n', '$', 'A node', 'A node is identified by an id', 'abc def ghi.', '....', 'It is prohibited that', '"', '/* x', 'A node goes from 1 to 3.\n$',
              'A node goes from 1 to 3.\nThere is a colour with id 2.\n', 'x' * 300, 'A node goes from 1 to 3. $ more']:
        jobs.append(('handwritten', 'arbitrary', t))
    FLAGSETS = [[], [], [], ['-c'], ['--symbols'], ['-p'], ['--cnl2json']]
    plan = []
    for i, (name, kind, text) in enumerate(jobs):
        flags = rnd.choice(FLAGSETS)
        with_out = (not flags or flags == ['-p']) and rnd.random() < 0.5
        plan.append((i, name, kind, text, flags, with_out))
    with ThreadPoolExecutor(max_workers=16) as ex:
        res = list(ex.map(lambda p: run_cli(work, p[0], p[3], p[4], p[5]), plan))
    shutil.rmtree(work, ignore_errors=True)
    dist = {}
    for (i, name, kind, text, flags, with_out), (rc, out, err, exists, content) in zip(plan, res):
        rep.case((text, tuple(flags), with_out))
        dist[kind] = dist.get(kind, 0) + 1
        info = dict(input=text, args=flags + (['<output file>'] if with_out else []), exit_status=rc, stdout=out[-1500:], stderr=err[-1500:])
        if rc != 0 or 'Traceback' in err or 'Traceback' in out:
            rep.violation('the command line ended with an uncaught exception', info)
            continue
        is_diag = out.startswith('Parser error') or 'Compilation error' in out or 'Error in asp conversion' in out or 'Error trying to process rule' in out
        if is_diag and exists:
            rep.violation('a diagnostic was printed but an output file was written', dict(info, output_file=content))
            continue
        if with_out and not is_diag and not exists:
            rep.violation('no diagnostic and no output file', info)
            continue
        if out.startswith('Parser error'):
            pos = lark_first_error(text.replace('\r\n', '\n').replace('\r', '\n'))      # (the command line reads the file with universal newlines)
            cited = None
            import re
            m = re.match(r'Parser error at line (\d+), col (\d+)\.', out)
            if m:
                cited = (int(m.group(1)), int(m.group(2)))
            if isinstance(pos, tuple) and cited != pos:
                rep.violation('the parser diagnostic cites %r but the grammar first fails at %r' % (cited, pos), info)
    rep.sample(dict(input=plan[0][3][:300], args=plan[0][4]))
    rep.sample(dict(input=plan[len(plan) // 2][3][:300], args=plan[len(plan) // 2][4], stdout=res[len(plan) // 2][1][:300]))

    # function-level correspondence of the diagnostic text
    from cnl2asp.exception.cnl2asp_exceptions import ParserError
    pecases, wcases, pem = [], [], []
    allowed_pool = ['_CNL_WHENEVER', 'SPACE', 'STRING', 'PARAMETER_NAME', 'VARIABLE', '_CNL_COMMA', 'END_OF_LINE', 'NUMBER']
    words = ['node', 'is', 'with', 'X', 'whenever', 'a', '$', 'colour', 'and', 'id', 'to', '']
    for _ in range(400 if tier == 'thorough' else 120):
        line = ' '.join(rnd.choice(words) for _ in range(rnd.randint(0, 6)))
        if rnd.random() < 0.2:
            line = ' ' * rnd.randint(0, 2) + line + ' ' * rnd.randint(0, 2)
        if not line:
            line = rnd.choice(['$', 'x', ' '])
        col = rnd.randint(1, len(line))
        allowed = rnd.sample(allowed_pool, rnd.randint(0, 4))
        ch = line[col - 1]
        ctx = line[max(0, col - 5):col + 5] + '\n' + ' ' * 4 + '^\n'
        ln = rnd.randint(1, 40)
        try:
            txt = str(ParserError(ch, ln, col, ctx, line, allowed))
        except Exception as ex:      # the diagnostic itself must not fail (property: the outcome is the diagnostic, never a traceback)
            if not any(v[0].startswith('building the syntax diagnostic') for v in rep.violations):
                rep.violation('building the syntax diagnostic for a stray character raises %s: %s' % (type(ex).__name__, ex),
                              dict(line=line, col=col, char=ch, allowed=allowed, exception=type(ex).__name__))
            continue
        pecases.append('{| pe_char := %s; pe_line_no := %s; pe_col := %s; pe_context := %s; pe_line := %s; pe_allowed := %s; pe_text := %s |}'
                       % (coq_str(ch), coq_z(ln), coq_z(col), coq_str(ctx), coq_str(line), coq_list([coq_str(a) for a in allowed]), coq_str(txt)))
        pem.append(dict(line=line, col=col, allowed=allowed))
        idx = rnd.randint(0, len(line) - 1)
        try:
            e = ParserError('x', 1, 1, '', 'x ', [])
            word = e.get_uncrecognized_word(line, idx)
        except Exception as ex:
            if not any(v[0].startswith('get_uncrecognized_word raises') for v in rep.violations):
                rep.violation('get_uncrecognized_word raises %s on an index inside the line' % type(ex).__name__, dict(line=line, index=idx))
            continue
        wcases.append('{| w_line := %s; w_index := %d; w_word := %s |}' % (coq_str(line), idx, coq_str(word)))
    rep.evaluations += len(pecases) + len(wcases)
    tie_broken = []
    if not tie_ok:
        tie_broken.append('translator failed closed: ' + tout[-600:])
    if proof['ok'] or proof['extra_ok']:
        f1 = common.run_cases(PID, 'pe', PRE, pecases, 'pecase_ok', shard=500)
        f2 = common.run_cases(PID, 'wd', PRE, wcases, 'wcase_ok', shard=500)
        if f1:
            tie_broken.append('ParserError text model differs on %d cases, first: %r' % (len(f1), pem[f1[0]]))
        if f2:
            tie_broken.append('get_uncrecognized_word model differs on %d cases, first: %r' % (len(f2), wcases[f2[0]]))
    if not proof['ok']:
        tie_broken.append('theorem file does not build (main skeleton no longer satisfies the guard, or a proof broke): %s' % proof['failed_at'])
    if proof['bad']:
        tie_broken.append('forbidden tokens: %r' % proof['bad'])
    if tie_broken and not rep.violations:
        rep.violation('proof obligation or correspondence no longer checks and no failing input was found: ' + ' | '.join(tie_broken),
                      dict(kind='broken-tie', theorem='Props/C18.v: C18_main_total / C18_no_partial_output over Gen/MainSkeleton.v', details=tie_broken,
                           searched='%d command-line runs (valid, damaged, arbitrary inputs x flags x output file)' % len(plan)), no_input=True)
    elif tie_broken:
        rep.notes.extend(tie_broken)
    rep.cov.update(cli_runs=len(plan), distribution=dist, diagnostic_text_cases=len(pecases))
    rep.assumptions += ['argparse, the interpreter exit path and file-system errors are not modelled',
                        "sites classified KAssumed in Gen/MainSkeleton.v (Lark: e.get_context; the line index e.line-1 into the text split at newlines, which has as many lines as the parser counted) are assumed not to raise",
                        '-o/--optimize (needs the absent package ngo) and --debug are outside the theorem (fixed false)']
    return rep.finish(proof, rule='corpus texts (short ones) valid and damaged by character/token insertion, deletion, substitution, truncation at random positions, '
                                  'plus hand-written arbitrary texts; each with random flags (-c, --symbols, -p, --cnl2json) and optional output file; distinct by (text, flags)')
