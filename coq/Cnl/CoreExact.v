(* The hypothesis "I holds exactly the declared values of the declared concepts" of Cnl/CoreStable.v follows from either side
   (stability, or the reading) when concept names contain no '(' and are pairwise different: the theorem then speaks of EVERY
   interpretation. *)
Require Import Coq.Strings.String Coq.Strings.Ascii Coq.Lists.List Coq.Bool.Bool Coq.ZArith.ZArith Coq.Arith.Arith Lia.
Require Import Cnl2aspV.Base.Util Cnl2aspV.Base.Str Cnl2aspV.Asp.Ground Cnl2aspV.Cnl.Comparison Cnl2aspV.Cnl.Core Cnl2aspV.Cnl.CoreProofs Cnl2aspV.Cnl.CoreDef
               Cnl2aspV.Cnl.CoreChoice Cnl2aspV.Cnl.CoreChoiceEach Cnl2aspV.Cnl.CoreWhere Cnl2aspV.Cnl.CoreProgram Cnl2aspV.Cnl.CoreSupport Cnl2aspV.Cnl.CoreStable.
Import ListNotations.
Open Scope string_scope.

(* a name without '(' is determined by the text up to the first '(' *)
Definition no_paren (n : string) : bool := sforall (fun c => negb (Ascii.eqb c "(")) n.
Lemma name_prefix_inj a : forall b r r', no_paren a = true -> no_paren b = true -> a ++ String "(" r = b ++ String "(" r' -> a = b /\ r = r'.
Proof.
  induction a as [|c t IH]; intros [|d u] r r' Ha Hb E; cbn in E.
  - injection E as ->. auto.
  - injection E as <- _. cbn in Hb. try rewrite Ascii.eqb_refl in Hb. discriminate.
  - injection E as -> _. cbn in Ha. try rewrite Ascii.eqb_refl in Ha. discriminate.
  - injection E as -> E. cbn in Ha, Hb. apply andb_true_iff in Ha as (_ & Ha). apply andb_true_iff in Hb as (_ & Hb).
    destruct (IH u r r' Ha Hb E) as (-> & ->). auto.
Qed.
Lemma atom_text1_inj2 n m x y : no_paren n = true -> no_paren m = true -> atom_text n [x] = atom_text m [y] -> n = m /\ x = y.
Proof.
  intros Hn Hm E. unfold atom_text in E. cbn [join] in E. cbn [append] in E.
  destruct (name_prefix_inj n m _ _ Hn Hm E) as (-> & E'). split; [reflexivity|]. now apply append_inj_r in E'.
Qed.

Definition names_ok (s : spec) : Prop := NoDup (concept_names s) /\ forall n, In n (concept_names s) -> no_paren n = true.

(* with pairwise different names, the declared values of a concept are the values of the concept of that name *)
Lemma dom_of_concept s c : NoDup (concept_names s) -> In c (concepts s) -> dom_of s (c_name c) = dom_terms (c_dom c).
Proof.
  unfold concept_names, dom_of, find_concept. induction (concepts s) as [|d ds IH]; intros Hnd Hin; [destruct Hin|].
  cbn [map] in Hnd. inversion Hnd as [|? ? Hnot Hnd']; subst. cbn [find]. destruct Hin as [->|Hin].
  - now rewrite String.eqb_refl.
  - destruct (String.eqb (c_name d) (c_name c)) eqn:E.
    + apply String.eqb_eq in E. exfalso. apply Hnot. rewrite E. apply in_map_iff. eauto.
    + now apply IH.
Qed.

Section Exact.
  Variables (s : spec) (I : interp).
  Let U := universe s.
  Hypothesis Hnames : names_ok s.
  Hypothesis Hsep : separated s U = true.
  Hypothesis Hcov : forall x, In x (sentences s) -> covered s x /\ no_definition x.

  (* a concept atom over the universe is no instance of a chosen relation *)
  Lemma concept_atom_not_chosen n x y a : declared s n -> In x U -> In y (sentences s) -> In a (choice_heads s U y) -> a <> atom_text n [x].
  Proof.
    intros Hn Hx Hy Ha E. subst a. unfold separated in Hsep. rewrite forallb_forall in Hsep. specialize (Hsep y Hy).
    rewrite forallb_forall in Hsep. specialize (Hsep _ Ha). apply negb_true_iff in Hsep.
    assert (T : mem_string (atom_text n [x]) (concept_atoms s U) = true).
    { apply mem_string_In. unfold concept_atoms. apply in_flat_map. exists n. split; [exact Hn|]. apply in_map_iff. eauto. }
    congruence.
  Qed.

  (* every declared value holds: the first clause of the reading *)
  Lemma domains_hold n x : r_domains s I = true -> declared s n -> In x (dom_of s n) -> holds I (atom_text n [x]) = true.
  Proof.
    intros Hr Hn Hx. unfold declared, concept_names in Hn. apply in_map_iff in Hn as (c & <- & Hc).
    rewrite (dom_of_concept s c (proj1 Hnames) Hc) in Hx. unfold r_domains in Hr. rewrite forallb_forall in Hr. specialize (Hr c Hc).
    rewrite forallb_forall in Hr. exact (Hr x Hx).
  Qed.

  (* a concept atom that is admissible is a declared value *)
  Lemma admissible_concept_atom n x : declared s n -> In x U -> admissible s (atom_text n [x]) = true -> In x (dom_of s n).
  Proof.
    intros Hn Hx Ha. rewrite admissible_split in Ha. apply orb_true_iff in Ha as [Ha|Ha].
    - apply existsb_exists in Ha as (c & Hc & Ha). apply existsb_exists in Ha as (v & Hv & E). apply String.eqb_eq in E.
      assert (Hcn : In (c_name c) (concept_names s)) by (apply in_map_iff; eauto).
      destruct (atom_text1_inj2 n (c_name c) x v (proj2 Hnames n Hn) (proj2 Hnames _ Hcn) E) as (-> & ->).
      now rewrite (dom_of_concept s c (proj1 Hnames) Hc).
    - exfalso. apply existsb_exists in Ha as (y & Hy & Ha). destruct (Hcov y Hy) as (Hc & Hnd).
      destruct y as [c|? ? ? ?|? ? ? ?|? ? y'|? ? ? ? ?]; try destruct Hnd; unfold adm_sentence in Ha; cbn [base_sentence] in Ha; try discriminate;
        try (destruct y'; try destruct Hnd; cbn [base_sentence] in Ha; discriminate).
      cbn [covered] in Hc. destruct Hc as (Hds & Hdo & _ & _ & Hfe).
      apply existsb_exists in Ha as (fe & Hfein & Ha). apply existsb_exists in Ha as (x0 & Hx0 & Ha). apply existsb_exists in Ha as (y0 & Hy0 & E).
      apply String.eqb_eq in E. symmetry in E. revert E.
      apply (concept_atom_not_chosen n x (SChoice c)); try assumption. cbn [choice_heads].
      destruct (ch_foreach c) as [e|] eqn:Efe.
      + apply in_map_iff in Hfein as (z & <- & Hz). apply in_flat_map. exists z. split; [apply (universe_incl s e), Hz|].
        apply in_flat_map. exists x0. split; [apply (universe_incl s (ch_subj c)), Hx0|]. apply in_map_iff. exists y0. split; [reflexivity|apply (universe_incl s (ch_obj c)), Hy0].
      + destruct Hfein as [<-|[]]. apply in_flat_map. exists x0. split; [apply (universe_incl s (ch_subj c)), Hx0|]. apply in_map_iff. exists y0.
        split; [reflexivity|apply (universe_incl s (ch_obj c)), Hy0].
  Qed.

  (* a concept atom that some rule of the ground program supports is a declared value *)
  Lemma supported_concept_atom n x : declared s n -> In x U -> supported (ground s) I -> In (atom_text n [x]) I -> In x (dom_of s n).
  Proof.
    intros Hn Hx Hs Hin. destruct (Hs _ Hin) as (r & Hr & Hsup). unfold ground, compile in Hr. fold U in Hr. rewrite flat_map_app in Hr.
    apply in_app_or in Hr as [Hr|Hr].
    - rewrite flat_map_flat_map in Hr. apply in_flat_map in Hr as (c & Hc & Hr).
      assert (Hcn : In (c_name c) (concept_names s)) by (apply in_map_iff; eauto).
      assert (Hhead : exists v, In v (dom_terms (c_dom c)) /\ exists b, r = GRule (atom_text (c_name c) [v]) b).
      { unfold compile_concept, dom_terms in *. destruct (c_dom c) as [lo hi|vals].
        - cbn [flat_map ground_rule] in Hr. rewrite app_nil_r in Hr. apply in_map_iff in Hr as (z & <- & Hz).
          exists (Digits.show_Z z). split; [apply in_map_iff; eauto|]. eexists. reflexivity.
        - rewrite flat_map_map in Hr. apply in_flat_map in Hr as (v & Hv & Hr). cbn [ground_rule] in Hr. destruct Hr as [<-|[]].
          exists (term_of_token v). split; [apply in_map_iff; eauto|]. eexists. reflexivity. }
      destruct Hhead as (v & Hv & b & ->). cbn [supports] in Hsup. destruct Hsup as (E & _). symmetry in E.
      destruct (atom_text1_inj2 n (c_name c) x v (proj2 Hnames n Hn) (proj2 Hnames _ Hcn) E) as (-> & ->).
      now rewrite (dom_of_concept s c (proj1 Hnames) Hc).
    - exfalso. rewrite flat_map_flat_map in Hr. apply in_flat_map in Hr as (y & Hy & Hr). destruct (Hcov y Hy) as (Hc & Hnd).
      destruct y as [c|? ? ? ?|required whenpart main wh|l vals y'|required neg v sv ov]; try destruct Hnd.
      + cbn [covered] in Hc. destruct Hc as (Hds & Hdo & _ & Hne & Hfe). destruct (ch_foreach c) as [e|] eqn:Efe.
        * destruct Hfe as (Hde & Hes & Heo). rewrite (each_ground s U c e Efe Hne Hes Heo) in Hr.
          apply in_flat_map in Hr as (z & Hz & Hr). apply in_map_iff in Hr as (x0 & <- & Hx0). cbn [supports] in Hsup.
          destruct Hsup as (_ & cnd & Hel & _). apply in_map_iff in Hel as (y0 & E & Hy0). injection E as E _.
          revert E. apply (concept_atom_not_chosen n x (SChoice c)); try assumption. cbn [choice_heads]. rewrite Efe.
          apply in_flat_map. exists z. split; [exact Hz|]. apply in_flat_map. exists x0. split; [exact Hx0|]. apply in_map_iff. eauto.
        * rewrite (choice_ground s U c Efe Hne) in Hr. apply in_map_iff in Hr as (x0 & <- & Hx0). cbn [supports] in Hsup.
          destruct Hsup as (_ & cnd & Hel & _). apply in_map_iff in Hel as (y0 & E & Hy0). injection E as E _.
          revert E. apply (concept_atom_not_chosen n x (SChoice c)); try assumption. cbn [choice_heads]. rewrite Efe.
          apply in_flat_map. exists x0. split; [exact Hx0|]. apply in_map_iff. eauto.
      + pose proof (cons_only_constraints s U required whenpart main wh r Hr) as Hk. destruct r; try destruct Hk. destruct Hsup.
      + destruct y' as [?|? ? ? ?|rq wp mn wh|? ? ?|? ? ? ? ?]; try destruct Hnd.
        destruct (oneof_rules_are_constraints s U l vals rq wp mn wh r Hr) as (b & ->). destruct Hsup.
      + pose proof (there_only_constraints s U required neg v sv ov r Hr) as Hk. destruct r; try destruct Hk. destruct Hsup.
  Qed.

  Definition exact_domains : Prop :=
    forall n, declared s n -> forall x, In x U -> holds I (atom_text n [x]) = mem_string x (dom_of s n).

  Lemma exact_from_reading : reading s I = true -> exact_domains.
  Proof.
    unfold reading. intros H. apply andb_true_iff in H as (H & _). apply andb_true_iff in H as (Hd & Ha).
    intros n Hn x Hx. apply eq_true_iff_eq. rewrite mem_string_In. split.
    - intros Hh. apply (admissible_concept_atom n x Hn Hx). rewrite forallb_forall in Ha. apply Ha. now apply holds_In.
    - intros Hin. now apply domains_hold.
  Qed.

  Lemma exact_from_stable : stable (ground s) I -> exact_domains.
  Proof.
    intros Hst. apply stable_sc in Hst as (_ & Hc & Hs).
    assert (Hd : r_domains s I = true).
    { rewrite <- (program_closed_no_definitions s U I (fun x Hx => proj2 (Hcov x Hx))). now apply closedb_spec. }
    intros n Hn x Hx. apply eq_true_iff_eq. rewrite mem_string_In. split.
    - intros Hh. apply (supported_concept_atom n x Hn Hx Hs). now apply holds_In.
    - intros Hin. now apply domains_hold.
  Qed.

  (* for EVERY interpretation: the answer sets of the ground compiled program are the models of the reading *)
  Theorem stable_iff_reading_all : stable (ground s) I <-> reading s I = true.
  Proof.
    split.
    - intros Hst. apply (stable_iff_reading s Hsep Hcov I (exact_from_stable Hst)). exact Hst.
    - intros Hr. apply (stable_iff_reading s Hsep Hcov I (exact_from_reading Hr)). exact Hr.
  Qed.
End Exact.
