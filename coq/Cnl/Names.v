(* Name normalisation done by the transformer (parser.py: simple_entity name.lower(), verb) and NameComponent equality. *)
Require Import Coq.Strings.String Coq.Strings.Ascii Coq.Lists.List Coq.Bool.Bool Coq.Arith.Arith.
Require Import Cnl2aspV.Base.Util Cnl2aspV.Base.Str.
Import ListNotations.
Open Scope string_scope.

(* simple_entity: name = name.lower() *)
Definition concept_key (n : string) : string := lower n.

(* verb: strip one final 's', join the preposition with '_', lower; 'have ...' copulas drop a trailing '_to' *)
Definition strip_final_s (v : string) : string := if ends_with_char v "s"%char then drop_last v else v.
Fixpoint ends_with (suffix s : string) : bool :=
  String.eqb suffix s || match s with EmptyString => false | String _ r => ends_with suffix r end.
Fixpoint take (n : nat) (s : string) : string :=
  match n, s with O, _ => EmptyString | S k, String c r => String c (take k r) | S _, EmptyString => EmptyString end.
Definition removesuffix (suffix s : string) : string :=
  if ends_with suffix s then take (String.length s - String.length suffix) s else s.
Definition verb_key (has_to_have : bool) (v : string) (prep : option string) : string :=
  let base := strip_final_s v in
  let joined := match prep with Some p => base ++ "_" ++ p | None => base end in
  let l := lower joined in
  if has_to_have then removesuffix "_to" l else l.

Lemma lower_c_idem c : lower_c (lower_c c) = lower_c c.
Proof. destruct c as [b0 b1 b2 b3 b4 b5 b6 b7]; destruct b0, b1, b2, b3, b4, b5, b6, b7; vm_compute; reflexivity. Qed.
Lemma lower_upper_c c : lower_c (upper_c c) = lower_c c.
Proof. destruct c as [b0 b1 b2 b3 b4 b5 b6 b7]; destruct b0, b1, b2, b3, b4, b5, b6, b7; vm_compute; reflexivity. Qed.

(* letter case of a concept name is irrelevant *)
Theorem concept_key_case_insensitive n : concept_key (upper n) = concept_key n /\ concept_key (lower n) = concept_key n.
Proof.
  unfold concept_key, lower, upper. split; induction n as [|c r IH]; cbn; [reflexivity| |reflexivity|].
  - now rewrite lower_upper_c, IH.
  - now rewrite lower_c_idem, IH.
Qed.

Lemma ends_with_char_app_s v : ends_with_char (v ++ "s") "s"%char = true.
Proof. induction v as [|c r IH]; [reflexivity|]. cbn. destruct (r ++ "s") eqn:E; [destruct r; discriminate|]. exact IH. Qed.
Lemma drop_last_app_s v : drop_last (v ++ "s") = v.
Proof. induction v as [|c r IH]; [reflexivity|]. cbn. destruct (r ++ "s") eqn:E; [destruct r; discriminate|]. now rewrite IH. Qed.

(* third-person -s on a verb is irrelevant (for a verb that does not itself end in s) *)
Theorem verb_key_third_person h v p : ends_with_char v "s"%char = false -> verb_key h (v ++ "s") p = verb_key h v p.
Proof.
  intros Hv. unfold verb_key, strip_final_s. rewrite ends_with_char_app_s, drop_last_app_s, Hv. reflexivity.
Qed.
