#!/venv/bin/python
"""Run the property checks against seeded changes (DESIGN.md, section on seeded changes).

  tools/seeded_run.py [--tier quick|thorough] [--tests] [--out results.json] <dir> [<dir> ...]

Each <dir> holds patch.diff, demo.py and meta.json (meta.json names the property).  Everything happens on scratch copies
(a clone of /repo and a copy of /verif under $SEED_SCRATCH, default /tmp/seedrun), never in /repo or /verif themselves:
  1. demo.py on the pristine clone must exit 0;
  2. the patch must apply; demo.py on the patched clone must exit 1;
  3. optionally (--tests) the repository's own test suite must still pass on the patched clone;
  4. ./check <property> is run in the copy of /verif with VERIF_REPO pointing at the patched clone;
     a seeded change is CAUGHT when that exits 1 with a VIOLATION line.
The scratch copies are removed at the end (--keep to keep them)."""
import json
import os
import shutil
import subprocess
import sys
import time

SCRATCH = os.environ.get('SEED_SCRATCH', '/tmp/seedrun')
VERIF = os.path.dirname(os.path.dirname(os.path.abspath(__file__)))
PY = '/venv/bin/python'


def sh(cmd, cwd=None, env=None, timeout=3600):
    e = dict(os.environ)
    e.update(env or {})
    p = subprocess.run(cmd, shell=True, cwd=cwd, env=e, stdout=subprocess.PIPE, stderr=subprocess.STDOUT, text=True, timeout=timeout)
    return p.returncode, p.stdout


def main():
    args = sys.argv[1:]
    tier = 'quick'
    tests = False
    keep = False
    out = None
    dirs = []
    i = 0
    while i < len(args):
        if args[i] == '--tier':
            tier = args[i + 1]; i += 2
        elif args[i] == '--tests':
            tests = True; i += 1
        elif args[i] == '--keep':
            keep = True; i += 1
        elif args[i] == '--out':
            out = args[i + 1]; i += 2
        else:
            dirs.append(os.path.abspath(args[i])); i += 1
    repo = os.path.join(SCRATCH, 'repo')
    verif = os.path.join(SCRATCH, 'verif')
    os.makedirs(SCRATCH, exist_ok=True)
    if not os.path.isdir(repo):
        rc, o = sh('git clone -q /repo %s' % repo)
        assert rc == 0, o
    sh('git fetch -q origin && git reset -q --hard origin/HEAD && git checkout -q -- . && git clean -fdq', cwd=repo)
    rc, o = sh('rsync -a --delete --exclude .git --exclude replays --exclude evidence %s/ %s/' % (VERIF, verif))
    assert rc == 0, o
    env = {'PYTHONPATH': os.path.join(repo, 'src'), 'PYTHONHASHSEED': '0', 'VERIF_REPO': repo}
    results = []
    for d in dirs:
        meta = json.load(open(os.path.join(d, 'meta.json')))
        pid = meta['property']
        r = dict(dir=d, property=pid, title=meta.get('title'))
        sh('git checkout -q -- . && git clean -fdq', cwd=repo)
        r['demo_pristine_exit'] = sh('%s %s' % (PY, os.path.join(d, 'demo.py')), cwd=SCRATCH, env=env, timeout=1200)[0]
        rc, o = sh('git apply %s' % os.path.join(d, 'patch.diff'), cwd=repo)
        r['applies'] = rc == 0
        if rc != 0:
            r['apply_error'] = o[-400:]
            results.append(r)
            print(json.dumps(r), flush=True)
            continue
        r['demo_mutated_exit'] = sh('%s %s' % (PY, os.path.join(d, 'demo.py')), cwd=SCRATCH, env=env, timeout=1200)[0]
        if tests:
            rc, o = sh('%s -m pytest -q -p no:cacheprovider --timeout=900 src/tests 2>&1 | tail -3' % PY, cwd=repo, env=env)
            r['tests'] = o.strip().split('\n')[-1]
        t0 = time.time()
        rc, o = sh('./check %s --tier %s' % (pid, tier), cwd=verif, env={'VERIF_REPO': repo, 'PYTHONHASHSEED': '0'}, timeout=7200)
        r['check_exit'] = rc
        r['check_wall'] = round(time.time() - t0, 1)
        lines = [l for l in o.split('\n') if l.startswith(('VIOLATION', 'KNOWN-FINDING', 'OK '))]
        r['check_lines'] = lines[:6]
        r['caught'] = rc == 1 and any(l.startswith('VIOLATION') for l in lines)
        r['with_input'] = any(l.startswith('VIOLATION') and not l.rstrip().endswith('no-failing-input-found') for l in lines)
        if not lines:
            r['check_tail'] = o[-800:]
        # keep the first replay for the record
        rp = os.path.join(verif, 'replays')
        if os.path.isdir(rp):
            fs = sorted(f for f in os.listdir(rp) if f.startswith(pid + '_'))
            if fs:
                try:
                    j = json.load(open(os.path.join(rp, fs[0])))
                    r['first_replay_what'] = (j.get('what') or '')[:300]
                except Exception:
                    pass
        sh('git checkout -q -- . && git clean -fdq', cwd=repo)
        results.append(r)
        print(json.dumps(r), flush=True)
    if out:
        json.dump(results, open(out, 'w'), indent=1)
    if not keep:
        shutil.rmtree(SCRATCH, ignore_errors=True)
    return 0


if __name__ == '__main__':
    sys.exit(main())
