(* C08 — automatic joins connect only positions that denote the same attribute (linker part).
   Cnl/Link.v models _link_two_atoms / _link_atom_to_attribute and AttributeOrigin equality byte for byte (function-level
   correspondence on random atoms).  Theorems: (1) is_same_origin relates only origin chains with the same root concept;
   (2) every write performed by the linker lands on a position whose attribute has the name of the linked key and a
   same_origin origin (so, by (1), the same root).  That all invented variables of a compiled rule are placed by such
   writes is decided per program by the oracle (get_symbols position types vs clingo.ast); aggregate discriminants, which
   are matched by attribute name only, are a recorded finding: partial. *)
Require Import Coq.Strings.String Coq.Lists.List Coq.Bool.Bool.
Require Import Cnl2aspV.Asp.Syntax Cnl2aspV.Asp.Print Cnl2aspV.Cnl.Link Cnl2aspV.Cnl.LinkProofs.
Import ListNotations.
Open Scope string_scope.

Theorem C08_same_origin_root : forall o1 o2, same_origin o1 o2 = true -> root_related o1 o2.
Proof. exact same_origin_root. Qed.
Print Assumptions C08_same_origin_root.

Theorem C08_link_write_typed :
  forall name v o l j a a',
    o <> [] -> nth_error l j = Some a -> nth_error (set_first_null name v o l) j = Some a' -> a' <> a ->
    a' = set_value a v /\ a_name a = name /\ same_origin (a_origin a) o = true.
Proof. exact set_first_null_typed. Qed.
Print Assumptions C08_link_write_typed.

(* non-vacuity: the repository's own unit-test shape (node / color keyed by id are NOT joined; a foreign key is) *)
Example C08_example :
  let n := {| on_name := "node"; on_forms := ["node"; "nodes"; "node"] |} in
  let c := {| on_name := "color"; on_forms := ["color"; "colors"; "color"] |} in
  same_origin [n] [c] = false /\ same_origin [c; n] [n] = true /\ root_related [c; n] [n].
Proof. vm_compute. repeat split. Qed.
