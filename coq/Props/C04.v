(* C04 — preferences optimise the stated quantity, direction and priority.
   Cnl/Preference.v: preference forms, the READING (lexicographic optimality by priority on the stated quantities), the compile model
   (weak constraints) and their semantics. *)
Require Import Coq.ZArith.ZArith Coq.Lists.List Coq.Bool.Bool Coq.Strings.String.
Require Import Cnl2aspV.Gen.Operators Cnl2aspV.Gen.Terminals Cnl2aspV.Cnl.Preference Cnl2aspV.Cnl.PreferenceProofs.
Import ListNotations.
Open Scope Z_scope.

(* the levels the grammar's priority words compile to are ordered like the words, and a numeric priority is its own level *)
Theorem C04_levels_ordered :
  (exists l m h, prio_level PLow = Some l /\ prio_level PMedium = Some m /\ prio_level PHigh = Some h /\ l < m < h) /\
  (forall n, prio_level (PNum n) = Some n).
Proof. exact levels_ordered. Qed.
Print Assumptions C04_levels_ordered.

(* 'is minimized' / 'as little as possible' keep the sign of the weight, 'is maximized' negates it *)
Theorem C04_direction_signs :
  dir_neg DMinimized = Some false /\ dir_neg DAsLittle = Some false /\ dir_neg DMaximized = Some true.
Proof. exact direction_signs. Qed.
Print Assumptions C04_direction_signs.

(* KNOWN FINDING (F-C04-as-much-as-possible): the table regenerated from the code gives 'as much as possible' the sign of a minimisation *)
Theorem C04_as_much_as_possible_refuted : dir_neg DAsMuch = Some false.
Proof. exact as_much_refuted. Qed.
Print Assumptions C04_as_much_as_possible_refuted.
