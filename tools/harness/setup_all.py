"""./check setup : regenerate Gen/*.v from /repo, full .vo build of the whole development, forbidden-token scan."""
import os
import sys
import common
import translate


def main():
    ok, out = translate.run(list(translate.SCRIPTS))
    print(out[-2000:])
    if not ok:
        print('SETUP: a translator failed closed (see above)')
        return 1
    common.ensure_makefile()
    rc, log = common.sh('timeout 3000 make -j16 TIMED=1', cwd=common.COQ, timeout=3100)
    print(log[-3000:])
    if rc != 0:
        print('SETUP: coq build failed')
        return 1
    vfiles = [l.strip() for l in open(os.path.join(common.COQ, '_CoqProject')) if l.strip().endswith('.v')]
    names, bad = common.count_statements(vfiles)
    print('SETUP: %d files, %d statements, forbidden tokens: %r' % (len(vfiles), len(names), bad))
    return 1 if bad else 0


if __name__ == '__main__':
    sys.exit(main())
