(* Evaluation of C05 cases produced by the harness. *)
Require Import Coq.Strings.String Coq.Lists.List Coq.Bool.Bool Coq.Arith.Arith.
Require Import Cnl2aspV.Base.Util Cnl2aspV.Base.Str Cnl2aspV.Tel.Sem Cnl2aspV.Tel.Syntax Cnl2aspV.Cnl.Temporal.
Import ListNotations.
Open Scope string_scope.

Inductive sform_kind := KWheneverCan | KWheneverMust | KProhibited | KRequired.

Definition compile_kind (k : sform_kind) (f : tformula) : cres body_item :=
  match k with
  | KWheneverCan | KWheneverMust => compile_condition f
  | KProhibited => compile_constraint false f
  | KRequired => compile_constraint true f end.

Definition has_head (k : sform_kind) : bool := match k with KWheneverCan | KWheneverMust => true | _ => false end.

(* correspondence: impl_body = Some body text | None (the implementation raised) *)
Record ccase := { c_kind : sform_kind; c_f : tformula; c_text : string; c_impl_body : option string }.

Definition render_sentence (k : sform_kind) (f : tformula) : string :=
  match k with
  | KWheneverCan => "Whenever " ++ render_formula f ++ ", then we can have a h."
  | KWheneverMust => "Whenever " ++ render_formula f ++ ", then we must have a h."
  | KProhibited => "It is prohibited that " ++ render_formula f ++ "."
  | KRequired => "It is required that " ++ render_formula f ++ "." end.

Definition corr_ok (c : ccase) : bool :=
  String.eqb (render_sentence (c_kind c) (c_f c)) (c_text c) &&
  match compile_kind (c_kind c) (c_f c), c_impl_body c with
  | COk b, Some s => String.eqb (print_body_item (has_head (c_kind c)) b) s
  | CErr _, None => true
  | _, _ => false end.

(* observations: for one sentence, traces with the truth of the body at every state as telingo computed it *)
Record ocase := { o_kind : sform_kind; o_f : tformula; o_obs : list (trace * list bool) }.

Fixpoint sig_matches (S : sig) (obs : list bool) (k : nat) : bool :=
  match obs with [] => true | b :: r => Bool.eqb (S k) b && sig_matches S r (Datatypes.S k) end.

(* the PROPERTY: the body is true exactly where the condition, read as LTL with past, is true
   (prohibited: the rejected states are those where it holds; required: those where it does not) *)
Definition expected_sig (k : sform_kind) (tr : trace) (f : tformula) : option sig :=
  match treading tr f with
  | Some R => Some (match k with KRequired => s_not R | _ => R end)
  | None => None end.

(* structured triggers of the recorded findings, computed on the model's compiled formula *)
Definition trig (which : body_item -> bool) (k : sform_kind) (f : tformula) : bool :=
  match compile_kind k f with COk b => which b | CErr _ => false end.
Definition trig_prime := trig (fun b => match b with BTel _ f => has_prime f | BAtom _ (PBefore | PAfter) _ => true | _ => false end).
Definition trig_neg_atom := trig (fun b => match b with BTel _ f => has_neg_atom f | _ => false end).
Definition trig_inner_init := trig (fun b => match b with BTel _ f => inner_init f | _ => false end).
Definition otrig_prime (c : ocase) := trig_prime (o_kind c) (o_f c).
Definition otrig_neg_atom (c : ocase) := trig_neg_atom (o_kind c) (o_f c).
Definition otrig_inner_init (c : ocase) := trig_inner_init (o_kind c) (o_f c).
Definition ctrig_prime (c : ccase) := trig_prime (c_kind c) (c_f c).
Definition ctrig_neg_atom (c : ccase) := trig_neg_atom (c_kind c) (c_f c).
Definition ctrig_bare (c : ccase) :=      (* the condition is a bare decorated literal or constant, not a formula *)
  trig (fun b => match b with BTel _ _ => false | BAtom _ PPlain _ => false | _ => true end) (c_kind c) (c_f c).

Definition reading_defined (c : ocase) : bool :=
  match treading [] (o_f c) with Some _ => true | None => false end.

Definition obs_ok (c : ocase) : bool :=
  forallb (fun to => match expected_sig (o_kind c) (fst to) (o_f c) with
                     | Some R => sig_matches R (snd to) 0
                     | None => true end) (o_obs c).

(* validation of the MODEL's semantics (Tel/Syntax.v, Tel/Sem.v) against telingo on the same observations *)
Definition model_obs_ok (c : ocase) : bool :=
  match compile_kind (o_kind c) (o_f c) with
  | COk b => forallb (fun to => match body_sat (fst to) b with
                                | Some Sg => sig_matches Sg (snd to) 0
                                | None => false end) (o_obs c)
  | CErr _ => false end.

(* direct validation of Tel/Syntax.v + Tel/Sem.v on telingo formulas (not produced from CNL) *)
Record tcase := { t_f : tform; t_text : string; t_obs : list (trace * list bool) }.
Definition tcase_ok (c : tcase) : bool :=
  String.eqb (print_top (t_f c)) (t_text c) &&
  forallb (fun to => match tsat (fst to) (t_f c) with Some Sg => sig_matches Sg (snd to) 0 | None => false end) (t_obs c).

(* model semantics of the compiled body vs the reading, on the observed traces (used where telingo itself deviates from
   the standard semantics: its ';>' / '<;' with a non-atomic operand) *)
Definition model_reading_ok (c : ocase) : bool :=
  match compile_kind (o_kind c) (o_f c) with
  | COk b => forallb (fun to => match body_sat (fst to) b, expected_sig (o_kind c) (fst to) (o_f c) with
                                | Some Sg, Some R => forallb (fun k => Bool.eqb (Sg k) (R k)) (seq 0 (length (fst to)))
                                | _, None => true
                                | None, _ => false end) (o_obs c)
  | CErr _ => false end.
