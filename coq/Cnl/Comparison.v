(* Model of how a CNL comparison becomes ASP comparison literals.
   parser.py: COMPARISON_OPERATOR (generated table), comparison, between_comparison
   operation_component.py: OperationComponent.__init__ / between_operator (generated: between_rewrite)
   parser.py: constraint_proposition (requirement => negate the main component)
   asp_converter.py: convert_operation, _convert_between_operation_without_aggregate, operators_negation (generated)
   asp_operation.py: ASPOperation.operators (generated), ASPOperation.__str__ *)
Require Import Coq.Strings.String Coq.ZArith.ZArith Coq.Lists.List Coq.Bool.Bool.
Require Import Cnl2aspV.Base.Util Cnl2aspV.Gen.Operators Cnl2aspV.Gen.Tables Cnl2aspV.Gen.Terminals Cnl2aspV.Asp.CmpSem.
Import ListNotations.
Open Scope string_scope.

Definition neg_op (o : operator) : option operator := assoc operator_eqb o operators_negation.
Definition op_symbol (o : operator) : option string := assoc operator_eqb o asp_operators.
Definition is_arith (o : operator) : bool :=
  match assoc operator_eqb o is_arithmetic_operator_tab with Some b => b | None => false end.

Definition phrase_op (ph : string) : option operator :=
  match sassoc ph term_COMPARISON_OPERATOR with Some (TOp o) => Some o | _ => None end.

(* a comparison as the parser builds it: operator + operand list (+ which operand positions hold aggregates) *)
Record opcomp (T : Type) := { oc_op : operator; oc_operands : list T; oc_negated : bool }.
Arguments oc_op {T}. Arguments oc_operands {T}. Arguments oc_negated {T}.

Definition nth_opt {A} (l : list A) (n : nat) : option A := nth_error l n.

Fixpoint pick {A} (l : list A) (idx : list nat) : option (list A) :=
  match idx with
  | [] => Some []
  | i :: r => match nth_opt l i, pick l r with Some x, Some xs => Some (x :: xs) | _, _ => None end
  end.

(* parser: comparison / between_comparison *)
Definition parse_simple {T} (ph : string) (a b : T) : option (opcomp T) :=
  match phrase_op ph with Some o => Some {| oc_op := o; oc_operands := [a; b]; oc_negated := false |} | None => None end.

Definition parse_between {T} (x l u : T) : option (opcomp T) :=
  match pick [x; l; u] (snd between_rewrite) with
  | Some ops => Some {| oc_op := fst between_rewrite; oc_operands := ops; oc_negated := false |}
  | None => None end.

(* constraint_proposition: 'required' negates the main component *)
Definition apply_polarity {T} (required : bool) (c : opcomp T) : opcomp T :=
  if required then {| oc_op := oc_op c; oc_operands := oc_operands c; oc_negated := true |} else c.

(* One emitted ASP comparison: a chain  t0 sym t1 [sym t2 ...]  (ASPOperation with n operands prints as a chain) *)
Record aspop (T : Type) := { ao_op : operator; ao_operands : list T; ao_negated : bool }.
Arguments ao_op {T}. Arguments ao_operands {T}. Arguments ao_negated {T}.

Inductive conv_result (T : Type) := ConvOk (l : list (aspop T)) | ConvKeyError.
Arguments ConvOk {T}. Arguments ConvKeyError {T}.

(* asp_converter.convert_operation restricted to operations below CONJUNCTION whose operands are not all
   aggregates and not angles.  second_is_agg: operands[1] is an aggregate (then no splitting). *)
Definition convert_operation {T} (second_is_agg : bool) (c : opcomp T) : conv_result T :=
  let negated_between :=
    oc_negated c && op_ltb (oc_op c) Op_CONJUNCTION && Nat.eqb (length (oc_operands c)) 3 && negb (is_arith (oc_op c)) in
  let op1 :=
    if oc_negated c && op_ltb (oc_op c) Op_CONJUNCTION
    then (if negated_between then Some (oc_op c) else neg_op (oc_op c)) else Some (oc_op c) in
  match op1 with
  | None => ConvKeyError
  | Some op =>
    if negb (is_arith op) && Nat.eqb (length (oc_operands c)) 3 && negb negated_between && negb second_is_agg
       && op_ltb op Op_CONJUNCTION
    then match oc_operands c with
         | [o0; o1; o2] => ConvOk [ {| ao_op := op; ao_operands := [o0; o1]; ao_negated := false |};
                                    {| ao_op := op; ao_operands := [o1; o2]; ao_negated := false |} ]
         | _ => ConvKeyError
         end
    else ConvOk [ {| ao_op := op; ao_operands := oc_operands c; ao_negated := negated_between |} ]
  end.

(* ASPOperation.__str__ for operands that are already printed (non-operation operands) *)
Fixpoint join (sep : string) (l : list string) : string :=
  match l with [] => "" | [x] => x | x :: r => x ++ sep ++ join sep r end.

Definition print_aspop (o : aspop string) : option string :=
  match op_symbol (ao_op o) with
  | Some sym => Some ((if ao_negated o then "not " else "") ++ join (" " ++ sym ++ " ") (ao_operands o))
  | None => None end.

(* truth of a chain over integers: every adjacent pair satisfies the symbol (gringo's chained comparison) *)
Fixpoint chain_true (k : ckind) (l : list Z) : bool :=
  match l with
  | a :: ((b :: _) as r) => ksem k a b && chain_true k r
  | _ => true
  end.

Definition aspop_true (o : aspop Z) : option bool :=
  match op_symbol (ao_op o) with
  | Some sym => match kind_of_symbol sym with
                | Some k => Some (xorb (ao_negated o) (chain_true k (ao_operands o)))
                | None => None end
  | None => None end.

Fixpoint body_true (l : list (aspop Z)) : option bool :=
  match l with
  | [] => Some true
  | o :: r => match aspop_true o, body_true r with Some a, Some b => Some (a && b) | _, _ => None end
  end.

(* the whole pipeline for one constraint; the constraint REJECTS an instance iff its body is true *)
Definition compile_simple (required : bool) (ph : string) (a b : Z) : option bool :=
  match parse_simple ph a b with
  | Some c => match convert_operation false (apply_polarity required c) with ConvOk l => body_true l | ConvKeyError => None end
  | None => None end.

Definition compile_between (required second_is_agg : bool) (x l u : Z) : option bool :=
  match parse_between x l u with
  | Some c => match convert_operation second_is_agg (apply_polarity required c) with ConvOk l => body_true l | ConvKeyError => None end
  | None => None end.

(* The hand-written oracle: what each phrase NAMES (written without looking at the tables) *)
Definition named_comparison (ph : string) (a b : Z) : option bool :=
  if mem_string ph ["the same as"; "equal to"] then Some (Z.eqb a b)
  else if String.eqb ph "different from" then Some (negb (Z.eqb a b))
  else if mem_string ph ["more than"; "greater than"] then Some (Z.ltb b a)
  else if String.eqb ph "less than" then Some (Z.ltb a b)
  else if mem_string ph ["greater than or equal to"; "at least"] then Some (Z.leb b a)
  else if mem_string ph ["less than or equal to"; "at most"; "not after"] then Some (Z.leb a b)
  else None.

Definition comparison_phrases : list string := map fst term_COMPARISON_OPERATOR.

(* phrases the property text lists; the generated table must cover exactly these *)
Definition documented_phrases : list string :=
  ["the same as"; "equal to"; "different from"; "more than"; "greater than"; "less than";
   "greater than or equal to"; "less than or equal to"; "at least"; "at most"; "not after"].

(* text of the comparison part of a constraint, for the correspondence check *)
Definition print_simple (required : bool) (ph : string) (a b : string) : option string :=
  match parse_simple ph a b with
  | Some c => match convert_operation false (apply_polarity required c) with
              | ConvOk l => let ps := map print_aspop l in
                            if forallb (fun o => match o with Some _ => true | None => false end) ps
                            then Some (join ", " (map (fun o => match o with Some s => s | None => "" end) ps)) else None
              | ConvKeyError => None end
  | None => None end.

Definition print_between (required second_is_agg : bool) (x l u : string) : option string :=
  match parse_between x l u with
  | Some c => match convert_operation second_is_agg (apply_polarity required c) with
              | ConvOk l => let ps := map print_aspop l in
                            if forallb (fun o => match o with Some _ => true | None => false end) ps
                            then Some (join ", " (map (fun o => match o with Some s => s | None => "" end) ps)) else None
              | ConvKeyError => None end
  | None => None end.
