"""C17 -- faulty specifications are rejected with the fault's name and line."""
import os
import random
import re

import common
import gen_wide
import impl
import translate
from common import Report

PID = 'C17'

SPECIAL_BASE = ("palette is a set.\nqueue is a list.\npalette contains 1, 2, 3.\nqueue contains first, second, third.\n"
                "A time is a temporal concept expressed in minutes ranging from 07:30 AM to 08:00 AM with a length of 10 minutes.\n"
                "A node is identified by an id, and has a weight.\nA worker is identified by an id.\nA visit is identified by an id, and by a time.\n"
                "A color is identified by a name.\nAn assignment is identified by a node, and by a color.\n"
                "Every worker can paint a node.\nEvery node can be assigned to exactly 1 color.\n")


def faults_generic(concept, other):
    """(fault class, sentence, offending name, stamped expected?)"""
    return [
        ('undeclared-concept/fact', 'There is a ghost with id 2.', 'ghost'),
        ('undeclared-concept/constraint', 'It is prohibited that there is a ghost.', 'ghost'),
        ('undeclared-concept/whenever', 'It is prohibited that X is equal to 1, whenever there is a ghost X.', 'ghost'),
        ('undeclared-concept/choice-subject', 'Every ghost can haunt a %s.' % concept, 'ghost'),
        ('undeclared-concept/whenever-then', 'Whenever there is a ghost X, then X can haunt a %s.' % concept, 'ghost'),
        ('missing-attribute/parameter', 'There is a %s with phantom equal to 2.' % concept, 'phantom'),
        ('missing-attribute/of-the', 'It is prohibited that the phantom of the %s X is greater than 2.' % concept, 'phantom'),
        ('unknown-label/subject', 'It is prohibited that QQ is busy.', 'QQ'),
        ('two-cardinalities', 'Every %s can exactly 1 grab at most 2 a %s.' % (concept, other), 'cardinality'),
        ('missing-attribute/aggregate', 'It is prohibited that the total of phantom of a %s is greater than 2.' % concept, 'phantom'),
    ] + [('two-cardinalities/%s|%s' % (a, b), 'Every %s can grab %s %s or hold %s %s.' % (concept, a, other, b, other), 'cardinality') for a, b in CARD_PAIRS]


# pairs of DIFFERENT cardinalities, including pairs that share a lower or an upper bound
CARD_PAIRS = [('exactly 1', 'exactly 2'), ('at most 1', 'at most 2'), ('at least 1', 'between 1 and 3'), ('exactly 2', 'at least 2'),
              ('between 1 and 2', 'between 1 and 4'), ('at least 1', 'at least 2'), ('at most 2', 'exactly 2')]


FAULTS_SPECIAL = [
    ('temporal-out-of-range', 'It is prohibited that a visit V is after 09:00 AM.', '09:00 AM'),
    ('set-value', 'It is prohibited that there is an element 5 in palette.', '5'),
    ('list-value', 'It is prohibited that a worker works in the queue element after fourth.', 'fourth'),
    ('list-index', 'It is prohibited that a worker works in the 7th element in queue.', '7'),
    # a bare attribute name on a composite concept / relation means an attribute of its OWN; that a linked concept has one of that name does not make it legal
    ('missing-attribute/inherited-bare-name-on-relation', 'It is prohibited that a node N is assigned with name N to a color C.', 'name'),
    ('missing-attribute/inherited-bare-name-on-concept', 'It is prohibited that there is an assignment with id X.', 'id'),
    ('missing-attribute/inherited-bare-name-on-concept', 'It is prohibited that there is an assignment with name X.', 'name'),
    # found only by a delayed command (duration clause): the unit is no attribute of the new relation
    ('missing-attribute/duration-unit', 'Whenever there is a worker W, then W can have a spot with time T in exactly 1 node N for 2 minutes.', 'minutes'),
    ('undeclared-set', 'It is prohibited that X is equal to 1, whenever there is an element X in ghostset.', 'ghostset'),
]
PAD = ['', '// padding comment', '', '/* block */']


def check_rejection(rep, findings, cls, text, line, name, result):
    info = dict(text=text, fault=cls, expected_line=line, offending_name=name, result=result[:3])
    if result[0] == 'ok':
        rep.violation('a faulty sentence (%s) was compiled silently' % cls, info)
        return
    msg = result[2]
    m = re.search(r'line (\d+)', msg)
    ok_line = m is not None and int(m.group(1)) == line
    ok_name = name in msg
    if ok_line and ok_name:
        return
    if cls == 'missing-attribute/aggregate' and 'F-C17-aggregate-attribute' in findings and 'Impossible to use attribute' in msg:
        rep.known_finding('F-C17-aggregate-attribute', findings['F-C17-aggregate-attribute']['summary'])
        return
    rep.violation('the rejection of a %s fault does not cite %s' % (cls, 'its line %d' % line if not ok_line else 'the offending name %r' % name), info)


def run(tier, seed):
    rep = Report(PID, tier, seed)
    rnd = random.Random(seed)
    tie_ok, tout = translate.run(['excflow'])
    proof = common.build_property(PID)
    findings = {f['id']: f for f in common.load_findings(PID) if f.get('status') == 'known'}
    n = 150 if tier == 'thorough' else 16
    jobs = []
    for i in range(n):
        sents = [s for s in gen_wide.generate(rnd) if s['kind'] != 'comment']
        concepts = [s['text'].split()[1] for s in sents if s['kind'] == 'declaration']
        first_body = max(i for i, s in enumerate(sents) if s['kind'] == 'declaration') + 1
        faults = faults_generic(concepts[0], concepts[-1])
        chosen = faults if tier == 'thorough' else rnd.sample(faults, 4)
        for cls, fs, name in chosen:
            pos = rnd.randint(first_body, len(sents))
            k = rnd.randint(0, 3)
            lines = [rnd.choice(PAD) for _ in range(k)] + [s['text'] for s in sents[:pos]] + [fs] + [s['text'] for s in sents[pos:]]
            jobs.append((cls, '\n'.join(lines) + '\n', k + pos + 1, name, k))
    special = FAULTS_SPECIAL + [('two-cardinalities/%s|%s' % (a, b), 'Every worker can grab %s node or hold %s node.' % (a, b), 'cardinality') for a, b in CARD_PAIRS]
    for cls, fs, name in special:
        for k in ((0, 1, 3) if tier == 'thorough' else (0, 2)):
            base_lines = SPECIAL_BASE.strip().split('\n')
            lines = [PAD[1]] * k + base_lines + [fs]
            jobs.append((cls, '\n'.join(lines) + '\n', k + len(base_lines) + 1, name, k))
    # the unfaulted texts must compile (otherwise the injection is not the only fault)
    results = impl.compile_many([j[1] for j in jobs])
    clean = impl.compile_many(['\n'.join(l for i, l in enumerate(j[1].split('\n')) if i != j[2] - 1) for j in jobs])
    dist = {}
    skipped = 0
    for (cls, text, line, name, k), r, c in zip(jobs, results, clean):
        if c[0] != 'ok':
            skipped += 1          # the host specification itself is rejected: not a single-fault case
            continue
        rep.case((cls, text))
        dist[cls] = dist.get(cls, 0) + 1
        check_rejection(rep, findings, cls, text, line, name, r)
    rep.sample(dict(fault=jobs[0][0], text=jobs[0][1], expected_line=jobs[0][2], result=results[0][:3]))
    rep.sample(dict(fault=jobs[-1][0], text=jobs[-1][1], expected_line=jobs[-1][2], result=results[-1][:3]))
    # static finding: the rows tagged KnownFinding in the accepted table are still live escapes of the regenerated analysis
    # (C17_accepted_rows_are_live fails to build when a row goes stale, so a built theorem file means they are all still there)
    if 'F-C17-static-unstamped' in findings and tie_ok and proof['ok']:
        acc = open(os.path.join(common.VERIF, 'coq', 'Api', 'ExcFlowAccepted.v')).read()
        if re.search(r'^\s*\("[^"]+",\s*"[^"]+",\s*"[^"]+",\s*KnownFinding\)', acc, re.M):
            rep.known_finding('F-C17-static-unstamped', findings['F-C17-static-unstamped']['summary'])
    tie_broken = []
    if not tie_ok:
        tie_broken.append('translator failed closed: ' + tout[-600:])
    if not proof['ok']:
        tie_broken.append('theorem file does not build (a new unstamped escape, a stale accepted row, or a broken proof): %s\n%s' % (proof['failed_at'], proof['log'][-400:]))
    if proof['bad']:
        tie_broken.append('forbidden tokens: %r' % proof['bad'])
    if tie_broken and not rep.violations:
        rep.violation('proof obligation no longer checks and no failing input was found: ' + ' | '.join(tie_broken),
                      dict(kind='broken-tie', theorem='Props/C17.v: C17_lookup_failures_are_stamped over Gen/ExcFlow.v', details=tie_broken,
                           searched='%d single-fault specifications (%r)' % (len(jobs), dist)), no_input=True)
    elif tie_broken:
        rep.notes.extend(tie_broken)
    rep.cov.update(injected=len(jobs), scored=sum(dist.values()), host_rejected_skipped=skipped, distribution=dist)
    rep.assumptions += ['name-based call graph of tools/translate/gen_excflow.py (over-approximation, listed modules only)',
                        'Lark wraps callback exceptions in VisitError and reports meta.line of the rule (propagate_positions=True)']
    return rep.finish(proof, rule='wide-generator specifications x every applicable fault class injected as one extra sentence at a random sentence boundary x 0..3 '
                                  'lines of blank/comment padding; plus set/list/temporal faults on a fixed base; distinct by (fault, text)')
