(* C10 for the core fragment: the compile model of Cnl/Core.v (byte-exact on F0) compiles every sentence on its own, in order;
   a sentence's rules depend on the declared concepts only. *)
Require Import Coq.Strings.String Coq.Lists.List Coq.Bool.Bool Coq.ZArith.ZArith.
Require Import Cnl2aspV.Cnl.Core.
Import ListNotations.

Lemma compile_sentence_concepts s s' x : concepts s = concepts s' -> compile_sentence s x = compile_sentence s' x.
Proof.
  intros H. induction x as [c|subj label newpred body|req wp main wh|l vals y IH|req neg v sv ov]; cbn [compile_sentence]; try reflexivity.
  - unfold compile_choice, var_of, auto_var, key_of, find_concept. now rewrite H.
  - now rewrite IH.
Qed.

Definition with_sentences (cs : list concept) (l : list sentence) : spec := {| concepts := cs; sentences := l |}.

Theorem core_sentence_blocks cs l1 x l2 :
  compile (with_sentences cs (l1 ++ x :: l2)) =
  (compile (with_sentences cs l1) ++ compile_sentence (with_sentences cs []) x ++ flat_map (compile_sentence (with_sentences cs [])) l2)%list.
Proof.
  unfold compile, with_sentences. cbn [concepts sentences]. rewrite flat_map_app. cbn [flat_map]. rewrite <- !app_assoc. f_equal. f_equal.
  - apply flat_map_ext. intros a. now apply compile_sentence_concepts.
  - f_equal; [now apply compile_sentence_concepts|]. apply flat_map_ext. intros a. now apply compile_sentence_concepts.
Qed.

Theorem core_sentence_removal cs l1 l2 :
  compile (with_sentences cs (l1 ++ l2)) =
  (compile (with_sentences cs l1) ++ flat_map (compile_sentence (with_sentences cs [])) l2)%list.
Proof.
  unfold compile, with_sentences. cbn [concepts sentences]. rewrite flat_map_app, <- app_assoc. f_equal. f_equal.
  - apply flat_map_ext. intros a. now apply compile_sentence_concepts.
  - apply flat_map_ext. intros a. now apply compile_sentence_concepts.
Qed.
