(* C07 — invented variables never capture or merge with the author's (generator part).
   Cnl/Fresh.v models the two fresh-name generators byte for byte (vowel stripping, upper-casing, numeric suffix bump, including
   the str.replace and 'if trailing_number' quirks); function-level correspondence runs them against the implementation on
   adversarial collision lists.  Theorems: whatever the collision list and the base name, a generated name is not in the list, so
   it differs from every author variable recorded before the call and from every earlier invention.  That the collision list
   contains every author variable of the sentence AT THE MOMENT OF THE CALL is false for the parser (it is filled in text
   order: KNOWN_FINDINGS F-C07-late-author-variable); program-level alpha-invariance under renaming is decided by the oracle. *)
Require Import Coq.Strings.String Coq.Lists.List Coq.Bool.Bool.
Require Import Cnl2aspV.Base.Util Cnl2aspV.Cnl.Fresh.
Import ListNotations.
Open Scope string_scope.

Theorem C07_converter_fresh :
  forall fuel taken name r, create_new_field_value fuel taken name = Some r -> mem_string r taken = false.
Proof. intros fuel taken name r. exact (fresh_converter_not_taken fuel taken _ r). Qed.
Print Assumptions C07_converter_fresh.

Theorem C07_parser_fresh :
  forall fuel taken name r, new_field_value_fuel fuel taken name = Some r -> mem_string r taken = false.
Proof. exact new_field_value_not_taken. Qed.
Print Assumptions C07_parser_fresh.

Theorem C07_invention_distinct_from_author :
  forall fuel taken name r author, create_new_field_value fuel taken name = Some r -> In author taken -> r <> author.
Proof. exact invention_distinct_from_author. Qed.

Theorem C07_successive_inventions_distinct :
  forall fuel taken n1 n2 r1 r2,
    create_new_field_value fuel taken n1 = Some r1 -> create_new_field_value fuel (taken ++ [r1]) n2 = Some r2 -> r1 <> r2.
Proof. exact successive_inventions_distinct. Qed.
Print Assumptions C07_successive_inventions_distinct.

(* non-vacuity, with the suffix bump *)
Example C07_bump :
  create_new_field_value 5 ["ND_D"; "ND_D1"] "node_id" = Some "ND_D2" /\ new_field_value_fuel 5 ["ND_D"] "node_id" = Some "ND_D1".
Proof. vm_compute. split; reflexivity. Qed.
