"""C03 -- 'required' and 'prohibited' are exact complements for every comparison phrase."""
import itertools
import random

import common
import impl
import solve
import translate
from common import Report, coq_str, coq_bool, coq_z

PID = 'C03'
DECL = "A node is identified by an id, and has a weight.\nA pair is identified by a first, and by a second.\n"
PRE = 'Require Import Cnl2aspV.Cnl.C03Shapes Cnl2aspV.Cnl.Comparison.'

SHAPES = {
    # shape: (sentence template with {POL} {PH} {T}, between template with {L} {U}, choice program, value-of-model)
    'ShVarNum': ("It is {POL} that X is {PH} {T}, whenever there is a node X.",
                 "It is {POL} that X is between {L} and {U}, whenever there is a node X.",
                 "1{node(V,0): V=-1..4}1.", lambda atoms: [int(a[5:-1].split(',')[0]) for a in atoms if a.startswith('node(')][0]),
    'ShAttr': ("It is {POL} that the weight of the node X is {PH} {T}.",
               "It is {POL} that the weight of the node X is between {L} and {U}.",
               "1{node(1,W): W=-1..4}1.", lambda atoms: [int(a[5:-1].split(',')[1]) for a in atoms if a.startswith('node(')][0]),
    'ShArith': ("It is {POL} that the sum between X, and Y is {PH} {T}, whenever there is a pair with first X, with second Y.",
                "It is {POL} that the sum between X, and Y is between {L} and {U}, whenever there is a pair with first X, with second Y.",
                "1{pair(A,B): A=-1..3, B=0..1}1.",
                lambda atoms: [sum(int(x) for x in a[5:-1].split(',')) for a in atoms if a.startswith('pair(')][0]),
    'ShAgg': ("It is {POL} that the number of nodes is {PH} {T}.",
              "It is {POL} that the number of nodes is between {L} and {U}.",
              "{node(1..4,0)}.", lambda atoms: len([a for a in atoms if a.startswith('node(')])),
}
VARVAR = ("It is {POL} that X is {PH} Y, whenever there is a pair with first X, with second Y.",
          "1{pair(A,B): A=-1..4, B=-1..4}1.")
POL = {True: 'required', False: 'prohibited'}


def phrases():
    import gen_tables  # noqa  (only for the grammar reader path)
    import grammar_reader as gr
    defs, _ = gr.read_definitions(impl.grammar_text())
    return gr.strings_of(defs, 'COMPARISON_OPERATOR')


def value_domain(shape):
    return {'ShVarNum': range(-1, 5), 'ShAttr': range(-1, 5), 'ShArith': range(-1, 5), 'ShAgg': range(0, 5)}[shape]


def run(tier, seed):
    rep = Report(PID, tier, seed)
    rnd = random.Random(seed)
    findings = {f['id']: f for f in common.load_findings(PID) if f.get('status') == 'known'}
    tie_ok, tout = translate.run(['tables'])
    proof = common.build_property(PID, extra=['Cnl/C03Shapes.vo'])
    try:
        phs = phrases()
    except Exception as e:  # grammar no longer readable by the fail-closed reader
        phs = ["the same as", "different from", "equal to", "more than", "greater than", "less than",
               "greater than or equal to", "less than or equal to", "at least", "at most", "not after"]
        tie_ok = False
        tout += '\n%s' % e
    thresholds = list(range(0, 5)) if tier == 'thorough' else [0, 2, 4]      # (the language has no negative numerals)
    bt_pairs = [(l, u) for l in range(0, 5) for u in range(0, 5)] if tier == 'thorough' else [(1, 3), (2, 2), (3, 1), (0, 4)]

    corr_cases, corr_meta = [], []
    obs_cases, obs_meta = [], []
    compiles = 0

    def do_compile(text):
        nonlocal compiles
        compiles += 1
        return impl.compile_text(DECL + text)

    for sh, (tmpl, btmpl, choice, valof) in SHAPES.items():
        for req in (False, True):
            for ph in phs:
                for t in thresholds:
                    text = tmpl.format(POL=POL[req], PH=ph, T=t)
                    r = do_compile(text)
                    rep.case((sh, req, ph, t))
                    if r[0] != 'ok':
                        rep.violation('compilation failed on a documented comparison sentence', dict(text=DECL + text, result=r))
                        continue
                    corr_cases.append('CSimple %s %s %s %s %s' % (sh, coq_bool(req), coq_str(ph), coq_str(str(t)), coq_str(r[1])))
                    corr_meta.append(dict(text=DECL + text, impl=r[1]))
                    try:
                        models = solve.answer_sets(choice + '\n' + r[1])
                    except solve.SolveError as e:
                        rep.violation('clingo rejects the compiled constraint', dict(text=DECL + text, impl=r[1], error=str(e)))
                        continue
                    acc = set(valof(m) for m in models)
                    for v in value_domain(sh):
                        obs_cases.append('OSimple %s %s %s %s %s' % (coq_bool(req), coq_str(ph), coq_z(v), coq_z(t), coq_bool(v in acc)))
                        obs_meta.append(dict(text=DECL + text, impl=r[1], shape=sh, value=v, threshold=t, accepted=v in acc, required=req, phrase=ph))
            for (l, u) in bt_pairs:
                text = btmpl.format(POL=POL[req], L=l, U=u)
                r = do_compile(text)
                rep.case((sh, req, 'between', l, u))
                if r[0] != 'ok':
                    rep.violation('compilation failed on a documented between sentence', dict(text=DECL + text, result=r))
                    continue
                corr_cases.append('CBetween %s %s %s %s %s' % (sh, coq_bool(req), coq_str(str(l)), coq_str(str(u)), coq_str(r[1])))
                corr_meta.append(dict(text=DECL + text, impl=r[1]))
                try:
                    models = solve.answer_sets(choice + '\n' + r[1])
                except solve.SolveError as e:
                    rep.violation('clingo rejects the compiled constraint', dict(text=DECL + text, impl=r[1], error=str(e)))
                    continue
                acc = set(valof(m) for m in models)
                for v in value_domain(sh):
                    obs_cases.append('OBetween %s %s %s %s %s' % (coq_bool(req), coq_z(v), coq_z(l), coq_z(u), coq_bool(v in acc)))
                    obs_meta.append(dict(text=DECL + text, impl=r[1], shape=sh, value=v, l=l, u=u, accepted=v in acc, required=req, phrase='between'))
    # variable-vs-variable: one compile per phrase and polarity serves the whole 6x6 grid
    for req in (False, True):
        for ph in phs:
            text = VARVAR[0].format(POL=POL[req], PH=ph)
            r = do_compile(text)
            rep.case(('ShVarVar', req, ph))
            if r[0] != 'ok':
                rep.violation('compilation failed on a documented comparison sentence', dict(text=DECL + text, result=r))
                continue
            corr_cases.append('CSimple ShVarVar %s %s %s %s' % (coq_bool(req), coq_str(ph), coq_str('Y'), coq_str(r[1])))
            corr_meta.append(dict(text=DECL + text, impl=r[1]))
            models = solve.answer_sets(VARVAR[1] + '\n' + r[1])
            acc = set()
            for m in models:
                a = [x for x in m if x.startswith('pair(')][0]
                acc.add(tuple(int(z) for z in a[5:-1].split(',')))
            for a in range(-1, 5):
                for b in range(-1, 5):
                    obs_cases.append('OSimple %s %s %s %s %s' % (coq_bool(req), coq_str(ph), coq_z(a), coq_z(b), coq_bool((a, b) in acc)))
                    obs_meta.append(dict(text=DECL + text, impl=r[1], shape='ShVarVar', value=a, threshold=b, accepted=(a, b) in acc, required=req, phrase=ph))

    # the threshold given by a substitution list: 'X is <phrase> M ..., where M is one of T' (observations only; no compile model)
    for req in (False, True):
        for ph in phs:
            for t in thresholds:
                text = "It is %s that X is %s M, whenever there is a node X, where M is one of %d." % (POL[req], ph, t)
                r = do_compile(text)
                rep.case(('ShOneOf', req, ph, t))
                if r[0] != 'ok':
                    rep.violation('compilation failed on a comparison sentence with a substitution list', dict(text=DECL + text, result=r))
                    continue
                try:
                    models = solve.answer_sets(SHAPES['ShVarNum'][2] + '\n' + r[1])
                except solve.SolveError as e:
                    rep.violation('clingo rejects the compiled constraint', dict(text=DECL + text, impl=r[1], error=str(e)))
                    continue
                acc = set(SHAPES['ShVarNum'][3](m) for m in models)
                for v in value_domain('ShVarNum'):
                    obs_cases.append('OSimple %s %s %s %s %s' % (coq_bool(req), coq_str(ph), coq_z(v), coq_z(t), coq_bool(v in acc)))
                    obs_meta.append(dict(text=DECL + text, impl=r[1], shape='ShOneOf', value=v, threshold=t, accepted=v in acc, required=req, phrase=ph))

    # both sides counted: 'the number of nodes is <phrase> the number of boxes' and 'between the number of boxes and the number of crates'
    # (observations only: every combination of 0..3 nodes, boxes and crates)
    decl2 = "A node is identified by an id, and has a weight.\nA box is identified by an id.\nA crate is identified by an id.\n"
    choice2 = "{node(1..3,0)}. {box(1..3)}. {crate(1..3)}."

    def counts(m):
        return tuple(len([a for a in m if a.startswith(p + '(')]) for p in ('node', 'box', 'crate'))
    for req in (False, True):
        for ph in phs + ['between', 'between_number_first', 'between_number_second']:
            if ph == 'between':
                text = "It is %s that the number of nodes is between the number of boxes and the number of crates." % POL[req]
            elif ph == 'between_number_first':
                text = "It is %s that the number of nodes is between 1 and the number of crates." % POL[req]
            elif ph == 'between_number_second':
                text = "It is %s that the number of nodes is between the number of boxes and 2." % POL[req]
            else:
                text = "It is %s that the number of nodes is %s the number of boxes." % (POL[req], ph)
            r = impl.compile_text(decl2 + text)
            compiles += 1
            rep.case(('ShAggAgg', req, ph))
            if r[0] != 'ok':
                rep.violation('compilation failed on a comparison between counted quantities', dict(text=decl2 + text, result=r))
                continue
            try:
                models = solve.answer_sets(choice2 + '\n' + r[1])
            except solve.SolveError as e:
                rep.violation('clingo rejects the compiled constraint', dict(text=decl2 + text, impl=r[1], error=str(e)))
                continue
            acc = set(counts(m) for m in models)
            for (n, b, c) in itertools.product(range(4), repeat=3):
                if ph.startswith('between'):
                    lo, hi = (1 if ph == 'between_number_first' else b), (2 if ph == 'between_number_second' else c)
                    n_acc = len([x for x in acc if x[0] == n and (x[1] == b or ph == 'between_number_first') and (x[2] == c or ph == 'between_number_second')])
                    total = (4 if ph == 'between_number_first' else 1) * (4 if ph == 'between_number_second' else 1)
                    if n_acc not in (0, total):
                        rep.violation('the verdict depends on a quantity the sentence does not mention', dict(text=decl2 + text, impl=r[1], nodes=n, boxes=b, crates=c))
                        continue
                    obs_cases.append('OBetween %s %s %s %s %s' % (coq_bool(req), coq_z(n), coq_z(lo), coq_z(hi), coq_bool(n_acc > 0)))
                    obs_meta.append(dict(text=decl2 + text, impl=r[1], shape='ShAggAgg', value=n, l=lo, u=hi, accepted=n_acc > 0, required=req, phrase='between'))
                elif c == 0:
                    obs_cases.append('OSimple %s %s %s %s %s' % (coq_bool(req), coq_str(ph), coq_z(n), coq_z(b), coq_bool((n, b, 0) in acc)))
                    obs_meta.append(dict(text=decl2 + text, impl=r[1], shape='ShAggAgg', value=n, threshold=b, accepted=(n, b, 0) in acc, required=req, phrase=ph))

    # angle-valued operands are compared in whole turns ('(A)/360 < (T)/360', pinned by the suite): the complement half of the property
    # is observed directly -- every value is accepted by exactly one of the requirement and the prohibition
    decl3 = "An angle is identified by a value.\nA joint is identified by an id.\nA position is identified by a joint, and by an angle.\n"
    choice3 = "1{position(1,A): A=(0;90;359;360;400;719;720;1000)}1."
    for ph in phs + ['between']:
        for t in ([(90, 400), (360, 719), (400, 90)] if ph == 'between' else [90, 360, 720]):
            acc = {}
            for req in (False, True):
                tail = 'between %d and %d' % t if ph == 'between' else '%s %d' % (ph, t)
                text = "It is %s that the angle A of the position P is %s." % (POL[req], tail)
                r = impl.compile_text(decl3 + text)
                compiles += 1
                if r[0] != 'ok':
                    rep.violation('compilation failed on a comparison of an angle', dict(text=decl3 + text, result=r))
                    break
                try:
                    models = solve.answer_sets(choice3 + '\n' + r[1])
                except solve.SolveError as e:
                    rep.violation('clingo rejects the compiled constraint', dict(text=decl3 + text, impl=r[1], error=str(e)))
                    break
                acc[req] = (set(int(a[9:-1].split(',')[1]) for m in models for a in m if a.startswith('position(')), text, r[1])
            if len(acc) < 2:
                continue
            rep.case(('ShAngle', ph, t))
            rep.evaluations += 8
            for v in (0, 90, 359, 360, 400, 719, 720, 1000):
                if (v in acc[True][0]) == (v in acc[False][0]):
                    rep.violation('the requirement and the prohibition of the same comparison both %s the value %d' % ('accept' if v in acc[True][0] else 'reject', v),
                                  dict(required_text=decl3 + acc[True][1], required_program=acc[True][2], prohibited_text=decl3 + acc[False][1],
                                       prohibited_program=acc[False][2], facts='position(1,%d).' % v, shape='ShAngle'))
                    break

    rep.sample(corr_meta[0] if corr_meta else None)
    rep.sample(corr_meta[-1] if corr_meta else None)
    rep.sample(obs_meta[len(obs_meta) // 2] if obs_meta else None)
    rep.evaluations += len(obs_cases)

    corr_fail, obs_fail, model_fail = [], [], []
    if proof['ok'] or proof['extra_ok']:
        corr_fail = common.run_cases(PID, 'corr', PRE, corr_cases, 'corr_ok')
        obs_fail = common.run_cases(PID, 'obs', PRE, obs_cases, 'obs_ok', shard=2500)
        model_fail = common.run_cases(PID, 'mobs', PRE, obs_cases, 'obs_model_ok', shard=2500)
    else:
        # the theorem file no longer builds: fall back to a harness-side oracle for the search
        named = {"the same as": lambda a, b: a == b, "equal to": lambda a, b: a == b, "different from": lambda a, b: a != b,
                 "more than": lambda a, b: a > b, "greater than": lambda a, b: a > b, "less than": lambda a, b: a < b,
                 "greater than or equal to": lambda a, b: a >= b, "at least": lambda a, b: a >= b,
                 "less than or equal to": lambda a, b: a <= b, "at most": lambda a, b: a <= b, "not after": lambda a, b: a <= b}
        for i, m in enumerate(obs_meta):
            if m['phrase'] == 'between':
                holds = m['l'] <= m['value'] <= m['u']
            else:
                holds = named[m['phrase']](m['value'], m['threshold'])
            exp_acc = holds if m['required'] else not holds
            if exp_acc != m['accepted']:
                obs_fail.append(i)

    # ---- classify
    known_between = 'F-C03-between-required' in findings
    new_obs = []
    for i in obs_fail:
        m = obs_meta[i]
        if known_between and m['phrase'] == 'between' and m['required'] and i not in model_fail:
            # trigger: Required /\ between ; difference: exactly what the refuted model predicts
            rep.known_finding('F-C03-between-required',
                              "'It is required that X is between L and U' compiles to ':- L > X, X > U' and rejects nothing (e.g. %r)" % findings['F-C03-between-required']['witness'])
            continue
        if m.get('shape') == 'ShOneOf' and m['required'] and 'F-C03-required-lost-under-one-of' in findings:
            # trigger: Required /\ a 'where ... is one of' substitution in the same sentence
            rep.known_finding('F-C03-required-lost-under-one-of', findings['F-C03-required-lost-under-one-of']['summary'])
            continue
        new_obs.append(i)
    for i in new_obs[:3]:
        m = obs_meta[i]
        rep.violation('clingo %s value %s although the comparison named by the phrase says otherwise'
                      % ('accepts' if m['accepted'] else 'rejects', m['value']), m)
    if new_obs and len(new_obs) > 3:
        rep.notes.append('%d further oracle failures not listed' % (len(new_obs) - 3))

    tie_broken = []
    if not tie_ok:
        tie_broken.append('translator failed closed: ' + tout[-800:])
    if not proof['ok']:
        tie_broken.append('theorem file does not build: %s' % proof['failed_at'])
    if corr_fail:
        tie_broken.append('correspondence (model text vs implementation text) differs on %d cases, first: %r' % (len(corr_fail), corr_meta[corr_fail[0]]))
    if [i for i in model_fail if i not in obs_fail]:
        tie_broken.append('model semantics disagrees with clingo on %d observations' % len(model_fail))
    if proof['bad']:
        tie_broken.append('forbidden tokens in the development: %r' % proof['bad'])
    if tie_broken and not new_obs:
        rep.violation('proof obligation or correspondence no longer checks and no failing input was found: ' + ' | '.join(tie_broken),
                      dict(kind='broken-tie', theorem='Props/C03.v: C03_negation_complement / C03_phrase_meaning / C03_required_is_complement_partial',
                           details=tie_broken, first_differing_input=corr_meta[corr_fail[0]] if corr_fail else None,
                           searched='%d compiles, %d clingo observations over every phrase x polarity x shape x grid' % (compiles, len(obs_cases))),
                      no_input=True)
    elif tie_broken:
        rep.notes.extend(tie_broken)
    # the refuted witness must still be exhibited by the implementation (otherwise the model is out of date)
    if known_between and 'F-C03-between-required' not in rep.known and proof['ok']:
        rep.violation('model is out of date: C03_between_required_refuted holds in the model but the implementation no longer shows it',
                      dict(kind='broken-tie', theorem='C03_between_required_refuted'), no_input=True)

    rep.cov['compiles'] = compiles
    rep.cov['clingo_observations'] = len(obs_cases)
    rep.cov['correspondence_cases'] = len(corr_cases)
    rep.cov['exhaustive'] = tier == 'thorough'
    rep.cov['distribution'] = dict(phrases=len(phs) + 1, shapes=7, polarities=2, thresholds=len(thresholds), between_pairs=len(bt_pairs))
    rep.assumptions += ['clingo 5.8.2 decides satisfiability of facts+constraint (external semantics)',
                        'Lark parses the template sentences as intended (checked indirectly: model text == implementation text)',
                        'hand-written control-flow model of convert_operation (tied by the correspondence stream)']
    return rep.finish(proof, rule='every comparison phrase x {required,prohibited} x 5 operand shapes x threshold grid; a case is distinct by '
                                  '(shape, polarity, phrase, threshold(s)); each compile is observed under clingo on a 6-value grid')
