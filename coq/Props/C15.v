(* C15 — model explanations state exactly the model (sentence construction).
   Explain/Explain.v models _clingo_symbol_to_sentence and its helpers for atoms with at most one possible subject; it is tied to
   /repo by comparing, for every atom of every answer set of the stream, the model's sentence with the implementation's. *)
Require Import Coq.Strings.String Coq.Strings.Ascii Coq.Lists.List Coq.Bool.Bool.
Require Import Cnl2aspV.Asp.Syntax Cnl2aspV.Asp.Print Cnl2aspV.Explain.Explain Cnl2aspV.Explain.ExplainProofs.
Import ListNotations.
Open Scope string_scope.

(* the sentence ends with a full stop and starts with an upper-case letter whenever it starts with a letter *)
Theorem C15_sentence_shape : forall sg args s, sentence_of sg args = Sentence s -> Str.ends_with_char s "."%char = true.
Proof.
  intros sg args s H. unfold sentence_of in H. destruct (raw_sentence sg args) as [r|]; [|discriminate].
  injection H as <-. generalize (cap_first r). intros t. induction t as [|c t IH]; [reflexivity|].
  cbn [append]. cbn [Str.ends_with_char]. destruct (t ++ ".") eqn:E; [destruct t; discriminate|]. exact IH.
Qed.
Print Assumptions C15_sentence_shape.

(* a fact of a declared concept: 'There is <concept> with ... equal to v, ...' (non-vacuity and the repaired letter case) *)
Example C15_fact_example :
  let n := fun s => {| on_name := s; on_forms := [s; s; s] |} in
  let movie := {| xe_name := n "movie"; xe_keys := [ {| x_name := n "id"; x_origin := [n "movie"]; x_value := "_" |} ];
                  xe_attrs := [ {| x_name := n "title"; x_origin := [n "movie"]; x_value := "_" |} ] |} in
  sentence_of {| sg_entity := movie; sg_subjects := []; sg_verb := None; sg_objects := [] |} ["1"; """jurassicPark"""]
  = Sentence "There is movie with id equal to 1, with title equal to jurassicPark.".
Proof. vm_compute. reflexivity. Qed.

(* Python's str.strip() as the explanation code uses it: white space around a core that neither starts nor ends with white
   space is removed and nothing else (every sentence passes through it twice) *)
Theorem C15_strip_spec : forall a m b,
  all_space a = true -> all_space b = true -> first_ok m = true -> last_ok m = true -> strip (a ++ m ++ b) = m.
Proof. exact strip_spec. Qed.
Print Assumptions C15_strip_spec.

(* Facts of a declared concept (no subject, verb or objects), any number of keys and attributes, any argument values that are
   non-empty and free of white space and commas: the sentence is 'There is <concept> <value>.' for one argument and
   'There is <concept> with <attribute> equal to <value>, with ... .' otherwise -- it names the concept and every value, in
   argument order. *)
Theorem C15_fact_sentence_closed_form_partial : forall e args,
  name_ok (on_name (xe_name e)) = true ->
  xe_all (parse_symbol e args) <> [] ->
  Forall (fun a => value_ok (x_value a) = true) (xe_all (parse_symbol e args)) ->
  sentence_of (fact_sig e) args =
  Sentence ("There is " ++ replace_underscore (on_name (xe_name e)) ++ " " ++
            fact_body (on_name (xe_name e)) (xe_all (parse_symbol e args)) ++ ".").
Proof. exact fact_sentence_closed_form. Qed.
Print Assumptions C15_fact_sentence_closed_form_partial.

(* ... and distinct atoms give distinct sentences: two atoms of the concept that are explained by the same sentence have the
   same argument values (after the quotes of string arguments are removed: p("a") and p(a) are told apart by no sentence,
   which is the known finding F-C15-readback-value-not-a-word).  Partial: facts of declared concepts only; sentences with a
   subject, a verb or objects are compared per atom by the oracle. *)
Theorem C15_distinct_atoms_distinct_sentences_partial : forall e args1 args2,
  name_ok (on_name (xe_name e)) = true ->
  xe_all e <> [] ->
  length args1 = length (xe_all e) -> length args2 = length (xe_all e) ->
  Forall (fun a => value_ok (x_value a) = true) (xe_all (parse_symbol e args1)) ->
  Forall (fun a => value_ok (x_value a) = true) (xe_all (parse_symbol e args2)) ->
  sentence_of (fact_sig e) args1 = sentence_of (fact_sig e) args2 ->
  map unquote args1 = map unquote args2.
Proof.
  intros e args1 args2 Hn Hne L1 L2 H1 H2 E.
  rewrite <- (parsed_values e args1 L1), <- (parsed_values e args2 L2). exact (fact_sentences_injective e args1 args2 Hn Hne H1 H2 E).
Qed.
Print Assumptions C15_distinct_atoms_distinct_sentences_partial.

(* the hypotheses are met by the movie fact above, and the closed form is the sentence the implementation prints *)
Example C15_injective_example :
  let n := fun s => {| on_name := s; on_forms := [s; s; s] |} in
  let movie := {| xe_name := n "movie"; xe_keys := [ {| x_name := n "id"; x_origin := [n "movie"]; x_value := "_" |} ];
                  xe_attrs := [ {| x_name := n "title"; x_origin := [n "movie"]; x_value := "_" |} ] |} in
  let args := ["1"; """jurassicPark"""] in
  name_ok (on_name (xe_name movie)) = true /\ xe_all movie <> [] /\ length args = length (xe_all movie) /\
  forallb (fun a => value_ok (x_value a)) (xe_all (parse_symbol movie args)) = true /\
  map unquote args = ["1"; "jurassicPark"].
Proof. vm_compute. repeat split. discriminate. Qed.
