(* C16 — temporal concepts enumerate their range in chronological order.
   Statements only; proofs are `exact` into Time/*.v.  The clock/calendar encodings are validated against CPython's
   datetime by the function-level correspondence stream; ORDERING_OPERATOR and the operator symbols are generated. *)
Require Import Coq.Strings.String Coq.ZArith.ZArith Coq.Lists.List Coq.Bool.Bool.
Require Import Cnl2aspV.Time.Clock Cnl2aspV.Time.Calendar Cnl2aspV.Time.Range Cnl2aspV.Time.RangeProofs.
Import ListNotations.
Open Scope string_scope.
Open Scope Z_scope.

Theorem clock_roundtrip : forall m, 0 <= m < 1440 -> parse_time (fmt_time m) = Some m.
Proof. exact Clock.clock_roundtrip. Qed.
Print Assumptions clock_roundtrip.

Theorem calendar_roundtrip : forall n, 1 <= n <= max_ord ->
  match ymd_of_ord n with (y, m, d) => valid_ymd y m d = true /\ ord_of_ymd y m d = n end.
Proof. exact Calendar.calendar_roundtrip. Qed.
Print Assumptions calendar_roundtrip.

Theorem calendar_text_roundtrip : forall n, min_fmt_ord <= n <= max_ord -> parse_date (fmt_ord n) = Some n.
Proof. exact Calendar.date_text_roundtrip. Qed.
Print Assumptions calendar_text_roundtrip.

(* the loop of _compute_values produces exactly the points A, A+L, ... <= B, numbered from 0, in this order *)
Theorem C16_values_closed_form :
  forall ty A B L, A <= B -> 0 < eff_len ty L ->
    compute_values ty A B L =
    map (fun i => (fmt_pos ty (A + Z.of_nat i * eff_len ty L), Z.of_nat i)) (seq 0 (S (Z.to_nat ((B - A) / eff_len ty L)))).
Proof. exact compute_values_closed. Qed.
Print Assumptions C16_values_closed_form.

(* one fact per point, consecutive numbers, the i-th fact carries the printed value of A + i*L; the last point is the
   largest one not exceeding B *)
Theorem C16_facts :
  forall ty A B L, A <= B -> 0 < eff_len ty L ->
    let n := Z.to_nat ((B - A) / eff_len ty L) in
    length (compute_values ty A B L) = S n /\
    (forall i, (i <= n)%nat -> nth_error (compute_values ty A B L) i = Some (fmt_pos ty (A + Z.of_nat i * eff_len ty L), Z.of_nat i)) /\
    A + Z.of_nat n * eff_len ty L <= B < A + (Z.of_nat n + 1) * eff_len ty L.
Proof.
  intros ty A B L HAB HL n. split; [|split].
  - exact (values_length ty A B L HAB HL).
  - exact (values_nth ty A B L HAB HL).
  - exact (last_point_within ty A B L HAB HL).
Qed.
Print Assumptions C16_facts.

(* a reference value is found exactly when it is the printed form of a point of the range, and then its number is returned *)
Theorem C16_lookup :
  forall ty A B L, A <= B -> 0 < eff_len ty L -> in_domain ty A B L ->
    let n := Z.to_nat ((B - A) / eff_len ty L) in
    (forall i, (i <= n)%nat -> value_id (compute_values ty A B L) (fmt_pos ty (A + Z.of_nat i * eff_len ty L)) = Some (Z.of_nat i)) /\
    (forall k v, value_id (compute_values ty A B L) k = Some v ->
       exists i, (i <= n)%nat /\ v = Z.of_nat i /\ k = fmt_pos ty (A + Z.of_nat i * eff_len ty L)).
Proof.
  intros ty A B L HAB HL HD n. split.
  - exact (lookup_in_range ty A B L HAB HL HD).
  - exact (lookup_some ty A B L HAB HL).
Qed.
Print Assumptions C16_lookup.

(* 'before'/'after' compare numbers, and numbers order exactly like the points *)
Theorem C16_order :
  forall A L i j, 0 < L ->
    ordering_holds "before" i j = Some (i <? j) /\ ordering_holds "after" i j = Some (j <? i) /\
    (i < j <-> A + i * L < A + j * L).
Proof.
  intros A L i j HL. split; [exact (ordering_before i j)|]. split; [exact (ordering_after i j)|].
  exact (index_order_is_time_order A L i j HL).
Qed.
Print Assumptions C16_order.

Theorem C16_out_of_range_rejected :
  forall name vals var word v, value_id vals (ref_key v) = None -> exists msg, temporal_constraint name vals var word v = Err msg.
Proof. exact out_of_range_rejected. Qed.
Print Assumptions C16_out_of_range_rejected.

(* non-vacuity: the repository-style range 11:30 AM .. 12:40 PM by 25 *)
Example C16_example :
  compute_values TTime 690 760 25 = [(KStr "11:30 AM", 0); (KStr "11:55 AM", 1); (KStr "12:20 PM", 2)]
  /\ in_domain TTime 690 760 25.
Proof. split; [vm_compute; reflexivity | simpl; split; [discriminate | reflexivity]]. Qed.
