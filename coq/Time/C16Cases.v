(* Correspondence cases for C16 (evaluated by vm_compute on harness-generated data). *)
Require Import Coq.Strings.String Coq.ZArith.ZArith Coq.Lists.List Coq.Bool.Bool.
Require Import Cnl2aspV.Base.Util Cnl2aspV.Base.Str Cnl2aspV.Time.Range.
Import ListNotations.
Open Scope string_scope.

Fixpoint vals_eqb (a b : list (tkey * Z)) : bool :=
  match a, b with
  | [], [] => true
  | (k, v) :: r, (k', v') :: r' => tkey_eqb k k' && Z.eqb v v' && vals_eqb r r'
  | _, _ => false end.

(* function level: impl = Some (items of the dict) | None (the constructor raised) *)
Record fcase := { f_ty : ttype; f_a : tvalue; f_b : tvalue; f_len : option string; f_impl : option (list (tkey * Z)) }.

Definition fcase_ok (c : fcase) : bool :=
  match compute_values_text "t" (f_ty c) (f_a c) (f_b c) (f_len c), f_impl c with
  | Ok l, Some l' => vals_eqb l l'
  | Err _, None => true
  | Unsupported, _ => true
  | _, _ => false end.

Definition fcase_supported (c : fcase) : bool :=
  match compute_values_text "t" (f_ty c) (f_a c) (f_b c) (f_len c) with Unsupported => false | _ => true end.

(* compile level: declaration + 'It is prohibited that a visit V is <word> <ref>.'  impl = program text or error message *)
Record ccase := { c_name : string; c_ty : ttype; c_a : tvalue; c_b : tvalue; c_len : option string;
                  c_word : string; c_ref : tvalue; c_impl_ok : bool; c_impl : string }.

Definition expected_program (c : ccase) : res string :=
  match compute_values_text (c_name c) (c_ty c) (c_a c) (c_b c) (c_len c) with
  | Ok vals =>
      let var := strip_vowels_upper (c_name c ++ "_visit") in
      match temporal_constraint (c_name c) vals var (c_word c) (c_ref c) with
      | Ok lit => Ok (facts_text (c_name c) vals ++ ":- visit(_," ++ var ++ "), " ++ lit ++ "." ++ nl)
      | Err m => Err m
      | Unsupported => Unsupported end
  | Err m => Err m
  | Unsupported => Unsupported end.

Definition ccase_ok (c : ccase) : bool :=
  match expected_program c with
  | Ok p => c_impl_ok c && String.eqb p (c_impl c)
  | Err m => negb (c_impl_ok c) && (substring_b m (c_impl c) || prefix_b "type-mismatch" m)
  | Unsupported => true end.
