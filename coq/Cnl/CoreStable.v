(* Core fragment, specifications of named-instance, single-clause and choice sentences (no derived definitions): the ground
   program is hierarchical (concept atoms below the chosen atoms), hence its stable models are exactly the models of the reading. *)
Require Import Coq.Strings.String Coq.Lists.List Coq.Bool.Bool Coq.ZArith.ZArith Coq.Arith.Arith Lia.
Require Import Cnl2aspV.Base.Util Cnl2aspV.Asp.Ground Cnl2aspV.Cnl.Comparison Cnl2aspV.Cnl.Core Cnl2aspV.Cnl.CoreProofs Cnl2aspV.Cnl.CoreDef
               Cnl2aspV.Cnl.CoreChoice Cnl2aspV.Cnl.CoreChoiceEach Cnl2aspV.Cnl.CoreWhere Cnl2aspV.Cnl.CoreProgram Cnl2aspV.Cnl.CoreSupport.
Import ListNotations.
Open Scope string_scope.

(* every one-argument atom of a declared concept over the universe *)
Definition concept_atoms (s : spec) (U : list string) : list gatom :=
  flat_map (fun n => map (fun x => atom_text n [x]) U) (concept_names s).
Definition level (s : spec) (U : list string) (a : gatom) : nat := if mem_string a (concept_atoms s U) then 0 else 1.

(* separation (decidable, by evaluation for a given specification): no instance of a chosen relation over the universe has the
   text of a concept atom *)
Definition choice_heads (s : spec) (U : list string) (x : sentence) : list gatom :=
  match x with
  | SChoice c =>
      match ch_foreach c with
      | None => flat_map (fun x0 => map (fun y => atom_text (verb_pred (ch_verb c)) [x0; y]) U) U
      | Some _ => flat_map (fun z => flat_map (fun x0 => map (fun y => atom_text (verb_pred (ch_verb c)) [z; x0; y]) U) U) U
      end
  | _ => [] end.
Definition separated (s : spec) (U : list string) : bool :=
  forallb (fun x => forallb (fun a => negb (mem_string a (concept_atoms s U))) (choice_heads s U x)) (sentences s).

Lemma level_concept s U n x : declared s n -> In x U -> level s U (atom_text n [x]) = 0.
Proof.
  intros Hn Hx. unfold level. assert (E : mem_string (atom_text n [x]) (concept_atoms s U) = true).
  { apply mem_string_In. unfold concept_atoms. apply in_flat_map. exists n. split; [exact Hn|]. apply in_map_iff. eauto. }
  now rewrite E.
Qed.

Section Hier.
  Variables (s : spec).
  Let U := universe s.
  Hypothesis Hsep : separated s U = true.
  Hypothesis Hcov : forall x, In x (sentences s) -> covered s x /\ no_definition x.

  Lemma head_level x a : In x (sentences s) -> In a (choice_heads s U x) -> level s U a = 1.
  Proof.
    intros Hx Ha. unfold separated in Hsep. rewrite forallb_forall in Hsep. specialize (Hsep x Hx). rewrite forallb_forall in Hsep.
    specialize (Hsep a Ha). apply negb_true_iff in Hsep. unfold level. now rewrite Hsep.
  Qed.

  Lemma ground_hierarchical : hierarchical (level s U) (ground s).
  Proof.
    intros r Hr. unfold ground, compile in Hr. fold U in Hr. rewrite flat_map_app in Hr. apply in_app_or in Hr as [Hr|Hr].
    - (* facts *)
      rewrite flat_map_flat_map in Hr. apply in_flat_map in Hr as (c & _ & Hr).
      destruct (concept_rules_only U c r Hr) as (h & b & ->). unfold compile_concept in Hr. destruct (c_dom c) as [lo hi|vals].
      + cbn [flat_map ground_rule] in Hr. rewrite app_nil_r in Hr. apply in_map_iff in Hr as (z & E & _). injection E as _ <-.
        cbn [hier_rule b_pos b_neg]. split; intros a [].
      + rewrite flat_map_map in Hr. apply in_flat_map in Hr as (v & _ & Hr). cbn [ground_rule] in Hr. destruct Hr as [E|[]]. injection E as _ <-.
        cbn [hier_rule b_pos b_neg]. split; intros a [].
    - rewrite flat_map_flat_map in Hr. apply in_flat_map in Hr as (x & Hx & Hr). destruct (Hcov x Hx) as (Hc & Hn).
      destruct x as [c|? ? ? ?|required whenpart main wh|l vals y|required neg v sv ov]; try destruct Hn.
      + (* choice *)
        cbn [covered] in Hc. destruct Hc as (Hds & Hdo & _ & Hne & Hfe). destruct (ch_foreach c) as [e|] eqn:Efe.
        * destruct Hfe as (Hde & Hes & Heo). rewrite (each_ground s U c e Efe Hne Hes Heo) in Hr.
          apply in_flat_map in Hr as (z & Hz & Hr). apply in_map_iff in Hr as (x0 & <- & Hx0). cbn [hier_rule].
          intros a cnd Hin. apply in_map_iff in Hin as (y & E & Hy). injection E as <- <-.
          assert (Hl : level s U (atom_text (verb_pred (ch_verb c)) [z; x0; y]) = 1).
          { apply (head_level (SChoice c)); [exact Hx|]. cbn [choice_heads]. rewrite Efe. apply in_flat_map. exists z. split; [exact Hz|].
            apply in_flat_map. exists x0. split; [exact Hx0|]. apply in_map_iff. eauto. }
          rewrite Hl. cbn [b_pos b_neg]. repeat split.
          -- intros b [<-|[<-|[]]]; [rewrite (level_concept s U e z Hde Hz)|rewrite (level_concept s U _ x0 Hds Hx0)]; lia.
          -- intros b [].
          -- intros b [<-|[]]. rewrite (level_concept s U _ y Hdo Hy). lia.
        * rewrite (choice_ground s U c Efe Hne) in Hr. apply in_map_iff in Hr as (x0 & <- & Hx0). cbn [hier_rule].
          intros a cnd Hin. apply in_map_iff in Hin as (y & E & Hy). injection E as <- <-.
          assert (Hl : level s U (atom_text (verb_pred (ch_verb c)) [x0; y]) = 1).
          { apply (head_level (SChoice c)); [exact Hx|]. cbn [choice_heads]. rewrite Efe. apply in_flat_map. exists x0. split; [exact Hx0|].
            apply in_map_iff. eauto. }
          rewrite Hl. cbn [b_pos b_neg]. repeat split.
          -- intros b [<-|[]]. rewrite (level_concept s U _ x0 Hds Hx0). lia.
          -- intros b [].
          -- intros b [<-|[]]. rewrite (level_concept s U _ y Hdo Hy). lia.
      + pose proof (cons_only_constraints s U required whenpart main wh r Hr) as Hk. destruct r; try destruct Hk. exact Logic.I.
      + destruct y as [?|? ? ? ?|rq wp mn wh|? ? ?|? ? ? ? ?]; try destruct Hn.
        destruct (oneof_rules_are_constraints s U l vals rq wp mn wh r Hr) as (b & ->). exact Logic.I.
      + pose proof (there_only_constraints s U required neg v sv ov r Hr) as Hk. destruct r; try destruct Hk. exact Logic.I.
  Qed.

  (* the answer sets are the models of the reading *)
  Theorem stable_iff_reading (I : interp) :
    (forall n, declared s n -> forall x, In x (universe s) -> holds I (atom_text n [x]) = mem_string x (dom_of s n)) ->
    (stable (ground s) I <-> reading s I = true).
  Proof.
    intros Hdom. rewrite (hierarchical_stable (level s U) (ground s) I ground_hierarchical).
    now rewrite (program_scb s I Hdom Hcov).
  Qed.
End Hier.
