(* C02 — aggregate sentences count, sum and bound what they say.
   Asp/Agg.v: values of #count/#sum/#max/#min over sets of tuples (with #inf/#sup); Cnl/Aggregate.v: the aggregate sentence forms,
   their READING, the compile model and the semantics of the emitted rule. *)
Require Import Coq.ZArith.ZArith Coq.Lists.List Coq.Bool.Bool.
Require Import Cnl2aspV.Asp.CmpSem Cnl2aspV.Asp.Agg Cnl2aspV.Asp.AggProofs.
Import ListNotations.

(* the count / sum / maximum / minimum is taken over the DISTINCT qualifying tuples: two enumerations of the same set of
   tuples (any order, any repetitions) give the same value, for all four functions and lists of any length *)
Theorem C02_value_over_distinct_tuples :
  forall (f : aggfn) (l l' : list tuple), (forall t, In t l <-> In t l') -> agg_value f l = agg_value f l'.
Proof. exact agg_value_set. Qed.
Print Assumptions C02_value_over_distinct_tuples.

(* the negated comparison symbol is the exact complement, also when the aggregate is #inf / #sup (empty maximum / minimum) *)
Theorem C02_negated_symbol_complement :
  forall (k : ckind) (a b : ext), eksem (kneg k) a b = negb (eksem k a b).
Proof. exact eksem_kneg. Qed.
Print Assumptions C02_negated_symbol_complement.
