"""C08 -- automatic joins connect only positions that denote the same attribute."""
import random
import re
import multiprocessing as mp
import io
import contextlib

import clingo.ast as A

import common
import impl
import stream
import aspast
from common import Report, coq_str, coq_list
from props import c07

PID = 'C08'
PRE = 'Require Import Cnl2aspV.Asp.Syntax Cnl2aspV.Cnl.Link Cnl2aspV.Cnl.LinkCases.'


def position_types(sym):
    """Symbol -> list of (attribute name, root concept) per argument position"""
    out = []
    for a in sym.attributes:
        chain = []
        x = a
        while not isinstance(x, str):
            chain.append(x.predicate)
            x = x.attributes[0]
        out.append((x, chain[-1] if chain else sym.predicate))
    return out


def _job(text):
    from cnl2asp.cnl2asp import Cnl2asp
    out = io.StringIO()
    try:
        with contextlib.redirect_stdout(out):
            r = impl.compile_text(text)
            if r[0] != 'ok':
                return None
            syms = Cnl2asp(text).get_symbols()
        return (r[1], {s.predicate: position_types(s) for s in syms}, out.getvalue())
    except Exception:
        return None


def occurrences(stm):
    """[(predicate, position, variable name, inside_aggregate_tuple?)] for plain-variable arguments of every atom of a statement"""
    res = []

    def visit(x, in_agg):
        if isinstance(x, A.AST):
            if x.ast_type == A.ASTType.SymbolicAtom:
                sym = x.symbol
                if sym.ast_type == A.ASTType.Function:
                    for i, t in enumerate(sym.arguments):
                        if t.ast_type == A.ASTType.Variable and t.name != '_':
                            res.append((sym.name, i, t.name, False))
                return
            if x.ast_type in (A.ASTType.BodyAggregateElement,):
                for t in x.terms:
                    if t.ast_type == A.ASTType.Variable:
                        res.append(('#tuple', 0, t.name, True))
                for c in x.condition:
                    visit(c, True)
                return
            for k in x.child_keys:
                visit(getattr(x, k), in_agg)
        elif hasattr(x, '__iter__') and not isinstance(x, str):
            for y in x:
                visit(y, in_agg)
    visit(stm, False)
    return res


def link_cases(rnd, n):
    """function-level correspondence of the linker model (random atoms)"""
    from cnl2asp.converter.asp_converter import ASPConverter
    from cnl2asp.ASP_elements.asp_atom import ASPAtom
    from cnl2asp.ASP_elements.asp_attribute import ASPAttribute, ASPValue
    from cnl2asp.specification.attribute_component import AttributeComponent, ValueComponent, AttributeOrigin
    from cnl2asp.specification.entity_component import EntityComponent
    CONC = ['node', 'color', 'slot', 'nodes']

    def rnd_origin():
        r = rnd.random()
        if r < 0.1:
            return None
        if r < 0.7:
            return AttributeOrigin(rnd.choice(CONC))
        return AttributeOrigin(rnd.choice(CONC), AttributeOrigin(rnd.choice(CONC)))

    def ser_origin(o):
        links = []
        while o is not None:
            nc = o.name
            links.append('{| on_name := %s; on_forms := %s |}' % (coq_str(nc.name), coq_list([coq_str(f) for f in nc.singular_and_plural_name])))
            o = o.origin
        return coq_list(links)
    cases, meta = [], []
    for _ in range(n):
        def mk_entity(name):
            keys = [AttributeComponent(rnd.choice(['id', 'code']), ValueComponent(rnd.choice(['_', '_', '_', 'X', 'Y', '1'])), rnd_origin() or AttributeOrigin(name)) for _ in range(rnd.randint(1, 2))]
            attrs = [AttributeComponent(rnd.choice(['id', 'code', 'weight']), ValueComponent(rnd.choice(['_', '_', 'X', 'Z'])), rnd_origin() or AttributeOrigin(name)) for _ in range(rnd.randint(0, 2))]
            return EntityComponent(name, '', keys, attrs)
        n1, n2 = rnd.sample(['node', 'color', 'slot', 'joined_to'], 2)
        e1, e2 = mk_entity(n1), mk_entity(n2)
        conv = ASPConverter()
        taken = rnd.choice([[], ['ND_D'], ['CLR_D', 'ND_D', 'SLT_D'], ['JND_T_D', 'ND_CD']])
        conv._created_fields = list(taken)
        a1 = ASPAtom(n1, [ASPAttribute(a.get_name(), ASPValue(str(a.value)), a.origin) for a in e1.keys + e1.attributes])
        a2 = ASPAtom(n2, [ASPAttribute(a.get_name(), ASPValue(str(a.value)), a.origin) for a in e2.keys + e2.attributes])

        def sa(a):
            return '{| a_name := %s; a_value := %s; a_origin := %s |}' % (coq_str(a.name), coq_str(str(a.get_value())), ser_origin(a.origin))

        def sk(k):
            return '{| k_name := %s; k_origin := %s |}' % (coq_str(k.get_name()), ser_origin(k.origin))
        pre = (coq_list([sa(a) for a in a1.attributes]), coq_list([sa(a) for a in a2.attributes]))
        try:
            conv._link_two_atoms(e1, e2, a1, a2, [])
        except Exception:
            continue
        o1 = [str(a.get_value()) for a in a1.attributes]
        o2 = [str(a.get_value()) for a in a2.attributes]
        cases.append('{| lc_n1 := %s; lc_n2 := %s; lc_k1 := %s; lc_k2 := %s; lc_a1 := %s; lc_a2 := %s; lc_taken := %s; lc_out1 := %s; lc_out2 := %s |}' % (
            coq_str(n1), coq_str(n2), coq_list([sk(k) for k in e1.get_keys()]), coq_list([sk(k) for k in e2.get_keys()]), pre[0], pre[1],
            coq_list([coq_str(t) for t in taken]), coq_list([coq_str(x) for x in o1]), coq_list([coq_str(x) for x in o2])))
        meta.append(dict(atom1=n1, atom2=n2, before=pre, after=(o1, o2)))
    return cases, meta


def run(tier, seed):
    rep = Report(PID, tier, seed)
    rnd = random.Random(seed)
    proof = common.build_property(PID, extra=['Cnl/LinkCases.vo'])
    findings = {f['id']: f for f in common.load_findings(PID) if f.get('status') == 'known'}
    specs = stream.specs(tier, seed, n_quick=120, n_thorough=1500)
    impl.compile_text('A warmupconcept is identified by an id.')
    with mp.get_context('fork').Pool(14) as pool:
        res = pool.map(_job, [t for _, t, _ in specs], chunksize=6)
    checked_vars = 0
    for (name, text, _), r in zip(specs, res):
        if r is None:
            continue
        prog, types, warn = r
        rep.case(text)
        reserved = c07.all_upper_tokens(text)
        # concepts the author declares; any other predicate is a relation a sentence introduces, whose OWN attributes are copies of its
        # subject's initialised attributes ("a worker W with age more than 18 ... can work in" gives work_in an age): such a position has
        # the type of the attribute it copies, whatever concept that one belongs to
        declared = set(x.lower() for x in re.findall(r'\b[Aa]n? (\w+) (?:is identified|is a temporal concept|goes from|ranges from|is one of)', text))
        try:
            stms = aspast.parse(prog)
        except aspast.ParseError:
            continue
        for stm in stms:
            occ = occurrences(stm)
            by_var = {}
            for pred, pos, var, in_tuple in occ:
                by_var.setdefault(var, []).append((pred, pos, in_tuple))
            for var, places in by_var.items():
                if var in reserved:
                    continue          # the author wrote it
                ts = set()
                for pred, pos, in_tuple in places:
                    p = pred.strip("'")
                    if p == '#tuple' or p.startswith('x_') or p not in types or pos >= len(types[p]):
                        continue
                    ty = types[p][pos]
                    if isinstance(ty, tuple) and len(ty) == 2 and ty[1] == p and p not in declared:
                        continue
                    ts.add(ty)
                checked_vars += 1
                if len(ts) > 1:
                    in_tuple = any(p[0] == '#tuple' for p in places)
                    warned = 'multiple attribute with same name' in warn
                    if 'F-C08-aggregate-discriminant' in findings and (in_tuple or (warned and '#' in str(stm))):
                        rep.known_finding('F-C08-aggregate-discriminant', findings['F-C08-aggregate-discriminant']['summary'])
                        rep.cov.setdefault('known_finding_rules', []).append(str(stm)[:200])
                    else:
                        rep.violation('the invented variable %s joins positions of different attributes: %s' % (var, sorted(ts)),
                                      dict(text=text, rule=str(stm), variable=var, places=[(p, i) for p, i, _ in places], position_types={k: v for k, v in types.items() if k in [p for p, _, _ in places]}))
    lc, lmeta = link_cases(rnd, 1500 if tier == 'thorough' else 300)
    rep.evaluations += len(lc)
    rep.sample(dict(text=specs[0][1][-300:]))
    rep.sample(lmeta[0] if lmeta else None)
    tie_broken = []
    if proof['ok'] or proof['extra_ok']:
        f = common.run_cases(PID, 'link', PRE, lc, 'lcase_ok', shard=300)
        if f:
            tie_broken.append('linker model differs from the implementation on %d cases, first: %r' % (len(f), lmeta[f[0]]))
    if not proof['ok']:
        tie_broken.append('theorem file does not build: %s' % proof['failed_at'])
    if proof['bad']:
        tie_broken.append('forbidden tokens: %r' % proof['bad'])
    if tie_broken and not rep.violations:
        rep.violation('proof obligation or correspondence no longer checks and no failing input was found: ' + ' | '.join(tie_broken),
                      dict(kind='broken-tie', theorem='Props/C08.v / linker correspondence', details=tie_broken,
                           searched='%d invented variables over %d programs' % (checked_vars, len(specs))), no_input=True)
    elif tie_broken:
        rep.notes.extend(tie_broken)
    rep.cov.update(programs=len(specs), invented_variables_checked=checked_vars, linker_cases=len(lc))
    rep.assumptions += ['position types are those get_symbols reports (attribute name, innermost concept of the nested Symbol)',
                        'author variables = all-upper-case tokens of the text']
    return rep.finish(proof, rule='corpus + wide generator (concepts sharing key names, foreign keys); every invented variable of every rule; linker model on random atoms; distinct by text')
