(* C02: the comparison literals emitted for an aggregate sentence hold exactly when the comparison the sentence names holds
   (prohibited) / fails (required), for every value of the aggregates, including #inf / #sup.
   The aggregates themselves are abstract here (any aggt with any value): this is the part of the compile model that goes through
   the generated phrase / negation / symbol / between tables and asp_converter.convert_operation's three aggregate paths. *)
Require Import Coq.Strings.String Coq.ZArith.ZArith Coq.Lists.List Coq.Bool.Bool Lia.
Require Import Cnl2aspV.Base.Util Cnl2aspV.Base.Digits Cnl2aspV.Gen.Operators Cnl2aspV.Gen.Tables Cnl2aspV.Gen.Terminals
               Cnl2aspV.Asp.CmpSem Cnl2aspV.Asp.Agg Cnl2aspV.Asp.AggProofs Cnl2aspV.Cnl.Comparison Cnl2aspV.Cnl.ComparisonProofs
               Cnl2aspV.Cnl.Aggregate.
Import ListNotations.
Open Scope string_scope.

(* every comparison phrase maps to one of the six comparison operators *)
Definition phrase_to_cmp_op (ph : string) : bool :=
  match phrase_op ph with Some o => existsb (operator_eqb o) comparison_ops | None => false end.
Lemma phrase_ops_table : forallb phrase_to_cmp_op comparison_phrases = true.
Proof. vm_compute. reflexivity. Qed.

Lemma sassoc_keys {V} k (l : list (string * V)) v : sassoc k l = Some v -> In k (map fst l).
Proof.
  unfold sassoc. induction l as [|[k' v'] r IH]; cbn; [discriminate|].
  destruct (String.eqb k k') eqn:E; intros H; [apply String.eqb_eq in E; now left|right; now apply IH].
Qed.

Lemma phrase_op_cases ph o :
  phrase_op ph = Some o ->
  o = Op_EQUALITY \/ o = Op_INEQUALITY \/ o = Op_GREATER_THAN \/ o = Op_LESS_THAN \/ o = Op_GREATER_THAN_OR_EQUAL_TO \/ o = Op_LESS_THAN_OR_EQUAL_TO.
Proof.
  intros H. assert (Hin : In ph comparison_phrases).
  { unfold phrase_op in H. destruct (sassoc ph term_COMPARISON_OPERATOR) eqn:E; [|discriminate]. now apply sassoc_keys in E. }
  pose proof (forallb_In _ _ phrase_ops_table ph Hin) as T. unfold phrase_to_cmp_op in T. rewrite H in T.
  destruct o; try (vm_compute in T; discriminate T); tauto.
Qed.

Lemma phrase_named ph o : phrase_op ph = Some o -> exists k, kind_of_op o = Some k /\ named_kind ph = Some k.
Proof.
  intros H. assert (Hin : In ph comparison_phrases).
  { unfold phrase_op in H. destruct (sassoc ph term_COMPARISON_OPERATOR) eqn:E; [|discriminate]. now apply sassoc_keys in E. }
  assert (T : forallb (fun ph => match phrase_op ph with
                                 | Some o => match kind_of_op o, named_kind ph with Some k, Some k' => ckind_eqb k k' | _, _ => false end
                                 | None => false end) comparison_phrases = true) by (vm_compute; reflexivity).
  pose proof (forallb_In _ _ T ph Hin) as T'. cbn beta in T'. rewrite H in T'.
  destruct (kind_of_op o) as [k|]; [|discriminate]. destruct (named_kind ph) as [k'|]; [|discriminate].
  apply ckind_eqb_eq in T'. subst. now exists k'.
Qed.

Definition outer_only (l : olit) : bool := match l with ORoom _ | OShelf _ | OWhere _ _ _ => true | OCmp _ => false end.

Section CmpLits.
  Variable sp : aspec.
  Variable I : interp.
  Variable g : binding.
  Hypothesis Hfresh : forall j, sassoc (fresh j "r") g = None.

  Lemma lits_outer e e' rest : forallb outer_only rest = true -> lits_true sp I g e rest = lits_true sp I g e' rest.
  Proof.
    induction rest as [|l r IH]; cbn [forallb]; intros H; [reflexivity|]. apply andb_true_iff in H as [Hl Hr].
    destruct l; try discriminate Hl; cbn [lits_true]; now rewrite (IH Hr).
  Qed.

  Variables (t1 t2 t3 : aggt) (v1 v2 v3 : ext).
  Hypothesis E1 : agg_eval sp I g t1 = Some v1.
  Hypothesis E2 : agg_eval sp I g t2 = Some v2.
  Hypothesis E3 : agg_eval sp I g t3 = Some v3.

  Ltac table_syms :=
    repeat match goal with |- context [op_symbol ?o] => let s := eval vm_compute in (op_symbol o) in change (op_symbol o) with s end;
    cbv iota beta;
    repeat match goal with |- context [kind_of_symbol ?x] => let s := eval vm_compute in (kind_of_symbol x) in change (kind_of_symbol x) with s end;
    cbv iota beta.
  Ltac ext_cases :=
    generalize v1, v2, v3; clear; intros a b c; destruct a, b, c;
    unfold eksem, ext_leb, ext_ltb, ext_eqb;
    repeat match goal with
           | |- context [Z.ltb ?a ?b] => destruct (Z.ltb_spec a b)
           | |- context [Z.eqb ?a ?b] => destruct (Z.eqb_spec a b)
           end; cbn; try reflexivity; try lia.

  (* AGG <phrase> k *)
  Lemma phrase_num ph k req lits rest :
    forallb outer_only rest = true ->
    match parse_simple ph (OAgg t1) (ONum k) with Some c => convert_cmp (apply_polarity req c) | None => None end = Some lits ->
    exists kd, named_kind ph = Some kd /\
               lits_true sp I g [] (lits ++ rest) = negb (Bool.eqb (eksem kd v1 (EFin k)) req) && lits_true sp I g [] rest.
  Proof.
    intros Hrest H. unfold parse_simple in H. destruct (phrase_op ph) as [o|] eqn:Eo; [|discriminate].
    destruct (phrase_named ph o Eo) as (kd & Hk & Hn). exists kd. split; [exact Hn|].
    destruct (phrase_op_cases ph o Eo) as [-> | [-> | [-> | [-> | [-> | ->]]]]]; destruct req;
      vm_compute in Hk; injection Hk as <-; unfold apply_polarity, convert_cmp in H; cbn in H; injection H as <-;
      cbn [app lits_true]; unfold is_assign; cbn [ao_operands ao_op]; unfold cmp_general; cbn [ao_operands ao_op ao_negated map operand_val];
      rewrite E1; cbn [all_some]; table_syms; cbn [echain xorb]; f_equal; ext_cases.
  Qed.

  (* AGG is between lo and hi *)
  Lemma between_num lo hi req lits rest :
    forallb outer_only rest = true ->
    match parse_between (OAgg t1) (ONum lo) (ONum hi) with Some c => convert_cmp (apply_polarity req c) | None => None end = Some lits ->
    lits_true sp I g [] (lits ++ rest) = negb (Bool.eqb (ext_leb (EFin lo) v1 && ext_leb v1 (EFin hi)) req) && lits_true sp I g [] rest.
  Proof.
    intros Hrest H. destruct req; unfold parse_between, apply_polarity, convert_cmp in H; cbn in H; injection H as <-;
      cbn [app lits_true]; unfold is_assign; cbn [ao_operands ao_op]; unfold cmp_general; cbn [ao_operands ao_op ao_negated map operand_val];
      rewrite E1; cbn [all_some]; table_syms; cbn [echain xorb eksem]; f_equal; ext_cases.
  Qed.

  Lemma fresh_unbound j : sassoc (fresh j "r") g = None.
  Proof. apply Hfresh. Qed.

  (* AGG1 <phrase> AGG2 : one result variable per aggregate, then the comparison of the variables *)
  Lemma phrase_agg ph req lits rest :
    forallb outer_only rest = true ->
    match parse_simple ph (OAgg t1) (OAgg t2) with Some c => convert_cmp (apply_polarity req c) | None => None end = Some lits ->
    exists kd, named_kind ph = Some kd /\
               lits_true sp I g [] (lits ++ rest) = negb (Bool.eqb (eksem kd v1 v2) req) && lits_true sp I g [] rest.
  Proof.
    intros Hrest H. unfold parse_simple in H. destruct (phrase_op ph) as [o|] eqn:Eo; [|discriminate].
    destruct (phrase_named ph o Eo) as (kd & Hk & Hn). exists kd. split; [exact Hn|].
    pose proof (fresh_unbound 1) as F1. pose proof (fresh_unbound 2) as F2.
    change (fresh 1 "r") with "#1r" in F1. change (fresh 2 "r") with "#2r" in F2.
    destruct (phrase_op_cases ph o Eo) as [-> | [-> | [-> | [-> | [-> | ->]]]]]; destruct req;
      vm_compute in Hk; injection Hk as <-; unfold apply_polarity, convert_cmp in H; cbn in H; injection H as <-;
      cbn [app lits_true]; unfold is_assign; cbn [ao_operands ao_op];
      cbn [sassoc assoc]; rewrite F1; cbn [operand_val]; rewrite E1;
      cbn [sassoc assoc String.eqb Ascii.eqb Bool.eqb]; rewrite F2; cbn [operand_val]; rewrite E2;
      cbn [sassoc assoc String.eqb Ascii.eqb Bool.eqb];
      unfold cmp_general; cbn [ao_operands ao_op ao_negated map operand_val sassoc assoc String.eqb Ascii.eqb Bool.eqb all_some];
      table_syms; cbn [echain xorb]; rewrite (lits_outer _ [] rest Hrest); f_equal; ext_cases.
  Qed.

  (* AGG1 is between lo and AGG2 *)
  Lemma between_num_agg lo req lits rest :
    forallb outer_only rest = true ->
    match parse_between (OAgg t1) (ONum lo) (OAgg t2) with Some c => convert_cmp (apply_polarity req c) | None => None end = Some lits ->
    lits_true sp I g [] (lits ++ rest) = negb (Bool.eqb (ext_leb (EFin lo) v1 && ext_leb v1 v2) req) && lits_true sp I g [] rest.
  Proof.
    intros Hrest H.
    pose proof (fresh_unbound 2) as F2. pose proof (fresh_unbound 3) as F3.
    change (fresh 2 "r") with "#2r" in F2. change (fresh 3 "r") with "#3r" in F3.
    destruct req; unfold parse_between, apply_polarity, convert_cmp in H; cbn in H; injection H as <-;
      cbn [app lits_true]; unfold is_assign; cbn [ao_operands ao_op];
      cbn [sassoc assoc]; rewrite F2; cbn [operand_val]; rewrite E1;
      cbn [sassoc assoc String.eqb Ascii.eqb Bool.eqb]; rewrite F3; cbn [operand_val]; rewrite E2;
      cbn [sassoc assoc String.eqb Ascii.eqb Bool.eqb];
      unfold cmp_general; cbn [ao_operands ao_op ao_negated map operand_val sassoc assoc String.eqb Ascii.eqb Bool.eqb all_some];
      table_syms; cbn [echain xorb eksem]; rewrite (lits_outer _ [] rest Hrest); f_equal; ext_cases.
  Qed.

  (* AGG1 is between AGG2 and AGG3 *)
  Lemma between_aggs req lits rest :
    forallb outer_only rest = true ->
    match parse_between (OAgg t1) (OAgg t2) (OAgg t3) with Some c => convert_cmp (apply_polarity req c) | None => None end = Some lits ->
    lits_true sp I g [] (lits ++ rest) = negb (Bool.eqb (ext_leb v2 v1 && ext_leb v1 v3) req) && lits_true sp I g [] rest.
  Proof.
    intros Hrest H.
    pose proof (fresh_unbound 1) as F1. pose proof (fresh_unbound 2) as F2. pose proof (fresh_unbound 3) as F3.
    change (fresh 1 "r") with "#1r" in F1. change (fresh 2 "r") with "#2r" in F2. change (fresh 3 "r") with "#3r" in F3.
    destruct req; unfold parse_between, apply_polarity, convert_cmp in H; cbn in H; injection H as <-;
      cbn [app lits_true]; unfold is_assign; cbn [ao_operands ao_op];
      cbn [sassoc assoc]; rewrite F1; cbn [operand_val]; rewrite E2;
      cbn [sassoc assoc String.eqb Ascii.eqb Bool.eqb]; rewrite F2; cbn [operand_val]; rewrite E1;
      cbn [sassoc assoc String.eqb Ascii.eqb Bool.eqb]; rewrite F3; cbn [operand_val]; rewrite E3;
      cbn [sassoc assoc String.eqb Ascii.eqb Bool.eqb];
      unfold cmp_general; cbn [ao_operands ao_op ao_negated map operand_val sassoc assoc String.eqb Ascii.eqb Bool.eqb all_some];
      table_syms; cbn [echain xorb eksem]; rewrite (lits_outer _ [] rest Hrest); destruct (lits_true sp I g [] rest); rewrite ?andb_true_r, ?andb_false_r; try reflexivity; ext_cases.
  Qed.
End CmpLits.

(* clean statements (the section's unused values instantiated) *)
Definition fresh_free (g : binding) : Prop := forall j, sassoc (fresh j "r") g = None.

Theorem cmp_phrase_number sp I g t1 v1 ph k req lits rest :
  agg_eval sp I g t1 = Some v1 -> forallb outer_only rest = true ->
  match parse_simple ph (OAgg t1) (ONum k) with Some c => convert_cmp (apply_polarity req c) | None => None end = Some lits ->
  exists kd, named_kind ph = Some kd /\
             lits_true sp I g [] (lits ++ rest) = negb (Bool.eqb (eksem kd v1 (EFin k)) req) && lits_true sp I g [] rest.
Proof. intros E Hr H. exact (phrase_num sp I g t1 v1 EInf EInf E ph k req lits rest Hr H). Qed.

Theorem cmp_between_numbers sp I g t1 v1 lo hi req lits rest :
  agg_eval sp I g t1 = Some v1 -> forallb outer_only rest = true ->
  match parse_between (OAgg t1) (ONum lo) (ONum hi) with Some c => convert_cmp (apply_polarity req c) | None => None end = Some lits ->
  lits_true sp I g [] (lits ++ rest) = negb (Bool.eqb (ext_leb (EFin lo) v1 && ext_leb v1 (EFin hi)) req) && lits_true sp I g [] rest.
Proof. intros E Hr H. exact (between_num sp I g t1 v1 EInf EInf E lo hi req lits rest Hr H). Qed.

Theorem cmp_phrase_aggregate sp I g t1 t2 v1 v2 ph req lits rest :
  fresh_free g -> agg_eval sp I g t1 = Some v1 -> agg_eval sp I g t2 = Some v2 -> forallb outer_only rest = true ->
  match parse_simple ph (OAgg t1) (OAgg t2) with Some c => convert_cmp (apply_polarity req c) | None => None end = Some lits ->
  exists kd, named_kind ph = Some kd /\
             lits_true sp I g [] (lits ++ rest) = negb (Bool.eqb (eksem kd v1 v2) req) && lits_true sp I g [] rest.
Proof. intros F E1 E2 Hr H. exact (phrase_agg sp I g F t1 t2 v1 v2 EInf E1 E2 ph req lits rest Hr H). Qed.

Theorem cmp_between_number_aggregate sp I g t1 t2 v1 v2 lo req lits rest :
  fresh_free g -> agg_eval sp I g t1 = Some v1 -> agg_eval sp I g t2 = Some v2 -> forallb outer_only rest = true ->
  match parse_between (OAgg t1) (ONum lo) (OAgg t2) with Some c => convert_cmp (apply_polarity req c) | None => None end = Some lits ->
  lits_true sp I g [] (lits ++ rest) = negb (Bool.eqb (ext_leb (EFin lo) v1 && ext_leb v1 v2) req) && lits_true sp I g [] rest.
Proof. intros F E1 E2 Hr H. exact (between_num_agg sp I g F t1 t2 v1 v2 EInf E1 E2 lo req lits rest Hr H). Qed.

Theorem cmp_between_aggregates sp I g t1 t2 t3 v1 v2 v3 req lits rest :
  fresh_free g -> agg_eval sp I g t1 = Some v1 -> agg_eval sp I g t2 = Some v2 -> agg_eval sp I g t3 = Some v3 -> forallb outer_only rest = true ->
  match parse_between (OAgg t1) (OAgg t2) (OAgg t3) with Some c => convert_cmp (apply_polarity req c) | None => None end = Some lits ->
  lits_true sp I g [] (lits ++ rest) = negb (Bool.eqb (ext_leb v2 v1 && ext_leb v1 v3) req) && lits_true sp I g [] rest.
Proof. intros F E1 E2 E3 Hr H. exact (between_aggs sp I g F t1 t2 t3 v1 v2 v3 E1 E2 E3 req lits rest Hr H). Qed.
