"""Reading compiled programs back with clingo.ast (the solver's own parser): atoms with their argument terms."""
import clingo
import clingo.ast as A


class ParseError(Exception):
    pass


def parse(program):
    """-> list of statements (AST) ; raises ParseError with clingo's messages"""
    msgs = []
    out = []
    try:
        A.parse_string(program, out.append, logger=lambda c, m: msgs.append(m))
    except RuntimeError as e:
        raise ParseError('%s | %s' % (e, ' ; '.join(msgs)))
    return out


def term_str(t):
    return str(t)


import re
_IDENT = re.compile(r"^'?_*[a-z][A-Za-z0-9_]*'?$")


def _is_fn(t):
    return (t.ast_type == A.ASTType.Function and not t.external) or (t.ast_type == A.ASTType.TheoryFunction and _IDENT.match(t.name))


def flatten_term(t):
    """argument term -> list of leaf strings (every function term WITH arguments is opened; others are leaves)"""
    if _is_fn(t) and len(t.arguments) > 0:
        res = []
        for a in t.arguments:
            res += flatten_term(a)
        return res
    return [str(t)]


def shape_term(t):
    if _is_fn(t) and len(t.arguments) > 0:
        return (t.name, tuple(shape_term(a) for a in t.arguments))
    return '*'


def tuple_terms_of(stm):
    """the function terms (with arguments) written in the tuples of aggregate elements, in textual order: an entity used as the counted value"""
    found = []

    def visit(x):
        if isinstance(x, A.AST):
            if x.ast_type in (A.ASTType.BodyAggregateElement, A.ASTType.HeadAggregateElement):
                for t in x.terms:
                    if t.ast_type == A.ASTType.Function and not t.external and len(t.arguments) > 0 and _IDENT.match(t.name):
                        found.append(t)
            for k in x.child_keys:
                visit(getattr(x, k))
        elif isinstance(x, (list, tuple)) or hasattr(x, '__iter__') and not isinstance(x, str):
            try:
                for y in x:
                    visit(y)
            except TypeError:
                pass
    visit(stm)
    return found


def atoms_of(stm):
    """all symbolic atoms (as Function terms) occurring in a statement, in textual order"""
    found = []

    def visit(x):
        if isinstance(x, A.AST):
            if x.ast_type == A.ASTType.SymbolicAtom:
                found.append(x.symbol)
                return
            if x.ast_type == A.ASTType.TheoryFunction and _IDENT.match(x.name):
                found.append(x)      # an atom inside a &tel formula
                return
            for k in x.child_keys:
                visit(getattr(x, k))
        elif isinstance(x, (list, tuple)) or hasattr(x, '__iter__') and not isinstance(x, str):
            try:
                for y in x:
                    visit(y)
            except TypeError:
                pass
    visit(stm)
    return found
