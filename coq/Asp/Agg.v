(* Values of ASP aggregates: #count / #sum / #max / #min over a SET of tuples, with gringo's #inf / #sup for the empty
   maximum / minimum, and the comparison symbols on those extended values. *)
Require Import Coq.ZArith.ZArith Coq.Lists.List Coq.Bool.Bool Coq.Sorting.Permutation Lia.
Require Import Cnl2aspV.Asp.CmpSem.
Import ListNotations.
Open Scope Z_scope.

Inductive ext := EInf | EFin (z : Z) | ESup.

Definition ext_eqb (a b : ext) : bool :=
  match a, b with EInf, EInf | ESup, ESup => true | EFin x, EFin y => Z.eqb x y | _, _ => false end.
Definition ext_ltb (a b : ext) : bool :=
  match a, b with
  | EInf, EInf => false | EInf, _ => true
  | EFin _, EInf => false | EFin x, EFin y => Z.ltb x y | EFin _, ESup => true
  | ESup, _ => false end.
Definition ext_leb (a b : ext) : bool := ext_ltb a b || ext_eqb a b.

Definition eksem (k : ckind) (a b : ext) : bool :=
  match k with
  | CEq => ext_eqb a b | CNe => negb (ext_eqb a b)
  | CLt => ext_ltb a b | CLe => ext_leb a b
  | CGt => ext_ltb b a | CGe => ext_leb b a
  end.

Definition ext_max (a b : ext) : ext := if ext_ltb a b then b else a.
Definition ext_min (a b : ext) : ext := if ext_ltb b a then b else a.

Inductive aggfn := ACount | ASum | AMax | AMin.

Definition tuple := list Z.
Definition tuple_eq_dec : forall a b : tuple, {a = b} + {a <> b} := list_eq_dec Z.eq_dec.
Definition weight_of (t : tuple) : Z := hd 0 t.

(* the value of an aggregate whose elements evaluate to the tuples ts (in any order, with repetitions) *)
Definition agg_fold (f : aggfn) (d : list tuple) : ext :=
  match f with
  | ACount => EFin (Z.of_nat (length d))
  | ASum => EFin (fold_right (fun t acc => weight_of t + acc) 0 d)
  | AMax => fold_right (fun t acc => ext_max (EFin (weight_of t)) acc) EInf d
  | AMin => fold_right (fun t acc => ext_min (EFin (weight_of t)) acc) ESup d
  end.
Definition agg_value (f : aggfn) (ts : list tuple) : ext := agg_fold f (nodup tuple_eq_dec ts).
